(* C17 - the node's own chain: an advertisement always extends it by one token, the own tree holds only
   chain tokens, and the disclosure sent with an advertisement carries chain tokens only. *)
From Coq Require Import ZArith List Bool Arith Lia ZifyBool.
From IPV8V Require Import lib.PyErr lib.Bytes model.M16_tokentree model.M17_consent spec.S17_consent
  proofs.P16_gather proofs.P16_props proofs.P17_base proofs.P17_step proofs.P17_props.
Import ListNotations.
Open Scope Z_scope.

(* ---------------------------------------------------------------- find / update_first *)
Lemma find_update_first_same (p : token -> bool) y : forall l,
  existsb p l = true -> p y = true -> find p (update_first p (fun _ => y) l) = Some y.
Proof.
  induction l as [|x l IH]; simpl; [discriminate|]. intros E Py.
  destruct (p x) eqn:Px; simpl.
  - rewrite Py. reflexivity.
  - rewrite Px. apply IH; assumption.
Qed.

Lemma update_first_find_id (p : token -> bool) y : forall l,
  find p l = Some y -> update_first p (fun _ => y) l = l.
Proof.
  induction l as [|x l IH]; simpl; [discriminate|]. destruct (p x) eqn:Px.
  - intros H. inversion H. reflexivity.
  - intros H. rewrite IH; auto.
Qed.

Lemma find_app_none {A} (p : A -> bool) y : forall l,
  existsb p l = false -> p y = true -> find p (l ++ [y]) = Some y.
Proof.
  induction l as [|x l IH]; simpl; intros E Py.
  - rewrite Py. reflexivity.
  - apply orb_false_iff in E as [E1 E2]. rewrite E1. apply IH; assumption.
Qed.

Lemma update_first_In (p : token -> bool) y : forall l x,
  In x (update_first p (fun _ => y) l) -> In x l \/ x = y.
Proof.
  induction l as [|z l IH]; simpl; [intros x []|]. intros x. destruct (p z); simpl.
  - intros [H|H]; auto.
  - intros [H|H]; auto. destruct (IH _ H); auto.
Qed.

Section Chain.
Variable hash : bytes -> bytes.
Variable sigverify : bytes -> bytes -> bytes -> bool.
Variable mysign : bytes -> bytes.
Variable parse : bytes -> jdoc.
Variable norm : bytes -> bytes.
Variable me : bytes.
Variable rhl rsl : nat.
Variable wide : bool.
Hypothesis mysign_ok : forall m, sigverify me m (mysign m) = true.

Notation advertise := (advertise hash sigverify mysign norm me rhl rsl).
Notation recv_disclosure := (recv_disclosure hash sigverify mysign parse me wide).
Notation step := (step hash sigverify mysign parse norm me rhl rsl wide).
Notation final := (final hash sigverify mysign parse norm me rhl rsl wide).
Notation thash := (thash hash).
Notation append_elem := (append_elem hash).
Notation opened := (opened hash sigverify mysign parse norm me rhl rsl wide).

Definition keyp (t : token) : token -> bool := fun x => bytes_eqb (thash x) (thash t).

Lemma has_key_existsb t e : has_key hash (thash t) e = existsb (keyp t) e.
Proof. reflexivity. Qed.

Lemma append_elem_find tr t : find_key hash (thash t) (elements (append_elem tr t)) = Some t.
Proof.
  unfold M17_consent.append_elem, find_key. destruct (has_key hash (thash t) (elements tr)) eqn:E; simpl.
  - apply (find_update_first_same (keyp t)); [exact E|apply bytes_eqb_refl].
  - apply (find_app_none (keyp t)); [exact E|apply bytes_eqb_refl].
Qed.

Lemma append_elem_In tr t x : In x (elements (append_elem tr t)) -> In x (elements tr) \/ x = t.
Proof.
  unfold M17_consent.append_elem. destruct (has_key hash (thash t) (elements tr)); simpl.
  - apply update_first_In.
  - intros H. apply in_app_or in H as [H|[H|[]]]; auto.
Qed.

Lemma update_first_keys t : forall e,
  keys hash (update_first (keyp t) (fun _ => t) e) = keys hash e.
Proof.
  induction e as [|x e IH]; [reflexivity|]. cbn [update_first]. unfold keyp at 1.
  destruct (bytes_eqb (thash x) (thash t)) eqn:E; simpl.
  - apply bytes_eqb_eq in E. rewrite E. reflexivity.
  - f_equal. exact IH.
Qed.

Lemma append_elem_keys tr t h : In h (keys hash (elements tr)) -> In h (keys hash (elements (append_elem tr t))).
Proof.
  unfold M17_consent.append_elem. destruct (has_key hash (thash t) (elements tr)); simpl.
  - fold (keyp t). rewrite update_first_keys. auto.
  - intros H. rewrite keys_app. apply in_or_app. auto.
Qed.

(* gather_token on a token that was just put into the dict under its own hash: it is its own shadow *)
Lemma gather_appended tr t :
  tverify sigverify me t = true -> readyb hash me (elements (append_elem tr t)) t = true -> t_content t = None ->
  gather_top hash sigverify me (append_elem tr t) t
  = Ok (mkTree (elements (append_elem tr t)) (unchained (append_elem tr t)) (cap (append_elem tr t)), Some t).
Proof.
  intros V R C. unfold gather_top. cbn [gather]. rewrite V, R. cbn [negb].
  rewrite append_elem_find. unfold merge_content. rewrite C.
  fold (keyp t). rewrite (update_first_find_id (keyp t)); [reflexivity|apply append_elem_find].
Qed.

(* under mysign_ok an advertisement always succeeds *)
Lemma advertise_success s p h json jlen :
  exists tok tr2 outs x,
    advertise s p h json jlen =
      (let s3 := set_chains (set_dmd (set_pseus s (aset me tr2 (pseus s)))
                                     (insert_md me (mkMd (thash tok) json (mysign (thash tok ++ json))) (dmd s)))
                            (chain s ++ [tok]) (mdchain s ++ [mkMd (thash tok) json (mysign (thash tok ++ json))]) in
       match p with
       | None => s3
       | Some q => set_perms s3 (aset q (length (chain s ++ [tok])) (perms s3))
       end, outs, x) /\
    t_chash tok = norm h /\
    (forall y, In y (elements tr2) -> In y (elements (get_tree me (pseus s))) \/ y = tok) /\
    (forall o, In o outs -> exists q, p = Some q /\
        o = ODisclose q (mkMd (thash tok) json (mysign (thash tok ++ json)))
                      (get_root_path hash sigverify me tr2 tok 1000)
                      (fit rhl rsl jlen (length (get_root_path hash sigverify me tr2 tok 1000)))).
Proof.
  unfold M17_consent.advertise. cbv zeta.
  set (tr0 := get_tree me (pseus s)).
  set (prev := match last_opt (mdchain s) with
               | Some after => match find_key hash (m_tptr after) (elements tr0) with
                               | Some tk => thash tk
                               | None => genesis hash me
                               end
               | None => genesis hash me
               end).
  set (tok := mkToken prev (norm h) (mysign (prev ++ norm h)) None).
  assert (V : tverify sigverify me tok = true) by (unfold tverify, plaintext; simpl; apply mysign_ok).
  assert (R : readyb hash me (elements (append_elem tr0 tok)) tok = true).
  { unfold readyb. cbn [t_prev tok]. apply orb_true_iff. unfold prev.
    destruct (last_opt (mdchain s)) as [after|]; [|left; apply bytes_eqb_refl].
    destruct (find_key hash (m_tptr after) (elements tr0)) as [tk|] eqn:F; [|left; apply bytes_eqb_refl].
    right. apply has_key_In. apply append_elem_keys.
    destruct (find_key_Some hash _ _ _ F) as [Hin _]. unfold keys. apply in_map. exact Hin. }
  rewrite (gather_appended tr0 tok V R eq_refl).
  set (tr2 := mkTree (elements (append_elem tr0 tok)) (unchained (append_elem tr0 tok)) (cap (append_elem tr0 tok))).
  set (md := mkMd (thash tok) json (mysign (thash tok ++ json))).
  assert (MV : md_verify sigverify me md = true) by (unfold md_verify, md_plain; simpl; apply mysign_ok).
  rewrite MV. cbn [negb m_tptr md].
  assert (FK : find_key hash (thash tok) (elements tr2) = Some tok) by (apply append_elem_find).
  rewrite FK.
  exists tok, tr2.
  destruct p as [q|].
  - destruct (tree_verify hash sigverify me tr2 tok 1000); cbn [negb].
    + eexists. eexists. split; [reflexivity|]. split; [reflexivity|]. split.
      * intros y Hy. apply append_elem_In. exact Hy.
      * intros o [Ho|[]]. subst o. exists q. split; reflexivity.
    + eexists. eexists. split; [reflexivity|]. split; [reflexivity|]. split.
      * intros y Hy. apply append_elem_In. exact Hy.
      * intros o [].
  - eexists. eexists. split; [reflexivity|]. split; [reflexivity|]. split.
    + intros y Hy. apply append_elem_In. exact Hy.
    + intros o [].
Qed.

(* ---------------------------------------------------------------- the own tree holds chain tokens only *)
Definition own_in_chain (s : state) : Prop := incl (elements (get_tree me (pseus s))) (chain s).

Lemma path_loop_incl : forall n e cur acc x,
  In x (path_loop hash sigverify me n e cur acc) -> In x acc \/ In x e.
Proof.
  induction n as [|n IH]; intros e cur acc x H; cbn [path_loop] in H; [destruct H|].
  destruct (negb (tverify sigverify me cur)); [destruct H|].
  destruct (bytes_eqb (t_prev cur) (genesis hash me)); [left; exact H|].
  destruct (find_key hash (t_prev cur) e) as [nxt|] eqn:F; [|destruct H].
  destruct (IH _ _ _ _ H) as [A|A]; [|right; exact A].
  apply in_app_or in A as [A|[A|[]]]; [left; exact A|]. subst x. right.
  destruct (find_key_Some hash _ _ _ F). assumption.
Qed.

Lemma root_path_incl tr t md x :
  In x (get_root_path hash sigverify me tr t md) -> x = t \/ In x (elements tr).
Proof.
  unfold get_root_path. destruct (md <? 0); [intros []|]. intros H.
  apply path_loop_incl in H as [[H|[]]|H]; auto.
Qed.

Lemma step_own s now ev :
  sender_of ev <> Some me -> own_in_chain s -> own_in_chain (st_of (step s now ev)).
Proof.
  unfold own_in_chain. intros NS J.
  destruct ev as [h name key md|p h json jlen|p mds toks atts fail|p toks fail|p [a|]|p kn];
    cbn [M17_consent.step]; try exact J.
  - destruct (advertise_success s p h json jlen) as [tok [tr2 [outs [x [E [_ [EL _]]]]]]].
    rewrite E. unfold st_of. cbn [fst].
    assert (G : forall s3, pseus s3 = aset me tr2 (pseus s) -> chain s3 = chain s ++ [tok] ->
                incl (elements (get_tree me (pseus s3))) (chain s3)).
    { intros s3 Ep Ec. rewrite Ep, Ec, get_tree_aset_same. intros y Hy.
      destruct (EL y Hy) as [H|H]; apply in_or_app; [left; apply J; exact H|right; left; auto]. }
    destruct p as [q|]; apply G; reflexivity.
  - assert (N : me <> p) by (intros Eq; apply NS; simpl; congruence).
    destruct (recv_disclosure s now p mds toks atts fail) as [[s2 o] x] eqn:E.
    destruct (recv_disclosure_spec _ _ _ _ _ _ _ _ _ _ _ _ _ _ _ _ E) as [[_ [C _]] [_ [_ [_ [_ [TO _]]]]]].
    unfold st_of. simpl. rewrite (TO me N), C. exact J.
  - assert (N : me <> p) by (intros Eq; apply NS; simpl; congruence).
    destruct (recv_disclosure s now p [] toks [] (if fail then Some 0%nat else None)) as [[s2 o] x] eqn:E.
    destruct (recv_disclosure_spec _ _ _ _ _ _ _ _ _ _ _ _ _ _ _ _ E) as [[_ [C _]] [_ [_ [_ [_ [TO _]]]]]].
    unfold st_of. simpl. rewrite (TO me N), C. exact J.
Qed.

Lemma final_own : forall evs s,
  Forall (fun te => sender_of (snd te) <> Some me) evs -> own_in_chain s -> own_in_chain (final s evs).
Proof.
  induction evs as [|[now ev] evs IH]; intros s F J; [exact J|].
  rewrite final_cons. inversion F; subst. apply IH; [assumption|]. apply step_own; assumption.
Qed.

(* ---------------------------------------------------------------- the disclosure sent with an advertisement *)
Lemma disclosure_within_permission_l pre now ev p m toks kept :
  Forall (fun te => sender_of (snd te) <> Some me) pre ->
  In (ODisclose p m toks kept) (outs_of (step (final (init me) pre) now ev)) ->
  (exists h json jlen, ev = EAdvertise (Some p) h json jlen) /\
  incl toks (chain (st_of (step (final (init me) pre) now ev))) /\
  perm_of (st_of (step (final (init me) pre) now ev)) p = length (chain (st_of (step (final (init me) pre) now ev))) /\
  opened (pre ++ [(now, ev)]) p = length (chain (st_of (step (final (init me) pre) now ev))).
Proof.
  intros F Hin. set (s := final (init me) pre) in *.
  assert (J : own_in_chain s).
  { apply final_own; [exact F|]. unfold own_in_chain, get_tree. simpl. rewrite bytes_eqb_refl. intros y []. }
  destruct ev as [h name key md|q h json jlen|q mds toks0 atts fail|q toks0 fail|q [a0|]|q kn];
    cbn [M17_consent.step] in *.
  - destruct Hin.
  - destruct (advertise_success s q h json jlen) as [tok [tr2 [outs [x [E [_ [EL O]]]]]]].
    rewrite E in *. unfold outs_of, st_of in *. cbn [fst snd] in *.
    destruct (O _ Hin) as [q0 [Eq Eo]]. subst q. inversion Eo; subst p m toks kept. clear Eo.
    split; [eauto|]. cbn [chain set_perms set_chains]. split.
    + intros y Hy. apply root_path_incl in Hy as [Hy|Hy].
      * subst y. apply in_or_app. right. left. reflexivity.
      * destruct (EL y Hy) as [H|H]; apply in_or_app; [left; apply J; exact H|right; left; auto].
    + split.
      * unfold perm_of. cbn [perms set_perms]. rewrite alookup_aset_same. reflexivity.
      * unfold S17_consent.opened.
        assert (OA : forall evs s0 cur, opened_from hash sigverify mysign parse norm me rhl rsl wide s0
                        (evs ++ [(now, EAdvertise (Some q0) h json jlen)]) q0 cur
                      = length (chain (st_of (step (final s0 evs) now (EAdvertise (Some q0) h json jlen))))).
        { induction evs as [|[t0 e0] evs IH]; intros s0 cur.
          - cbn [app S17_consent.opened_from]. rewrite bytes_eqb_refl. reflexivity.
          - cbn [app S17_consent.opened_from]. rewrite IH, final_cons. reflexivity. }
        rewrite OA. fold s. cbn [M17_consent.step]. rewrite E. reflexivity.
  - exfalso. destruct (recv_disclosure s now q mds toks0 atts fail) as [[s2 o] x] eqn:E.
    destruct (recv_disclosure_spec _ _ _ _ _ _ _ _ _ _ _ _ _ _ _ _ E) as [_ [_ [_ [_ [_ [_ [_ [_ O]]]]]]]].
    unfold outs_of in Hin. simpl in Hin. destruct (O _ Hin) as [[n En]|[m0 [s' [Eo _]]]]; discriminate.
  - exfalso. destruct (recv_disclosure s now q [] toks0 [] (if fail then Some 0%nat else None)) as [[s2 o] x] eqn:E.
    destruct (recv_disclosure_spec _ _ _ _ _ _ _ _ _ _ _ _ _ _ _ _ E) as [_ [_ [_ [_ [_ [_ [_ [_ O]]]]]]]].
    unfold outs_of in Hin. simpl in Hin. destruct (O _ Hin) as [[n En]|[m0 [s' [Eo _]]]]; discriminate.
  - destruct Hin.
  - destruct Hin.
  - destruct Hin as [H|[]]. discriminate.
Qed.

(* every user advertisement extends the chain by exactly one token, over the (padded) attribute hash *)
Lemma advertisement_extends_chain_l s now p h json jlen :
  exists tok, chain (st_of (step s now (EAdvertise p h json jlen))) = chain s ++ [tok] /\ t_chash tok = norm h.
Proof.
  cbn [M17_consent.step]. destruct (advertise_success s p h json jlen) as [tok [tr2 [outs [x [E [Ch _]]]]]].
  rewrite E. exists tok. split; [|exact Ch]. unfold st_of. cbn [fst]. destruct p; reflexivity.
Qed.

End Chain.
