(* C12 - the representation invariant of the Network model and its preservation by every operation.

   Inv says: the by-key index is exactly the verified set; every cached service list is duplicate
   free (by key) and contains every verified peer that advertised the service; every cached
   introduction list is the set of addresses introduced by that key; no verified peer is
   blacklisted.  Nothing is required of the address cache: its hits are validated when used. *)
From Coq Require Import ZArith List Bool Lia Arith.
From IPV8V Require Import lib.PyErr lib.Bytes model.M02_wire model.M12_network proofs.P12_base.
Import ListNotations.
Open Scope Z_scope.

Definition svc_good (h : list obj) (ver : list nat) (svcs : list (key * list service))
           (s : service) (l : list nat) : Prop :=
  NoDup (map (hkey h) l) /\
  forall i, In i ver -> mem_z s (svc_lookup svcs (hkey h i)) = true -> In i l.

Definition intro_good (all : list (addr * walk)) (k : key) (l : list addr) : Prop :=
  forall a, In a l <-> In a (intros_of all k).

Record Inv (n : net) : Prop := mkInv {
  inv_ids : forall i, In i (verified n) -> (i < length (heap n))%nat;
  inv_cids : forall s l i, In (s, l) (svc_cache n) -> In i l -> (i < length (heap n))%nat;
  inv_uniq : NoDup (map (hkey (heap n)) (verified n));
  inv_idx : forall k, d_get Z.eqb k (by_key n) = find (fun i => hkey (heap n) i =? k) (verified n);
  inv_svc : forall s l, In (s, l) (svc_cache n) -> svc_good (heap n) (verified n) (services n) s l;
  inv_intro : forall k l, In (k, l) (intro_cache n) -> intro_good (all_addrs n) k l;
  inv_bl : forall i, In i (verified n) -> blacklisted n (hkey (heap n) i) (haddrs (heap n) i) = false
}.

Lemma Inv_init ipc intc svcc bla blm : Inv (init_net ipc intc svcc bla blm).
Proof.
  constructor; cbn; try (intros; contradiction).
  - constructor.
  - reflexivity.
Qed.

(* ------------------------------------------------------------------ replacing one component *)
Lemma Inv_set_ip_cache n c : Inv n -> Inv (set_ip_cache n c).
Proof. intros [H1 H2 H3 H4 H5 H6 H7]. constructor; cbn; assumption. Qed.

Lemma Inv_set_intro_all n all ic :
  Inv n -> (forall k l, In (k, l) ic -> intro_good all k l) ->
  Inv (set_intro_cache (set_all n all) ic).
Proof. intros [H1 H2 H3 H4 H5 H6 H7] H. constructor; cbn; assumption. Qed.

Lemma Inv_set_intro n ic :
  Inv n -> (forall k l, In (k, l) ic -> intro_good (all_addrs n) k l) -> Inv (set_intro_cache n ic).
Proof. intros [H1 H2 H3 H4 H5 H6 H7] H. constructor; cbn; assumption. Qed.

Lemma Inv_set_svc_cache n sc :
  Inv n ->
  (forall s l i, In (s, l) sc -> In i l -> (i < length (heap n))%nat) ->
  (forall s l, In (s, l) sc -> svc_good (heap n) (verified n) (services n) s l) ->
  Inv (set_svc_cache n sc).
Proof. intros [H1 H2 H3 H4 H5 H6 H7] Ha Hb. constructor; cbn; assumption. Qed.

Lemma Inv_set_services_svc n svcs sc :
  Inv n ->
  (forall s l i, In (s, l) sc -> In i l -> (i < length (heap n))%nat) ->
  (forall s l, In (s, l) sc -> svc_good (heap n) (verified n) svcs s l) ->
  Inv (set_svc_cache (set_services n svcs) sc).
Proof. intros [H1 H2 H3 H4 H5 H6 H7] Ha Hb. constructor; cbn; assumption. Qed.

(* ------------------------------------------------------------------ heap changes that keep keys *)
Lemma find_ext_in {A} (f g : A -> bool) l : (forall x, In x l -> f x = g x) -> find f l = find g l.
Proof.
  induction l as [|x l IH]; simpl; intros H; [reflexivity|].
  rewrite (H x (or_introl eq_refl)). destruct (g x); [reflexivity|]. apply IH. intros y Hy. apply H. auto.
Qed.

Lemma Inv_set_heap n h' :
  Inv n -> (length (heap n) <= length h')%nat ->
  (forall i, (i < length (heap n))%nat -> hkey h' i = hkey (heap n) i) ->
  (forall i, In i (verified n) -> blacklisted n (hkey h' i) (haddrs h' i) = false) ->
  Inv (set_heap n h').
Proof.
  intros [H1 H2 H3 H4 H5 H6 H7] HL HK HB.
  assert (EV : map (hkey h') (verified n) = map (hkey (heap n)) (verified n)).
  { apply map_ext_in. intros i Hi. apply HK. apply H1. assumption. }
  constructor; cbn.
  - intros i Hi. specialize (H1 i Hi). lia.
  - intros s l i Hs Hi. specialize (H2 s l i Hs Hi). lia.
  - rewrite EV. assumption.
  - intros k. rewrite H4. apply find_ext_in. intros i Hi. rewrite HK by (apply H1; assumption). reflexivity.
  - intros s l Hs. destruct (H5 s l Hs) as [Ha Hb]. split.
    + replace (map (hkey h') l) with (map (hkey (heap n)) l); [assumption|].
      apply map_ext_in. intros i Hi. symmetry. apply HK. exact (H2 s l i Hs Hi).
    + intros i Hi. rewrite HK by (apply H1; assumption). apply Hb. assumption.
  - assumption.
  - assumption.
Qed.

Lemma Inv_alloc n k am : Inv n -> Inv (fst (alloc n k am)).
Proof.
  intros H. unfold alloc. cbn [fst]. apply Inv_set_heap; [assumption| | |].
  - rewrite app_length. simpl. lia.
  - intros i Hi. unfold hkey. rewrite hget_app_lt by assumption. reflexivity.
  - intros i Hi. pose proof (inv_ids n H i Hi) as L. unfold hkey, haddrs. rewrite hget_app_lt by assumption.
    exact (inv_bl n H i Hi).
Qed.

Lemma alloc_facts n k am :
  let n1 := fst (alloc n k am) in let i := snd (alloc n k am) in
  (i < length (heap n1))%nat /\ hkey (heap n1) i = k /\ haddrs (heap n1) i = am /\ i = length (heap n).
Proof.
  unfold alloc. cbn. rewrite app_length. simpl. unfold hkey, haddrs. rewrite hget_app_new. cbn.
  repeat split; lia.
Qed.

Lemma blacklisted_update n k m k' m' :
  blacklisted n k m = false -> blacklisted n k' m' = false -> blacklisted n k (am_update m m') = false.
Proof.
  unfold blacklisted. intros H1 H2. apply orb_false_iff in H1 as [H1a H1b]. apply orb_false_iff in H2 as [_ H2b].
  apply orb_false_iff. split; [assumption|].
  apply existsb_false_iff. intros a Ha. apply am_values_update in Ha as [Ha|Ha].
  - exact (proj1 (existsb_false_iff _ _) H1b a Ha).
  - exact (proj1 (existsb_false_iff _ _) H2b a Ha).
Qed.

(* known.addresses.update(peer.addresses) *)
Lemma Inv_update_addrs n j am :
  Inv n -> In j (verified n) -> blacklisted n (hkey (heap n) j) am = false ->
  Inv (set_heap n (hset (heap n) j (hkey (heap n) j, am))).
Proof.
  intros H Hj HB. apply Inv_set_heap; [assumption| | |].
  - rewrite hset_length. lia.
  - intros i _. apply hkey_hset.
  - intros i Hi. rewrite hkey_hset. destruct (Nat.eq_dec i j) as [E|E].
    + subst i. unfold haddrs. rewrite hget_hset_same by (exact (inv_ids n H j Hj)). exact HB.
    + unfold haddrs. rewrite hget_hset_other by assumption. exact (inv_bl n H i Hi).
Qed.

(* ------------------------------------------------------------------ verify *)
Lemma in_ver_false h ver k : in_ver h ver k = false <-> forall i, In i ver -> hkey h i <> k.
Proof.
  unfold in_ver. rewrite existsb_false_iff. split; intros H i Hi.
  - apply Z.eqb_neq. apply H. assumption.
  - apply Z.eqb_neq. apply H. assumption.
Qed.

Lemma in_ver_true h ver k : in_ver h ver k = true <-> exists i, In i ver /\ hkey h i = k.
Proof.
  unfold in_ver. rewrite existsb_exists. split; intros (i & Hi & E); exists i; split; try assumption.
  - apply Z.eqb_eq. assumption.
  - apply Z.eqb_eq. assumption.
Qed.

Lemma Inv_verify n i :
  Inv n -> (i < length (heap n))%nat ->
  blacklisted n (hkey (heap n) i) (haddrs (heap n) i) = false ->
  Inv (verify n i).
Proof.
  intros H Hi HB. unfold verify. destruct (in_verified n (hkey (heap n) i)) eqn:V; [assumption|].
  unfold in_verified in V. pose proof (proj1 (in_ver_false _ _ _) V) as NV.
  destruct H as [H1 H2 H3 H4 H5 H6 H7].
  unfold forget_service_caches. constructor; cbn.
  - intros j Hj. apply in_app_iff in Hj as [Hj|[Hj|[]]]; [auto|subst; assumption].
  - intros s l j Hs Hj. apply filter_In in Hs as [Hs _]. exact (H2 s l j Hs Hj).
  - rewrite map_app. simpl. apply NoDup_snoc; [assumption|].
    intros Hin. apply in_map_iff in Hin as (j & E & Hj). exact (NV j Hj E).
  - intros k. rewrite (d_get_set Z.eqb zeq). rewrite find_app. simpl.
    destruct (hkey (heap n) i =? k) eqn:E.
    + apply Z.eqb_eq in E. subst k.
      assert (F : find (fun i0 => hkey (heap n) i0 =? hkey (heap n) i) (verified n) = None).
      { apply find_none_iff. intros j Hj. apply Z.eqb_neq. apply NV. assumption. }
      rewrite F. reflexivity.
    + rewrite H4. destruct (find (fun i0 => hkey (heap n) i0 =? k) (verified n)); reflexivity.
  - intros s l Hs. apply filter_In in Hs as [Hs Hf]. cbn in Hf. apply negb_true_iff in Hf.
    destruct (H5 s l Hs) as [Ha Hb]. split; [assumption|].
    intros j Hj Hm. apply in_app_iff in Hj as [Hj|[Hj|[]]]; [auto|]. subst j.
    unfold svc_of in Hf. cbn in Hf. congruence.
  - assumption.
  - intros j Hj. apply in_app_iff in Hj as [Hj|[Hj|[]]]; [exact (H7 j Hj)|]. subst j. exact HB.
Qed.

(* ------------------------------------------------------------------ introduction cache *)
Lemma Inv_set_all n all :
  Inv n -> (forall k l, In (k, l) (intro_cache n) -> intro_good all k l) -> Inv (set_all n all).
Proof. intros [H1 H2 H3 H4 H5 H6 H7] H. constructor; cbn; assumption. Qed.

Lemma intros_add_walkable all x k a : In a (intros_of (add_walkable all x) k) <-> In a (intros_of all k).
Proof.
  unfold add_walkable. destruct (d_mem addr_eqb x all); [reflexivity|].
  rewrite !intros_of_In. split.
  - intros (w & H & E). apply in_app_iff in H as [H|[H|[]]]; [eauto|]. inversion H; subst. discriminate.
  - intros (w & H & E). exists w. split; [|assumption]. apply in_app_iff. auto.
Qed.

Lemma intros_fold_add_walkable l : forall all k a,
  In a (intros_of (fold_left add_walkable l all) k) <-> In a (intros_of all k).
Proof.
  induction l as [|x l IH]; intros all k a; simpl; [reflexivity|].
  rewrite IH. apply intros_add_walkable.
Qed.

Lemma intros_d_set a w all k x :
  In x (intros_of (d_set addr_eqb a w all) k) <->
  (x = a /\ w_intro w = Some k) \/ (x <> a /\ In x (intros_of all k)).
Proof.
  rewrite !intros_of_In. split.
  - intros (w' & H & E). apply (In_d_set addr_eqb aeq) in H as [[H1 H2]|[H1 H2]].
    + subst. left. auto.
    + right. split; [assumption|]. exists w'. auto.
  - intros [[H1 H2]|[H1 (w' & H2 & H3)]].
    + subst x. exists w. split; [|assumption]. apply (In_d_set_same addr_eqb aeq).
    + exists w'. split; [|assumption]. apply (In_d_set_other addr_eqb aeq); assumption.
Qed.

Lemma intros_d_del a all k x :
  In x (intros_of (d_del addr_eqb a all) k) <-> x <> a /\ In x (intros_of all k).
Proof.
  rewrite !intros_of_In. split.
  - intros (w & H & E). apply (In_d_del addr_eqb aeq) in H as [H1 H2]. simpl in H2. split; [assumption|eauto].
  - intros (Hne & w & H & E). exists w. split; [|assumption]. apply (In_d_del addr_eqb aeq). auto.
Qed.

Lemma In_forget_intro a ic k l :
  In (k, l) (forget_intro a ic) ->
  exists l0, In (k, l0) ic /\ l = filter (fun x => negb (addr_eqb x a)) l0.
Proof.
  unfold forget_intro. intros H. apply in_map_iff in H as ([k0 l0] & E & H). simpl in E. inversion E; subst.
  exists l0. auto.
Qed.

Lemma In_filter_ne a (l : list addr) x : In x (filter (fun y => negb (addr_eqb y a)) l) <-> x <> a /\ In x l.
Proof.
  rewrite filter_In. split; intros [H1 H2].
  - split; [|assumption]. apply negb_true_iff in H2. apply addr_eqb_neq in H2. assumption.
  - split; [assumption|]. apply negb_true_iff. apply addr_eqb_neq. assumption.
Qed.

(* an address is dropped: _all_addresses.pop(address) + _forget_introduction(address) *)
Lemma intro_good_del a all ic :
  (forall k l, In (k, l) ic -> intro_good all k l) ->
  forall k l, In (k, l) (forget_intro a ic) -> intro_good (d_del addr_eqb a all) k l.
Proof.
  intros H k l Hin x. apply In_forget_intro in Hin as (l0 & H0 & E). subst l.
  rewrite In_filter_ne, intros_d_del. rewrite (H k l0 H0 x). reflexivity.
Qed.

(* an address gets a (new) introducer, or none (load_snapshot) *)
Lemma intro_good_forget_set a w all ic :
  (forall k l, In (k, l) ic -> intro_good all k l) ->
  forall k l, In (k, l) (forget_intro a ic) -> w_intro w <> Some k ->
  intro_good (d_set addr_eqb a w all) k l.
Proof.
  intros H k l Hin Hw x. apply In_forget_intro in Hin as (l0 & H0 & E). subst l.
  rewrite In_filter_ne, intros_d_set. rewrite (H k l0 H0 x). split.
  - intros [H1 H2]. right. auto.
  - intros [[H1 H2]|[H1 H2]]; [contradiction|auto].
Qed.

Lemma intro_good_assign a k s ns all ic :
  (forall k' l, In (k', l) ic -> intro_good all k' l) ->
  forall k' l',
    In (k', l') (let c := forget_intro a ic in
                 match d_get Z.eqb k c with Some l => d_set Z.eqb k (l ++ [a]) c | None => c end) ->
    intro_good (d_set addr_eqb a (mkWalk (Some k) s ns) all) k' l'.
Proof.
  intros H k' l'. cbv zeta. destruct (d_get Z.eqb k (forget_intro a ic)) as [l|] eqn:G.
  - intros Hin. apply (In_d_set Z.eqb zeq) in Hin as [[E1 E2]|[Hne Hin]].
    + subst k' l'. apply (d_get_In Z.eqb zeq) in G. apply In_forget_intro in G as (l0 & H0 & E). subst l.
      intros x. rewrite in_app_iff, In_filter_ne, intros_d_set. rewrite (H k l0 H0 x). cbn [w_intro].
      split.
      * intros [[H1 H2]|[H1|[]]]; [right; auto|]. subst. left. auto.
      * intros [[H1 _]|[H1 H2]]; [subst; right; left; reflexivity|left; auto].
    + apply intro_good_forget_set with (ic := ic); [assumption|assumption|]. cbn. congruence.
  - intros Hin. apply intro_good_forget_set with (ic := ic); [assumption|assumption|]. cbn. intros E. inversion E; subst.
    apply (d_get_None Z.eqb zeq) in G. apply G. apply in_map_iff. exists (k', l'). auto.
Qed.

(* ------------------------------------------------------------------ add_verified_peer *)
Lemma Inv_add_verified_peer n i : Inv n -> (i < length (heap n))%nat -> Inv (add_verified_peer n i).
Proof.
  intros H Hi. unfold add_verified_peer.
  destruct (blacklisted n (hkey (heap n) i) (haddrs (heap n) i)) eqn:B; [assumption|].
  destruct (d_get Z.eqb (hkey (heap n) i) (by_key n)) as [j|] eqn:G.
  - rewrite (inv_idx n H) in G. apply find_some in G as [Hj Ej]. apply Z.eqb_eq in Ej.
    apply Inv_update_addrs; [assumption|assumption|].
    apply blacklisted_update with (k' := hkey (heap n) i); [exact (inv_bl n H j Hj)|exact B].
  - destruct (existsb (fun a => d_mem addr_eqb a (all_addrs n)) (am_values (haddrs (heap n) i))).
    + apply Inv_verify; assumption.
    + apply Inv_verify; cbn; [|assumption|exact B].
      apply Inv_set_all; [assumption|].
      intros k l Hin x. rewrite intros_fold_add_walkable. exact (inv_intro n H k l Hin x).
Qed.

Lemma verify_heap n i : heap (verify n i) = heap n.
Proof. unfold verify. destruct (in_verified n (hkey (heap n) i)); reflexivity. Qed.

Lemma add_verified_peer_heap_length n i : length (heap (add_verified_peer n i)) = length (heap n).
Proof.
  unfold add_verified_peer. destruct (blacklisted _ _ _); [reflexivity|].
  destruct (d_get _ _ _).
  - cbn. apply hset_length.
  - destruct (existsb _ _); rewrite verify_heap; reflexivity.
Qed.

(* ------------------------------------------------------------------ discover_address *)
Lemma Inv_discover_address n i a s ns :
  Inv n -> (i < length (heap n))%nat -> Inv (discover_address n i a s ns).
Proof.
  intros H Hi. unfold discover_address. destruct (mem_addr a (bl_addr n)).
  - apply Inv_add_verified_peer; assumption.
  - destruct (negb (d_mem addr_eqb a (all_addrs n)) || negb (intro_verified n a)).
    + apply Inv_add_verified_peer; [|cbn; assumption].
      apply Inv_set_intro_all; [assumption|].
      intros k' l' Hin. eapply intro_good_assign; [exact (inv_intro n H)|exact Hin].
    + apply Inv_add_verified_peer; assumption.
Qed.

(* ------------------------------------------------------------------ get_introductions_from *)
Lemma Inv_get_introductions_from n k : Inv n -> Inv (fst (get_introductions_from n k)).
Proof.
  intros H. unfold get_introductions_from. destruct (d_get Z.eqb k (intro_cache n)); [assumption|].
  cbn [fst]. apply Inv_set_intro; [assumption|].
  intros k' l' Hin. apply evict_In in Hin. apply (In_d_set Z.eqb zeq) in Hin as [[E1 E2]|[_ Hin]].
  - subst. intros x. reflexivity.
  - exact (inv_intro n H k' l' Hin).
Qed.

(* ------------------------------------------------------------------ discover_services *)
Lemma mem_set_union s new : forall old,
  mem_z s (set_union old new) = true <-> mem_z s old = true \/ In s new.
Proof.
  unfold set_union. induction new as [|x new IH]; intros old; simpl.
  - split; [auto|]. intros [H|[]]. assumption.
  - rewrite IH. destruct (mem_z x old) eqn:M.
    + split.
      * intros [H|H]; auto.
      * intros [H|[H|H]]; auto. subst. auto.
    + rewrite !mem_z_In. rewrite in_app_iff. simpl. split.
      * intros [[H|[H|[]]]|H]; auto.
      * intros [H|[H|H]]; auto.
Qed.

Lemma rfk_In h k l j : In j (remove_first_key h k l) -> In j l.
Proof.
  induction l as [|x l IH]; simpl; [auto|]. destruct (hkey h x =? k); [auto|].
  intros [H|H]; auto.
Qed.

Lemma rfk_keep h k l j : In j l -> hkey h j <> k -> In j (remove_first_key h k l).
Proof.
  induction l as [|x l IH]; simpl; [auto|]. intros [H|H] Hne.
  - subst x. apply Z.eqb_neq in Hne. rewrite Hne. left. reflexivity.
  - destruct (hkey h x =? k); [assumption|]. right. auto.
Qed.

Lemma rfk_nodup h k l :
  NoDup (map (hkey h) l) ->
  NoDup (map (hkey h) (remove_first_key h k l)) /\ ~ In k (map (hkey h) (remove_first_key h k l)).
Proof.
  induction l as [|x l IH]; simpl; intros H.
  - split; [constructor|intros []].
  - inversion H; subst. destruct (hkey h x =? k) eqn:E.
    + apply Z.eqb_eq in E. subst k. auto.
    + apply Z.eqb_neq in E. destruct (IH H3) as [Ha Hb]. simpl. split.
      * constructor; [|assumption]. intros Hin. apply H2.
        apply in_map_iff in Hin as (j & Ej & Hj). apply in_map_iff. exists j. split; [assumption|].
        eapply rfk_In. eassumption.
      * intros [Hc|Hc]; [contradiction|contradiction].
Qed.

Section ServiceFold.
  Variables (h : list obj) (ver : list nat) (svcs' : list (key * list service)).
  Variables (cap : Z) (k : key) (p : nat) (ss : list service).
  Hypothesis Hp_key : hkey h p = k.
  Hypothesis Hp_valid : (p < length h)%nat.

  Definition foldQ (c : list (service * list nat)) : Prop :=
    forall s l, In (s, l) c ->
      NoDup (map (hkey h) l) /\
      (forall j, In j l -> (j < length h)%nat) /\
      (forall j, In j ver -> mem_z s (svc_lookup svcs' (hkey h j)) = true -> hkey h j <> k -> In j l) /\
      (~ In s ss -> forall j, In j ver -> mem_z s (svc_lookup svcs' (hkey h j)) = true -> In j l).

  Definition foldR (s : service) (c : list (service * list nat)) : Prop :=
    forall l, In (s, l) c -> In p l.

  Lemma foldQ_step c s0 : foldQ c -> In s0 ss -> foldQ (svc_cache_add h cap k p c s0).
  Proof.
    intros Q Hs0. unfold svc_cache_add. destruct (d_get Z.eqb s0 c) as [l0|] eqn:G; [|assumption].
    apply (d_get_In Z.eqb zeq) in G. destruct (Q s0 l0 G) as (Q1 & Q2 & Q3 & Q4).
    intros s l Hin. apply evict_In in Hin. apply (In_d_set Z.eqb zeq) in Hin as [[E1 E2]|[_ Hin]]; [|auto].
    subst s l. destruct (rfk_nodup h k l0 Q1) as [N1 N2]. split; [|split; [|split]].
    - rewrite map_app. simpl. apply NoDup_snoc; [assumption|]. rewrite Hp_key. assumption.
    - intros j Hj. apply in_app_iff in Hj as [Hj|[Hj|[]]]; [|subst; assumption].
      apply Q2. eapply rfk_In. eassumption.
    - intros j Hj Hm Hne. apply in_app_iff. left. apply rfk_keep; [|assumption]. apply Q3; assumption.
    - intros Hn. contradiction.
  Qed.

  Lemma foldR_step c s s0 : s = s0 \/ foldR s c -> foldR s (svc_cache_add h cap k p c s0).
  Proof.
    intros H. unfold svc_cache_add. destruct (d_get Z.eqb s0 c) as [l0|] eqn:G.
    - intros l Hin. apply evict_In in Hin. apply (In_d_set Z.eqb zeq) in Hin as [[E1 E2]|[Hne Hin]].
      + subst. apply in_app_iff. right. left. reflexivity.
      + destruct H as [H|H]; [congruence|]. apply H. assumption.
    - destruct H as [H|H]; [|assumption]. subst s0. intros l Hin.
      apply (d_get_None Z.eqb zeq) in G. exfalso. apply G. apply in_map_iff. exists (s, l). auto.
  Qed.

  Lemma fold_QR ss' : forall c, incl ss' ss -> foldQ c ->
    foldQ (fold_left (svc_cache_add h cap k p) ss' c) /\
    forall s, In s ss' \/ foldR s c -> foldR s (fold_left (svc_cache_add h cap k p) ss' c).
  Proof.
    induction ss' as [|s0 ss' IH]; intros c Hincl Q; simpl.
    - split; [assumption|]. intros s [[]|H]. assumption.
    - assert (Hs0 : In s0 ss) by (apply Hincl; left; reflexivity).
      assert (Hincl' : incl ss' ss) by (intros x Hx; apply Hincl; right; assumption).
      destruct (IH (svc_cache_add h cap k p c s0) Hincl' (foldQ_step c s0 Q Hs0)) as [IQ IR].
      split; [assumption|]. intros s Hs. apply IR.
      destruct Hs as [[Hs|Hs]|Hs].
      + right. apply foldR_step. left. congruence.
      + left. assumption.
      + right. apply foldR_step. right. assumption.
  Qed.
End ServiceFold.

Lemma Inv_discover_services n i ss :
  Inv n -> (i < length (heap n))%nat -> Inv (discover_services n i ss).
Proof.
  intros H Hi. unfold discover_services.
  set (k := hkey (heap n) i).
  set (svcs' := d_set Z.eqb k (set_union (svc_of n k) (svc_set ss)) (services n)).
  set (p := match d_get Z.eqb k (by_key n) with Some j => j | None => i end).
  assert (Pk : hkey (heap n) p = k /\ (p < length (heap n))%nat /\
               forall j, In j (verified n) -> hkey (heap n) j = k -> j = p).
  { unfold p. rewrite (inv_idx n H). destruct (find (fun i0 => hkey (heap n) i0 =? k) (verified n)) as [j'|] eqn:F.
    - apply find_some in F as [F1 F2]. apply Z.eqb_eq in F2. split; [assumption|]. split; [exact (inv_ids n H j' F1)|].
      intros j Hj Ej. apply (NoDup_map_inj (hkey (heap n)) (verified n)); [exact (inv_uniq n H)|assumption|assumption|congruence].
    - split; [reflexivity|]. split; [assumption|]. intros j Hj Ej.
      pose proof (find_none _ _ F j Hj) as C. cbn in C. apply Z.eqb_neq in C. contradiction. }
  destruct Pk as (Pk1 & Pk2 & Pk3).
  assert (Q0 : foldQ (heap n) (verified n) svcs' k ss (svc_cache n)).
  { intros s l Hin. destruct (inv_svc n H s l Hin) as [G1 G2]. split; [assumption|]. split; [|split].
    - intros j Hj. exact (inv_cids n H s l j Hin Hj).
    - intros j Hj Hm Hne. apply G2; [assumption|]. unfold svcs' in Hm. rewrite svc_lookup_set in Hm.
      assert (E : (k =? hkey (heap n) j) = false) by (apply Z.eqb_neq; congruence). rewrite E in Hm. assumption.
    - intros Hns j Hj Hm. apply G2; [assumption|]. unfold svcs' in Hm. rewrite svc_lookup_set in Hm.
      destruct (k =? hkey (heap n) j) eqn:E; [|assumption].
      apply Z.eqb_eq in E. rewrite <- E. apply mem_set_union in Hm as [Hm|Hm]; [exact Hm|].
      exfalso. apply Hns. assert (M : mem_z s (svc_set ss) = true) by (apply mem_z_In; exact Hm).
      unfold svc_set in M. apply mem_set_union in M as [M|M]; [discriminate M|exact M]. }
  destruct (fold_QR (heap n) (verified n) svcs' (svc_cap n) k p ss Pk1 Pk2 ss (svc_cache n) (incl_refl ss) Q0) as [QF RF].
  apply Inv_set_services_svc; [assumption| |].
  - intros s l j Hin Hj. destruct (QF s l Hin) as (_ & Q2 & _). auto.
  - intros s l Hin. destruct (QF s l Hin) as (Q1 & Q2 & Q3 & Q4). split; [assumption|].
    intros j Hj Hm. destruct (Z.eq_dec (hkey (heap n) j) k) as [E|E].
    + destruct (in_dec Z.eq_dec s ss) as [Hs|Hs].
      * rewrite (Pk3 j Hj E). apply (RF s (or_introl Hs) l Hin).
      * apply Q4; assumption.
    + apply Q3; assumption.
Qed.

(* ------------------------------------------------------------------ get_peers_for_service *)
Lemma gpfs_result n s : Inv n ->
  forall j, In j (snd (get_peers_for_service n s)) <-> In j (verified n) /\ has_service n s j = true.
Proof.
  intros H j. unfold get_peers_for_service. cbn [snd].
  destruct (d_get Z.eqb s (svc_cache n)) as [l|] eqn:G.
  - apply (d_get_In Z.eqb zeq) in G. destruct (inv_svc n H s l G) as [G1 G2].
    rewrite filter_In. split.
    + intros (Hj & Hc). apply andb_true_iff in Hc as [Hv Hs]. split; [|assumption].
      unfold in_verified in Hv. apply in_ver_true in Hv as (j' & Hj' & E).
      assert (Hj'l : In j' l).
      { apply G2; [assumption|]. unfold has_service, svc_of in Hs. rewrite E. assumption. }
      rewrite <- (NoDup_map_inj (hkey (heap n)) l j' j G1 Hj'l Hj E). assumption.
    + intros (Hj & Hs). split.
      * apply G2; [assumption|]. exact Hs.
      * apply andb_true_iff. split; [|assumption]. unfold in_verified. apply in_ver_true. exists j. auto.
  - rewrite filter_In. reflexivity.
Qed.

Lemma Inv_get_peers_for_service n s : Inv n -> Inv (fst (get_peers_for_service n s)).
Proof.
  intros H. pose proof (gpfs_result n s H) as R. unfold get_peers_for_service in *. cbn [fst snd] in *.
  set (out := match d_get Z.eqb s (svc_cache n) with
              | Some l => filter (fun i => in_verified n (hkey (heap n) i) && has_service n s i) l
              | None => filter (has_service n s) (verified n)
              end) in *.
  assert (ND : NoDup (map (hkey (heap n)) out)).
  { unfold out. destruct (d_get Z.eqb s (svc_cache n)) as [l|] eqn:G.
    - apply (d_get_In Z.eqb zeq) in G. apply NoDup_map_filter. exact (proj1 (inv_svc n H s l G)).
    - apply NoDup_map_filter. exact (inv_uniq n H). }
  apply Inv_set_svc_cache; [assumption| |].
  - intros s' l j Hin Hj. apply evict_In in Hin. apply in_app_iff in Hin as [Hin|[Hin|[]]].
    + apply (In_d_del Z.eqb zeq) in Hin as [Hin _]. exact (inv_cids n H s' l j Hin Hj).
    + inversion Hin; subst. apply R in Hj as [Hj _]. exact (inv_ids n H j Hj).
  - intros s' l Hin. apply evict_In in Hin. apply in_app_iff in Hin as [Hin|[Hin|[]]].
    + apply (In_d_del Z.eqb zeq) in Hin as [Hin _]. exact (inv_svc n H s' l Hin).
    + inversion Hin; subst. split; [assumption|]. intros j Hj Hm. apply R. split; [assumption|exact Hm].
Qed.

(* ------------------------------------------------------------------ remaining queries *)
Lemma Inv_get_walkable n so old : Inv n -> Inv (fst (get_walkable_addresses n so old)).
Proof.
  intros H. unfold get_walkable_addresses. destruct so as [s|]; [|assumption].
  pose proof (Inv_get_peers_for_service n s H) as H1. unfold get_peers_for_service in *. exact H1.
Qed.

Lemma Inv_get_verified_by_address n a hint : Inv n -> Inv (fst (get_verified_by_address n a hint)).
Proof.
  intros H. unfold get_verified_by_address.
  destruct (match match d_get addr_eqb a (ip_cache n) with
                  | Some i => if ip_valid n a i then Some i else None
                  | None => None
                  end with
            | Some i => Some i
            | None => choose hint (filter (owns n a) (verified n))
            end); cbn [fst]; apply Inv_set_ip_cache; assumption.
Qed.

(* ------------------------------------------------------------------ removal *)
Lemma svc_good_mono h ver ver' svcs svcs' s l :
  svc_good h ver svcs s l -> (forall i, In i ver' -> In i ver) ->
  (forall k, mem_z s (svc_lookup svcs' k) = true -> mem_z s (svc_lookup svcs k) = true) ->
  svc_good h ver' svcs' s l.
Proof. intros [G1 G2] Hv Hs. split; [assumption|]. intros i Hi Hm. apply G2; auto. Qed.

Lemma find_filter_key (f : nat -> Z) k k' l :
  find (fun i => f i =? k') (filter (fun i => negb (f i =? k)) l)
  = if k =? k' then None else find (fun i => f i =? k') l.
Proof.
  induction l as [|x l IH]; simpl.
  - destruct (k =? k'); reflexivity.
  - destruct (f x =? k) eqn:E1; simpl.
    + rewrite IH. destruct (k =? k') eqn:E2; [reflexivity|].
      apply Z.eqb_eq in E1. apply Z.eqb_neq in E2. subst k.
      assert (E3 : (f x =? k') = false) by (apply Z.eqb_neq; assumption). rewrite E3. reflexivity.
    + destruct (f x =? k') eqn:E3.
      * apply Z.eqb_eq in E3. apply Z.eqb_neq in E1. subst k'.
        assert (E2 : (k =? f x) = false) by (apply Z.eqb_neq; congruence). rewrite E2. reflexivity.
      * exact IH.
Qed.

Lemma find_filter_uniq (f : nat -> Z) (p : nat -> bool) k l :
  NoDup (map f l) ->
  find (fun i => f i =? k) (filter p l)
  = match find (fun i => f i =? k) l with Some i => if p i then Some i else None | None => None end.
Proof.
  induction l as [|x l IH]; simpl; intros H; [reflexivity|]. inversion H; subst.
  destruct (f x =? k) eqn:E.
  - apply Z.eqb_eq in E. destruct (p x) eqn:P; simpl.
    + assert (E' : (f x =? k) = true) by (apply Z.eqb_eq; assumption). rewrite E'. reflexivity.
    + apply find_none_iff. intros y Hy. apply filter_In in Hy as [Hy _]. apply Z.eqb_neq. intro E2.
      apply H2. rewrite E, <- E2. apply in_map. assumption.
  - destruct (p x); simpl; [rewrite E|]; apply IH; assumption.
Qed.

Lemma Inv_remove_peer n k am : Inv n -> Inv (remove_peer n k am).
Proof.
  intros H. unfold remove_peer.
  assert (HI : forall l all ic, (forall k' l', In (k', l') ic -> intro_good all k' l') ->
             forall k' l', In (k', l') (fold_left (fun c a => forget_intro a c) l ic) ->
                           intro_good (fold_left (fun all a => d_del addr_eqb a all) l all) k' l').
  { induction l as [|a l IH]; intros all ic Hg; simpl; [assumption|].
    apply IH. apply intro_good_del. assumption. }
  destruct H as [H1 H2 H3 H4 H5 H6 H7]. constructor; cbn.
  - intros i Hi. apply filter_In in Hi as [Hi _]. auto.
  - assumption.
  - apply NoDup_map_filter. assumption.
  - intros k'. rewrite (d_get_del Z.eqb zeq). rewrite find_filter_key. rewrite H4. reflexivity.
  - intros s l Hin. apply svc_good_mono with (ver := verified n) (svcs := services n); [auto| |].
    + intros i Hi. apply filter_In in Hi as [Hi _]. assumption.
    + intros k'. rewrite svc_lookup_del. destruct (k =? k'); [discriminate|auto].
  - apply HI. assumption.
  - intros i Hi. apply filter_In in Hi as [Hi _]. exact (H7 i Hi).
Qed.

Lemma Inv_remove_by_address n a : Inv n -> Inv (remove_by_address n a).
Proof.
  intros H. unfold remove_by_address.
  set (removed := map (hkey (heap n)) (filter (owns n a) (verified n))).
  destruct H as [H1 H2 H3 H4 H5 H6 H7]. constructor; cbn.
  - intros i Hi. apply filter_In in Hi as [Hi _]. auto.
  - assumption.
  - apply NoDup_map_filter. assumption.
  - intros k. rewrite (d_get_filter_key Z.eqb zeq (fun x => negb (mem_z x removed))).
    rewrite (find_filter_uniq (hkey (heap n)) (fun i => negb (owns n a i)) k (verified n) H3).
    rewrite H4. destruct (find (fun i => hkey (heap n) i =? k) (verified n)) as [i|] eqn:F.
    + apply find_some in F as [F1 F2]. apply Z.eqb_eq in F2.
      destruct (owns n a i) eqn:O; cbn.
      * assert (M : mem_z k removed = true).
        { apply mem_z_In. unfold removed. apply in_map_iff. exists i. split; [assumption|].
          apply filter_In. auto. }
        rewrite M. reflexivity.
      * assert (M : mem_z k removed = false).
        { apply mem_z_false. unfold removed. intros Hin. apply in_map_iff in Hin as (j & Ej & Hj).
          apply filter_In in Hj as [Hj Oj].
          assert (j = i) by (apply (NoDup_map_inj (hkey (heap n)) (verified n)); [assumption|assumption|assumption|congruence]).
          subst j. congruence. }
        rewrite M. reflexivity.
    + destruct (negb (mem_z k removed)); reflexivity.
  - intros s l Hin. apply svc_good_mono with (ver := verified n) (svcs := services n); [auto| |].
    + intros i Hi. apply filter_In in Hi as [Hi _]. assumption.
    + intros k. rewrite (svc_lookup_filter (fun x => negb (mem_z x removed))).
      destruct (negb (mem_z k removed)); [auto|discriminate].
  - apply intro_good_del. assumption.
  - intros i Hi. apply filter_In in Hi as [Hi _]. exact (H7 i Hi).
Qed.

(* ------------------------------------------------------------------ load_snapshot *)
Lemma load_loop_good fuel : forall d off all ic,
  (forall k l, In (k, l) ic -> intro_good all k l) ->
  forall k l, In (k, l) (snd (fst (load_loop fuel d off all ic))) ->
              intro_good (fst (fst (load_loop fuel d off all ic))) k l.
Proof.
  induction fuel as [|f IH]; intros d off all ic Hg; cbn [load_loop];
    destruct (off <? length d)%nat; cbn [fst snd]; try assumption.
  destruct (unpack_address d off) as [[a o]|e]; cbn [fst snd]; [|assumption].
  apply IH. intros k l Hin. apply intro_good_forget_set with (ic := ic); [assumption|assumption|].
  cbn. discriminate.
Qed.

Lemma Inv_load_snapshot n d : Inv n -> Inv (load_snapshot n d).
Proof.
  intros H. unfold load_snapshot.
  pose proof (load_loop_good (length d) d 0%nat (all_addrs n) (intro_cache n) (inv_intro n H)) as G.
  destruct (load_loop (length d) d 0 (all_addrs n) (intro_cache n)) as [[all ic] flag]. cbn [fst snd] in G.
  apply Inv_set_intro_all; assumption.
Qed.

(* ------------------------------------------------------------------ every operation, every history *)
Theorem Inv_step n o : Inv n -> Inv (fst (step n o)).
Proof.
  intros H. destruct o; cbn [step].
  - pose proof (alloc_facts n k am) as (F1 & _). pose proof (Inv_alloc n k am H) as HA.
    destruct (alloc n k am) as [n1 i]. cbn [fst snd] in *. apply Inv_add_verified_peer; assumption.
  - pose proof (alloc_facts n k am) as (F1 & _). pose proof (Inv_alloc n k am H) as HA.
    destruct (alloc n k am) as [n1 i]. cbn [fst snd] in *. apply Inv_discover_address; assumption.
  - pose proof (alloc_facts n k am) as (F1 & _). pose proof (Inv_alloc n k am H) as HA.
    destruct (alloc n k am) as [n1 i]. cbn [fst snd] in *. apply Inv_discover_services; assumption.
  - apply Inv_remove_peer. assumption.
  - apply Inv_remove_by_address. assumption.
  - assumption.
  - pose proof (Inv_get_verified_by_address n a hint H) as HA.
    destruct (get_verified_by_address n a hint). exact HA.
  - pose proof (Inv_get_peers_for_service n s H) as HA. destruct (get_peers_for_service n s). exact HA.
  - assumption.
  - pose proof (Inv_get_walkable n s old H) as HA. destruct (get_walkable_addresses n s old). exact HA.
  - pose proof (Inv_get_introductions_from n k H) as HA. destruct (get_introductions_from n k). exact HA.
  - assumption.
  - apply Inv_load_snapshot. assumption.
Qed.

Theorem Inv_run ops : forall n, Inv n -> Inv (run n ops).
Proof.
  induction ops as [|o ops IH]; intros n H; simpl; [assumption|]. apply IH. apply Inv_step. assumption.
Qed.

Theorem Inv_reachable ipc intc svcc bla blm ops : Inv (run (init_net ipc intc svcc bla blm) ops).
Proof. apply Inv_run. apply Inv_init. Qed.
