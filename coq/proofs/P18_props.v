(* C18 - the lemmas of P18_hom / P18_bitpairs / P18_range restated over the bundled hypotheses of
   spec/S18_bgn.v, in the form props/C18.v quotes; the toy instances meet the hypotheses. *)
From Coq Require Import ZArith List Bool Lia QArith Permutation Znumtheory.
From IPV8V Require Import lib.PyErr model.M18_hom model.M18_bitpairs model.M18_range spec.S18_bgn
  proofs.P18_hom proofs.P18_bitpairs proofs.P18_range.
Import ListNotations.
Open Scope Z_scope.

Section Wrap.
  Variable G : Type.
  Variable gmul : G -> G -> G.
  Variable gone : G.
  Variable ginv : G -> G.
  Variable geqb : G -> G -> bool.
  Variable g h : G.
  Variable t1 t2 P : Z.

  Local Notation key := (bgn_keypair G gmul gone ginv geqb g h t1 t2 P).
  Local Notation enc := (encode G gmul gone ginv g h).
  Local Notation dec := (decode G gmul gone ginv geqb g t1).

  Lemma decode_encode_w : key -> forall ms m r, Forall (fun x => 0 <= x < t2) ms -> In m ms ->
    dec ms (enc m r) = Some m.
  Proof.
    intros ((A & C & O & I) & E & Ht & Hh & Hn & Ho & _ & _).
    apply (decode_encode_l G gmul gone ginv geqb E A C O I g h t1 t2 ltac:(lia) Hh Hn Ho).
  Qed.

  Lemma decode_product_w : key -> forall ms a r b s, Forall (fun x => 0 <= x < t2) ms -> In (a + b) ms ->
    dec ms (gmul (enc a r) (enc b s)) = Some (a + b).
  Proof.
    intros ((A & C & O & I) & E & Ht & Hh & Hn & Ho & _ & _).
    apply (decode_product_l G gmul gone ginv geqb E A C O I g h t1 t2 ltac:(lia) Hh Hn Ho).
  Qed.

  Lemma decode_spec_w : key -> forall ms m r,
    dec ms (enc m r) = find (fun m' => (m - m') mod t2 =? 0) ms.
  Proof.
    intros ((A & C & O & I) & E & Ht & Hh & Hn & Ho & _ & _).
    apply (decode_spec_l G gmul gone ginv geqb E A C O I g h t1 t2 ltac:(lia) Hh Hn Ho).
  Qed.

  Lemma challenge_response_w : key -> forall m r,
    challenge_response G gmul gone ginv geqb g t1 (enc m r) =
      if m mod t2 =? 0 then 0 else if m mod t2 =? 1 then 1 else if m mod t2 =? 2 then 2 else 3.
  Proof.
    intros ((A & C & O & I) & E & Ht & Hh & Hn & Ho & _ & _) m r.
    apply (challenge_response_spec_l G gmul gone ginv geqb E A C O I g h t1 t2 ltac:(lia) Hh Hn Ho m r Ht).
  Qed.

  Lemma pair_response_w : key -> forall bit_a bit_b r, is_bit bit_a -> is_bit bit_b ->
    pair_response G gmul gone ginv geqb g h t1 P bit_a bit_b r = bit_a + bit_b.
  Proof.
    intros ((A & C & O & I) & E & Ht & Hh & Hn & Ho & HP & Hd).
    apply (pair_response_class G gmul gone ginv geqb E A C O I g h t1 t2 Ht Hh Hn Ho P HP Hd).
  Qed.

  Lemma profile_exact_w : key -> forall v bitspace A rand order, bits v bitspace = Ok A ->
    Permutation order (seq 0 (npairs bitspace)) ->
    honest_run G gmul gone ginv geqb g h t1 P A rand order = binary_relativity v bitspace.
  Proof.
    intros ((A & C & O & I) & E & Ht & Hh & Hn & Ho & HP & Hd).
    apply (profile_exact_l G gmul gone ginv geqb E A C O I g h t1 t2 Ht Hh Hn Ho P HP Hd).
  Qed.

  Lemma profile_partial_w : key -> forall v bitspace A rand order rest e, bits v bitspace = Ok A ->
    Permutation (order ++ rest) (seq 0 (npairs bitspace)) ->
    binary_relativity v bitspace = Ok e ->
    exists o, honest_run G gmul gone ginv geqb g h t1 P A rand order = Ok o /\
      (forall k, 0 <= rget o k <= rget e k) /\ rm_total o = Z.of_nat (length order) /\ r3 o = 0 /\ r3 e = 0 /\
      rm_total e = Z.of_nat (npairs bitspace).
  Proof.
    intros ((A & C & O & I) & E & Ht & Hh & Hn & Ho & HP & Hd).
    apply (profile_partial_l G gmul gone ginv geqb E A C O I g h t1 t2 Ht Hh Hn Ho P HP Hd).
  Qed.

  Lemma honest_round_scores_w : key -> forall v bs A rand order, bits v bs = Ok A ->
    Permutation order (seq 0 (npairs bs)) ->
    exists e, honest_run G gmul gone ginv geqb g h t1 P A rand order = Ok e /\
      binary_relativity v bs = Ok e /\
      (certainty e e == 1 - Qpower (1 # 2) (Z.of_nat (npairs bs)))%Q /\
      forall v' e', binary_relativity v' bs = Ok e' -> e' <> e -> (certainty e' e == 0)%Q.
  Proof.
    intros ((A & C & O & I) & E & Ht & Hh & Hn & Ho & HP & Hd).
    apply (honest_round_scores_l G gmul gone ginv geqb E A C O I g h t1 t2 Ht Hh Hn Ho P HP Hd).
  Qed.

  (* ---- range proof: only the group laws are needed ---- *)
  Variable Hsh : G -> G -> Z.
  Local Notation grp := (abelian_group G gmul gone ginv).

  Lemma el_complete_w : grp -> forall x r1 r2 g1 h1 g2 h2 rnd,
    el_check G gmul gone ginv Hsh (el_create G gmul gone ginv Hsh x r1 r2 g1 h1 g2 h2 rnd) g1 h1 g2 h2
             (commit G gmul gone ginv g1 h1 x r1) (commit G gmul gone ginv g2 h2 x r2) = true.
  Proof. intros (A & C & O & I). apply (el_complete G gmul gone ginv A C O I). Qed.

  Lemma sqr_complete_w : grp -> forall x r1 gg hh rnd,
    sqr_check G gmul gone ginv Hsh (sqr_create G gmul gone ginv Hsh x r1 gg hh rnd) gg hh
              (commit G gmul gone ginv gg hh (x * x) r1) = true.
  Proof. intros (A & C & O & I). apply (sqr_complete G gmul gone ginv A C O I). Qed.

  Lemma range_complete_w : grp -> (forall a, geqb a a = true) -> forall v a b rd pub priv s t,
    create_attest_pair G gmul gone ginv g h Hsh v a b rd = Ok (pub, priv) ->
    0 <= p_m2 priv -> 0 < s -> 0 < t ->
    range_check G gmul gone ginv geqb g h Hsh pub a b s t (generate_response priv s t) = true.
  Proof. intros (A & C & O & I) R. apply (range_complete_l G gmul gone ginv geqb R A C O I). Qed.

  Lemma range_soundness_refuted_w : grp -> (forall a, geqb a a = true) ->
    forall n v a b s t r, 0 < n -> gpow G gmul gone ginv g n = gone ->
    exists pub resp, k_c G (pub_com G pub) = commit G gmul gone ginv g h v r /\
                     range_check G gmul gone ginv geqb g h Hsh pub a b s t resp = true.
  Proof. intros (A & C & O & I) R. apply (range_soundness_refuted_l G gmul gone ginv geqb R A C O I). Qed.
End Wrap.

(* ---- the toy instances meet the hypotheses -------------------------------------------------------- *)
Lemma z6_is_keypair : bgn_keypair z6 z6_mul A0 z6_inv z6_eqb A1 A3 2 3 5.
Proof.
  unfold bgn_keypair, abelian_group, eq_decides.
  split; [split; [exact z6_assoc|split; [exact z6_comm|split; [exact z6_one_l|exact z6_inv_l]]]|].
  split; [exact z6_eqb_eq|]. split; [lia|]. split; [exact z6_h_order|]. split; [exact z6_g_n|].
  split; [exact z6_g_order|]. split; [lia|]. exists 1. reflexivity.
Qed.

Lemma ev_is_group : abelian_group ev ev_mul ev_one ev_inv.
Proof. split; [exact ev_assoc|split; [exact ev_comm|split; [exact ev_one_l|exact ev_inv_l]]]. Qed.

Lemma prime_11 : prime 11.
Proof.
  apply prime_intro; [lia|]. intros n Hn.
  assert (n = 1 \/ n = 2 \/ n = 3 \/ n = 4 \/ n = 5 \/ n = 6 \/ n = 7 \/ n = 8 \/ n = 9 \/ n = 10) as Hc by lia.
  apply Zgcd_1_rel_prime. destruct Hc as [->|[->|[->|[->|[->|[->|[->|[->|[->| ->]]]]]]]]]; reflexivity.
Qed.
