(* C09 - the freshness invariant of a tunnel node and the generic preservation lemmas.

   Every entry of the three tables carries evidence of why it cannot outlive its limits:
   a removal already under way that completes in time, or activity recent enough that the last
   sweep could not yet have condemned it; a circuit under construction carries its retry cache
   (whose deadlines and remaining tries are bounded from the circuit's creation time). *)
From Coq Require Import ZArith List Bool Lia ZifyBool.
From IPV8V Require Import gen.G09_rules model.M09_reclaim spec.S09_reclaim proofs.P09_alist.
Import ListNotations.
Open Scope Z_scope.

Section Inv.
Variable st : settings.
Hypothesis Hst : settings_ok st.

Definition scheduled (k : rkind) (cid T : Z) (s : node) : Prop :=
  (exists dd rn, In (DRemove k cid dd rn) (starts s) /\ now s + s_remove_delay st <= T)
  \/ (exists due, In (due, k, cid) (sleeping s) /\ due <= T).

Definition entry_ok (k : rkind) (cid : Z) (r : ro) (s : node) : Prop :=
  scheduled k cid (la r + B_entry st) s \/ last_sweep s <= la r + s_max_inactive st.

Definition relay_inv (s : node) : Prop :=
  forall cid r, aget cid (relays s) = Some r -> entry_ok KRelay cid (r_ro r) s.
Definition exit_inv (s : node) : Prop :=
  forall cid e, aget cid (exits s) = Some e -> entry_ok KExit cid (e_ro e) s.

Definition retry_ok (c : circuit) (rt : retry) : Prop :=
  rt_due rt <= creation (c_ro c) + s_next_hop_timeout st * (tries0 st - rt_tries rt)
  /\ 0 <= rt_tries rt + c_hops c /\ rt_tries rt < tries0 st.
Definition retries_inv (s : node) : Prop :=
  forall cid rt c, aget cid (retries s) = Some rt -> aget cid (circuits s) = Some c -> retry_ok c rt.

Definition dretry_ok (s : node) (c : circuit) (tries : Z) : Prop :=
  now s + s_next_hop_timeout st <= creation (c_ro c) + s_next_hop_timeout st * (tries0 st - tries + 1).
Definition dretries_inv (s : node) : Prop :=
  forall cid tries ini, In (DRetry cid tries ini) (starts s) ->
    1 <= tries /\ tries < tries0 st /\ forall c, aget cid (circuits s) = Some c -> dretry_ok s c tries.

(* `waived`: the ready-clause of that circuit is not required (it is re-established by the refresh
   that ends the processing of a cell) *)
Definition circ_ok (waived : option Z) (s : node) (cid : Z) (c : circuit) : Prop :=
  if c_closing c then exists due, In (due, KCirc, cid) (sleeping s) /\ due <= circuit_deadline st c
  else if c_goal c <=? c_hops c then
         (match waived with Some w => w = cid | None => False end) \/ entry_ok KCirc cid (c_ro c) s
  else ahas cid (retries s) = true \/ (exists tries ini, In (DRetry cid tries ini) (starts s))
       \/ scheduled KCirc cid (creation (c_ro c) + build_bound st (c_goal c) + s_remove_delay st) s.
Definition circ_inv (waived : option Z) (s : node) : Prop :=
  forall cid c, aget cid (circuits s) = Some c -> circ_ok waived s cid c.

Definition side_inv (s : node) : Prop :=
  last_sweep s <= now s
  /\ forall cid c, aget cid (circuits s) = Some c -> 0 <= c_hops c /\ la (c_ro c) <= now s.

Definition inv_gen (waived : option Z) (s : node) : Prop :=
  side_inv s /\ relay_inv s /\ exit_inv s /\ retries_inv s /\ dretries_inv s /\ circ_inv waived s.
Definition inv := inv_gen None.

(* ------------------------------------------------------------------ arithmetic of the bounds *)
Lemma tries0_pos : 1 <= tries0 st.
Proof.
  destruct Hst as (_ & _ & _ & Hn & Hc). unfold tries0, initial_tries.
  apply Z.div_le_lower_bound; lia.
Qed.

Lemma scheduled_mono k cid T T' s : T <= T' -> scheduled k cid T s -> scheduled k cid T' s.
Proof.
  intros HT [(dd & rn & Hin & Hle)|(due & Hin & Hle)]; [left | right].
  - exists dd, rn; split; [exact Hin | lia].
  - exists due; split; [exact Hin | lia].
Qed.

Lemma entry_ok_la k cid r r' s : la r <= la r' -> entry_ok k cid r s -> entry_ok k cid r' s.
Proof.
  intros Hla [H|H]; [left | right; lia].
  eapply scheduled_mono; [|exact H]. lia.
Qed.

Lemma B_entry_nonneg : 0 <= B_entry st.
Proof. destruct Hst as (? & ? & ? & _). unfold B_entry. lia. Qed.

(* ------------------------------------------------------------------ harmless extensions *)
Record ext (s s' : node) : Prop := mkExt {
  x_now : now s' = now s;
  x_sweep : last_sweep s' = last_sweep s;
  x_starts : forall d, In d (starts s) -> In d (starts s');
  x_dretry : forall cid tries ini, In (DRetry cid tries ini) (starts s') -> In (DRetry cid tries ini) (starts s);
  x_sleep : forall x, In x (sleeping s) -> In x (sleeping s');
  x_relays : forall cid r', aget cid (relays s') = Some r' ->
      (exists r, aget cid (relays s) = Some r /\ la (r_ro r) <= la (r_ro r')) \/ now s <= la (r_ro r');
  x_exits : forall cid e', aget cid (exits s') = Some e' ->
      (exists e, aget cid (exits s) = Some e /\ la (e_ro e) <= la (e_ro e')) \/ now s <= la (e_ro e');
  x_circuits : forall cid c', aget cid (circuits s') = Some c' ->
      exists c, aget cid (circuits s) = Some c /\ c_goal c' = c_goal c /\ c_hops c' = c_hops c
                /\ c_closing c' = c_closing c /\ creation (c_ro c') = creation (c_ro c)
                /\ la (c_ro c) <= la (c_ro c') /\ la (c_ro c') <= now s;
  x_retries : retries s' = retries s
}.

Lemma ext_refl s : side_inv s -> ext s s.
Proof.
  intros [_ Hs]. constructor; auto.
  - intros cid r' H; left; exists r'; split; [exact H | lia].
  - intros cid e' H; left; exists e'; split; [exact H | lia].
  - intros cid c' H. exists c'. destruct (Hs _ _ H). repeat split; auto; lia.
Qed.

Lemma ext_trans a b c : ext a b -> ext b c -> ext a c.
Proof.
  intros [n1 w1 s1 d1 l1 r1 e1 c1 t1] [n2 w2 s2 d2 l2 r2 e2 c2 t2]. constructor; try congruence; auto.
  - intros cid r' H. destruct (r2 _ _ H) as [(r & Hr & Hle)|Hf]; [|right; lia].
    destruct (r1 _ _ Hr) as [(r0 & Hr0 & Hle0)|Hf]; [left; exists r0; split; [exact Hr0|lia] | right; lia].
  - intros cid e' H. destruct (e2 _ _ H) as [(e & He & Hle)|Hf]; [|right; lia].
    destruct (e1 _ _ He) as [(e0 & He0 & Hle0)|Hf]; [left; exists e0; split; [exact He0|lia] | right; lia].
  - intros cid c' H. destruct (c2 _ _ H) as (cb & Hb & G2 & H2 & K2 & C2 & L2 & M2).
    destruct (c1 _ _ Hb) as (ca & Ha & G1 & H1 & K1 & C1 & L1 & M1).
    exists ca. repeat split; try congruence; lia.
Qed.

Lemma scheduled_ext k cid T s s' : ext s s' -> scheduled k cid T s -> scheduled k cid T s'.
Proof.
  intros X [(dd & rn & Hin & Hle)|(due & Hin & Hle)]; [left | right].
  - exists dd, rn; split; [apply (x_starts _ _ X); exact Hin | rewrite (x_now _ _ X); exact Hle].
  - exists due; split; [apply (x_sleep _ _ X); exact Hin | exact Hle].
Qed.

Lemma entry_ok_ext k cid r s s' : ext s s' -> entry_ok k cid r s -> entry_ok k cid r s'.
Proof.
  intros X [H|H]; [left; eapply scheduled_ext; eauto | right; rewrite (x_sweep _ _ X); exact H].
Qed.

Lemma entry_ok_fresh k cid r s : side_inv s -> now s <= la r -> entry_ok k cid r s.
Proof. intros [H _] Hl. right. destruct Hst as (? & _). lia. Qed.

Lemma circuit_deadline_mono c c' :
  c_goal c' = c_goal c -> creation (c_ro c') = creation (c_ro c) -> la (c_ro c) <= la (c_ro c') ->
  circuit_deadline st c <= circuit_deadline st c'.
Proof. intros G C L. unfold circuit_deadline. rewrite G, C. lia. Qed.

Lemma inv_ext w s s' : inv_gen w s -> ext s s' -> inv_gen w s'.
Proof.
  intros (Hside & Hrel & Hex & Hrt & Hdr & Hc) X.
  assert (Hside' : side_inv s').
  { destruct Hside as [H1 H2]. split; [rewrite (x_sweep _ _ X), (x_now _ _ X); exact H1|].
    intros cid c' H. destruct (x_circuits _ _ X _ _ H) as (c & Hc0 & G & Hh & K & C & L & M).
    destruct (H2 _ _ Hc0). rewrite Hh, (x_now _ _ X). split; lia. }
  split; [exact Hside'|]. split; [|split; [|split; [|split]]].
  - intros cid r' H. destruct (x_relays _ _ X _ _ H) as [(r & Hr & Hle)|Hf].
    + eapply entry_ok_la; [exact Hle|]. eapply entry_ok_ext; eauto.
    + apply entry_ok_fresh; [exact Hside'|]. rewrite (x_now _ _ X); exact Hf.
  - intros cid e' H. destruct (x_exits _ _ X _ _ H) as [(e & He & Hle)|Hf].
    + eapply entry_ok_la; [exact Hle|]. eapply entry_ok_ext; eauto.
    + apply entry_ok_fresh; [exact Hside'|]. rewrite (x_now _ _ X); exact Hf.
  - intros cid rt c' H1 H2. rewrite (x_retries _ _ X) in H1.
    destruct (x_circuits _ _ X _ _ H2) as (c & Hc0 & G & Hh & K & C & L & M).
    specialize (Hrt _ _ _ H1 Hc0). unfold retry_ok in *. rewrite C, Hh. exact Hrt.
  - intros cid tries ini H1. apply (x_dretry _ _ X) in H1.
    destruct (Hdr _ _ _ H1) as (D1 & D2 & D3). split; [exact D1|]. split; [exact D2|].
    intros c' H2. destruct (x_circuits _ _ X _ _ H2) as (c & Hc0 & G & Hh & K & C & L & M).
    specialize (D3 _ Hc0). unfold dretry_ok in *. rewrite C, (x_now _ _ X). exact D3.
  - intros cid c' H. destruct (x_circuits _ _ X _ _ H) as (c & Hc0 & G & Hh & K & C & L & M).
    specialize (Hc _ _ Hc0). unfold circ_ok in *. rewrite K, G, Hh.
    destruct (c_closing c).
    + destruct Hc as (due & Hin & Hle). exists due. split; [apply (x_sleep _ _ X); exact Hin|].
      pose proof (circuit_deadline_mono c c' G C L). lia.
    + destruct (c_goal c <=? c_hops c).
      * destruct Hc as [Hw|Hc]; [left; exact Hw | right].
        eapply entry_ok_la; [exact L|]. eapply entry_ok_ext; eauto.
      * rewrite (x_retries _ _ X), C.
        destruct Hc as [Hc|[(tries & ini & Hin)|Hc]]; [left; exact Hc | right; left | right; right].
        -- exists tries, ini. apply (x_starts _ _ X); exact Hin.
        -- eapply scheduled_ext; eauto.
Qed.

(* a waiver can always be added; it is discharged by refreshing the circuit *)
Lemma inv_waive w s : inv s -> inv_gen w s.
Proof.
  intros (H1 & H2 & H3 & H4 & H5 & H6).
  split; [exact H1|]. split; [exact H2|]. split; [exact H3|]. split; [exact H4|]. split; [exact H5|].
  intros cid c H. specialize (H6 _ _ H). unfold circ_ok in *.
  destruct (c_closing c); [exact H6|]. destruct (c_goal c <=? c_hops c); [|exact H6].
  destruct H6 as [[]|H6]. right; exact H6.
Qed.

End Inv.
