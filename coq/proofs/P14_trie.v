(* C14 - the prefix tree of trie.py behaves like a finite map from bit strings to values;
   deletion prunes exactly the value-less leaf chains; suffixes lists exactly the keys below a key. *)
From Coq Require Import ZArith List Bool Arith Lia.
From IPV8V Require Import lib.PyErr model.M14_routing spec.S14_kademlia proofs.P14_bits.
Import ListNotations.

Section TrieFacts.
Context {A : Type}.
Implicit Types (t : trie A) (k : bits).

Lemma tfind_Empty k : tfind (@Empty A) k = Empty.
Proof. induction k; cbn; auto. Qed.

Lemma tfind_app t k1 k2 : tfind t (k1 ++ k2) = tfind (tfind t k1) k2.
Proof. revert t; induction k1; intros t; cbn; auto. Qed.

Lemma tget_Empty k : tget (@Empty A) k = Raise KeyError.
Proof. unfold tget. rewrite tfind_Empty. reflexivity. Qed.

Lemma tget_cons x k (v : option A) (c0 c1 : trie A) : tget (TNode v c0 c1) (x :: k) = tget (if x then c1 else c0) k.
Proof. reflexivity. Qed.

Lemma tget_app t k1 k2 : tget t (k1 ++ k2) = tget (tfind t k1) k2.
Proof. unfold tget. rewrite tfind_app. reflexivity. Qed.

Lemma tget_empty_root k : tget (@empty_root A) k = Raise KeyError.
Proof.
  destruct k as [|x k]; [reflexivity|]. unfold empty_root. rewrite tget_cons. destruct x; apply tget_Empty.
Qed.

(* ---- __setitem__ *)
Lemma tget_tset_same k : forall t v, tget (tset t k v) k = Ok v.
Proof.
  induction k as [|x k IH]; intros t v.
  - destruct t; reflexivity.
  - destruct t as [|w c0 c1]; destruct x; cbn [tset]; rewrite tget_cons; apply IH.
Qed.

Lemma tget_tset_other k : forall t v k', k' <> k -> tget (tset t k v) k' = tget t k'.
Proof.
  induction k as [|x k IH]; intros t v k' N.
  - destruct k' as [|y k']; [congruence|]. destruct t; cbn [tset]; rewrite ?tget_cons; try reflexivity.
    rewrite tget_Empty. destruct y; apply tget_Empty.
  - destruct k' as [|y k'].
    + destruct t as [|w c0 c1]; destruct x; reflexivity.
    + destruct t as [|w c0 c1]; destruct x, y; cbn [tset]; rewrite ?tget_cons, ?tget_Empty;
        try reflexivity; try (rewrite IH by congruence; rewrite ?tget_Empty; reflexivity).
Qed.

(* ---- __delitem__ *)
Lemma tget_tdel_aux k : forall t t',
  tdel_aux t k = Some t' ->
  (exists v, tget t k = Ok v) /\ tget t' k = Raise KeyError /\ (forall k', k' <> k -> tget t' k' = tget t k').
Proof.
  induction k as [|x k IH]; intros t t' H.
  - destruct t as [|[a|] c0 c1]; cbn in H; try discriminate.
    destruct (is_empty c0 && is_empty c1) eqn:E; injection H as <-.
    + apply andb_true_iff in E as [E0 E1]. destruct c0, c1; try discriminate.
      split; [exists a; reflexivity|]. split; [reflexivity|].
      intros [|y k'] N; [congruence|]. rewrite tget_Empty, tget_cons. destruct y; symmetry; apply tget_Empty.
    + split; [exists a; reflexivity|]. split; [reflexivity|].
      intros [|y k'] N; [congruence|]. reflexivity.
  - destruct t as [|w c0 c1]; cbn [tdel_aux] in H; [discriminate|].
    destruct (tdel_aux (if x then c1 else c0) k) as [c'|] eqn:D; [|discriminate].
    apply IH in D as (Hv & Hk & Ho).
    assert (R : forall u, (u = Empty /\ w = None /\ is_empty (if x then c0 else c') && is_empty (if x then c' else c1) = true
                           \/ u = TNode w (if x then c0 else c') (if x then c' else c1)) ->
                          (exists v, tget (TNode w c0 c1) (x :: k) = Ok v) /\
                          tget u (x :: k) = Raise KeyError /\
                          (forall k', k' <> x :: k -> tget u k' = tget (TNode w c0 c1) k')).
    { intros u [[Hu [Hw E]]|Hu]; subst u; [subst w|].
      - apply andb_true_iff in E as [E0 E1].
        split; [exact Hv|]. split; [apply tget_Empty|].
        intros [|y k'] N; rewrite tget_Empty; [reflexivity|]. rewrite tget_cons.
        destruct x, y.
        + rewrite <- Ho by congruence. destruct c'; try discriminate. symmetry; apply tget_Empty.
        + destruct c0; try discriminate. symmetry; apply tget_Empty.
        + destruct c1; try discriminate. symmetry; apply tget_Empty.
        + rewrite <- Ho by congruence. destruct c'; try discriminate. symmetry; apply tget_Empty.
      - split; [exact Hv|]. split; [rewrite tget_cons; destruct x; exact Hk|].
        intros [|y k'] N; [reflexivity|]. rewrite !tget_cons.
        destruct x, y; try reflexivity; apply Ho; congruence. }
    destruct w as [a|].
    + injection H as <-. apply R. right. reflexivity.
    + destruct (is_empty (if x then c0 else c') && is_empty (if x then c' else c1)) eqn:E; injection H as <-; apply R.
      * left. auto.
      * right. reflexivity.
Qed.

Lemma tdel_aux_none k : forall t, tdel_aux t k = None -> tget t k = Raise KeyError.
Proof.
  induction k as [|x k IH]; intros t H.
  - destruct t as [|[a|] c0 c1]; cbn in H |- *; try reflexivity.
    destruct (is_empty c0 && is_empty c1); discriminate.
  - destruct t as [|w c0 c1]; [apply tget_Empty|]. cbn [tdel_aux] in H. rewrite tget_cons.
    destruct (tdel_aux (if x then c1 else c0) k) as [c'|] eqn:D; [|apply IH; exact D].
    destruct w; [discriminate|]. destruct (is_empty _ && is_empty _); discriminate.
Qed.

(* del trie[k] on a stored key: succeeds, removes exactly k *)
Lemma tdel_present t k v :
  tget t k = Ok v ->
  exists t', tdel t k = Ok t' /\ tget t' k = Raise KeyError /\ (forall k', k' <> k -> tget t' k' = tget t k').
Proof.
  intros G. unfold tdel. destruct (tdel_aux t k) as [u|] eqn:D.
  - apply tget_tdel_aux in D as (_ & Hk & Ho).
    destruct u as [|w c0 c1].
    + exists empty_root. split; [reflexivity|]. split.
      * apply tget_empty_root.
      * intros k' N. rewrite <- Ho by exact N. rewrite tget_Empty. apply tget_empty_root.
    + exists (TNode w c0 c1). auto.
  - apply tdel_aux_none in D. congruence.
Qed.

(* del trie[k] on a missing key: KeyError *)
Lemma tdel_absent t k e : tget t k = Raise e -> tdel t k = Raise KeyError.
Proof.
  intros G. unfold tdel. destruct (tdel_aux t k) as [u|] eqn:D; [|reflexivity].
  apply tget_tdel_aux in D as ((v & Hv) & _). congruence.
Qed.

(* ---- no value-less leaf chain is ever left behind *)
Lemma compact_sub_compact t : compact_sub t -> compact t.
Proof. destruct t; cbn; tauto. Qed.

Lemma nonvoid_tset k : forall t v, nonvoid (tset t k v) = true.
Proof.
  induction k as [|x k IH]; intros t v.
  - destruct t; reflexivity.
  - destruct t as [|w c0 c1]; destruct x; cbn [tset nonvoid]; rewrite IH; rewrite ?orb_true_r; reflexivity.
Qed.

Lemma compact_sub_tset k : forall t v, compact_sub t -> compact_sub (tset t k v).
Proof.
  induction k as [|x k IH]; intros t v C.
  - destruct t as [|w c0 c1]; cbn in *; tauto.
  - destruct t as [|w c0 c1]; destruct x; cbn [tset compact_sub].
    + split; [cbn [nonvoid]; rewrite nonvoid_tset; rewrite ?orb_true_r; reflexivity|]. split; [exact I|]. apply IH. exact I.
    + split; [cbn [nonvoid]; rewrite nonvoid_tset; rewrite ?orb_true_r; reflexivity|]. split; [apply IH; exact I|exact I].
    + destruct C as (_ & C0 & C1). split; [cbn [nonvoid]; rewrite nonvoid_tset; rewrite ?orb_true_r; reflexivity|]. auto.
    + destruct C as (_ & C0 & C1). split; [cbn [nonvoid]; rewrite nonvoid_tset; rewrite ?orb_true_r; reflexivity|]. auto.
Qed.

Lemma compact_tset t k v : compact t -> compact (tset t k v).
Proof.
  intros C. destruct k as [|x k].
  - destruct t; cbn in *; tauto.
  - destruct t as [|w c0 c1]; destruct x; cbn [tset compact] in *.
    + split; [exact I|apply compact_sub_tset; exact I].
    + split; [apply compact_sub_tset; exact I|exact I].
    + destruct C; split; [assumption|apply compact_sub_tset; assumption].
    + destruct C; split; [apply compact_sub_tset; assumption|assumption].
Qed.

Lemma is_empty_nonvoid t : compact_sub t -> is_empty t = false -> nonvoid t = true.
Proof. destruct t; cbn; [discriminate | tauto]. Qed.

Lemma compact_sub_tdel_aux k : forall t t', compact_sub t -> tdel_aux t k = Some t' -> compact_sub t'.
Proof.
  induction k as [|x k IH]; intros t t' C H.
  - destruct t as [|[a|] c0 c1]; cbn in H; try discriminate.
    destruct (is_empty c0 && is_empty c1) eqn:E; injection H as <-; [exact I|].
    destruct C as (_ & C0 & C1). cbn [compact_sub nonvoid]. split; [|auto].
    apply andb_false_iff in E as [E|E].
    + rewrite (is_empty_nonvoid c0) by assumption. reflexivity.
    + rewrite (is_empty_nonvoid c1) by assumption. apply orb_true_r.
  - destruct t as [|w c0 c1]; cbn [tdel_aux] in H; [discriminate|].
    destruct C as (_ & C0 & C1).
    destruct (tdel_aux (if x then c1 else c0) k) as [c'|] eqn:D; [|discriminate].
    assert (C' : compact_sub c') by (destruct x; cbn in D; [apply (IH c1 c' C1 D) | apply (IH c0 c' C0 D)]).
    assert (Cn : compact_sub (if x then c0 else c') /\ compact_sub (if x then c' else c1)) by (destruct x; auto).
    destruct w as [a|].
    + injection H as <-. cbn [compact_sub nonvoid]. tauto.
    + destruct (is_empty (if x then c0 else c') && is_empty (if x then c' else c1)) eqn:E; injection H as <-; [exact I|].
      cbn [compact_sub nonvoid]. split; [|tauto]. destruct Cn as [Ca Cb].
      apply andb_false_iff in E as [E|E].
      * rewrite (is_empty_nonvoid _ Ca E). reflexivity.
      * rewrite (is_empty_nonvoid _ Cb E). apply orb_true_r.
Qed.

Lemma compact_tdel t k t' : compact t -> tdel t k = Ok t' -> compact t'.
Proof.
  unfold tdel. intros C H. destruct (tdel_aux t k) as [u|] eqn:D; [|discriminate].
  assert (Cu : compact u).
  { destruct k as [|x k].
    - destruct t as [|[a|] c0 c1]; cbn in D; try discriminate.
      destruct (is_empty c0 && is_empty c1); injection D as <-; cbn in *; tauto.
    - destruct t as [|w c0 c1]; cbn [tdel_aux] in D; [discriminate|]. destruct C as [C0 C1].
      destruct (tdel_aux (if x then c1 else c0) k) as [c'|] eqn:D'; [|discriminate].
      assert (C' : compact_sub c') by (destruct x; cbn in D'; [apply (compact_sub_tdel_aux k c1 c' C1 D') | apply (compact_sub_tdel_aux k c0 c' C0 D')]).
      destruct w as [a|].
      + injection D as <-. cbn. destruct x; auto.
      + destruct (is_empty _ && is_empty _); injection D as <-; cbn; destruct x; auto. }
  destruct u; injection H as <-; [cbn; auto | exact Cu].
Qed.

(* ---- keys / values / suffixes *)
Lemma in_tkeys t : forall k, In k (tkeys t) <-> exists v, tget t k = Ok v.
Proof.
  induction t as [|w c0 IH0 c1 IH1]; intros k.
  - cbn. rewrite tget_Empty. split; [tauto | intros [v H]; discriminate].
  - cbn [tkeys]. rewrite !in_app_iff, !in_map_iff. split.
    + intros [H|[(s & <- & H)|(s & <- & H)]].
      * destruct w as [a|]; [|destruct H]. destruct H as [<-|[]]. exists a. reflexivity.
      * rewrite tget_cons. apply IH0. exact H.
      * rewrite tget_cons. apply IH1. exact H.
    + intros [v H]. destruct k as [|x k].
      * left. destruct w as [a|]; [left; reflexivity | discriminate].
      * rewrite tget_cons in H. destruct x.
        -- right. right. exists k. split; [reflexivity|]. apply IH1. eauto.
        -- right. left. exists k. split; [reflexivity|]. apply IH0. eauto.
Qed.

Lemma NoDup_map_cons (x : bool) (l : list bits) : NoDup l -> NoDup (map (cons x) l).
Proof.
  induction 1 as [|a l N _ IH]; cbn; constructor; auto.
  rewrite in_map_iff. intros (b & E & Hb). injection E as ->. contradiction.
Qed.

Lemma NoDup_tkeys t : NoDup (tkeys t).
Proof.
  induction t as [|w c0 IH0 c1 IH1]; cbn [tkeys]; [constructor|].
  assert (N01 : NoDup (map (cons false) (tkeys c0) ++ map (cons true) (tkeys c1))).
  { apply NoDup_app_disj; try (apply NoDup_map_cons; assumption).
    intros x. rewrite !in_map_iff. intros (s & <- & _) (s' & E & _). discriminate. }
  destruct w as [a|]; [|exact N01]. cbn. constructor; [|exact N01].
  rewrite in_app_iff, !in_map_iff. intros [(s & E & _)|(s & E & _)]; discriminate.
Qed.

(* suffixes(p) lists, without repetition, exactly the s such that p + s is a stored key *)
Lemma in_suffixes t p s : In s (suffixes t p) <-> exists v, tget t (p ++ s) = Ok v.
Proof. unfold suffixes. rewrite in_tkeys, tget_app. reflexivity. Qed.

Lemma NoDup_suffixes t p : NoDup (suffixes t p).
Proof. apply NoDup_tkeys. Qed.

Lemma in_titems t k v : In (k, v) (titems t) <-> tget t k = Ok v.
Proof.
  unfold titems. rewrite in_flat_map. split.
  - intros (k' & Hk & H). destruct (tget t k') eqn:G; cbn in H; [|destruct H].
    destruct H as [E|[]]. injection E as <- <-. exact G.
  - intros G. exists k. split; [apply in_tkeys; eauto|]. rewrite G. left. reflexivity.
Qed.

Lemma mapM_app {B C} (f : B -> res C) l1 : forall l2 r1 r2,
  mapM f l1 = Ok r1 -> mapM f l2 = Ok r2 -> mapM f (l1 ++ l2) = Ok (r1 ++ r2).
Proof.
  induction l1 as [|x l1 IH]; intros l2 r1 r2 H1 H2; cbn in *.
  - injection H1 as <-. exact H2.
  - destruct (f x) as [y|]; cbn in *; [|discriminate].
    destruct (mapM f l1) as [ys|] eqn:M; cbn in *; [|discriminate].
    injection H1 as <-. rewrite (IH l2 ys r2 eq_refl H2). reflexivity.
Qed.

Lemma mapM_map {B B' C} (g : B' -> B) (f : B -> res C) l : mapM f (map g l) = mapM (fun x => f (g x)) l.
Proof. induction l as [|x l IH]; cbn; [reflexivity|]. rewrite IH. reflexivity. Qed.

Lemma mapM_ext {B C} (f g : B -> res C) l : (forall x, f x = g x) -> mapM f l = mapM g l.
Proof. intros E. induction l as [|x l IH]; cbn; [reflexivity|]. rewrite E, IH. reflexivity. Qed.

Lemma mapM_tget_tkeys t : mapM (tget t) (tkeys t) = Ok (tvalues t).
Proof.
  induction t as [|w c0 IH0 c1 IH1]; [reflexivity|]. cbn [tkeys tvalues].
  apply mapM_app; [destruct w; reflexivity|].
  apply mapM_app; rewrite mapM_map.
  - rewrite (mapM_ext _ (tget c0)); [exact IH0 | reflexivity].
  - rewrite (mapM_ext _ (tget c1)); [exact IH1 | reflexivity].
Qed.

(* the buckets visited for one level of closest_nodes: never a KeyError, exactly the values below key *)
Lemma under_ok t q : under t q = Ok (tvalues (tfind t q)).
Proof.
  unfold under, suffixes. rewrite (mapM_ext _ (tget (tfind t q))).
  - apply mapM_tget_tkeys.
  - intros s. apply tget_app.
Qed.

Lemma in_tvalues t v : In v (tvalues t) <-> exists k, tget t k = Ok v.
Proof.
  induction t as [|w c0 IH0 c1 IH1].
  - cbn. split; [tauto|]. intros [k H]. rewrite tget_Empty in H. discriminate.
  - cbn [tvalues]. rewrite !in_app_iff, IH0, IH1. split.
    + intros [H|[[k H]|[k H]]].
      * destruct w as [a|]; [|destruct H]. destruct H as [<-|[]]. exists []. reflexivity.
      * exists (false :: k). exact H.
      * exists (true :: k). exact H.
    + intros [[|x k] H].
      * left. destruct w as [a|]; [|discriminate]. injection H as <-. left. reflexivity.
      * rewrite tget_cons in H. destruct x; [right; right|right; left]; eauto.
Qed.

(* ---- tmap *)
Lemma tvalues_tmap f t : tvalues (tmap f t) = map f (tvalues t).
Proof.
  induction t as [|w c0 IH0 c1 IH1]; [reflexivity|]. cbn [tmap tvalues].
  rewrite IH0, IH1, !map_app. destruct w; reflexivity.
Qed.

End TrieFacts.
