(* Lemmas for C10: invariants of the request-cache model and the trace property `holds`. *)
From Coq Require Import ZArith List Bool Arith Lia.
From IPV8V Require Import lib.PyErr model.M10_reqcache spec.S10_reqcache.
Import ListNotations.
Open Scope Z_scope.

(* ------------------------------------------------------------------ association lists *)
Lemma key_eqb_eq a b : key_eqb a b = true <-> a = b.
Proof.
  destruct a as [a1 a2], b as [b1 b2]; unfold key_eqb; simpl. rewrite andb_true_iff, !Z.eqb_eq.
  split; [intros [-> ->]; reflexivity | intros H; inversion H; auto].
Qed.
Lemma key_eqb_refl a : key_eqb a a = true.
Proof. apply key_eqb_eq; reflexivity. Qed.
Lemma key_eqb_neq a b : key_eqb a b = false <-> a <> b.
Proof.
  split; intros H.
  - intros E. apply key_eqb_eq in E. congruence.
  - destruct (key_eqb a b) eqn:E; [apply key_eqb_eq in E; contradiction | reflexivity].
Qed.
Lemma key_eqb_sym a b : key_eqb a b = key_eqb b a.
Proof.
  destruct (key_eqb a b) eqn:E.
  - apply key_eqb_eq in E; subst. symmetry; apply key_eqb_refl.
  - symmetry. apply key_eqb_neq. apply key_eqb_neq in E. congruence.
Qed.

Lemma tbl_get_app t k c k' :
  tbl_get (t ++ [(k, c)]) k' =
  match tbl_get t k' with Some x => Some x | None => if key_eqb k k' then Some c else None end.
Proof.
  induction t as [|[k0 c0] t IH]; simpl; [reflexivity|].
  destruct (key_eqb k0 k'); [reflexivity | exact IH].
Qed.

Lemma tbl_get_del t k k' :
  tbl_get (tbl_del t k) k' = if key_eqb k k' then None else tbl_get t k'.
Proof.
  unfold tbl_del. induction t as [|[k0 c0] t IH]; simpl.
  - destruct (key_eqb k k'); reflexivity.
  - destruct (key_eqb k0 k) eqn:E0; simpl.
    + apply key_eqb_eq in E0; subst k0. rewrite IH. destruct (key_eqb k k'); reflexivity.
    + rewrite IH. destruct (key_eqb k0 k') eqn:E1; [|reflexivity].
      apply key_eqb_eq in E1; subst k0. rewrite key_eqb_sym, E0. reflexivity.
Qed.

Lemma tbl_get_In t k c : tbl_get t k = Some c -> In (k, c) t.
Proof.
  induction t as [|[k0 c0] t IH]; simpl; [discriminate|].
  destruct (key_eqb k0 k) eqn:E; intros H.
  - apply key_eqb_eq in E; inversion H; subst; auto.
  - auto.
Qed.

Lemma tbl_get_none_notin t k c : tbl_get t k = None -> ~ In (k, c) t.
Proof.
  induction t as [|[k0 c0] t IH]; simpl; [tauto|].
  destruct (key_eqb k0 k) eqn:E; [discriminate|]. intros H [H1|H1].
  - inversion H1; subst. rewrite key_eqb_refl in E. discriminate.
  - exact (IH H H1).
Qed.

Lemma In_tbl_del t k e : In e (tbl_del t k) <-> In e t /\ fst e <> k.
Proof.
  unfold tbl_del. rewrite filter_In, negb_true_iff, key_eqb_neq. tauto.
Qed.

Lemma tk_get_app l c x c' :
  tk_get (l ++ [(c, x)]) c' =
  match tk_get l c' with Some y => Some y | None => if Nat.eqb c c' then Some x else None end.
Proof.
  induction l as [|[c0 x0] l IH]; simpl; [reflexivity|].
  destruct (Nat.eqb c0 c'); [reflexivity | exact IH].
Qed.

Lemma tk_get_del l c c' :
  tk_get (tk_del l c) c' = if Nat.eqb c c' then None else tk_get l c'.
Proof.
  unfold tk_del. induction l as [|[c0 x0] l IH]; simpl.
  - destruct (Nat.eqb c c'); reflexivity.
  - destruct (Nat.eqb c0 c) eqn:E0; simpl.
    + apply Nat.eqb_eq in E0; subst c0. rewrite IH. destruct (Nat.eqb c c'); reflexivity.
    + rewrite IH. destruct (Nat.eqb c0 c') eqn:E1; [|reflexivity].
      apply Nat.eqb_eq in E1; subst c0. rewrite Nat.eqb_sym, E0. reflexivity.
Qed.

Lemma tk_get_map l f c :
  tk_get (map (fun e => (fst e, f (snd e))) l) c = option_map f (tk_get l c).
Proof.
  induction l as [|[c0 x0] l IH]; simpl; [reflexivity|].
  destruct (Nat.eqb c0 c); [reflexivity | exact IH].
Qed.

Lemma tk_get_In l c x : tk_get l c = Some x -> In (c, x) l.
Proof.
  induction l as [|[c0 x0] l IH]; simpl; [discriminate|].
  destruct (Nat.eqb c0 c) eqn:E; intros H.
  - apply Nat.eqb_eq in E; inversion H; subst; auto.
  - auto.
Qed.

Lemma nth_upd {A} (l : list A) i f j d :
  nth j (upd l i f) d = if Nat.eqb i j then (if Nat.ltb i (length l) then f (nth j l d) else nth j l d) else nth j l d.
Proof.
  revert i j. induction l as [|x l IH]; intros i j; simpl.
  - destruct (Nat.eqb i j); destruct j, i; reflexivity.
  - destruct i, j; simpl; try reflexivity.
    rewrite IH. change (S i <? S (length l))%nat with (i <? length l)%nat. reflexivity.
Qed.

Lemma length_upd {A} (l : list A) i f : length (upd l i f) = length l.
Proof. revert i; induction l as [|x l IH]; intros [|i]; simpl; auto. Qed.

(* ------------------------------------------------------------------ the invariant *)
Record inv (cfg : list cache) (s : st) : Prop := mkInv {
  inv_cons : forall k c, tbl_get (table s) k = Some c -> k = ckey cfg c;
  inv_vis : forall k c, In (k, c) (table s) -> tbl_get (table s) k = Some c;
  inv_task : forall c, tk_get (tasks s) c <> None <-> tbl_get (table s) (ckey cfg c) = Some c;
  inv_shut : shut s = true -> table s = [] /\ tasks s = [];
  inv_futlen : forall c, length (nth c (futs s) []) = length (c_futs (getc cfg c)) }.

Lemma inv_init cfg : inv cfg (init cfg).
Proof.
  constructor; simpl; try discriminate; try tauto.
  - intros c. split; intros H; [congruence | discriminate].
  - intros c. unfold init_futs, getc.
    change (@nil fstate) with ((fun k => map (fun _ : fspec => FPending) (c_futs k)) dflt_cache).
    rewrite map_nth. rewrite map_length. reflexivity.
Qed.

(* removing the entry of cache c (pop / timeout) keeps the invariant *)
Lemma inv_remove cfg s c :
  inv cfg s -> tbl_get (table s) (ckey cfg c) = Some c ->
  inv cfg (set_tasks (set_table s (tbl_del (table s) (ckey cfg c))) (tk_del (tasks s) c)).
Proof.
  intros I H. constructor; simpl.
  - intros k c0. rewrite tbl_get_del. destruct (key_eqb (ckey cfg c) k); [discriminate|]. apply (inv_cons _ _ I).
  - intros k c0 Hin. apply In_tbl_del in Hin as [Hin Hne]. simpl in Hne.
    rewrite tbl_get_del. destruct (key_eqb (ckey cfg c) k) eqn:E.
    + apply key_eqb_eq in E. congruence.
    + apply (inv_vis _ _ I); exact Hin.
  - intros x. rewrite tk_get_del, tbl_get_del.
    destruct (Nat.eqb c x) eqn:E.
    + apply Nat.eqb_eq in E; subst x. rewrite key_eqb_refl. split; congruence.
    + apply Nat.eqb_neq in E. destruct (key_eqb (ckey cfg c) (ckey cfg x)) eqn:E2.
      * apply key_eqb_eq in E2. split; [|discriminate]. intros Hx.
        apply (inv_task _ _ I) in Hx. rewrite <- E2 in Hx. congruence.
      * apply (inv_task _ _ I).
  - intros Hs. destruct (inv_shut _ _ I Hs) as [Ht _]. rewrite Ht in H. discriminate.
  - apply (inv_futlen _ _ I).
Qed.

Lemma inv_futs_upd cfg s c f :
  inv cfg s -> (forall l, length (f l) = length l) -> inv cfg (set_futs s (upd (futs s) c f)).
Proof.
  intros I Hf. constructor; simpl; try apply I.
  intros x. rewrite nth_upd. destruct (Nat.eqb c x) eqn:E; [|apply I].
  apply Nat.eqb_eq in E; subst x. destruct (c <? length (futs s))%nat; [rewrite Hf|]; apply I.
Qed.

Lemma inv_same_tables cfg s s' :
  inv cfg s -> table s' = table s -> tasks s' = tasks s -> futs s' = futs s -> shut s' = shut s -> inv cfg s'.
Proof.
  intros I Ht Hk Hf Hs. constructor; rewrite ?Ht, ?Hk, ?Hf, ?Hs; apply I.
Qed.

Lemma inv_cleared cfg s sh o f :
  inv cfg s -> inv cfg (mkSt [] [] (futs s) (now s) sh o f).
Proof.
  intros I. constructor; simpl; try discriminate; try tauto; try apply I.
  intros c; split; intros H; [congruence | discriminate].
Qed.

Lemma step_b_inv cfg s b : inv cfg s -> inv cfg (fst (step_b cfg s b)).
Proof.
  intros I. destruct b; simpl; try exact I.
  - (* BAdd *)
    destruct (c_delay (getc cfg c) <=? 0); [exact I|].
    destruct (shut s) eqn:Hs; simpl.
    + apply inv_futs_upd; [exact I | intros l; apply map_length].
    + destruct (tbl_get (table s) (ckey cfg c)) eqn:Hg; [exact I|].
      destruct (tk_get (tasks s) c) eqn:Hk; simpl.
      * exfalso. assert (Hn : tk_get (tasks s) c <> None) by congruence.
        apply (inv_task _ _ I) in Hn. congruence.
      * constructor; simpl.
        -- intros k c0. rewrite tbl_get_app. destruct (tbl_get (table s) k) eqn:E.
           ++ intros H; inversion H; subst. apply (inv_cons _ _ I); exact E.
           ++ destruct (key_eqb (ckey cfg c) k) eqn:E2; [|discriminate].
              intros H; inversion H; subst. apply key_eqb_eq in E2. congruence.
        -- intros k c0 Hin. rewrite tbl_get_app. apply in_app_or in Hin as [Hin|Hin].
           ++ rewrite (inv_vis _ _ I _ _ Hin). reflexivity.
           ++ destruct Hin as [Hin|[]]. inversion Hin; subst. rewrite Hg, key_eqb_refl. reflexivity.
        -- intros x. rewrite tk_get_app, tbl_get_app.
           destruct (Nat.eqb c x) eqn:E.
           ++ apply Nat.eqb_eq in E; subst x. rewrite Hk, Hg, key_eqb_refl. split; congruence.
           ++ apply Nat.eqb_neq in E.
              destruct (tk_get (tasks s) x) eqn:Ex.
              ** assert (Hn : tk_get (tasks s) x <> None) by congruence.
                 apply (inv_task _ _ I) in Hn. rewrite Hn. split; congruence.
              ** destruct (tbl_get (table s) (ckey cfg x)) eqn:Et.
                 --- split; [congruence|]. intros Hx. inversion Hx; subst.
                     assert (Hn : tk_get (tasks s) x <> None) by (apply (inv_task _ _ I); exact Et). congruence.
                 --- destruct (key_eqb (ckey cfg c) (ckey cfg x)); split; congruence.
        -- intros H; congruence.
        -- apply I.
  - (* BPop *)
    destruct (tbl_get (table s) (p, n)) eqn:Hg; [|exact I]. simpl.
    rewrite (inv_cons _ _ I _ _ Hg). apply inv_remove; [exact I|].
    rewrite <- (inv_cons _ _ I _ _ Hg). exact Hg.
  - (* BRetr *)
    destruct (tbl_get (table s) (p, n)) eqn:Hg; [|exact I]. simpl.
    rewrite (inv_cons _ _ I _ _ Hg). apply inv_remove; [exact I|].
    rewrite <- (inv_cons _ _ I _ _ Hg). exact Hg.
  - (* BClear *)
    apply (inv_cleared cfg s (shut s) (ovr s) (filt s)) in I as I2.
    exact I2.
  - (* BSetFut *)
    apply inv_futs_upd; [exact I|]. intros l. apply length_upd.
  - eapply inv_same_tables; [exact I| | | |]; reflexivity.
  - eapply inv_same_tables; [exact I| | | |]; reflexivity.
Qed.

Lemma run_b_inv cfg bs : forall s, inv cfg s -> inv cfg (fst (run_b cfg s bs)).
Proof.
  induction bs as [|b bs IH]; intros s I; simpl; [exact I|].
  destruct (step_b cfg s b) as [s1 o1] eqn:E1.
  destruct (run_b cfg s1 bs) as [s2 o2] eqn:E2. simpl.
  assert (I1 : inv cfg s1) by (pose proof (step_b_inv cfg s b I) as H; rewrite E1 in H; exact H).
  specialize (IH s1 I1). rewrite E2 in IH. exact IH.
Qed.

Lemma timeout_futl_length sps fl : length (timeout_futl sps fl) = length fl.
Proof. revert fl; induction sps as [|sp sps IH]; intros [|f fl]; simpl; auto. Qed.

Lemma fire_inv cfg s c : inv cfg s -> inv cfg (fst (fire cfg s c)).
Proof.
  intros I. unfold fire. destruct (tk_get (tasks s) c) as [[| | |]|] eqn:Hk; try exact I.
  assert (Hg : tbl_get (table s) (ckey cfg c) = Some c) by (apply (inv_task _ _ I); congruence).
  pose proof (inv_remove cfg s c I Hg) as I1.
  destruct (run_b cfg _ (c_script (getc cfg c))) as [s2 o2] eqn:E2. simpl.
  assert (I2 : inv cfg s2) by (pose proof (run_b_inv cfg (c_script (getc cfg c)) _ I1) as H; rewrite E2 in H; exact H).
  apply inv_futs_upd; [exact I2 | intros l; apply timeout_futl_length].
Qed.

Lemma fold_cancel_futs_inv cfg cs : forall s,
  inv cfg s -> inv cfg (set_futs s (fold_left cancel_futs cs (futs s))).
Proof.
  induction cs as [|c cs IH]; intros s I; simpl.
  - eapply inv_same_tables; [exact I| | | |]; reflexivity.
  - pose proof (inv_futs_upd cfg s c (map cancel_fut) I (fun l => map_length _ l)) as I1.
    specialize (IH _ I1). simpl in IH. exact IH.
Qed.

Lemma step_inv cfg s o : inv cfg s -> inv cfg (fst (step cfg s o)).
Proof.
  intros I. destruct o; simpl; try exact I.
  - apply step_b_inv; exact I.
  - eapply inv_same_tables; [exact I| | | |]; reflexivity.
  - (* IterBegin *)
    constructor; simpl; try apply I.
    + intros c. rewrite tk_get_map. rewrite <- (inv_task _ _ I c).
      destruct (tk_get (tasks s) c); simpl; split; congruence.
    + intros Hs. destruct (inv_shut _ _ I Hs) as [H1 H2]. rewrite H2. auto.
  - apply fire_inv; exact I.
  - (* Shutdown *)
    pose proof (fold_cancel_futs_inv cfg (map snd (table s)) s I) as I1.
    apply (inv_cleared cfg _ true (ovr s) (filt s)) in I1. simpl in I1.
    exact I1.
Qed.

Lemma run_inv cfg ops : forall s, inv cfg s -> inv cfg (fst (run cfg s ops)).
Proof.
  induction ops as [|o ops IH]; intros s I; simpl; [exact I|].
  destruct (step cfg s o) as [s1 o1] eqn:E1.
  destruct (run cfg s1 ops) as [s2 o2] eqn:E2. simpl.
  assert (I1 : inv cfg s1) by (pose proof (step_inv cfg s o I) as H; rewrite E1 in H; exact H).
  specialize (IH s1 I1). rewrite E2 in IH. exact IH.
Qed.

Definition reachable (cfg : list cache) (s : st) : Prop := exists ops, fst (run cfg (init cfg) ops) = s.

Lemma reachable_inv cfg s : reachable cfg s -> inv cfg s.
Proof. intros [ops <-]. apply run_inv, inv_init. Qed.

Lemma run_app cfg a : forall s b,
  run cfg s (a ++ b) =
  (fst (run cfg (fst (run cfg s a)) b), snd (run cfg s a) ++ snd (run cfg (fst (run cfg s a)) b)).
Proof.
  induction a as [|o a IH]; intros s b; simpl.
  - destruct (run cfg s b); reflexivity.
  - destruct (step cfg s o) as [s1 o1]. rewrite IH.
    destruct (run cfg s1 a) as [s2 o2]. simpl.
    destruct (run cfg s2 b) as [s3 o3]. simpl. rewrite app_assoc. reflexivity.
Qed.

Lemma reachable_run cfg s ops : reachable cfg s -> reachable cfg (fst (run cfg s ops)).
Proof. intros [o1 <-]. exists (o1 ++ ops). rewrite run_app. reflexivity. Qed.

(* ------------------------------------------------------------------ the trace property *)
Definition R (cfg : list cache) (s : st) (out : list nat) : Prop :=
  forall c, In c out <-> tbl_get (table s) (ckey cfg c) = Some c.

Lemma memn_In c l : memn c l = true <-> In c l.
Proof.
  unfold memn. rewrite existsb_exists. split.
  - intros [x [Hx E]]. apply Nat.eqb_eq in E; subst; exact Hx.
  - intros H. exists c. split; [exact H | apply Nat.eqb_refl].
Qed.

Lemma In_deln x c l : In x (deln c l) <-> In x l /\ x <> c.
Proof. unfold deln. rewrite filter_In, negb_true_iff, Nat.eqb_neq. tauto. Qed.

Lemma events_app a b : events (a ++ b) = events a ++ events b.
Proof. unfold events. apply flat_map_app. Qed.

Lemma R_same cfg s s' out : table s' = table s -> R cfg s out -> R cfg s' out.
Proof. intros Ht H c. rewrite Ht. apply H. Qed.

Lemma R_remove cfg s c out :
  inv cfg s -> tbl_get (table s) (ckey cfg c) = Some c -> R cfg s out ->
  R cfg (set_tasks (set_table s (tbl_del (table s) (ckey cfg c))) (tk_del (tasks s) c)) (deln c out).
Proof.
  intros I Hg HR x. simpl. rewrite In_deln, tbl_get_del, (HR x).
  destruct (key_eqb (ckey cfg c) (ckey cfg x)) eqn:E.
  - apply key_eqb_eq in E. split; [|discriminate]. intros [Hx Hne]. rewrite <- E in Hx. congruence.
  - split; [tauto|]. intros Hx. split; [exact Hx|]. intros ->. rewrite key_eqb_refl in E. discriminate.
Qed.

Lemma R_memn cfg s c out : R cfg s out -> tbl_get (table s) (ckey cfg c) = Some c -> memn c out = true.
Proof. intros HR H. apply memn_In, HR, H. Qed.

Lemma step_b_shut cfg s b : shut (fst (step_b cfg s b)) = shut s.
Proof.
  destruct b; simpl; try reflexivity.
  - destruct (c_delay (getc cfg c) <=? 0); [reflexivity|].
    destruct (shut s) eqn:Hs; [simpl; exact Hs|].
    destruct (tbl_get (table s) (ckey cfg c)); [simpl; exact Hs|].
    destruct (tk_get (tasks s) c); simpl; exact Hs.
  - destruct (tbl_get (table s) (p, n)); reflexivity.
  - destruct (tbl_get (table s) (p, n)); reflexivity.
Qed.

Lemma step_b_holds cfg s b out rest :
  inv cfg s -> R cfg s out ->
  (forall out', R cfg (fst (step_b cfg s b)) out' -> holds cfg out' (shut s) rest = true) ->
  holds cfg out (shut s) (events (snd (step_b cfg s b)) ++ rest) = true.
Proof.
  intros I HR K. destruct b; simpl in *;
    try (apply K; exact HR).
  - (* BAdd *)
    destruct (c_delay (getc cfg c) <=? 0); [apply K; exact HR|].
    destruct (shut s) eqn:Hs; [apply K; simpl; exact HR|].
    destruct (tbl_get (table s) (ckey cfg c)) eqn:Hg; [apply K; exact HR|].
    destruct (tk_get (tasks s) c) eqn:Hk.
    + exfalso. assert (Hn : tk_get (tasks s) c <> None) by congruence.
      apply (inv_task _ _ I) in Hn. congruence.
    + simpl in *. rewrite K.
      * rewrite andb_true_r. apply negb_true_iff.
        destruct (existsb _ out) eqn:Ex; [|reflexivity]. exfalso.
        apply existsb_exists in Ex as [c' [Hin E]]. apply key_eqb_eq in E.
        apply HR in Hin. rewrite E in Hin. congruence.
      * intros x. simpl. rewrite in_app_iff, tbl_get_app, (HR x). simpl.
        destruct (tbl_get (table s) (ckey cfg x)) eqn:Ex.
        -- split; [intros [H|[H|[]]]; [exact H|] | tauto].
           subst x. congruence.
        -- destruct (key_eqb (ckey cfg c) (ckey cfg x)) eqn:E2.
           ++ split; [intros [H|[H|[]]]; congruence | intros H; right; left; congruence].
           ++ split; [intros [H|[H|[]]]; [discriminate|] | discriminate].
              subst x. rewrite key_eqb_refl in E2. discriminate.
  - (* BPop *)
    destruct (tbl_get (table s) (p, n)) eqn:Hg; [|apply K; exact HR]. simpl in *.
    pose proof (inv_cons _ _ I _ _ Hg) as Hk. rewrite Hk in Hg.
    rewrite (R_memn _ _ _ _ HR Hg). simpl. apply K. rewrite Hk. apply R_remove; assumption.
  - (* BRetr *)
    destruct (tbl_get (table s) (p, n)) eqn:Hg; [|apply K; exact HR]. simpl in *.
    pose proof (inv_cons _ _ I _ _ Hg) as Hk. rewrite Hk in Hg.
    rewrite (R_memn _ _ _ _ HR Hg). simpl. apply K. rewrite Hk. apply R_remove; assumption.
  - (* BClear *)
    rewrite K.
    + rewrite andb_true_r. apply forallb_forall. intros c Hc.
      apply in_map_iff in Hc as [[k c'] [E Hin]]. simpl in E; subst c'.
      apply memn_In, HR. pose proof (inv_vis _ _ I _ _ Hin) as Hg.
      rewrite <- (inv_cons _ _ I _ _ Hg). exact Hg.
    + intros x. simpl. split; [|discriminate]. intros Hx. exfalso.
      apply filter_In in Hx as [Hx Hn]. apply negb_true_iff in Hn.
      apply HR in Hx. apply tbl_get_In in Hx.
      assert (Hm : memn x (map snd (table s)) = true).
      { apply memn_In. apply in_map_iff. exists (ckey cfg x, x). auto. }
      congruence.
Qed.

Lemma run_b_shut cfg bs : forall s, shut (fst (run_b cfg s bs)) = shut s.
Proof.
  induction bs as [|b bs IH]; intros s; simpl; [reflexivity|].
  pose proof (step_b_shut cfg s b) as H1.
  destruct (step_b cfg s b) as [s1 o1]. specialize (IH s1).
  destruct (run_b cfg s1 bs) as [s2 o2]. simpl in *. congruence.
Qed.

Lemma run_b_holds cfg bs : forall s out rest,
  inv cfg s -> R cfg s out ->
  (forall out', R cfg (fst (run_b cfg s bs)) out' -> holds cfg out' (shut s) rest = true) ->
  holds cfg out (shut s) (events (snd (run_b cfg s bs)) ++ rest) = true.
Proof.
  induction bs as [|b bs IH]; intros s out rest I HR K; simpl in *.
  - apply K; exact HR.
  - pose proof (step_b_holds cfg s b out) as Hb.
    pose proof (step_b_inv cfg s b I) as I1.
    pose proof (step_b_shut cfg s b) as Hs1.
    destruct (step_b cfg s b) as [s1 o1]. simpl in *.
    specialize (IH s1).
    destruct (run_b cfg s1 bs) as [s2 o2]. simpl in *.
    rewrite events_app, <- app_assoc. apply Hb; [exact I | exact HR|].
    intros out' HR'. rewrite <- Hs1. apply IH; [exact I1 | exact HR'|].
    rewrite Hs1. exact K.
Qed.

Lemma fire_shut cfg s c : shut (fst (fire cfg s c)) = shut s.
Proof.
  unfold fire. destruct (tk_get (tasks s) c) as [[| | |]|]; try reflexivity.
  pose proof (run_b_shut cfg (c_script (getc cfg c))
    (set_tasks (set_table s (tbl_del (table s) (ckey cfg c))) (tk_del (tasks s) c))) as H.
  destruct (run_b cfg _ (c_script (getc cfg c))) as [s2 o2]. simpl in *. exact H.
Qed.

Lemma fire_holds cfg s c out rest :
  inv cfg s -> R cfg s out ->
  (forall out', R cfg (fst (fire cfg s c)) out' -> holds cfg out' (shut s) rest = true) ->
  holds cfg out (shut s) (events (snd (fire cfg s c)) ++ rest) = true.
Proof.
  intros I HR K. unfold fire in *.
  destruct (tk_get (tasks s) c) as [[| | |]|] eqn:Hk; try (apply K; exact HR).
  assert (Hg : tbl_get (table s) (ckey cfg c) = Some c) by (apply (inv_task _ _ I); congruence).
  assert (Hs : shut s = false).
  { destruct (shut s) eqn:Hs; [|reflexivity]. destruct (inv_shut _ _ I Hs) as [_ Ht].
    rewrite Ht in Hk. discriminate. }
  pose proof (inv_remove cfg s c I Hg) as I1.
  pose proof (R_remove cfg s c out I Hg HR) as HR1.
  pose proof (run_b_holds cfg (c_script (getc cfg c)) _ (deln c out) rest I1 HR1) as Hb.
  destruct (run_b cfg _ (c_script (getc cfg c))) as [s2 o2]. simpl in *.
  rewrite events_app. simpl. rewrite app_nil_r.
  rewrite Hs in *. simpl. rewrite (R_memn _ _ _ _ HR Hg). simpl.
  apply Hb. intros out' HR'. apply K. exact HR'.
Qed.

Lemma step_holds cfg s o out rest :
  inv cfg s -> R cfg s out ->
  (forall out', R cfg (fst (step cfg s o)) out' -> holds cfg out' (shut (fst (step cfg s o))) rest = true) ->
  holds cfg out (shut s) (events (snd (step cfg s o)) ++ rest) = true.
Proof.
  intros I HR K. destruct o; simpl in *; try (apply K; exact HR).
  - apply step_b_holds; [exact I | exact HR|]. intros out' H. rewrite <- (step_b_shut cfg s b). apply K; exact H.
  - apply fire_holds; [exact I | exact HR|]. intros out' H. rewrite <- (fire_shut cfg s c). apply K; exact H.
  - (* Shutdown *)
    assert (Hall : forallb (fun c => memn c out) (map snd (table s)) = true).
    { apply forallb_forall. intros c Hc.
      apply in_map_iff in Hc as [[k c'] [E Hin]]. simpl in E; subst c'.
      apply memn_In, HR. pose proof (inv_vis _ _ I _ _ Hin) as Hg.
      rewrite <- (inv_cons _ _ I _ _ Hg). exact Hg. }
    rewrite Hall. simpl.
    assert (Hnil : filter (fun x => negb (memn x (map snd (table s)))) out = []).
    { destruct (filter _ out) as [|x l] eqn:E; [reflexivity|]. exfalso.
      assert (Hx : In x (filter (fun x => negb (memn x (map snd (table s)))) out)) by (rewrite E; left; reflexivity).
      apply filter_In in Hx as [Hx Hn]. apply negb_true_iff in Hn.
      apply HR in Hx. apply tbl_get_In in Hx.
      assert (Hm : memn x (map snd (table s)) = true).
      { apply memn_In. apply in_map_iff. exists (ckey cfg x, x). auto. }
      congruence. }
    rewrite Hnil. apply K. intros c. simpl. split; [intros [] | discriminate].
Qed.

Lemma run_holds cfg ops : forall s out,
  inv cfg s -> R cfg s out -> holds cfg out (shut s) (events (snd (run cfg s ops))) = true.
Proof.
  induction ops as [|o ops IH]; intros s out I HR; simpl; [reflexivity|].
  pose proof (step_holds cfg s o out) as Hs.
  pose proof (step_inv cfg s o I) as I1.
  destruct (step cfg s o) as [s1 o1]. simpl in *.
  specialize (IH s1).
  destruct (run cfg s1 ops) as [s2 o2]. simpl in *.
  rewrite events_app. apply Hs; [exact I | exact HR|].
  intros out' HR'. apply IH; assumption.
Qed.

Lemma holds_all_runs cfg ops :
  holds cfg [] false (events (snd (run cfg (init cfg) ops))) = true.
Proof.
  apply (run_holds cfg ops (init cfg) []); [apply inv_init|].
  intros c. simpl. split; [intros [] | discriminate].
Qed.

(* ------------------------------------------------------------------ consequences of `holds` on any event list *)
Lemma memn_app c a b : memn c (a ++ b) = memn c a || memn c b.
Proof. unfold memn. apply existsb_app. Qed.

Lemma memn_deln c c' l : memn c (deln c' l) = if Nat.eqb c c' then false else memn c l.
Proof.
  destruct (Nat.eqb c c') eqn:E.
  - apply Nat.eqb_eq in E; subst. destruct (memn c' (deln c' l)) eqn:M; [|reflexivity].
    apply memn_In, In_deln in M. destruct M as [_ M]. congruence.
  - apply Nat.eqb_neq in E. destruct (memn c l) eqn:M.
    + apply memn_In. apply In_deln. split; [apply memn_In; exact M | exact E].
    + destruct (memn c (deln c' l)) eqn:M2; [|reflexivity].
      apply memn_In, In_deln in M2. destruct M2 as [M2 _]. apply memn_In in M2. congruence.
Qed.

Lemma memn_filter_not c cs l :
  memn c (filter (fun x => negb (memn x cs)) l) = if memn c cs then false else memn c l.
Proof.
  destruct (memn c cs) eqn:E.
  - destruct (memn c (filter _ l)) eqn:M; [|reflexivity].
    apply memn_In, filter_In in M. destruct M as [_ M]. rewrite E in M. discriminate.
  - destruct (memn c l) eqn:M.
    + apply memn_In, filter_In. split; [apply memn_In; exact M | rewrite E; reflexivity].
    + destruct (memn c (filter _ l)) eqn:M2; [|reflexivity].
      apply memn_In, filter_In in M2. destruct M2 as [M2 _]. apply memn_In in M2. congruence.
Qed.

Lemma holds_counts cfg c l : forall out sh,
  holds cfg out sh l = true ->
  (n_res c l <= n_add c l + (if memn c out then 1 else 0)
   /\ n_add c l + (if memn c out then 1 else 0) <= n_res c l + 1)%nat.
Proof.
  induction l as [|e l IH]; intros out sh H; simpl in *.
  - destruct (memn c out); lia.
  - destruct e as [c'|c'|c'|cs|].
    + apply andb_true_iff in H as [H H3]. apply andb_true_iff in H as [H1 H2].
      specialize (IH _ _ H3). rewrite memn_app in IH. simpl in IH. rewrite orb_false_r in IH.
      destruct (Nat.eqb c' c) eqn:E.
      * apply Nat.eqb_eq in E; subst c'. rewrite Nat.eqb_refl in IH.
        assert (M : memn c out = false).
        { destruct (memn c out) eqn:M; [|reflexivity]. apply memn_In in M.
          apply negb_true_iff in H2. exfalso.
          assert (X : existsb (fun c' => key_eqb (ckey cfg c') (ckey cfg c)) out = true).
          { apply existsb_exists. exists c. split; [exact M | apply key_eqb_refl]. }
          congruence. }
        rewrite M in *. rewrite orb_true_r in IH. lia.
      * rewrite Nat.eqb_sym, E, orb_false_r in IH. lia.
    + apply andb_true_iff in H as [H1 H2]. specialize (IH _ _ H2). rewrite memn_deln in IH.
      destruct (Nat.eqb c' c) eqn:E.
      * apply Nat.eqb_eq in E; subst c'. rewrite Nat.eqb_refl in IH. rewrite H1. lia.
      * rewrite Nat.eqb_sym, E in IH. lia.
    + apply andb_true_iff in H as [H H2]. apply andb_true_iff in H as [H0 H1].
      specialize (IH _ _ H2). rewrite memn_deln in IH.
      destruct (Nat.eqb c' c) eqn:E.
      * apply Nat.eqb_eq in E; subst c'. rewrite Nat.eqb_refl in IH. rewrite H1. lia.
      * rewrite Nat.eqb_sym, E in IH. lia.
    + apply andb_true_iff in H as [H1 H2]. specialize (IH _ _ H2). rewrite memn_filter_not in IH.
      destruct (memn c cs) eqn:E.
      * assert (M : memn c out = true).
        { rewrite forallb_forall in H1. apply H1. apply memn_In; exact E. }
        rewrite M. lia.
      * lia.
    + destruct out; [|discriminate]. specialize (IH _ _ H). simpl in *. exact IH.
Qed.

Lemma holds_suffix cfg l1 : forall out sh l,
  holds cfg out sh (l1 ++ l) = true -> exists out' sh', holds cfg out' sh' l = true.
Proof.
  induction l1 as [|e l1 IH]; intros out sh l H; simpl in *; [eauto|].
  destruct e.
  - apply andb_true_iff in H as [_ H]. eapply IH; exact H.
  - apply andb_true_iff in H as [_ H]. eapply IH; exact H.
  - apply andb_true_iff in H as [_ H]. eapply IH; exact H.
  - apply andb_true_iff in H as [_ H]. eapply IH; exact H.
  - destruct out; [|discriminate]. eapply IH; exact H.
Qed.

Lemma holds_needs_add cfg c y l3 l2 : forall out sh,
  holds cfg out sh (l2 ++ y :: l3) = true -> memn c out = false -> is_res c y -> In (EAdded c) l2.
Proof.
  induction l2 as [|e l2 IH]; intros out sh H M Hy; simpl in *.
  - exfalso. destruct Hy; subst y; rewrite M in H; simpl in H.
    + discriminate.
    + rewrite andb_false_r in H. discriminate.
  - destruct e as [c'|c'|c'|cs|].
    + destruct (Nat.eqb c' c) eqn:E; [apply Nat.eqb_eq in E; subst; auto|].
      right. apply andb_true_iff in H as [_ H]. eapply IH; [exact H| |exact Hy].
      rewrite memn_app, M. simpl. rewrite Nat.eqb_sym, E. reflexivity.
    + right. apply andb_true_iff in H as [_ H]. eapply IH; [exact H| |exact Hy].
      rewrite memn_deln, M. destruct (Nat.eqb c c'); reflexivity.
    + right. apply andb_true_iff in H as [_ H]. eapply IH; [exact H| |exact Hy].
      rewrite memn_deln, M. destruct (Nat.eqb c c'); reflexivity.
    + right. apply andb_true_iff in H as [_ H]. eapply IH; [exact H| |exact Hy].
      rewrite memn_filter_not, M. destruct (memn c cs); reflexivity.
    + right. destruct out; [|discriminate]. eapply IH; [exact H|reflexivity|exact Hy].
Qed.

Lemma holds_one_resolution_per_add cfg c x y l1 l2 l3 out sh :
  holds cfg out sh (l1 ++ x :: l2 ++ y :: l3) = true -> is_res c x -> is_res c y -> In (EAdded c) l2.
Proof.
  intros H Hx Hy. apply holds_suffix in H as [out' [sh' H]].
  destruct Hx; subst x; simpl in H.
  - apply andb_true_iff in H as [_ H]. eapply holds_needs_add; [exact H| |exact Hy].
    rewrite memn_deln, Nat.eqb_refl. reflexivity.
  - apply andb_true_iff in H as [_ H]. eapply holds_needs_add; [exact H| |exact Hy].
    rewrite memn_deln, Nat.eqb_refl. reflexivity.
Qed.

Lemma holds_after_shutdown cfg l : forall out,
  holds cfg out true l = true -> forall c, ~ In (EAdded c) l /\ ~ In (ETimeout c) l.
Proof.
  induction l as [|e l IH]; intros out H c; simpl in *; [tauto|].
  destruct e as [c'|c'|c'|cs|]; simpl in H; try discriminate.
  - apply andb_true_iff in H as [_ H]. destruct (IH _ H c) as [A B].
    split; intros [X|X]; try discriminate; tauto.
  - apply andb_true_iff in H as [_ H]. destruct (IH _ H c) as [A B].
    split; intros [X|X]; try discriminate; tauto.
  - destruct out; [|discriminate]. destruct (IH _ H c) as [A B].
    split; intros [X|X]; try discriminate; tauto.
Qed.

(* ------------------------------------------------------------------ theorems over all runs *)
Lemma resolution_counts_l cfg ops c :
  let l := events (snd (run cfg (init cfg) ops)) in
  (n_res c l <= n_add c l /\ n_add c l <= n_res c l + 1)%nat.
Proof.
  intros l. pose proof (holds_counts cfg c l [] false (holds_all_runs cfg ops)) as H.
  simpl in H. lia.
Qed.

Lemma one_resolution_per_add_l cfg ops c x y l1 l2 l3 :
  events (snd (run cfg (init cfg) ops)) = l1 ++ x :: l2 ++ y :: l3 ->
  is_res c x -> is_res c y -> In (EAdded c) l2.
Proof.
  intros E. pose proof (holds_all_runs cfg ops) as H. rewrite E in H.
  eapply holds_one_resolution_per_add; exact H.
Qed.

Lemma pop_disables_timeout_l cfg ops c l1 l2 l3 :
  events (snd (run cfg (init cfg) ops)) = l1 ++ EPopped c :: l2 ++ ETimeout c :: l3 -> In (EAdded c) l2.
Proof. intros E. eapply one_resolution_per_add_l; [exact E | left; reflexivity | right; reflexivity]. Qed.

Lemma timeout_disables_pop_l cfg ops c l1 l2 l3 :
  events (snd (run cfg (init cfg) ops)) = l1 ++ ETimeout c :: l2 ++ EPopped c :: l3 -> In (EAdded c) l2.
Proof. intros E. eapply one_resolution_per_add_l; [exact E | right; reflexivity | left; reflexivity]. Qed.

Lemma timeout_once_l cfg ops c l1 l2 l3 :
  events (snd (run cfg (init cfg) ops)) = l1 ++ ETimeout c :: l2 ++ ETimeout c :: l3 -> In (EAdded c) l2.
Proof. intros E. eapply one_resolution_per_add_l; [exact E | right; reflexivity | right; reflexivity]. Qed.

Lemma timer_iff_outstanding_l cfg ops c :
  let s := fst (run cfg (init cfg) ops) in
  tk_get (tasks s) c <> None <-> tbl_get (table s) (ckey cfg c) = Some c.
Proof. intros s. apply (inv_task cfg s). apply run_inv, inv_init. Qed.

(* a pop / timeout event is the only way a pop returns a cache; KeyError exactly when the identity is free *)
Lemma pop_keyerror_iff_l cfg s p n :
  snd (step_b cfg s (BPop p n)) = [OPop p n (Raise KeyError)] <-> tbl_get (table s) (p, n) = None.
Proof.
  simpl. destruct (tbl_get (table s) (p, n)); simpl; split; intros H; try reflexivity; try discriminate.
Qed.

(* after a timeout whose callback does nothing, the identity is free: a late response finds nothing *)
Lemma timeout_then_pop_keyerror_l cfg ops c :
  let s := fst (run cfg (init cfg) ops) in
  tk_get (tasks s) c = Some TReady -> c_script (getc cfg c) = [] ->
  let s' := fst (fire cfg s c) in
  In (OTimeout c) (snd (fire cfg s c)) /\
  snd (step_b cfg s' (BPop (fst (ckey cfg c)) (snd (ckey cfg c))))
  = [OPop (fst (ckey cfg c)) (snd (ckey cfg c)) (Raise KeyError)] /\
  snd (fire cfg s' c) = [ORefused c].
Proof.
  intros s Hk Hsc. unfold fire. rewrite Hk, Hsc. simpl. split; [auto|]. split.
  - replace (fst (ckey cfg c), snd (ckey cfg c)) with (ckey cfg c) by (destruct (ckey cfg c); reflexivity).
    rewrite tbl_get_del, key_eqb_refl. reflexivity.
  - rewrite tk_get_del, Nat.eqb_refl. reflexivity.
Qed.

Lemma pop_cancels_timer_l cfg ops p n c :
  let s := fst (run cfg (init cfg) ops) in
  tbl_get (table s) (p, n) = Some c ->
  let s' := fst (step_b cfg s (BPop p n)) in
  snd (step_b cfg s (BPop p n)) = [OPop p n (Ok c)] /\ tk_get (tasks s') c = None /\
  snd (fire cfg s' c) = [ORefused c].
Proof.
  intros s Hg. simpl. rewrite Hg. simpl. split; [reflexivity|].
  assert (E : tk_get (tk_del (tasks s) c) c = None) by (rewrite tk_get_del, Nat.eqb_refl; reflexivity).
  split; [exact E|]. unfold fire. simpl. rewrite E. reflexivity.
Qed.

(* identity exclusivity *)
Lemma add_duplicate_refused_l cfg s c c0 :
  tbl_get (table s) (ckey cfg c) = Some c0 -> shut s = false -> 0 < c_delay (getc cfg c) ->
  step_b cfg s (BAdd c) = (s, [OAdd c ADup]).
Proof.
  intros Hg Hs Hd. simpl. destruct (c_delay (getc cfg c) <=? 0) eqn:E; [apply Z.leb_le in E; lia|].
  rewrite Hs, Hg. reflexivity.
Qed.

Lemma constructor_guard_l cfg s p n :
  snd (step_b cfg s (BNew p n)) = [ONew p n true] <-> tbl_get (table s) (p, n) <> None.
Proof.
  simpl. destruct (tbl_get (table s) (p, n)); split; intros H; try reflexivity; try congruence; discriminate.
Qed.

Lemma find_unclaimed_free_l t p draws n :
  first_unclaimed t p draws = Ok n -> tbl_get t (p, n) = None /\ In n draws.
Proof.
  induction draws as [|d r IH]; simpl; [discriminate|].
  destruct (tbl_get t (p, d)) eqn:E.
  - intros H. destruct (IH H). auto.
  - intros H; inversion H; subst. auto.
Qed.

Lemma add_never_task_exists_l cfg ops c :
  let s := fst (run cfg (init cfg) ops) in
  snd (step_b cfg s (BAdd c)) <> [OAdd c (ARaise RuntimeError)].
Proof.
  intros s. assert (I : inv cfg s) by (apply run_inv, inv_init). simpl.
  destruct (c_delay (getc cfg c) <=? 0); [simpl; congruence|].
  destruct (shut s); [simpl; congruence|].
  destruct (tbl_get (table s) (ckey cfg c)) eqn:Hg; [simpl; congruence|].
  destruct (tk_get (tasks s) c) eqn:Hk; [|simpl; congruence].
  exfalso. assert (Hn : tk_get (tasks s) c <> None) by congruence.
  apply (inv_task _ _ I) in Hn. congruence.
Qed.

(* ------------------------------------------------------------------ futures *)
Lemma timeout_futl_done sps : forall fl,
  length fl = length sps -> Forall not_pending (timeout_futl sps fl).
Proof.
  induction sps as [|sp sps IH]; intros [|f fl] H; simpl in *; try discriminate; constructor.
  - unfold not_pending. destruct f, sp; simpl; discriminate.
  - apply IH. lia.
Qed.

Lemma timeout_futl_nth sps : forall fl k sp f,
  nth_error sps k = Some sp -> nth_error fl k = Some f ->
  nth_error (timeout_futl sps fl) k = Some (match f with FPending => configured sp | x => x end).
Proof.
  induction sps as [|sp0 sps IH]; intros [|f0 fl] [|k] sp f Hs Hf; simpl in *; try discriminate.
  - inversion Hs; inversion Hf; subst. destruct f, sp; reflexivity.
  - eapply IH; eassumption.
Qed.

(* what a timeout does, spelled out *)
Lemma fire_ready_shape cfg s c :
  tk_get (tasks s) c = Some TReady ->
  exists s2 o2,
    run_b cfg (set_tasks (set_table s (tbl_del (table s) (ckey cfg c))) (tk_del (tasks s) c))
          (c_script (getc cfg c)) = (s2, o2) /\
    fire cfg s c =
      (set_futs s2 (upd (futs s2) c (timeout_futl (c_futs (getc cfg c)))),
       OTimeout c :: o2 ++ [OTimeoutEnd c (nth c (upd (futs s2) c (timeout_futl (c_futs (getc cfg c)))) [])]).
Proof.
  intros Hk. unfold fire. rewrite Hk.
  destruct (run_b cfg _ (c_script (getc cfg c))) as [s2 o2] eqn:E. exists s2, o2. split; reflexivity.
Qed.

Lemma futures_completed_l cfg ops c :
  let s := fst (run cfg (init cfg) ops) in
  (c < length cfg)%nat -> tk_get (tasks s) c = Some TReady ->
  In (OTimeout c) (snd (fire cfg s c)) /\
  Forall not_pending (nth c (futs (fst (fire cfg s c))) []).
Proof.
  intros s Hc Hk. assert (I : inv cfg s) by (apply run_inv, inv_init).
  destruct (fire_ready_shape cfg s c Hk) as [s2 [o2 [E2 EF]]]. rewrite EF. simpl. split; [auto|].
  assert (Hg : tbl_get (table s) (ckey cfg c) = Some c) by (apply (inv_task _ _ I); congruence).
  pose proof (inv_remove cfg s c I Hg) as I1.
  pose proof (run_b_inv cfg (c_script (getc cfg c)) _ I1) as I2. rewrite E2 in I2. simpl in I2.
  rewrite nth_upd, Nat.eqb_refl.
  destruct (c <? length (futs s2))%nat eqn:El.
  - apply timeout_futl_done. apply (inv_futlen _ _ I2).
  - apply Nat.ltb_ge in El. rewrite nth_overflow by exact El. constructor.
Qed.

(* every future still pending when the callback returns receives exactly its configured outcome,
   the others are left alone *)
Lemma futures_configured_value_l cfg ops c :
  let s := fst (run cfg (init cfg) ops) in
  (c < length cfg)%nat -> tk_get (tasks s) c = Some TReady ->
  exists s2 o2,
    run_b cfg (set_tasks (set_table s (tbl_del (table s) (ckey cfg c))) (tk_del (tasks s) c))
          (c_script (getc cfg c)) = (s2, o2) /\
    forall k sp f, nth_error (c_futs (getc cfg c)) k = Some sp -> nth_error (nth c (futs s2) []) k = Some f ->
      nth_error (nth c (futs (fst (fire cfg s c))) []) k
      = Some (match f with FPending => configured sp | x => x end).
Proof.
  intros s Hc Hk.
  destruct (fire_ready_shape cfg s c Hk) as [s2 [o2 [E2 EF]]]. exists s2, o2. split; [exact E2|].
  intros k sp f Hs Hf. rewrite EF. simpl. rewrite nth_upd, Nat.eqb_refl.
  destruct (c <? length (futs s2))%nat eqn:El.
  - apply timeout_futl_nth; assumption.
  - apply Nat.ltb_ge in El. rewrite nth_overflow in Hf by exact El. destruct k; discriminate.
Qed.

(* ------------------------------------------------------------------ shutdown *)
Lemma cancel_futs_keeps_done fs c c0 :
  Forall not_pending (nth c fs []) -> Forall not_pending (nth c (cancel_futs fs c0) []).
Proof.
  intros H. unfold cancel_futs. rewrite nth_upd.
  destruct (Nat.eqb c0 c); [|exact H]. destruct (c0 <? length fs)%nat; [|exact H].
  apply Forall_forall. intros f Hf. apply in_map_iff in Hf as [g [E _]]. subst f.
  unfold not_pending. destruct g; simpl; discriminate.
Qed.

Lemma cancel_futs_done_at fs c : Forall not_pending (nth c (cancel_futs fs c) []).
Proof.
  unfold cancel_futs. rewrite nth_upd, Nat.eqb_refl.
  destruct (c <? length fs)%nat eqn:El.
  - apply Forall_forall. intros f Hf. apply in_map_iff in Hf as [g [E _]]. subst f.
    unfold not_pending. destruct g; simpl; discriminate.
  - apply Nat.ltb_ge in El. rewrite nth_overflow by exact El. constructor.
Qed.

Lemma fold_cancel_keeps_done cs : forall fs c,
  Forall not_pending (nth c fs []) -> Forall not_pending (nth c (fold_left cancel_futs cs fs) []).
Proof.
  induction cs as [|c0 cs IH]; intros fs c H; simpl; [exact H|].
  apply IH. apply cancel_futs_keeps_done. exact H.
Qed.

Lemma fold_cancel_done cs : forall fs c,
  In c cs -> Forall not_pending (nth c (fold_left cancel_futs cs fs) []).
Proof.
  induction cs as [|c0 cs IH]; intros fs c Hin; [destruct Hin|].
  destruct Hin as [H|H]; simpl.
  - subst c0. apply fold_cancel_keeps_done. apply cancel_futs_done_at.
  - apply IH. exact H.
Qed.

Lemma run_shut_stays cfg ops : forall s, shut s = true -> shut (fst (run cfg s ops)) = true.
Proof.
  induction ops as [|o ops IH]; intros s H; simpl; [exact H|].
  assert (H1 : shut (fst (step cfg s o)) = true).
  { destruct o; simpl; try exact H; try reflexivity.
    - rewrite step_b_shut; exact H.
    - rewrite fire_shut; exact H. }
  destruct (step cfg s o) as [s1 o1]. specialize (IH s1 H1).
  destruct (run cfg s1 ops) as [s2 o2]. exact IH.
Qed.

Lemma shutdown_final_l cfg ops1 ops2 :
  let s0 := fst (run cfg (init cfg) ops1) in
  let s1 := fst (step cfg s0 Shutdown) in
  shut s1 = true /\ table s1 = [] /\ tasks s1 = [] /\
  (forall c, In c (map snd (table s0)) -> Forall not_pending (nth c (futs s1) [])) /\
  let s2 := fst (run cfg s1 ops2) in
  shut s2 = true /\ table s2 = [] /\ tasks s2 = [] /\
  (forall c, ~ In (OTimeout c) (snd (run cfg s1 ops2)) /\ ~ In (OAdd c AAdded) (snd (run cfg s1 ops2))).
Proof.
  intros s0 s1. assert (I0 : inv cfg s0) by (apply run_inv, inv_init).
  assert (I1 : inv cfg s1) by (apply step_inv; exact I0).
  split; [reflexivity|]. split; [reflexivity|]. split; [reflexivity|]. split.
  { intros c Hc. simpl. apply fold_cancel_done. exact Hc. }
  intros s2. assert (I2 : inv cfg s2) by (apply run_inv; exact I1).
  assert (Hs2 : shut s2 = true) by (apply run_shut_stays; reflexivity).
  destruct (inv_shut _ _ I2 Hs2) as [Ht Hk].
  split; [exact Hs2|]. split; [exact Ht|]. split; [exact Hk|].
  intros c.
  assert (HR : R cfg s1 []) by (intros x; simpl; split; [intros [] | discriminate]).
  pose proof (run_holds cfg ops2 s1 [] I1 HR) as H. simpl in H.
  destruct (holds_after_shutdown cfg _ _ H c) as [A B].
  split; intros X.
  - apply B. unfold events. apply in_flat_map. exists (OTimeout c). split; [exact X | left; reflexivity].
  - apply A. unfold events. apply in_flat_map. exists (OAdd c AAdded). split; [exact X | left; reflexivity].
Qed.

Lemma add_after_shutdown_l cfg s c :
  shut s = true -> 0 < c_delay (getc cfg c) ->
  snd (step_b cfg s (BAdd c)) = [OAdd c ADropped] /\
  table (fst (step_b cfg s (BAdd c))) = table s /\ tasks (fst (step_b cfg s (BAdd c))) = tasks s /\
  Forall not_pending (nth c (futs (fst (step_b cfg s (BAdd c)))) []).
Proof.
  intros Hs Hd. simpl. destruct (c_delay (getc cfg c) <=? 0) eqn:E; [apply Z.leb_le in E; lia|].
  rewrite Hs. simpl. repeat split. apply cancel_futs_done_at.
Qed.

(* ------------------------------------------------------------------ bounded liveness *)
Lemma resolved_app_l c a b : resolved c a -> resolved c (a ++ b).
Proof. intros [e [H K]]. exists e. split; [apply in_or_app; auto | exact K]. Qed.
Lemma resolved_app_r c a b : resolved c b -> resolved c (a ++ b).
Proof. intros [e [H K]]. exists e. split; [apply in_or_app; auto | exact K]. Qed.

Lemma tk_in_table cfg s c x : inv cfg s -> tk_get (tasks s) c = Some x -> In c (map snd (table s)).
Proof.
  intros I H. assert (Hn : tk_get (tasks s) c <> None) by congruence.
  apply (inv_task _ _ I) in Hn. apply tbl_get_In in Hn.
  apply in_map_iff. exists (ckey cfg c, c). auto.
Qed.

Lemma step_b_keep cfg s b c x :
  inv cfg s -> tk_get (tasks s) c = Some x ->
  tk_get (tasks (fst (step_b cfg s b))) c = Some x \/ resolved c (events (snd (step_b cfg s b))).
Proof.
  intros I H. destruct b; simpl; auto.
  - destruct (c_delay (getc cfg c0) <=? 0); [auto|].
    destruct (shut s); [auto|].
    destruct (tbl_get (table s) (ckey cfg c0)); [auto|].
    destruct (tk_get (tasks s) c0); simpl; [auto|].
    left. rewrite tk_get_app, H. reflexivity.
  - destruct (tbl_get (table s) (p, n)) as [c'|] eqn:Hg; [|auto]. simpl.
    destruct (Nat.eqb c' c) eqn:E.
    + apply Nat.eqb_eq in E; subst. right. exists (EPopped c). simpl. auto.
    + left. rewrite tk_get_del, E. exact H.
  - destruct (tbl_get (table s) (p, n)) as [c'|] eqn:Hg; [|auto]. simpl.
    destruct (Nat.eqb c' c) eqn:E.
    + apply Nat.eqb_eq in E; subst. right. exists (EPopped c). simpl. auto.
    + left. rewrite tk_get_del, E. exact H.
  - right. exists (EDropped (map snd (table s))). split; [left; reflexivity|].
    right; right. eexists; split; [reflexivity|]. eapply tk_in_table; eassumption.
Qed.

Lemma run_b_keep cfg bs : forall s c x,
  inv cfg s -> tk_get (tasks s) c = Some x ->
  tk_get (tasks (fst (run_b cfg s bs))) c = Some x \/ resolved c (events (snd (run_b cfg s bs))).
Proof.
  induction bs as [|b bs IH]; intros s c x I H; simpl; [auto|].
  pose proof (step_b_keep cfg s b c x I H) as Hb.
  pose proof (step_b_inv cfg s b I) as I1.
  destruct (step_b cfg s b) as [s1 o1]. simpl in *.
  specialize (IH s1 c x I1).
  destruct (run_b cfg s1 bs) as [s2 o2]. simpl in *. rewrite events_app.
  destruct Hb as [Hb|Hb]; [|right; apply resolved_app_l; exact Hb].
  destruct (IH Hb) as [K|K]; [auto | right; apply resolved_app_r; exact K].
Qed.

Lemma fire_keep cfg s c' c x :
  inv cfg s -> tk_get (tasks s) c = Some x ->
  tk_get (tasks (fst (fire cfg s c'))) c = Some x \/ resolved c (events (snd (fire cfg s c'))).
Proof.
  intros I H. unfold fire. destruct (tk_get (tasks s) c') as [[| | |]|] eqn:Hk; auto.
  assert (Hg : tbl_get (table s) (ckey cfg c') = Some c') by (apply (inv_task _ _ I); congruence).
  pose proof (inv_remove cfg s c' I Hg) as I1.
  destruct (Nat.eqb c' c) eqn:E.
  - apply Nat.eqb_eq in E; subst c'.
    destruct (run_b cfg _ (c_script (getc cfg c))) as [s2 o2]. simpl.
    right. exists (ETimeout c). simpl. auto.
  - pose proof (run_b_keep cfg (c_script (getc cfg c')) _ c x I1) as Hb. simpl in Hb.
    rewrite tk_get_del, E in Hb. specialize (Hb H).
    destruct (run_b cfg _ (c_script (getc cfg c'))) as [s2 o2]. simpl in *.
    destruct Hb as [Hb|Hb]; [auto|]. right.
    destruct Hb as [e [He Ke]]. exists e. split; [|exact Ke].
    unfold events in *. simpl. right. rewrite flat_map_app. apply in_or_app. left. exact He.
Qed.

Lemma step_keep cfg s o c x :
  inv cfg s -> not_iterbegin o = true -> tk_get (tasks s) c = Some x ->
  tk_get (tasks (fst (step cfg s o))) c = Some x \/ resolved c (events (snd (step cfg s o))).
Proof.
  intros I Hn H. destruct o; simpl in *; auto; try discriminate.
  - apply step_b_keep; assumption.
  - apply fire_keep; assumption.
  - right. exists (EDropped (map snd (table s))). split; [left; reflexivity|].
    right; right. eexists; split; [reflexivity|]. eapply tk_in_table; eassumption.
Qed.

Lemma run_keep cfg ops : forall s c x,
  inv cfg s -> forallb not_iterbegin ops = true -> tk_get (tasks s) c = Some x ->
  tk_get (tasks (fst (run cfg s ops))) c = Some x \/ resolved c (events (snd (run cfg s ops))).
Proof.
  induction ops as [|o ops IH]; intros s c x I Hn H; simpl in *; [auto|].
  apply andb_true_iff in Hn as [Hn1 Hn2].
  pose proof (step_keep cfg s o c x I Hn1 H) as Hb.
  pose proof (step_inv cfg s o I) as I1.
  destruct (step cfg s o) as [s1 o1]. simpl in *.
  specialize (IH s1 c x I1 Hn2).
  destruct (run cfg s1 ops) as [s2 o2]. simpl in *. rewrite events_app.
  destruct Hb as [Hb|Hb]; [|right; apply resolved_app_l; exact Hb].
  destruct (IH Hb) as [K|K]; [auto | right; apply resolved_app_r; exact K].
Qed.

(* one iteration: a runnable timeout task is run (or its cache is popped / dropped) before the iteration ends,
   provided the loop leaves no runnable task behind (IterEnd reports nothing) *)
Lemma ready_resolved_in_iteration cfg s c B :
  inv cfg s -> tk_get (tasks s) c = Some TReady -> forallb not_iterbegin B = true ->
  snd (step cfg (fst (run cfg s B)) IterEnd) = [OIterEnd []] ->
  resolved c (events (snd (run cfg s B))).
Proof.
  intros I H HB Hend. destruct (run_keep cfg B s c TReady I HB H) as [K|K]; [|exact K].
  exfalso. simpl in Hend. inversion Hend as [E].
  apply tk_get_In in K.
  assert (X : In c (map fst (filter (fun e => is_ready (snd e)) (tasks (fst (run cfg s B)))))).
  { apply in_map_iff. exists (c, TReady). split; [reflexivity|]. apply filter_In. auto. }
  rewrite E in X. destruct X.
Qed.

Lemma iterbegin_inv_tk cfg s c :
  tk_get (tasks (fst (step cfg s IterBegin))) c = option_map (iter_begin1 (now s)) (tk_get (tasks s) c).
Proof. simpl. apply tk_get_map. Qed.

Lemma run_cons cfg s o ops :
  run cfg s (o :: ops) =
  (fst (run cfg (fst (step cfg s o)) ops), snd (step cfg s o) ++ snd (run cfg (fst (step cfg s o)) ops)).
Proof. simpl. destruct (step cfg s o) as [s1 o1]. simpl. destruct (run cfg s1 ops) as [s2 o2]. reflexivity. Qed.

(* woken -> runs in the next iteration *)
Lemma woken_resolved_l cfg s c A B :
  inv cfg s -> tk_get (tasks s) c = Some TWoken ->
  forallb not_iterbegin A = true -> forallb not_iterbegin B = true ->
  let ops := A ++ IterBegin :: B in
  snd (step cfg (fst (run cfg s ops)) IterEnd) = [OIterEnd []] ->
  resolved c (events (snd (run cfg s ops))).
Proof.
  intros I H HA HB ops Hend. unfold ops in *. rewrite run_app in *. cbn [fst snd] in *.
  rewrite events_app.
  destruct (run_keep cfg A s c TWoken I HA H) as [K|K]; [|apply resolved_app_l; exact K].
  apply resolved_app_r.
  set (sA := fst (run cfg s A)) in *.
  assert (IA : inv cfg sA) by (apply run_inv; exact I).
  rewrite run_cons in *. cbn [fst snd] in *.
  rewrite events_app. apply resolved_app_r.
  apply ready_resolved_in_iteration; try assumption.
  - apply (step_inv cfg sA IterBegin IA).
  - rewrite iterbegin_inv_tk, K. reflexivity.
Qed.

(* the clock has passed the deadline of a sleeping timer: it is resolved within two iterations *)
Lemma sleeping_due_resolved_l cfg s c dl A B :
  inv cfg s -> tk_get (tasks s) c = Some (TSleep dl) -> dl <= now s ->
  forallb not_iterbegin A = true -> forallb not_iterbegin B = true ->
  let ops := IterBegin :: A ++ IterBegin :: B in
  snd (step cfg (fst (run cfg s ops)) IterEnd) = [OIterEnd []] ->
  resolved c (events (snd (run cfg s ops))).
Proof.
  intros I H Hdl HA HB ops Hend. unfold ops in *. rewrite run_cons in *. cbn [fst snd] in *.
  rewrite events_app. apply resolved_app_r.
  apply woken_resolved_l; try assumption.
  - apply (step_inv cfg s IterBegin I).
  - rewrite iterbegin_inv_tk, H. simpl. destruct (dl <=? now s) eqn:E; [reflexivity|].
    apply Z.leb_gt in E. lia.
Qed.

(* passthrough with timeout 0: the cache times out in the very next iteration *)
Lemma created_zero_resolved_l cfg s c B :
  inv cfg s -> tk_get (tasks s) c = Some (TCreated 0) -> forallb not_iterbegin B = true ->
  let ops := IterBegin :: B in
  snd (step cfg (fst (run cfg s ops)) IterEnd) = [OIterEnd []] ->
  resolved c (events (snd (run cfg s ops))).
Proof.
  intros I H HB ops Hend. unfold ops in *. rewrite run_cons in *. cbn [fst snd] in *.
  rewrite events_app. apply resolved_app_r.
  apply ready_resolved_in_iteration; try assumption.
  - apply (step_inv cfg s IterBegin I).
  - rewrite iterbegin_inv_tk, H. reflexivity.
Qed.

(* from registration: first iteration arms the timer; once the clock has advanced by the delay,
   two more iterations resolve it *)
Lemma created_resolved_l cfg s c d A B D :
  inv cfg s -> tk_get (tasks s) c = Some (TCreated d) -> 0 < d ->
  forallb not_iterbegin A = true -> forallb not_iterbegin B = true -> forallb not_iterbegin D = true ->
  now s + d <= now (fst (run cfg s (IterBegin :: A))) ->
  let ops := (IterBegin :: A) ++ IterBegin :: B ++ IterBegin :: D in
  snd (step cfg (fst (run cfg s ops)) IterEnd) = [OIterEnd []] ->
  resolved c (events (snd (run cfg s ops))).
Proof.
  intros I H Hd HA HB HD Hnow ops Hend. unfold ops in *.
  rewrite run_app in *. cbn [fst snd] in *. rewrite events_app.
  set (s1 := fst (run cfg s (IterBegin :: A))) in *.
  assert (I1 : inv cfg s1) by (apply run_inv; exact I).
  assert (K : tk_get (tasks s1) c = Some (TSleep (now s + d)) \/ resolved c (events (snd (run cfg s (IterBegin :: A))))).
  { unfold s1. rewrite run_cons. cbn [fst snd]. rewrite events_app.
    assert (I0 : inv cfg (fst (step cfg s IterBegin))) by (apply (step_inv cfg s IterBegin I)).
    assert (H0 : tk_get (tasks (fst (step cfg s IterBegin))) c = Some (TSleep (now s + d))).
    { rewrite iterbegin_inv_tk, H. simpl.
      destruct (d =? 0) eqn:E0; [apply Z.eqb_eq in E0; lia|].
      destruct (d <? 0) eqn:E1; [apply Z.ltb_lt in E1; lia|]. reflexivity. }
    destruct (run_keep cfg A _ c _ I0 HA H0) as [K|K]; [left; exact K|].
    right. apply resolved_app_r. exact K. }
  destruct K as [K|K]; [|apply resolved_app_l; exact K].
  apply resolved_app_r.
  apply (sleeping_due_resolved_l cfg s1 c (now s + d) B D I1 K Hnow HB HD). exact Hend.
Qed.

(* the liveness lemmas, stated for reachable states (form used in props/C10.v) *)
Lemma resolved_eventually_l cfg ops0 c d A B D :
  let s := fst (run cfg (init cfg) ops0) in
  tk_get (tasks s) c = Some (TCreated d) -> 0 < d ->
  forallb not_iterbegin A = true -> forallb not_iterbegin B = true -> forallb not_iterbegin D = true ->
  now s + d <= now (fst (run cfg s (IterBegin :: A))) ->
  let ops := (IterBegin :: A) ++ IterBegin :: B ++ IterBegin :: D in
  snd (step cfg (fst (run cfg s ops)) IterEnd) = [OIterEnd []] ->
  resolved c (events (snd (run cfg s ops))).
Proof. intros s. apply created_resolved_l. apply run_inv, inv_init. Qed.

Lemma due_timer_resolved_l cfg ops0 c dl A B :
  let s := fst (run cfg (init cfg) ops0) in
  tk_get (tasks s) c = Some (TSleep dl) -> dl <= now s ->
  forallb not_iterbegin A = true -> forallb not_iterbegin B = true ->
  let ops := IterBegin :: A ++ IterBegin :: B in
  snd (step cfg (fst (run cfg s ops)) IterEnd) = [OIterEnd []] ->
  resolved c (events (snd (run cfg s ops))).
Proof. intros s. apply sleeping_due_resolved_l. apply run_inv, inv_init. Qed.

Lemma passthrough_zero_l cfg ops0 c B :
  let s := fst (run cfg (init cfg) ops0) in
  tk_get (tasks s) c = Some (TCreated 0) -> forallb not_iterbegin B = true ->
  let ops := IterBegin :: B in
  snd (step cfg (fst (run cfg s ops)) IterEnd) = [OIterEnd []] ->
  resolved c (events (snd (run cfg s ops))).
Proof. intros s. apply created_zero_resolved_l. apply run_inv, inv_init. Qed.
