(* C04: the two ends of a circuit - sending a cell (originator / exit socket), opening a received cell,
   hand-over to the cell handlers, the data handler on well-formed payloads. *)
From Coq Require Import ZArith List Bool Lia ZifyBool Arith.
From IPV8V Require Import lib.PyErr lib.Bytes lib.BE model.M02_wire model.M03_recv model.M04_onion
  spec.S04_onion_spec proofs.P02_prims proofs.P02_roundtrip proofs.P04_base proofs.P04_node.
Import ListNotations.
Open Scope Z_scope.

(* ---- payload codec: the circuit id is the first field, re-injected by unwrap ---- *)
Definition tail_data : msgfmt := msg_of_list [FAddr false; FAddr false; FRaw].
Definition tail_ping : msgfmt := msg_of_list [FStruct [PU 2]].
Definition tail_test_request : msgfmt := msg_of_list [FStruct [PU 2]; FStruct [PU 2]; FRaw].
Definition tail_test_response : msgfmt := msg_of_list [FStruct [PU 2]; FRaw].

Lemma fmt_data_eq : fmt_data = MCons (FStruct [PU 4]) tail_data. Proof. reflexivity. Qed.
Lemma fmt_ping_eq : fmt_ping = MCons (FStruct [PU 4]) tail_ping. Proof. reflexivity. Qed.
Lemma fmt_test_request_eq : fmt_test_request = MCons (FStruct [PU 4]) tail_test_request. Proof. reflexivity. Qed.
Lemma fmt_test_response_eq : fmt_test_response = MCons (FStruct [PU 4]) tail_test_response. Proof. reflexivity. Qed.

Lemma cid_prim_ok cid : cid_ok cid -> prim_ok (PU 4) (VInt cid) = true.
Proof. unfold cid_ok, prim_ok, in_range. intros H. change (256 ^ Z.of_nat 4) with 4294967296. lia. Qed.

Lemma cell_payload_pack m vals rest cid :
  cid_ok cid -> pack_msg no_keys m vals = Ok rest ->
  pack_msg no_keys (MCons (FStruct [PU 4]) m) (VInt cid :: vals) = Ok (be_encode 4 cid ++ rest).
Proof.
  intros Hc Hp. rewrite pack_msg_cons. cbn [pack]. unfold penc. rewrite (cid_prim_ok cid Hc).
  cbn [negb bind]. rewrite Hp. reflexivity.
Qed.

Lemma cell_payload_unpack m vals rest cid (pre : bytes) :
  wf_msg m = true -> msg_ok no_keys m vals = true -> pack_msg no_keys m vals = Ok rest ->
  cid_ok cid -> length pre = 23%nat ->
  unpack_msg no_keys (MCons (FStruct [PU 4]) m) (pre ++ be_encode 4 cid ++ rest) 23
  = Ok (VInt cid :: vals, (23 + length (be_encode 4 cid ++ rest))%nat).
Proof.
  intros Hw Hok Hp Hc Hl.
  pose proof (msg_roundtrip_l no_keys (MCons (FStruct [PU 4]) m) (VInt cid :: vals)
                (be_encode 4 cid ++ rest) pre []) as R.
  rewrite app_nil_r, Hl in R. apply R.
  - destruct m as [|f m']; [reflexivity|].
    change (wf_msg (MCons (FStruct [PU 4]) (MCons f m')))
      with (wf_fmt (FStruct [PU 4]) && negb false && wf_msg (MCons f m')).
    rewrite Hw. reflexivity.
  - rewrite msg_ok_cons. cbn [val_ok]. rewrite (cid_prim_ok cid Hc), Hok. reflexivity.
  - apply cell_payload_pack; assumption.
  - right; reflexivity.
Qed.

Lemma addr_pack_ok ip_only a : addr_ok ip_only a = true -> exists bs, addr_pack ip_only a = Ok bs.
Proof.
  destruct a as [ip p|ip p|h p]; unfold addr_ok, addr_pack; intros H.
  - rewrite H. eauto.
  - rewrite H. eauto.
  - destruct ip_only; [discriminate H|]. cbn [negb andb] in H. rewrite H. eauto.
Qed.

Lemma data_packable dest org data :
  addr_ok false dest = true -> addr_ok false org = true -> bytes_okb data = true ->
  exists rest, pack_msg no_keys tail_data [VAddr dest; VAddr org; VBytes data] = Ok rest.
Proof.
  intros H1 H2 H3. destruct (addr_pack_ok false dest H1) as [b1 E1]. destruct (addr_pack_ok false org H2) as [b2 E2].
  unfold tail_data. cbn [msg_of_list]. rewrite !pack_msg_cons. cbn [pack]. rewrite E1, E2, H3.
  cbn [bind pack_msg]. eauto.
Qed.

Lemma data_msg_ok dest org data :
  addr_ok false dest = true -> addr_ok false org = true -> bytes_okb data = true ->
  msg_ok no_keys tail_data [VAddr dest; VAddr org; VBytes data] = true.
Proof. intros H1 H2 H3. unfold tail_data. cbn [msg_of_list]. rewrite !msg_ok_cons. cbn [val_ok msg_ok]. rewrite H1, H2, H3. reflexivity. Qed.

Section Endpoint.
Variables key nonce : Type.
Variable enc : key -> dir -> nonce -> bytes -> bytes.
Variable dec : key -> dir -> bytes -> option bytes.
Notation node := (node key).
Notation on_packet := (on_packet enc dec).
Notation incoming_crypto := (incoming_crypto dec).
Notation outgoing_crypto := (outgoing_crypto enc).
Notation ep_send_cell := (ep_send_cell enc).
Notation send_cell := (send_cell enc).
Notation send_data := (send_data enc).
Notation community_on_cell_packet := (community_on_cell_packet enc).
Notation on_packet_from_circuit := (on_packet_from_circuit enc).
Notation enc_layers := (enc_layers enc).

(* ---- sending ---- *)
Lemma send_cell_eq (nd : node) target cid mid m vals rest ns :
  cid_ok cid -> pack_msg no_keys m vals = Ok rest -> 0 <= mid <= 255 ->
  send_cell nd target cid mid (MCons (FStruct [PU 4]) m) vals ns
  = ep_send_cell nd target (mkCell cid (mid :: rest) (NO_CRYPTO mid) false) ns.
Proof.
  intros Hc Hp Hm. unfold M04_onion.send_cell. rewrite (cell_payload_pack m vals rest cid Hc Hp). cbn [bind].
  destruct ((mid <? 0) || (255 <? mid)) eqn:E; [lia|].
  rewrite skipn_len_app by (rewrite be_encode_length; reflexivity). reflexivity.
Qed.

Definition bump (ci : circuit key) : circuit key :=
  mkCircuit (c_goal ci) (c_ctype ci) (c_hops ci) (c_unverified ci) (c_hs ci) (c_closing ci) (c_early ci + 1).

(* the originator: all hop layers, first hop outermost *)
Lemma origin_send (nd : node) target cid ci ks m0 rest e0 ns :
  assoc cid (n_circuits nd) = Some ci -> c_hs ci = None -> map h_keys (c_hops ci) = map Some ks ->
  let early := (m0 =? 4) || (c_early ci <? n_max_early nd) in
  ep_send_cell nd target (mkCell cid (m0 :: rest) false e0) ns
  = Ok (set_circuits nd (upd cid (if early then bump ci else ci) (n_circuits nd)),
        [Send target (cell_to_bin (n_prefix nd)
                        (mkCell cid (enc_layers FORWARD ks (drawn ns (length ks)) (m0 :: rest)) false early))]).
Proof.
  intros Ha Hh Hk early. unfold M04_onion.ep_send_cell. cbn [cl_cid cl_msg cl_plain]. rewrite Ha.
  rewrite idx_head. cbn [bind]. fold early. fold (bump ci).
  unfold M04_onion.outgoing_crypto. cbn [cl_cid n_circuits set_circuits]. rewrite assoc_upd_same.
  assert (Hh' : c_hs (if early then bump ci else ci) = None) by (destruct early; exact Hh).
  assert (Hk' : c_hops (if early then bump ci else ci) = c_hops ci) by (destruct early; reflexivity).
  rewrite Hh', Hk'. unfold encrypt_cell. cbn [cl_plain cl_msg].
  rewrite (encrypt_hops_layers key nonce enc FORWARD (c_hops ci) ks ns (m0 :: rest) Hk).
  cbn [bind catch_crypto set_msg cl_cid cl_plain cl_early n_prefix set_circuits]. reflexivity.
Qed.

(* hidden-service circuits: the end-to-end layer goes on first (innermost) *)
Lemma origin_send_hs (nd : node) target cid ci ks hk h0 htl m0 rest e0 ns :
  assoc cid (n_circuits nd) = Some ci -> c_hs ci = Some hk -> c_hops ci = h0 :: htl ->
  map h_keys (c_hops ci) = map Some ks ->
  let early := (m0 =? 4) || (c_early ci <? n_max_early nd) in
  ep_send_cell nd target (mkCell cid (m0 :: rest) false e0) ns
  = Ok (set_circuits nd (upd cid (if early then bump ci else ci) (n_circuits nd)),
        [Send target (cell_to_bin (n_prefix nd)
                        (mkCell cid (enc_layers FORWARD ks (drawn (shift ns) (length ks))
                                       (enc hk (hs_out_dir (c_ctype ci)) (ns O) (m0 :: rest))) false early))]).
Proof.
  intros Ha Hh Hne Hk early. unfold M04_onion.ep_send_cell. cbn [cl_cid cl_msg cl_plain]. rewrite Ha.
  rewrite idx_head. cbn [bind]. fold early. fold (bump ci).
  unfold M04_onion.outgoing_crypto. cbn [cl_cid n_circuits set_circuits]. rewrite assoc_upd_same.
  assert (Hh' : c_hs (if early then bump ci else ci) = Some hk) by (destruct early; exact Hh).
  assert (Hk' : c_hops (if early then bump ci else ci) = c_hops ci) by (destruct early; reflexivity).
  assert (Ht' : c_ctype (if early then bump ci else ci) = c_ctype ci) by (destruct early; reflexivity).
  rewrite Hh'. unfold circuit_hop. rewrite Hk', Ht', Hne. cbn [bind].
  unfold encrypt_cell. cbn [cl_plain cl_msg rev app encrypt_hops h_keys bind set_msg].
  change (rev htl ++ [h0]) with (rev (h0 :: htl)). rewrite <- Hne.
  rewrite (encrypt_hops_layers key nonce enc FORWARD (c_hops ci) ks (shift ns) _ Hk).
  cbn [bind catch_crypto set_msg cl_cid cl_plain cl_early n_prefix set_circuits]. reflexivity.
Qed.

(* an exit socket answers with one BACKWARD layer *)
Lemma exit_send (nd : node) target cid es k msg e0 ns :
  assoc cid (n_circuits nd) = None -> assoc cid (n_exits nd) = Some es -> h_keys (es_hop es) = Some k ->
  ep_send_cell nd target (mkCell cid msg false e0) ns
  = Ok (nd, [Send target (cell_to_bin (n_prefix nd) (mkCell cid (enc k BACKWARD (ns O) msg) false e0))]).
Proof.
  intros Hc He Hk. unfold M04_onion.ep_send_cell. cbn [cl_cid]. rewrite Hc. cbn [bind].
  unfold M04_onion.outgoing_crypto. cbn [cl_cid]. rewrite Hc, He.
  unfold encrypt_cell. cbn [cl_plain cl_msg rev app encrypt_hops]. rewrite Hk.
  cbn [bind catch_crypto set_msg cl_cid cl_plain cl_early]. reflexivity.
Qed.

(* ---- receiving ---- *)
Lemma exit_incoming (nd : node) src cid es k m0 rest early n rnd ns :
  aead_correct enc dec -> length (n_prefix nd) = 22%nat -> cid_ok cid ->
  assoc cid (n_relays nd) = None -> assoc cid (n_exits nd) = Some es -> h_keys (es_hop es) = Some k ->
  0 < n_max_early nd -> (early = false -> m0 <> 4) ->
  on_packet nd src (cell_to_bin (n_prefix nd) (mkCell cid (enc k FORWARD n (m0 :: rest)) false early)) rnd ns
  = community_on_cell_packet nd src (cell_to_bin (n_prefix nd) (mkCell cid (m0 :: rest) false early)) rnd ns.
Proof.
  intros C Hp Hc Hr He Hk Hm H4. rewrite on_packet_cell by assumption. unfold process_cell_c, has.
  cbn [cl_cid]. rewrite Hr. unfold M04_onion.incoming_crypto. cbn [cl_cid cl_plain]. rewrite He.
  assert (D : decrypt_cell dec (mkCell cid (enc k FORWARD n (m0 :: rest)) false early) FORWARD [es_hop es]
              = Ok (mkCell cid (m0 :: rest) false early)).
  { unfold decrypt_cell. cbn [cl_plain cl_msg decrypt_hops]. rewrite Hk, C. reflexivity. }
  destruct (assoc cid (n_circuits nd)); rewrite D; cbn [catch_crypto bind cl_msg length Nat.eqb cl_early cl_plain andb];
    rewrite idx_head; cbn [bind];
    (destruct ((negb early && (m0 =? 4)) || (n_max_early nd <=? 0)) eqn:E;
     [destruct early; cbn [negb andb orb] in E; [lia | specialize (H4 eq_refl); lia] | reflexivity]).
Qed.

Lemma exit_incoming_drop (nd : node) src cid es k body early rnd ns :
  length (n_prefix nd) = 22%nat -> cid_ok cid ->
  assoc cid (n_relays nd) = None -> assoc cid (n_exits nd) = Some es -> h_keys (es_hop es) = Some k ->
  dec k FORWARD body = None ->
  on_packet nd src (cell_to_bin (n_prefix nd) (mkCell cid body false early)) rnd ns = Ok (nd, []).
Proof.
  intros Hp Hc Hr He Hk Hn. rewrite on_packet_cell by assumption. unfold process_cell_c, has.
  cbn [cl_cid]. rewrite Hr. unfold M04_onion.incoming_crypto. cbn [cl_cid cl_plain]. rewrite He.
  assert (D : decrypt_cell dec (mkCell cid body false early) FORWARD [es_hop es] = Raise CryptoError).
  { unfold decrypt_cell. cbn [cl_plain cl_msg decrypt_hops]. rewrite Hk, Hn. reflexivity. }
  destruct (assoc cid (n_circuits nd)); rewrite D; reflexivity.
Qed.

(* the originator opens all layers, first hop first *)
Lemma origin_incoming (nd : node) src cid ci ks nl m0 rest early rnd ns :
  aead_correct enc dec -> length (n_prefix nd) = 22%nat -> cid_ok cid ->
  assoc cid (n_relays nd) = None -> assoc cid (n_exits nd) = None ->
  assoc cid (n_circuits nd) = Some ci -> c_hs ci = None ->
  map h_keys (c_hops ci) = map Some ks -> length nl = length ks ->
  0 < n_max_early nd -> (early = false -> m0 <> 4) ->
  on_packet nd src (cell_to_bin (n_prefix nd) (mkCell cid (enc_layers BACKWARD ks nl (m0 :: rest)) false early)) rnd ns
  = community_on_cell_packet nd src (cell_to_bin (n_prefix nd) (mkCell cid (m0 :: rest) false early)) rnd ns.
Proof.
  intros C Hp Hc Hr He Ha Hh Hk Hl Hm H4. rewrite on_packet_cell by assumption. unfold process_cell_c, has.
  cbn [cl_cid]. rewrite Hr. unfold M04_onion.incoming_crypto. cbn [cl_cid cl_plain]. rewrite He, Ha.
  unfold decrypt_cell. cbn [cl_plain cl_msg].
  rewrite (decrypt_hops_layers key nonce enc dec BACKWARD (c_hops ci) ks nl (m0 :: rest) C Hk Hl).
  cbn [bind set_msg cl_cid cl_plain cl_early]. rewrite Hh.
  cbn [catch_crypto bind set_msg cl_msg length Nat.eqb cl_early cl_plain cl_cid andb]. rewrite idx_head. cbn [bind].
  destruct ((negb early && (m0 =? 4)) || (n_max_early nd <=? 0)) eqn:E;
    [destruct early; cbn [negb andb orb] in E; [lia | specialize (H4 eq_refl); lia] | reflexivity].
Qed.

Lemma origin_incoming_hs (nd : node) src cid ci ks nl hk n h0 htl m0 rest early rnd ns :
  aead_correct enc dec -> length (n_prefix nd) = 22%nat -> cid_ok cid ->
  assoc cid (n_relays nd) = None -> assoc cid (n_exits nd) = None ->
  assoc cid (n_circuits nd) = Some ci -> c_hs ci = Some hk -> c_hops ci = h0 :: htl ->
  map h_keys (c_hops ci) = map Some ks -> length nl = length ks ->
  0 < n_max_early nd -> (early = false -> m0 <> 4) ->
  on_packet nd src (cell_to_bin (n_prefix nd)
       (mkCell cid (enc_layers BACKWARD ks nl (enc hk (hs_in_dir (c_ctype ci)) n (m0 :: rest))) false early)) rnd ns
  = community_on_cell_packet nd src (cell_to_bin (n_prefix nd) (mkCell cid (m0 :: rest) false early)) rnd ns.
Proof.
  intros C Hp Hc Hr He Ha Hh Hne Hk Hl Hm H4. rewrite on_packet_cell by assumption. unfold process_cell_c, has.
  cbn [cl_cid]. rewrite Hr. unfold M04_onion.incoming_crypto. cbn [cl_cid cl_plain]. rewrite He, Ha.
  unfold decrypt_cell at 1. cbn [cl_plain cl_msg].
  rewrite (decrypt_hops_layers key nonce enc dec BACKWARD (c_hops ci) ks nl _ C Hk Hl).
  cbn [bind set_msg cl_cid cl_plain cl_early]. rewrite Hh. unfold circuit_hop. rewrite Hne. cbn [bind].
  unfold decrypt_cell, set_msg. cbn [cl_plain cl_msg decrypt_hops h_keys].
  fold (hs_in_dir (c_ctype ci)). rewrite C.
  cbn [catch_crypto bind set_msg cl_msg length Nat.eqb cl_early cl_plain cl_cid andb]. rewrite idx_head. cbn [bind].
  destruct ((negb early && (m0 =? 4)) || (n_max_early nd <=? 0)) eqn:E;
    [destruct early; cbn [negb andb orb] in E; [lia | specialize (H4 eq_refl); lia] | reflexivity].
Qed.

(* a body that does not open under the circuit's keys is dropped, state untouched *)
Lemma origin_incoming_drop (nd : node) src cid ci body early rnd ns :
  length (n_prefix nd) = 22%nat -> cid_ok cid ->
  assoc cid (n_relays nd) = None -> assoc cid (n_exits nd) = None ->
  assoc cid (n_circuits nd) = Some ci ->
  decrypt_hops dec BACKWARD (c_hops ci) body = Raise CryptoError ->
  on_packet nd src (cell_to_bin (n_prefix nd) (mkCell cid body false early)) rnd ns = Ok (nd, []).
Proof.
  intros Hp Hc Hr He Ha Hd. rewrite on_packet_cell by assumption. unfold process_cell_c, has.
  cbn [cl_cid]. rewrite Hr. unfold M04_onion.incoming_crypto. cbn [cl_cid cl_plain]. rewrite He, Ha.
  unfold decrypt_cell. cbn [cl_plain cl_msg]. rewrite Hd. reflexivity.
Qed.

(* cells for ids the node does not know *)
Lemma unknown_circuit_dropped (nd : node) src cid body early rnd ns :
  length (n_prefix nd) = 22%nat -> cid_ok cid ->
  assoc cid (n_relays nd) = None -> assoc cid (n_exits nd) = None -> assoc cid (n_circuits nd) = None ->
  on_packet nd src (cell_to_bin (n_prefix nd) (mkCell cid body false early)) rnd ns = Ok (nd, []).
Proof.
  intros Hp Hc Hr He Ha. rewrite on_packet_cell by assumption. unfold process_cell_c, has.
  cbn [cl_cid]. rewrite Hr. unfold M04_onion.incoming_crypto. cbn [cl_cid cl_plain]. rewrite He, Ha. reflexivity.
Qed.

(* ---- hand-over to the handlers ---- *)
Lemma community_cell (nd : node) src cid m0 rest early rnd ns :
  length (n_prefix nd) = 22%nat -> cid_ok cid ->
  community_on_cell_packet nd src (cell_to_bin (n_prefix nd) (mkCell cid (m0 :: rest) false early)) rnd ns
  = try_catch (on_packet_from_circuit nd src (n_prefix nd ++ [m0] ++ be_encode 4 cid ++ rest) cid rnd ns)
              (fun _ => Ok (nd, [])).
Proof.
  intros Hp Hc. unfold M04_onion.community_on_cell_packet.
  rewrite to_bin_prefix by exact Hp. rewrite bytes_eqb_refl. cbn [negb orb].
  pose proof (to_bin_blen (n_prefix nd) (mkCell cid (m0 :: rest) false early) Hp) as Hl.
  pose proof (blen_nonneg (m0 :: rest)) as Hn. cbn [cl_msg] in Hl.
  destruct (blen (cell_to_bin (n_prefix nd) (mkCell cid (m0 :: rest) false early)) <? 23) eqn:E; [lia|].
  unfold M04_onion.on_cell. rewrite from_bin_to_bin by assumption. cbn [bind cl_plain cl_cid].
  unfold unwrap. cbn [cl_cid cl_msg]. unfold cid_ok in Hc.
  destruct ((cid <? 0) || (4294967296 <=? cid)) eqn:E2; [lia|].
  rewrite slice_head1, slice_tail1. cbn [bind]. reflexivity.
Qed.

Lemma pfc_dispatch (nd : node) src cid m0 body rnd ns :
  length (n_prefix nd) = 22%nat -> existsb (Z.eqb m0) (n_handlers nd) = true ->
  on_packet_from_circuit nd src (n_prefix nd ++ [m0] ++ body) cid rnd ns
  = try_catch
      (if m0 =? 1 then on_data nd src (n_prefix nd ++ [m0] ++ body)
       else if m0 =? 6 then on_ping enc nd src (n_prefix nd ++ [m0] ++ body) ns
       else if m0 =? 7 then on_pong nd src (n_prefix nd ++ [m0] ++ body)
       else if m0 =? 19 then on_test_request enc nd src (n_prefix nd ++ [m0] ++ body) cid rnd ns
       else if m0 =? 20 then on_test_response nd src (n_prefix nd ++ [m0] ++ body) cid
       else Ok (nd, [Control m0 src cid (n_prefix nd ++ [m0] ++ body)]))
      (fun _ => Ok (nd, [])).
Proof.
  intros Hp Hh. unfold M04_onion.on_packet_from_circuit.
  rewrite slice_upto by (rewrite Hp; reflexivity). rewrite bytes_eqb_refl. cbn [negb].
  replace 22 with (Z.of_nat (length (n_prefix nd))) at 1 by (rewrite Hp; reflexivity).
  cbn [app]. rewrite idx_at. cbn [bind]. rewrite Hh. cbn [negb]. reflexivity.
Qed.

Lemma pfc_unregistered (nd : node) src cid m0 body rnd ns :
  length (n_prefix nd) = 22%nat -> existsb (Z.eqb m0) (n_handlers nd) = false ->
  on_packet_from_circuit nd src (n_prefix nd ++ [m0] ++ body) cid rnd ns = Ok (nd, []).
Proof.
  intros Hp Hh. unfold M04_onion.on_packet_from_circuit.
  rewrite slice_upto by (rewrite Hp; reflexivity). rewrite bytes_eqb_refl. cbn [negb].
  replace 22 with (Z.of_nat (length (n_prefix nd))) at 1 by (rewrite Hp; reflexivity).
  cbn [app]. rewrite idx_at. cbn [bind]. rewrite Hh. reflexivity.
Qed.

(* ---- the data handler ---- *)
Lemma on_data_decode (nd : node) cid dest org data rest :
  length (n_prefix nd) = 22%nat -> cid_ok cid ->
  addr_ok false dest = true -> addr_ok false org = true -> bytes_okb data = true ->
  pack_msg no_keys tail_data [VAddr dest; VAddr org; VBytes data] = Ok rest ->
  unpack_msg no_keys fmt_data (n_prefix nd ++ [1] ++ be_encode 4 cid ++ rest) 23
  = Ok ([VInt cid; VAddr dest; VAddr org; VBytes data], (23 + length (be_encode 4 cid ++ rest))%nat).
Proof.
  intros Hp Hc H1 H2 H3 Hpk. rewrite fmt_data_eq.
  replace (n_prefix nd ++ [1] ++ be_encode 4 cid ++ rest) with ((n_prefix nd ++ [1]) ++ be_encode 4 cid ++ rest)
    by (rewrite <- app_assoc; reflexivity).
  apply cell_payload_unpack; auto.
  - apply data_msg_ok; assumption.
  - rewrite app_length, Hp. reflexivity.
Qed.

Lemma on_data_exit (nd : node) src cid dest org data rest es :
  length (n_prefix nd) = 22%nat -> cid_ok cid ->
  addr_ok false dest = true -> addr_ok false org = true -> bytes_okb data = true ->
  pack_msg no_keys tail_data [VAddr dest; VAddr org; VBytes data] = Ok rest ->
  assoc cid (n_circuits nd) = None -> assoc cid (n_exits nd) = Some es -> is_null dest = false ->
  (es_enabled es = true \/ ip_eqb src (h_addr (es_hop es)) = true) ->
  on_data nd src (n_prefix nd ++ [1] ++ be_encode 4 cid ++ rest)
  = Ok (enabled_node nd cid es, [ExitSendto cid data dest]).
Proof.
  intros Hp Hc H1 H2 H3 Hpk Hci Hes Hnn Hen. unfold M04_onion.on_data.
  rewrite (on_data_decode nd cid dest org data rest) by assumption. cbn [bind].
  rewrite Hci, Hnn. cbn [negb]. unfold exit_data, enabled_node. rewrite Hes.
  destruct (es_enabled es); [reflexivity|]. destruct Hen as [Hen|Hen]; [discriminate|]. rewrite Hen. reflexivity.
Qed.

(* data that came back: attributed to the origin the exit observed, under this circuit's id *)
Lemma on_data_origin (nd : node) src cid dest org data rest ci h0 :
  length (n_prefix nd) = 22%nat -> cid_ok cid ->
  addr_ok false dest = true -> addr_ok false org = true -> bytes_okb data = true ->
  pack_msg no_keys tail_data [VAddr dest; VAddr org; VBytes data] = Ok rest ->
  assoc cid (n_circuits nd) = Some ci -> circuit_hop ci = Ok h0 -> h_addr h0 = src ->
  on_data nd src (n_prefix nd ++ [1] ++ be_encode 4 cid ++ rest)
  = Ok (nd,
        if could_be_ipv8 data && negb (is_e2e (c_ctype ci)) then
          if bytes_eqb (n_prefix nd) (slice data None (Some 22)) then
            match idx data 22 with
            | Ok m => if existsb (Z.eqb m) (n_data_ids nd) then [Reinject org data cid] else []
            | Raise _ => []
            end
          else if n_tunnel_ep nd then [NotifyOther org data] else []
        else [RawData cid org data]).
Proof.
  intros Hp Hc H1 H2 H3 Hpk Hci Hh Ha. unfold M04_onion.on_data.
  rewrite (on_data_decode nd cid dest org data rest) by assumption. cbn [bind].
  rewrite Hci, Hh. cbn [bind]. rewrite Ha, addr_eqb_refl.
  destruct (could_be_ipv8 data && negb (is_e2e (c_ctype ci))) eqn:Ecb; [|reflexivity].
  destruct (bytes_eqb (n_prefix nd) (slice data None (Some 22))).
  - apply andb_true_iff in Ecb as [Ecb _]. unfold could_be_ipv8 in Ecb.
    apply andb_true_iff in Ecb as [Ecb _]. apply andb_true_iff in Ecb as [Ecb _].
    unfold idx. destruct (22 <? 0) eqn:E0; [lia|].
    destruct ((22 <? 0) || (blen data <=? 22)) eqn:E1; [lia|].
    destruct (nth_error data (Z.to_nat 22)) as [m|] eqn:En.
    + cbn [bind]. destruct (existsb (Z.eqb m) (n_data_ids nd)); reflexivity.
    + apply nth_error_None in En. unfold blen in Ecb. lia.
  - destruct (n_tunnel_ep nd); reflexivity.
Qed.

End Endpoint.
