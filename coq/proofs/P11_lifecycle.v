(* Composition: once a complete unload() has run - with anything else interleaved - the overlay is
   silent for ever and holds no open socket. *)
From Coq Require Import ZArith List Bool Arith Lia.
From IPV8V Require Import lib.PyErr lib.Bytes model.M11_listeners model.M11_tasks model.M11_lifecycle
  proofs.P11_listeners proofs.P11_tasks.
Import ListNotations.
Open Scope Z_scope.

Local Arguments tstep : simpl never.

(* ------------------------------------------------------------------ per-manager predicates *)
Definition quiet (x : tm) : Prop := shut x = true /\ no_livep x.
Definition tmok (x : tm) : Prop := inv x /\ (shut x = true -> no_livep x).

Lemma quiet_tstep x o : quiet x -> quiet (fst (tstep x o)).
Proof. intros [Hs N]. destruct (tstep_quiet x o Hs N) as [A [B _]]. split; assumption. Qed.
Lemma quiet_out_tstep x o : quiet x -> Forall quiet_out (snd (tstep x o)).
Proof. intros [Hs N]. apply (tstep_quiet x o Hs N). Qed.
Lemma tmok_tstep x o : tmok x -> tmok (fst (tstep x o)).
Proof.
  intros [I Q]. split; [apply tstep_props; assumption|]. apply tstep_shut_quiet; assumption.
Qed.
Lemma tmok_fresh : tmok fresh_tm.
Proof.
  unfold fresh_tm. apply tmok_tstep. split; [apply inv_init|]. simpl. discriminate.
Qed.
Lemma tmok_shutdown_quiet x : tmok x -> quiet (fst (tstep x Shutdown)).
Proof.
  intros [I Q]. destruct (shut x) eqn:Hs.
  - unfold tstep. rewrite Hs. simpl. split; [assumption|auto].
  - destruct (shutdown_cancels_all_l x I Hs) as [A B]. split; [exact A|]. apply no_live_iff. exact B.
Qed.

(* ------------------------------------------------------------------ frame facts *)
Lemma Forall_upd_nth {A} (P : A -> Prop) l i f s0 :
  nth_error l i = Some s0 -> Forall P l -> P (f s0) -> Forall P (upd l i f).
Proof.
  revert i. induction l as [|x r IH]; intros [|i] Hn Hf Hp; simpl in *; try discriminate.
  - inversion Hn; subst. inversion Hf; subst. constructor; assumption.
  - inversion Hf; subst. constructor; [assumption|]. apply IH; assumption.
Qed.
Lemma upd_none {A} (l : list A) i f : nth_error l i = None -> upd l i f = l.
Proof.
  revert i. induction l as [|x r IH]; intros [|i] Hn; simpl in *; try reflexivity; try discriminate.
  rewrite IH by assumption. reflexivity.
Qed.

Definition frame (n n' : node) : Prop := n_ep n' = n_ep n /\ n_me n' = n_me n /\ n_crypto n' = n_crypto n.
Lemma frame_refl n : frame n n. Proof. repeat split. Qed.
Lemma frame_trans a b c : frame a b -> frame b c -> frame a c.
Proof. intros [A1 [A2 A3]] [B1 [B2 B3]]. repeat split; congruence. Qed.

Lemma frame_tm_op n w o : frame n (fst (tm_op n w o)).
Proof.
  unfold tm_op. destruct (get_tm n w) as [x|]; [|apply frame_refl].
  destruct (tstep x o) as [x' os]. destruct w; repeat split.
Qed.
Lemma frame_perform1 c n a : frame n (fst (perform1 c n a)).
Proof.
  destruct a; simpl; try apply frame_refl.
  - apply frame_tm_op.
  - destruct (has_socks c); repeat split.
  - destruct (nth_error (n_socks n) i) as [s|]; [|apply frame_refl].
    destruct (s_open s); [apply frame_refl|].
    destruct (tstep (s_tm s) (Register CREATE_TRANSPORTS KCoro)) as [x' os]. repeat split.
  - destruct (nth_error (n_socks n) i) as [s|]; [|apply frame_refl]. destruct (s_open s); apply frame_refl.
  - repeat split.
Qed.
Lemma frame_perform c acts : forall n, frame n (fst (perform c n acts)).
Proof.
  induction acts as [|a r IH]; intros n; simpl; [apply frame_refl|].
  pose proof (frame_perform1 c n a) as H1. destruct (perform1 c n a) as [n1 o1].
  pose proof (IH n1) as H2. destruct (perform c n1 r) as [n2 o2]. simpl in *. eapply frame_trans; eassumption.
Qed.
Lemma frame_nstep c n e : frame n (fst (nstep c n e)).
Proof.
  destruct e as [d via acts|w o|w tid acts|i acts|routed acts]; simpl.
  5:{ destruct routed.
      - pose proof (frame_tm_op n WOwn (RegisterAnon 9 KCoro)) as H1.
        destruct (tm_op n WOwn (RegisterAnon 9 KCoro)) as [n1 os]. destruct (started_ok os); [|exact H1].
        pose proof (frame_perform c acts n1) as H2. destruct (perform c n1 acts) as [n2 o2].
        simpl in *. eapply frame_trans; eassumption.
      - pose proof (frame_perform c acts n) as H. destruct (perform c n acts). exact H. }
  - destruct (filter (is_mine n) _); [apply frame_refl|].
    pose proof (frame_perform c acts n) as H. destruct (perform c n acts). exact H.
  - apply frame_tm_op.
  - destruct (get_tm n w) as [x|]; [|apply frame_refl]. destruct (get x tid) as [t|]; [|apply frame_refl].
    destruct (live t); [|apply frame_refl].
    pose proof (frame_perform c acts n) as H. destruct (perform c n acts). exact H.
  - destruct (nth_error (n_socks n) i) as [s|]; [|apply frame_refl]. destruct (s_open s); [|apply frame_refl].
    pose proof (frame_perform c acts n) as H. destruct (perform c n acts). exact H.
Qed.

(* ------------------------------------------------------------------ stable manager predicates *)
Section Stable.
  Variables Po Pc Ps : tm -> Prop.
  Hypothesis So : forall x o, Po x -> Po (fst (tstep x o)).
  Hypothesis Sc : forall x o, Pc x -> Pc (fst (tstep x o)).
  Hypothesis Ss : forall x o, Ps x -> Ps (fst (tstep x o)).
  Hypothesis Fs : Ps fresh_tm.

  Definition all3 (n : node) : Prop :=
    Po (n_tm n) /\ (forall x, n_cache n = Some x -> Pc x) /\ Forall (fun s => Ps (s_tm s)) (n_socks n).

  Lemma all3_tm_op n w o : all3 n -> all3 (fst (tm_op n w o)).
  Proof.
    intros [A [B C]]. unfold tm_op. destruct (get_tm n w) as [x|] eqn:Eg; [|repeat split; assumption].
    pose proof (So x o) as So'. pose proof (Sc x o) as Sc'. pose proof (Ss x o) as Ss'.
    destruct (tstep x o) as [x' os]. simpl in *. destruct w; simpl in *.
    - inversion Eg; subst x. repeat split; auto.
    - rewrite Eg. repeat split; auto. intros y Hy. inversion Hy; subst y. auto.
    - destruct (nth_error (n_socks n) i) as [s0|] eqn:En; [|discriminate]. simpl in Eg. inversion Eg; subst x.
      repeat split; auto. eapply Forall_upd_nth; [exact En|assumption|]. simpl. apply Ss'.
      rewrite Forall_forall in C. apply C. eapply nth_error_In. exact En.
  Qed.

  Lemma all3_perform1 c n a : all3 n -> all3 (fst (perform1 c n a)).
  Proof.
    intros H. destruct a; simpl; try assumption.
    - apply all3_tm_op. assumption.
    - destruct H as [A [B C]]. destruct (has_socks c); simpl; [|repeat split; assumption].
      repeat split; auto. apply Forall_app. split; [assumption|]. constructor; [exact Fs|constructor].
    - destruct H as [A [B C]]. destruct (nth_error (n_socks n) i) as [s|] eqn:En; [|repeat split; assumption].
      destruct (s_open s); [repeat split; assumption|].
      pose proof (Ss (s_tm s) (Register CREATE_TRANSPORTS KCoro)) as Ss'.
      destruct (tstep (s_tm s) (Register CREATE_TRANSPORTS KCoro)) as [x' os]. simpl in Ss'.
      assert (Px : Ps x'). { apply Ss'. rewrite Forall_forall in C. apply C. eapply nth_error_In. exact En. }
      assert (G : forall b, all3 (set_socks n (upd (n_socks n) i (fun _ => mkSock b x')))).
      { intros b. repeat split; auto. simpl. eapply Forall_upd_nth; [exact En|assumption|exact Px]. }
      apply G.
    - destruct (nth_error (n_socks n) i) as [s|]; [|assumption]. destruct (s_open s); assumption.
    - destruct H as [A [B C]]. repeat split; auto. simpl.
      destruct (nth_error (n_socks n) i) as [s|] eqn:En.
      + eapply Forall_upd_nth; [exact En|assumption|]. simpl. apply Ss.
        rewrite Forall_forall in C. apply C. eapply nth_error_In. exact En.
      + rewrite upd_none by assumption. assumption.
  Qed.

  Lemma all3_perform c acts : forall n, all3 n -> all3 (fst (perform c n acts)).
  Proof.
    induction acts as [|a r IH]; intros n H; simpl; [assumption|].
    pose proof (all3_perform1 c n a H) as H1. destruct (perform1 c n a) as [n1 o1].
    pose proof (IH n1 H1) as H2. destruct (perform c n1 r) as [n2 o2]. exact H2.
  Qed.

  Lemma all3_nstep c n e : all3 n -> all3 (fst (nstep c n e)).
  Proof.
    intros H. destruct e as [d via acts|w o|w tid acts|i acts|routed acts]; simpl.
    5:{ destruct routed.
        - pose proof (all3_tm_op n WOwn (RegisterAnon 9 KCoro) H) as H1.
          destruct (tm_op n WOwn (RegisterAnon 9 KCoro)) as [n1 os]. destruct (started_ok os); [|exact H1].
          pose proof (all3_perform c acts n1 H1) as H2. destruct (perform c n1 acts) as [n2 o2]. exact H2.
        - pose proof (all3_perform c acts n H) as H1. destruct (perform c n acts). exact H1. }
    - destruct (filter (is_mine n) _); [assumption|].
      pose proof (all3_perform c acts n H) as H1. destruct (perform c n acts). exact H1.
    - apply all3_tm_op. assumption.
    - destruct (get_tm n w) as [x|]; [|assumption]. destruct (get x tid) as [t|]; [|assumption].
      destruct (live t); [|assumption].
      pose proof (all3_perform c acts n H) as H1. destruct (perform c n acts). exact H1.
    - destruct (nth_error (n_socks n) i) as [s|]; [|assumption]. destruct (s_open s); [|assumption].
      pose proof (all3_perform c acts n H) as H1. destruct (perform c n acts). exact H1.
  Qed.

  Lemma all3_removals l : forall n o0, all3 n ->
    all3 (fst (fold_left (fun acc (_ : sock) => let '(n0, o0) := acc in
                            let '(n1, o1) := tm_op n0 WOwn (RegisterAnon 7 KCoro) in (n1, o0 ++ o1)) l (n, o0))).
  Proof.
    induction l as [|s r IH]; intros n o0 H; simpl; [assumption|].
    pose proof (all3_tm_op n WOwn (RegisterAnon 7 KCoro) H) as H1.
    destruct (tm_op n WOwn (RegisterAnon 7 KCoro)) as [n1 o1]. apply IH. exact H1.
  Qed.

  Lemma all3_ustep c n u : all3 n -> all3 (fst (ustep_apply c n u)).
  Proof.
    intros H. destruct u; simpl; try assumption.
    - apply all3_removals. assumption.
    - apply all3_tm_op. assumption.
    - apply all3_tm_op. assumption.
    - destruct (n_crypto n); assumption.
    - destruct H as [A [B C]]. repeat split; auto. simpl. apply Forall_map.
      eapply Forall_impl; [|exact C]. intros s Hs. simpl. apply Ss. exact Hs.
  Qed.
End Stable.

(* ------------------------------------------------------------------ the unloaded state *)
Definition sock_closed (s : sock) : Prop := s_open s = false /\ quiet (s_tm s).
Definition A_self (n : node) : Prop := absent (n_me n) (inner (n_ep n)).
Definition A_crypto (n : node) : Prop :=
  match n_crypto n with Some l => absent l (inner (n_ep n)) | None => True end.
Definition B_cache (n : node) : Prop := forall x, n_cache n = Some x -> quiet x.

Record unloaded (n : node) : Prop := mkU {
  u_self : A_self n;
  u_crypto : A_crypto n;
  u_own : quiet (n_tm n);
  u_cache : B_cache n;
  u_socks : Forall sock_closed (n_socks n) }.

(* outputs that remain possible: refusals by a shut-down task manager *)
Definition silent_out (o : nout) : Prop := match o with NTask _ x => quiet_out x | _ => False end.

Lemma Forall_map_ntask w os : Forall quiet_out os -> Forall silent_out (map (NTask w) os).
Proof. intros H. apply Forall_map. eapply Forall_impl; [|exact H]. intros o Ho. exact Ho. Qed.

Lemma unloaded_frame n n' : frame n n' -> A_self n -> A_crypto n -> A_self n' /\ A_crypto n'.
Proof. intros [E1 [E2 E3]] Hs Hc. unfold A_self, A_crypto in *. rewrite E1, E2, E3. auto. Qed.

Lemma U_tm_op n w o : unloaded n -> unloaded (fst (tm_op n w o)) /\ Forall silent_out (snd (tm_op n w o)).
Proof.
  intros [Hs Hc Ho Hk Hso]. unfold tm_op. destruct (get_tm n w) as [x|] eqn:Eg; [|split; [constructor; assumption|constructor]].
  assert (Qx : quiet x).
  { destruct w; simpl in Eg.
    - inversion Eg; subst; assumption.
    - apply Hk. assumption.
    - destruct (nth_error (n_socks n) i) as [s0|] eqn:En; [|discriminate]. simpl in Eg. inversion Eg; subst x.
      rewrite Forall_forall in Hso. apply (Hso s0). eapply nth_error_In. exact En. }
  pose proof (quiet_tstep x o Qx) as Q1. pose proof (quiet_out_tstep x o Qx) as O1.
  destruct (tstep x o) as [x' os]. simpl in *. split; [|apply Forall_map_ntask; assumption].
  destruct w; simpl in *.
  - constructor; auto.
  - rewrite Eg. constructor; auto. intros y Hy. simpl in Hy. inversion Hy; subst. assumption.
  - destruct (nth_error (n_socks n) i) as [s0|] eqn:En; [|discriminate].
    constructor; auto. simpl. eapply Forall_upd_nth; [exact En|assumption|].
    split; simpl; [|assumption]. rewrite Forall_forall in Hso. apply (Hso s0). eapply nth_error_In. exact En.
Qed.

Lemma filter_none {A} (f : A -> bool) l : (forall x, In x l -> f x = false) -> filter f l = [].
Proof.
  induction l as [|x r IH]; intros H; simpl; [reflexivity|].
  rewrite (H x (or_introl eq_refl)). apply IH. intros y Hy. apply H. right. exact Hy.
Qed.

Lemma not_mine_called n o : A_self n -> A_crypto n -> filter (is_mine n) (called (n_ep n) o) = [].
Proof.
  intros Hs Hc. apply filter_none. intros l Hin. unfold is_mine. apply orb_false_iff. split.
  - destruct (l =? n_me n) eqn:E; [|reflexivity]. apply Z.eqb_eq in E. subst l.
    exfalso. exact (called_absent _ _ _ Hs Hin).
  - unfold A_crypto in Hc. destruct (n_crypto n) as [c0|]; [|reflexivity].
    destruct (l =? c0) eqn:E; [|reflexivity]. apply Z.eqb_eq in E. subst l.
    exfalso. exact (called_absent _ _ _ Hc Hin).
Qed.

(* THE composed statement, one event at a time *)
Lemma quiet_not_started w os : Forall quiet_out os -> started_ok (map (NTask w) os) = false.
Proof.
  intros H. destruct os as [|o [|o2 r]]; simpl; try reflexivity.
  - inversion H; subst. destruct o as [tid|rr|old b rr]; simpl in *; try reflexivity. subst rr. reflexivity.
  - destruct o as [tid|rr|old b rr]; try reflexivity. destruct rr; reflexivity.
Qed.

Lemma unloaded_nstep c n e :
  event_routed e = true ->
  unloaded n -> unloaded (fst (nstep c n e)) /\ Forall silent_out (snd (nstep c n e)).
Proof.
  intros Hr U. destruct e as [d via acts|w o|w tid acts|i acts|routed acts]; simpl.
  5:{ simpl in Hr. subst routed. destruct (U_tm_op n WOwn (RegisterAnon 9 KCoro) U) as [U1 O1].
      assert (Hs : started_ok (snd (tm_op n WOwn (RegisterAnon 9 KCoro))) = false).
      { unfold tm_op. simpl. pose proof (quiet_out_tstep (n_tm n) (RegisterAnon 9 KCoro) (u_own n U)) as Q.
        destruct (tstep (n_tm n) (RegisterAnon 9 KCoro)) as [x' os]. simpl. apply quiet_not_started. exact Q. }
      destruct (tm_op n WOwn (RegisterAnon 9 KCoro)) as [n1 os]. simpl in *. rewrite Hs. split; assumption. }
  - rewrite (not_mine_called n _ (u_self n U) (u_crypto n U)). split; [assumption|constructor].
  - apply U_tm_op. assumption.
  - destruct (get_tm n w) as [x|] eqn:Eg; [|split; [assumption|constructor]].
    destruct (get x tid) as [t|] eqn:Et; [|split; [assumption|constructor]].
    assert (Qx : quiet x).
    { destruct U as [Hs Hc Ho Hk Hso]. destruct w; simpl in Eg.
      - inversion Eg; subst; assumption.
      - apply Hk. assumption.
      - destruct (nth_error (n_socks n) i) as [s0|] eqn:En; [|discriminate]. simpl in Eg. inversion Eg; subst x.
        rewrite Forall_forall in Hso. apply (Hso s0). eapply nth_error_In. exact En. }
    destruct Qx as [_ N]. rewrite (N _ _ Et). split; [assumption|constructor].
  - destruct (nth_error (n_socks n) i) as [s|] eqn:En; [|split; [assumption|constructor]].
    pose proof (u_socks n U) as Hso. rewrite Forall_forall in Hso.
    destruct (Hso s (nth_error_In _ _ En)) as [Hop _]. rewrite Hop. split; [assumption|constructor].
Qed.

Lemma U_removals l : forall n o0, unloaded n -> Forall silent_out o0 ->
  let r := fold_left (fun acc (_ : sock) => let '(n0, o0) := acc in
                        let '(n1, o1) := tm_op n0 WOwn (RegisterAnon 7 KCoro) in (n1, o0 ++ o1)) l (n, o0) in
  unloaded (fst r) /\ Forall silent_out (snd r).
Proof.
  induction l as [|s r IH]; intros n o0 U O; simpl; [split; assumption|].
  destruct (U_tm_op n WOwn (RegisterAnon 7 KCoro) U) as [U1 O1].
  destruct (tm_op n WOwn (RegisterAnon 7 KCoro)) as [n1 o1]. apply IH; [exact U1|apply Forall_app; auto].
Qed.

Lemma absent_after_step_rem e l x : absent l (inner e) -> absent l (inner (fst (step e (RemL x)))).
Proof.
  intros H. simpl. destruct (f_rem (wapi (wrap e))); simpl; [apply rem_keeps_absent; assumption|assumption].
Qed.

Lemma close_sock_closed s : tmok (s_tm s) -> sock_closed (close_sock s).
Proof. intros H. split; [reflexivity|]. simpl. apply tmok_shutdown_quiet. exact H. Qed.
Lemma close_sock_closed' s : sock_closed s -> sock_closed (close_sock s).
Proof. intros [_ Q]. split; [reflexivity|]. simpl. apply quiet_tstep. exact Q. Qed.

(* running unload() again, or any step of it, on an unloaded overlay changes nothing observable *)
Lemma unloaded_ustep c n u :
  unloaded n -> unloaded (fst (ustep_apply c n u)) /\ Forall silent_out (snd (ustep_apply c n u)).
Proof.
  intros U. destruct u; simpl; try (split; [assumption|constructor]).
  - apply U_removals; [assumption|constructor].
  - apply U_tm_op. assumption.
  - split; [|constructor]. destruct U as [Hs Hc Ho Hk Hso]. constructor; auto.
    + unfold A_self in *. simpl. apply absent_after_step_rem. assumption.
    + unfold A_crypto in *. simpl. destruct (n_crypto n); [apply absent_after_step_rem; assumption|exact Logic.I].
  - apply U_tm_op. assumption.
  - destruct (n_crypto n) as [l|] eqn:Ec; [|split; [assumption|constructor]].
    split; [|constructor]. destruct U as [Hs Hc Ho Hk Hso]. constructor; auto.
    + unfold A_self in *. simpl. apply absent_after_step_rem. assumption.
    + unfold A_crypto in *. simpl. rewrite Ec in *. apply absent_after_step_rem. assumption.
  - split; [|constructor]. destruct U as [Hs Hc Ho Hk Hso]. constructor; auto. simpl.
    apply Forall_map. eapply Forall_impl; [|exact Hso]. intros s. apply close_sock_closed'.
Qed.

Lemma unloaded_istep c n i :
  item_routed i = true ->
  unloaded n -> unloaded (fst (istep c n i)) /\ Forall silent_out (snd (istep c n i)).
Proof. destruct i; simpl; intros H; [apply unloaded_ustep|apply unloaded_nstep; exact H]. Qed.

Lemma unloaded_irun c l : forall n,
  Forall (fun i => item_routed i = true) l ->
  unloaded n -> unloaded (fst (irun c n l)) /\ Forall silent_out (snd (irun c n l)).
Proof.
  induction l as [|i r IH]; intros n Hr U; simpl; [split; [assumption|constructor]|].
  inversion Hr; subst.
  destruct (unloaded_istep c n i H1 U) as [U1 O1]. destruct (istep c n i) as [n1 o1].
  destruct (IH n1 H2 U1) as [U2 O2]. destruct (irun c n1 r) as [n2 o2]. simpl in *.
  split; [assumption|apply Forall_app; auto].
Qed.

(* ------------------------------------------------------------------ unload() establishes it *)
(* well-formed node of class c *)
Record wf (c : cls) (n : node) : Prop := mkWf {
  wf_fw : forwards_all (wapi (wrap (n_ep n))) = true;
  wf_cache : has_cache c = false -> n_cache n = None;
  wf_crypto : has_crypto c = false -> n_crypto n = None;
  wf_socks : has_socks c = false -> n_socks n = [] }.

Definition tmP (b : bool) (x : tm) : Prop := tmok x /\ (b = true -> quiet x).
Lemma tmP_tstep b x o : tmP b x -> tmP b (fst (tstep x o)).
Proof. intros [A B]. split; [apply tmok_tstep; assumption|]. intros H. apply quiet_tstep. auto. Qed.

(* what holds after a prefix of unload() whose achievements are fl *)
Record partial (c : cls) (fl : flags) (n : node) : Prop := mkP {
  p_wf : wf c n;
  p_tms : all3 (tmP (f_own fl)) (tmP (f_cache fl)) tmok n;
  p_self : f_self fl = true -> A_self n;
  p_crypto : f_crypto fl = true -> A_crypto n;
  p_socks : f_socks fl = true -> Forall sock_closed (n_socks n) }.

(* closing the sockets is only ever recorded when everything else was already achieved *)
Definition fl_ok (fl : flags) : Prop :=
  f_socks fl = true -> f_self fl = true /\ f_crypto fl = true /\ f_own fl = true /\ f_cache fl = true.

Lemma fl_ok_step fl u : fl_ok fl -> fl_ok (flag_step fl u).
Proof.
  unfold fl_ok. destruct u; simpl; auto; try (intros H H1; destruct (H H1) as [A [B [C D]]]; auto).
  intros H H1. apply orb_true_iff in H1. destruct H1 as [H1|H1]; [apply H; assumption|].
  rewrite !andb_true_iff in H1. tauto.
Qed.

Lemma partial_unloaded c fl n : partial c fl n -> fl_ok fl -> f_socks fl = true -> unloaded n.
Proof.
  intros [W [To [Tc Ts]] Hs Hc Hk] Ok Hf. destruct (Ok Hf) as [A [B [C D]]].
  constructor; auto.
  - destruct To as [_ Q]. auto.
  - intros x Hx. destruct (Tc x Hx) as [_ Q]. auto.
Qed.

Lemma unloaded_tmok_partial c fl n : partial c fl n -> unloaded n -> forall n',
  unloaded n' -> wf c n' ->
  all3 (tmP (f_own fl)) (tmP (f_cache fl)) tmok n' -> partial c fl n'.
Proof.
  intros P U n' U' W' T'. constructor; auto.
  - intros _. apply (u_self n' U').
  - intros _. apply (u_crypto n' U').
  - intros _. apply (u_socks n' U').
Qed.

Lemma wf_frame_socks c n n' :
  wf c n -> n_ep n' = n_ep n -> n_crypto n' = n_crypto n ->
  (n_cache n = None -> n_cache n' = None) -> (has_socks c = false -> n_socks n' = []) -> wf c n'.
Proof.
  intros [F K Cr So] E1 E3 Hc Hs. constructor.
  - rewrite E1. assumption.
  - intros H. apply Hc. apply K. assumption.
  - intros H. rewrite E3. apply Cr. assumption.
  - assumption.
Qed.

Lemma cache_none_tm_op n w o : n_cache n = None -> n_cache (fst (tm_op n w o)) = None.
Proof.
  intros H. unfold tm_op. destruct (get_tm n w) as [x|] eqn:Eg; [|assumption].
  destruct (tstep x o) as [x' os]. destruct w; simpl; try assumption. rewrite H. reflexivity.
Qed.
Lemma socks_nil_tm_op n w o : n_socks n = [] -> n_socks (fst (tm_op n w o)) = [].
Proof.
  intros H. unfold tm_op. destruct (get_tm n w) as [x|] eqn:Eg; [|assumption].
  destruct (tstep x o) as [x' os]. destruct w; simpl; try assumption. rewrite H. destruct i; reflexivity.
Qed.

Lemma cache_none_perform1 c n a : n_cache n = None -> n_cache (fst (perform1 c n a)) = None.
Proof.
  intros H. destruct a; simpl; try assumption.
  - apply cache_none_tm_op. assumption.
  - destruct (has_socks c); assumption.
  - destruct (nth_error (n_socks n) i) as [s|]; [|assumption]. destruct (s_open s); [assumption|].
    destruct (tstep (s_tm s) (Register CREATE_TRANSPORTS KCoro)) as [x' os]. assumption.
  - destruct (nth_error (n_socks n) i) as [s|]; [|assumption]. destruct (s_open s); assumption.
Qed.
Lemma socks_nil_perform1 c n a : has_socks c = false -> n_socks n = [] -> n_socks (fst (perform1 c n a)) = [].
Proof.
  intros Hc H. destruct a; simpl; try assumption.
  - apply socks_nil_tm_op. assumption.
  - rewrite Hc. assumption.
  - rewrite H. destruct i; simpl; assumption.
  - rewrite H. destruct i; simpl; assumption.
  - rewrite H. destruct i; reflexivity.
Qed.
Lemma cache_none_perform c acts : forall n, n_cache n = None -> n_cache (fst (perform c n acts)) = None.
Proof.
  induction acts as [|a r IH]; intros n H; simpl; [assumption|].
  pose proof (cache_none_perform1 c n a H) as H1. destruct (perform1 c n a) as [n1 o1].
  pose proof (IH n1 H1) as H2. destruct (perform c n1 r). exact H2.
Qed.
Lemma socks_nil_perform c acts : has_socks c = false -> forall n, n_socks n = [] -> n_socks (fst (perform c n acts)) = [].
Proof.
  intros Hc. induction acts as [|a r IH]; intros n H; simpl; [assumption|].
  pose proof (socks_nil_perform1 c n a Hc H) as H1. destruct (perform1 c n a) as [n1 o1].
  pose proof (IH n1 H1) as H2. destruct (perform c n1 r). exact H2.
Qed.

Lemma wf_nstep c n e : wf c n -> wf c (fst (nstep c n e)).
Proof.
  intros W. destruct (frame_nstep c n e) as [E1 [E2 E3]].
  apply (wf_frame_socks c n); auto.
  - intros H. destruct e as [d via acts|w o|w tid acts|i acts|routed acts]; simpl.
    5:{ destruct routed.
        - pose proof (cache_none_tm_op n WOwn (RegisterAnon 9 KCoro) H) as H1.
          destruct (tm_op n WOwn (RegisterAnon 9 KCoro)) as [n1 os]. destruct (started_ok os); [|exact H1].
          pose proof (cache_none_perform c acts n1 H1) as H2. destruct (perform c n1 acts). exact H2.
        - pose proof (cache_none_perform c acts n H) as H1. destruct (perform c n acts). exact H1. }
    + destruct (filter (is_mine n) _); [assumption|].
      pose proof (cache_none_perform c acts n H) as H1. destruct (perform c n acts). exact H1.
    + apply cache_none_tm_op. assumption.
    + destruct (get_tm n w) as [x|]; [|assumption]. destruct (get x tid) as [t|]; [|assumption].
      destruct (live t); [|assumption].
      pose proof (cache_none_perform c acts n H) as H1. destruct (perform c n acts). exact H1.
    + destruct (nth_error (n_socks n) i) as [s|]; [|assumption]. destruct (s_open s); [|assumption].
      pose proof (cache_none_perform c acts n H) as H1. destruct (perform c n acts). exact H1.
  - intros Hc. pose proof (wf_socks c n W Hc) as H.
    destruct e as [d via acts|w o|w tid acts|i acts|routed acts]; simpl.
    5:{ destruct routed.
        - pose proof (socks_nil_tm_op n WOwn (RegisterAnon 9 KCoro) H) as H1.
          destruct (tm_op n WOwn (RegisterAnon 9 KCoro)) as [n1 os]. destruct (started_ok os); [|exact H1].
          pose proof (socks_nil_perform c acts Hc n1 H1) as H2. destruct (perform c n1 acts). exact H2.
        - pose proof (socks_nil_perform c acts Hc n H) as H1. destruct (perform c n acts). exact H1. }
    + destruct (filter (is_mine n) _); [assumption|].
      pose proof (socks_nil_perform c acts Hc n H) as H1. destruct (perform c n acts). exact H1.
    + apply socks_nil_tm_op. assumption.
    + destruct (get_tm n w) as [x|]; [|assumption]. destruct (get x tid) as [t|]; [|assumption].
      destruct (live t); [|assumption].
      pose proof (socks_nil_perform c acts Hc n H) as H1. destruct (perform c n acts). exact H1.
    + rewrite H. destruct i; simpl; assumption.
Qed.

Lemma partial_nstep c fl n e : event_routed e = true -> fl_ok fl -> partial c fl n -> partial c fl (fst (nstep c n e)).
Proof.
  intros Hr Ok P.
  assert (T' : all3 (tmP (f_own fl)) (tmP (f_cache fl)) tmok (fst (nstep c n e))).
  { apply all3_nstep; try (intros; apply tmP_tstep; assumption); try (intros; apply tmok_tstep; assumption).
    - apply tmok_fresh.
    - apply (p_tms c fl n P). }
  pose proof (wf_nstep c n e (p_wf c fl n P)) as W'.
  destruct (f_socks fl) eqn:Hf.
  - pose proof (partial_unloaded c fl n P Ok Hf) as U.
    destruct (unloaded_nstep c n e Hr U) as [U' _].
    apply (unloaded_tmok_partial c fl n P U); assumption.
  - destruct (frame_nstep c n e) as [E1 [E2 E3]]. constructor; auto.
    + intros H. pose proof (p_self c fl n P H) as A. unfold A_self in *. rewrite E1, E2. exact A.
    + intros H. pose proof (p_crypto c fl n P H) as A. unfold A_crypto in *. rewrite E1, E3. exact A.
    + rewrite Hf. discriminate.
Qed.

Lemma wf_set_ep c n e' : wf c n -> wrap e' = wrap (n_ep n) -> wf c (set_ep n e').
Proof. intros [F K Cr So] E. constructor; simpl; auto. rewrite E. assumption. Qed.

Lemma cache_none_removals l : forall n o0, n_cache n = None ->
  n_cache (fst (fold_left (fun acc (_ : sock) => let '(n0, o0) := acc in
                            let '(n1, o1) := tm_op n0 WOwn (RegisterAnon 7 KCoro) in (n1, o0 ++ o1)) l (n, o0))) = None.
Proof.
  induction l as [|s r IH]; intros n o0 H; simpl; [assumption|].
  pose proof (cache_none_tm_op n WOwn (RegisterAnon 7 KCoro) H) as H1.
  destruct (tm_op n WOwn (RegisterAnon 7 KCoro)) as [n1 o1]. apply IH. exact H1.
Qed.
Lemma frame_removals l : forall n o0,
  frame n (fst (fold_left (fun acc (_ : sock) => let '(n0, o0) := acc in
                            let '(n1, o1) := tm_op n0 WOwn (RegisterAnon 7 KCoro) in (n1, o0 ++ o1)) l (n, o0))).
Proof.
  induction l as [|s r IH]; intros n o0; simpl; [apply frame_refl|].
  pose proof (frame_tm_op n WOwn (RegisterAnon 7 KCoro)) as H1.
  destruct (tm_op n WOwn (RegisterAnon 7 KCoro)) as [n1 o1]. eapply frame_trans; [exact H1|apply IH].
Qed.
Lemma socks_removals l : forall n o0,
  n_socks (fst (fold_left (fun acc (_ : sock) => let '(n0, o0) := acc in
                            let '(n1, o1) := tm_op n0 WOwn (RegisterAnon 7 KCoro) in (n1, o0 ++ o1)) l (n, o0))) = n_socks n.
Proof.
  induction l as [|s r IH]; intros n o0; simpl; [reflexivity|].
  assert (H1 : n_socks (fst (tm_op n WOwn (RegisterAnon 7 KCoro))) = n_socks n).
  { unfold tm_op. simpl. destruct (tstep (n_tm n) (RegisterAnon 7 KCoro)). reflexivity. }
  destruct (tm_op n WOwn (RegisterAnon 7 KCoro)) as [n1 o1]. simpl in H1. rewrite IH. exact H1.
Qed.

Lemma wf_ustep c n u : wf c n -> wf c (fst (ustep_apply c n u)).
Proof.
  intros W. destruct u; simpl; try assumption.
  - destruct (frame_removals (n_socks n) n []) as [E1 [E2 E3]].
    apply (wf_frame_socks c n); auto.
    + apply cache_none_removals.
    + intros Hc. rewrite socks_removals. apply (wf_socks c n W Hc).
  - destruct (frame_tm_op n WCache Shutdown) as [E1 [E2 E3]]. apply (wf_frame_socks c n); auto.
    + apply cache_none_tm_op.
    + intros Hc. apply socks_nil_tm_op. apply (wf_socks c n W Hc).
  - apply wf_set_ep; [assumption|exact (step_wrap (n_ep n) (RemL (n_me n)))].
  - destruct (frame_tm_op n WOwn Shutdown) as [E1 [E2 E3]]. apply (wf_frame_socks c n); auto.
    + apply cache_none_tm_op.
    + intros Hc. apply socks_nil_tm_op. apply (wf_socks c n W Hc).
  - destruct (n_crypto n) as [l0|]; [|assumption]. apply wf_set_ep; [assumption|exact (step_wrap (n_ep n) (RemL l0))].
  - destruct W as [F K Cr So]. constructor; simpl; auto. intros Hc. rewrite (So Hc). reflexivity.
Qed.

Lemma all3_weaken (Po Po' Pc Pc' Ps : tm -> Prop) n :
  (forall x, Po x -> Po' x) -> (forall x, Pc x -> Pc' x) -> all3 Po Pc Ps n -> all3 Po' Pc' Ps n.
Proof. intros H1 H2 [A [B C]]. repeat split; auto. Qed.

Lemma tmP_mono b b' x : (b' = true -> b = true) -> tmP b x -> tmP b' x.
Proof. intros H [A B]. split; auto. Qed.

Lemma ustep_ids c n u :
  n_me (fst (ustep_apply c n u)) = n_me n /\ n_crypto (fst (ustep_apply c n u)) = n_crypto n
  /\ (n_ep (fst (ustep_apply c n u)) = n_ep n \/ exists x, n_ep (fst (ustep_apply c n u)) = fst (step (n_ep n) (RemL x))).
Proof.
  destruct u; cbn [ustep_apply fst]; try (split; [reflexivity|split; [reflexivity|left; reflexivity]]).
  - destruct (frame_removals (n_socks n) n []) as [E1 [E2 E3]]. auto.
  - destruct (frame_tm_op n WCache Shutdown) as [E1 [E2 E3]]. auto.
  - split; [reflexivity|split; [reflexivity|right; exists (n_me n); reflexivity]].
  - destruct (frame_tm_op n WOwn Shutdown) as [E1 [E2 E3]]. auto.
  - destruct (n_crypto n) as [l0|] eqn:Ec; cbn [fst].
    + split; [reflexivity|split; [simpl; assumption|right; exists l0; reflexivity]].
    + split; [reflexivity|split; [assumption|left; reflexivity]].
Qed.

Lemma A_self_ustep c n u : A_self n -> A_self (fst (ustep_apply c n u)).
Proof.
  intros A. destruct (ustep_ids c n u) as [E2 [E3 [E1|[x E1]]]]; unfold A_self in *; rewrite E1, E2;
    [assumption|apply absent_after_step_rem; assumption].
Qed.
Lemma A_crypto_ustep c n u : A_crypto n -> A_crypto (fst (ustep_apply c n u)).
Proof.
  intros A. destruct (ustep_ids c n u) as [E2 [E3 [E1|[x E1]]]]; unfold A_crypto in *; rewrite E1, E3;
    [assumption|]. destruct (n_crypto n); [apply absent_after_step_rem; assumption|exact Logic.I].
Qed.

Lemma partial_ustep c fl n u : fl_ok fl -> partial c fl n -> partial c (flag_step fl u) (fst (ustep_apply c n u)).
Proof.
  intros Ok P. pose proof (wf_ustep c n u (p_wf c fl n P)) as W'.
  assert (T' : all3 (tmP (f_own fl)) (tmP (f_cache fl)) tmok (fst (ustep_apply c n u))).
  { apply all3_ustep; try (intros; apply tmP_tstep; assumption); try (intros; apply tmok_tstep; assumption).
    apply (p_tms c fl n P). }
  (* the case where everything was already achieved *)
  destruct (f_socks fl) eqn:Hf.
  { pose proof (partial_unloaded c fl n P Ok Hf) as U. destruct (unloaded_ustep c n u U) as [U' _].
    destruct (Ok Hf) as [A [B [C D]]].
    assert (E : flag_step fl u = fl).
    { destruct fl as [a b c0 d e]. simpl in *. subst. destruct u; reflexivity. }
    rewrite E. apply (unloaded_tmok_partial c fl n P U); assumption. }
  destruct P as [W [To [Tc Ts]] Hs Hc Hk].
  pose proof (A_self_ustep c n u) as AS. pose proof (A_crypto_ustep c n u) as AC.
  destruct u; cbn [flag_step].
  - constructor; cbn [f_self f_crypto f_own f_cache f_socks]; auto; try (rewrite Hf; discriminate).
  - constructor; cbn [f_self f_crypto f_own f_cache f_socks]; auto; try (rewrite Hf; discriminate).
  - (* UCacheShutdown *)
    constructor; cbn [f_self f_crypto f_own f_cache f_socks]; auto; try (rewrite Hf; discriminate).
    destruct T' as [A [B C]]. split; [exact A|split; [|exact C]]. intros x Hx.
    cbn [ustep_apply] in Hx. unfold tm_op in Hx. cbn [get_tm] in Hx.
    destruct (n_cache n) as [y|] eqn:Ey; [|cbn [fst] in Hx; rewrite Ey in Hx; discriminate].
    pose proof (tmP_tstep (f_cache fl) y Shutdown (Tc y eq_refl)) as [Oy _].
    pose proof (tmok_shutdown_quiet y (proj1 (Tc y eq_refl))) as Q.
    destruct (tstep y Shutdown) as [y' os] eqn:Et. cbn [fst set_tm n_cache] in Hx. rewrite Ey in Hx.
    inversion Hx; subst x. split; [exact Oy|]. intros _. exact Q.
  - (* URemoveSelf *)
    constructor; cbn [f_self f_crypto f_own f_cache f_socks]; auto; try (rewrite Hf; discriminate).
    intros _. unfold A_self. cbn [ustep_apply fst set_ep n_ep n_me]. pose proof (wf_fw c n W) as F.
    apply forwards_split in F. destruct F as [_ [_ [F3 _]]]. simpl. rewrite F3. simpl. apply rem_absent.
  - (* UShutdownTM *)
    constructor; cbn [f_self f_crypto f_own f_cache f_socks]; auto; try (rewrite Hf; discriminate).
    destruct T' as [A [B C]]. split; [|split; [exact B|exact C]]. split; [apply A|]. intros _.
    cbn [ustep_apply]. unfold tm_op. cbn [get_tm].
    pose proof (tmok_shutdown_quiet (n_tm n) (proj1 To)) as Q.
    destruct (tstep (n_tm n) Shutdown) as [y' os]. exact Q.
  - (* URemoveCrypto *)
    constructor; cbn [f_self f_crypto f_own f_cache f_socks]; auto; try (rewrite Hf; discriminate).
    intros _. unfold A_crypto. cbn [ustep_apply]. destruct (n_crypto n) as [l0|] eqn:Ec; cbn [fst set_ep n_ep n_crypto].
    + rewrite Ec. pose proof (wf_fw c n W) as F. apply forwards_split in F. destruct F as [_ [_ [F3 _]]].
      simpl. rewrite F3. simpl. apply rem_absent.
    + rewrite Ec. exact Logic.I.
  - (* UCloseSockets *)
    constructor; cbn [f_self f_crypto f_own f_cache f_socks]; auto; try (rewrite Hf; discriminate).
    intros _. cbn [ustep_apply fst set_socks n_socks]. apply Forall_map.
    eapply Forall_impl; [|exact Ts]. intros s Hs0. apply close_sock_closed. exact Hs0.
  - constructor; cbn [f_self f_crypto f_own f_cache f_socks]; auto; try (rewrite Hf; discriminate).
Qed.

Lemma steps_of_cons_step u r : steps_of (IStep u :: r) = u :: steps_of r.
Proof. reflexivity. Qed.
Lemma steps_of_cons_event e r : steps_of (IEvent e :: r) = steps_of r.
Proof. reflexivity. Qed.

Lemma partial_irun c l : forall fl n,
  Forall (fun i => item_routed i = true) l ->
  fl_ok fl -> partial c fl n -> partial c (fold_left flag_step (steps_of l) fl) (fst (irun c n l)).
Proof.
  induction l as [|i r IH]; intros fl n Hr Ok P; simpl; [assumption|].
  inversion Hr; subst. destruct i as [u|e].
  - pose proof (partial_ustep c fl n u Ok P) as P1. simpl. destruct (ustep_apply c n u) as [n1 o1].
    pose proof (IH _ n1 H2 (fl_ok_step fl u Ok) P1) as P2. destruct (irun c n1 r) as [n2 o2]. exact P2.
  - pose proof (partial_nstep c fl n e H1 Ok P) as P1. simpl. destruct (nstep c n e) as [n1 o1].
    pose proof (IH _ n1 H2 Ok P1) as P2. destruct (irun c n1 r) as [n2 o2]. exact P2.
Qed.

(* a node at the moment unload() is requested: any endpoint tables, any tasks, any sockets *)
Record loaded (c : cls) (n : node) : Prop := mkL {
  l_wf : wf c n;
  l_tms : all3 tmok tmok tmok n }.

Lemma fold_flags_mono steps : forall fl,
  (f_self fl = true -> f_self (fold_left flag_step steps fl) = true).
Proof.
  induction steps as [|u r IH]; intros fl H; simpl; [assumption|]. apply IH. destruct u; simpl; auto.
Qed.

Lemma loaded_partial c n : loaded c n -> partial c (flags0 c) n.
Proof.
  intros [W [To [Tc Ts]]]. constructor; auto.
  - split; [|split].
    + split; [exact To|]. simpl. discriminate.
    + intros x Hx. split; [exact (Tc x Hx)|]. simpl. intros H. apply negb_true_iff in H.
      rewrite (wf_cache c n W H) in Hx. discriminate.
    + exact Ts.
  - simpl. discriminate.
  - simpl. intros H. apply negb_true_iff in H. unfold A_crypto. rewrite (wf_crypto c n W H). exact Logic.I.
  - simpl. discriminate.
Qed.

Lemma fl_ok0 c : fl_ok (flags0 c).
Proof. unfold fl_ok, flags0. simpl. discriminate. Qed.

(* a complete unload(), with anything interleaved, leaves the overlay unloaded *)
Lemma unload_establishes_l : forall c n l,
  loaded c n -> Forall (fun i => item_routed i = true) l ->
  complete_unload c (steps_of l) = true -> unloaded (fst (irun c n l)).
Proof.
  intros c n l L Hr Hc.
  pose proof (partial_irun c l (flags0 c) n Hr (fl_ok0 c) (loaded_partial c n L)) as P.
  unfold complete_unload in Hc. set (fl := fold_left flag_step (steps_of l) (flags0 c)) in *.
  rewrite !andb_true_iff in Hc. destruct Hc as [[[[H1 H2] H3] H4] H5].
  destruct P as [W [To [Tc Ts]] Hs Hcr Hk].
  constructor; auto.
  - destruct To as [_ Q]. auto.
  - intros x Hx. destruct (Tc x Hx) as [_ Q]. auto.
  - apply orb_true_iff in H5. destruct H5 as [H5|H5]; [auto|].
    apply negb_true_iff in H5. rewrite (wf_socks c _ W H5). constructor.
Qed.

(* ... and from then on it is silent and keeps every socket closed, whatever happens *)
Lemma unloaded_is_silent_l : forall c n l later,
  loaded c n -> Forall (fun i => item_routed i = true) (l ++ later) ->
  complete_unload c (steps_of l) = true ->
  let n1 := fst (irun c n l) in
  Forall silent_out (snd (irun c n1 later))
  /\ Forall (fun s => s_open s = false) (n_socks (fst (irun c n1 later)))
  /\ unloaded (fst (irun c n1 later)).
Proof.
  intros c n l later L Hr Hc. cbv zeta. apply Forall_app in Hr. destruct Hr as [Hr1 Hr2].
  pose proof (unload_establishes_l c n l L Hr1 Hc) as U.
  destruct (unloaded_irun c later _ Hr2 U) as [U' O']. split; [assumption|split; [|assumption]].
  eapply Forall_impl; [|exact (u_socks _ U')]. intros s [H _]. exact H.
Qed.

(* neither the overlay nor the crypto endpoint it installed stays registered *)
Lemma crypto_listener_removed_l : forall c n l later o,
  loaded c n -> Forall (fun i => item_routed i = true) (l ++ later) ->
  complete_unload c (steps_of l) = true ->
  let n2 := fst (irun c (fst (irun c n l)) later) in
  ~ In (n_me n2) (called (n_ep n2) o)
  /\ (forall cr, n_crypto n2 = Some cr -> ~ In cr (called (n_ep n2) o) /\ absent cr (inner (n_ep n2))).
Proof.
  intros c n l later o L Hr Hc. cbv zeta.
  destruct (unloaded_is_silent_l c n l later L Hr Hc) as [_ [_ U]].
  split.
  - apply called_absent. exact (u_self _ U).
  - intros cr Hcr. pose proof (u_crypto _ U) as A. unfold A_crypto in A. rewrite Hcr in A.
    split; [apply called_absent; exact A|exact A].
Qed.
