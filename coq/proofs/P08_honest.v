(* C08: honest exchanges.  After a create exchange, and after an extend exchange through the last node of a
   path of any length, the originator's new hop names the selected peer, both ends hold the same session
   keys, and the earlier hops are where they were; by induction, for paths of every length. *)
From Coq Require Import ZArith List Bool Lia.
From IPV8V Require Import lib.PyErr model.M08_handshake proofs.P08_base proofs.P08_origin proofs.P08_relay.
Import ListNotations.
Open Scope Z_scope.

Section Honest.
Variable C : crypto.
Implicit Types (O R B : @node C) (h u : @hop C).

Hypothesis dh_comm : forall a b, dh C a (pub C b) = dh C b (pub C a).
Hypothesis tag_eqb_refl : forall a, tag_eqb C a a = true.

(* the node's public key bin carries the public half of its private key *)
Definition wf_node B : Prop := cpk C (n_pkbin B) = pub C (n_sk B).

(* the originator waits for an answer: unverified hop u with ephemeral secret x, retry cache with identifier pid *)
Definition pending O (cid : Z) u (x : SK C) (pid : Z) : Prop :=
  exists c r, aget cid (n_circ O) = Some c /\ c_unv c = Some u /\ h_dh u = Some x
              /\ aget cid (n_retry O) = Some r /\ r_pid r = pid.

Lemma ours_accept O cid Y au ce o c u x s1 s2 :
  aget cid (n_circ O) = Some c -> c_unv c = Some u -> h_dh u = Some x ->
  dh C x Y = Some s1 -> dh C x (cpk C (p_key (h_peer u))) = Some s2 ->
  tag_eqb C au (mac C s1 Y) = true ->
  hops_of (st (ours O cid Y au ce o)) cid
  = Some (c_hops c ++ [mkHop (h_peer u) (Some (kdf C s1 s2)) (Some x)]).
Proof.
  intros G U X D1 D2 T.
  destruct (ours_cases C O cid Y au ce o) as [S|(c' & h & G' & AC & S)].
  - (* the no-change alternative contradicts the accept conditions: compute *)
    exfalso. revert S. unfold ours. rewrite G, U, X, D1, D2, T. cbn [negb].
    set (c1 := with_hops_unv c (c_hops c ++ [mkHop (h_peer u) (Some (kdf C s1 s2)) (Some x)]) None).
    set (n1 := set_circ O (aset cid c1 (n_circ O))).
    assert (H1 : hops_of n1 cid = Some (c_hops c ++ [mkHop (h_peer u) (Some (kdf C s1 s2)) (Some x)])).
    { unfold hops_of, n1. cbn [n_circ set_circ]. rewrite aget_aset_same. reflexivity. }
    assert (K : forall n2, same_hops n1 n2 -> same_hops O n2 -> False).
    { intros n2 A B. specialize (A cid). specialize (B cid). rewrite A, H1 in B. unfold hops_of in B.
      rewrite G in B. inversion B as [E]. apply (f_equal (@length _)) in E. rewrite app_length in E. cbn in E. lia. }
    destruct (cstate c1).
    + apply K. apply same_hops_refl.
    + destruct (aget cid (n_retry n1)); [|apply K; apply same_hops_refl].
      destruct (cdec C (kdf C s1 s2) ce) as [l|e0]; [|apply K; intro; reflexivity].
      destruct (split_cands l) as [rel ex].
      apply K. eapply same_hops_trans; [|apply sext_same]. intro; reflexivity.
    + destruct (aget cid (n_retry n1)); apply K; intro; reflexivity.
  - rewrite G in G'. inversion G'; subst c'.
    destruct AC as (c2 & u2 & x2 & t1 & t2 & G2 & U2 & X2 & E1 & E2 & _ & ->).
    rewrite G in G2. inversion G2; subst c2. rewrite U in U2. inversion U2; subst u2.
    rewrite X in X2. inversion X2; subst x2. rewrite D1 in E1. inversion E1; subst t1.
    rewrite D2 in E2. inversion E2; subst t2.
    rewrite S. unfold hops_of. cbn [n_circ set_circ]. rewrite aget_aset_same. reflexivity.
Qed.

(* what a node that joins answers, and what it keeps *)
Lemma join_answer_l B src cid pid npk X o B' a cid' pid' Y au ce :
  handle B src (MCreate cid pid npk X) o = (B', [Send a (MCreated cid' pid' Y au ce)], None) ->
  exists s1 s2,
    dh C (sk_of C (o_x o)) X = Some s1 /\ dh C (n_sk B) X = Some s2
    /\ Y = pub C (sk_of C (o_x o)) /\ au = mac C s1 Y /\ cid' = cid /\ pid' = pid /\ a = src
    /\ node_keys B' cid = Some (kdf C s1 s2) /\ n_pkbin B' = n_pkbin B /\ n_sk B' = n_sk B.
Proof.
  cbn [handle]. unfold on_create.
  destruct (negb (n_any_flag B)); [intros K; inversion K|].
  destruct (ahas cid (n_dreq B)); [intros K; inversion K|].
  destruct (ahas cid (n_circ B) || ahas cid (n_relay B) || ahas cid (n_exit B)); [intros K; inversion K|].
  destruct (n_max_joined B <=? zlen (n_relay B) + zlen (n_exit B)); [intros K; inversion K|].
  destruct (dh C (sk_of C (o_x o)) X) as [s1|]; [|intros K; inversion K].
  destruct (dh C (n_sk B) X) as [s2|]; [|intros K; inversion K].
  destruct (negb (valid_key C npk)); [intros K; inversion K|].
  intros K. inversion K; subst. exists s1, s2.
  split; [reflexivity|]. split; [reflexivity|]. split; [reflexivity|]. split; [reflexivity|].
  split; [reflexivity|]. split; [reflexivity|]. split; [reflexivity|].
  split; [|split; reflexivity].
  unfold node_keys. cbn [n_exit set_exit set_dreq]. rewrite aget_aset_same. reflexivity.
Qed.

(* the originator accepts the answer of the selected peer and derives the same keys *)
Lemma origin_accepts_l O cid u x pid b y s1 s2 m ce src o :
  pending O cid u x pid ->
  cpk C (p_key (h_peer u)) = pub C b ->
  dh C y (pub C x) = Some s1 -> dh C b (pub C x) = Some s2 ->
  answer_of C m = Some (cid, pid, pub C y, mac C s1 (pub C y), ce) -> not_relay_case C O m ->
  exists hs, hops_of O cid = Some hs
    /\ hops_of (st (handle O src m o)) cid = Some (hs ++ [mkHop (h_peer u) (Some (kdf C s1 s2)) (Some x)]).
Proof.
  intros (c & r & G & U & X & R & P) PB D1 D2 A NR.
  exists (c_hops c). split; [unfold hops_of; rewrite G; reflexivity|].
  rewrite (answer_dispatch C O src m o cid pid _ _ ce A NR), R.
  apply Z.eqb_eq in P. rewrite P.
  apply ours_accept; auto.
  - rewrite dh_comm. exact D1.
  - rewrite PB, dh_comm. exact D2.
Qed.

(* ---- the two kinds of honest exchange ------------------------------------------------------------- *)

(* create: the originator waits for the first hop B; B handles the create; the originator handles B's created *)
Definition create_exchange O (cid : Z) B O' B' : Prop :=
  exists u x pid srcO srcB oB oO Y au ce,
    pending O cid u x pid /\ aget pid (n_creq O) = None /\ p_key (h_peer u) = n_pkbin B
    /\ handle B srcO (MCreate cid pid (n_pkbin O) (pub C x)) oB = (B', [Send srcO (MCreated cid pid Y au ce)], None)
    /\ O' = st (handle O srcB (MCreated cid pid Y au ce) oO).

(* extend: the originator waits for B behind the last node R of the path (which knows the circuit as rc);
   R handles the extend and sends a create; B answers; R turns the created into an extended; the originator
   handles it (under its own circuit id: cells are re-labelled hop by hop) *)
Definition extend_exchange O (cid : Z) R (rc : Z) B O' R' B' (tc : Z) : Prop :=
  exists u x pid addr srcP srcR srcB first oR oB oR2 oO R1 aB num X' Y au ce aP pid' Y' au' ce',
    pending O cid u x pid /\ p_key (h_peer u) = n_pkbin B
    /\ handle R srcP (MExtend rc pid (n_pkbin B) (pub C x) addr) oR
       = (R1, [Send aB (MCreate tc num (n_pkbin R) X')], None)
    /\ handle B srcR (MCreate tc num (n_pkbin R) X') oB = (B', [Send srcR (MCreated tc num Y au ce)], None)
    /\ handle R1 srcB (MCreated tc num Y au ce) oR2
       = (R', [RmExit rc; Send aP (MExtended rc pid' Y' au' ce')], None)
    /\ O' = st (handle O first (MExtended cid pid' Y' au' ce') oO).

(* a hop of the originator and a node of the path agree *)
Definition agree h (nd : @node C * Z) : Prop :=
  h_keys h = node_keys (fst nd) (snd nd) /\ h_keys h <> None /\ p_key (h_peer h) = n_pkbin (fst nd).

Lemma create_agree_l O cid B O' B' :
  wf_node B -> create_exchange O cid B O' B' ->
  exists hs h, hops_of O cid = Some hs /\ hops_of O' cid = Some (hs ++ [h]) /\ agree h (B', cid).
Proof.
  intros WF (u & x & pid & srcO & srcB & oB & oO & Y & au & ce & PE & NQ & PK & HB & ->).
  destruct (join_answer_l B srcO cid pid _ _ oB B' _ _ _ Y au ce HB)
    as (s1 & s2 & D1 & D2 & -> & -> & _ & _ & _ & KB & PB & _).
  destruct (origin_accepts_l O cid u x pid (n_sk B) (sk_of C (o_x oB)) s1 s2
              (MCreated cid pid (pub C (sk_of C (o_x oB))) (mac C s1 (pub C (sk_of C (o_x oB)))) ce) ce srcB oO)
    as (hs & H & H'); auto; try (rewrite PK; exact WF); try reflexivity.
  exists hs, (mkHop (h_peer u) (Some (kdf C s1 s2)) (Some x)). split; [exact H|]. split; [exact H'|].
  unfold agree. cbn. rewrite KB. split; [reflexivity|]. split; [discriminate|]. rewrite PB. exact PK.
Qed.

Lemma extend_agree_l O cid R rc B O' R' B' tc :
  wf_node B -> extend_exchange O cid R rc B O' R' B' tc ->
  exists hs h, hops_of O cid = Some hs /\ hops_of O' cid = Some (hs ++ [h]) /\ agree h (B', tc)
    /\ node_keys R' rc = node_keys R rc /\ n_pkbin R' = n_pkbin R.
Proof.
  intros WF (u & x & pid & addr & srcP & srcR & srcB & first & oR & oB & oR2 & oO & R1 & aB & num & X' & Y & au & ce
             & aP & pid' & Y' & au' & ce' & PE & PK & HR & HB & HR2 & ->).
  (* the relay forwards the originator's key unmodified and records the pending extend *)
  destruct (on_extend_out_l C R srcP rc pid (n_pkbin B) (pub C x) addr oR
              (Send aB (MCreate tc num (n_pkbin R) X'))) as (pv & cd & EA & ER & _).
  { rewrite HR. left. reflexivity. }
  inversion EA; subst. rewrite HR in ER. inversion ER as [ER1]. clear ER.
  (* B joins *)
  destruct (join_answer_l B srcR _ _ _ _ oB B' _ _ _ Y au ce HB)
    as (s1 & s2 & D1 & D2 & -> & -> & _ & _ & _ & KB & PB & _).
  (* the relay turns the created into the extended of the pending extend *)
  assert (Q : aget (o_num oR) (n_creq R1) = Some (mkCreq pid (o_cid oR) rc pv cd)).
  { rewrite ER1. cbn [n_creq set_creq]. apply aget_aset_same. }
  rewrite (on_created_relay_l C R1 srcB (o_cid oR) (o_num oR) _ _ ce oR2 _ Q) in HR2. cbn [q_from q_to q_ident q_peer q_to_peer] in HR2.
  destruct (aget rc (n_exit R1)) as [eh|] eqn:EX; [|inversion HR2].
  destruct (ahas rc (n_relay R1)); [inversion HR2|].
  inversion HR2; subst pid' Y' au' ce' aP. clear HR2.
  (* the originator accepts *)
  destruct (origin_accepts_l O cid u x pid (n_sk B) (sk_of C (o_x oB)) s1 s2
              (MExtended cid pid (pub C (sk_of C (o_x oB))) (mac C s1 (pub C (sk_of C (o_x oB)))) ce) ce first oO)
    as (hs & H & H'); auto; try (rewrite PK; exact WF); try reflexivity; try exact I.
  exists hs, (mkHop (h_peer u) (Some (kdf C s1 s2)) (Some x)). split; [exact H|]. split; [exact H'|].
  split.
  { unfold agree. cbn. rewrite KB. split; [reflexivity|]. split; [discriminate|]. rewrite PB. exact PK. }
  (* the relay keeps its own keys for this circuit *)
  assert (EX0 : aget rc (n_exit R) = Some eh). { rewrite ER1 in EX. exact EX. }
  split.
  - unfold node_keys. cbn [n_exit set_relay set_creq]. rewrite ER1. cbn [n_exit set_creq]. rewrite EX0. reflexivity.
  - rewrite ER1. reflexivity.
Qed.

(* ---- paths of any length ---------------------------------------------------------------------------- *)
Inductive built (cid : Z) : @node C -> list (@node C * Z) -> Prop :=
| built_first O B O' B' :
    hops_of O cid = Some [] -> wf_node B -> create_exchange O cid B O' B' -> built cid O' [(B', cid)]
| built_more O pre R rc B O' R' B' tc :
    built cid O (pre ++ [(R, rc)]) -> wf_node B -> extend_exchange O cid R rc B O' R' B' tc ->
    built cid O' (pre ++ [(R', rc); (B', tc)]).

Lemma honest_agree_l cid O path :
  built cid O path -> exists hs, hops_of O cid = Some hs /\ Forall2 agree hs path.
Proof.
  induction 1 as [O B O' B' H0 WF EX|O pre R rc B O' R' B' tc BU IH WF EX].
  - destruct (create_agree_l O cid B O' B' WF EX) as (hs & h & H & H' & AG).
    rewrite H0 in H. inversion H; subst hs. exists [h]. split; [exact H'|]. constructor; [exact AG|constructor].
  - destruct IH as (hs0 & H0 & F).
    destruct (extend_agree_l O cid R rc B O' R' B' tc WF EX) as (hs & h & H & H' & AG & KR & PR).
    rewrite H0 in H. inversion H; subst hs.
    apply Forall2_app_inv_r in F. destruct F as (h1 & h2 & F1 & F2 & ->).
    inversion F2 as [|hR ndR t1 t2 AR F3]; subst. inversion F3; subst.
    exists (h1 ++ [hR; h]). split.
    { rewrite H'. rewrite <- app_assoc. reflexivity. }
    apply Forall2_app; [exact F1|].
    constructor; [|constructor; [exact AG|constructor]].
    destruct AR as (A1 & A2 & A3). unfold agree. cbn [fst snd] in *. rewrite KR, PR. auto.
Qed.

(* the removal of the relay's former exit socket does not change the keys it relays with *)
Lemma exit_gone_keeps_keys_l R1 srcB tc num Y au ce o q eh :
  aget num (n_creq R1) = Some q -> aget (q_from q) (n_exit R1) = Some eh ->
  ahas (q_from q) (n_relay R1) = false ->
  let R' := st (handle R1 srcB (MCreated tc num Y au ce) o) in
  node_keys (st (step R' (EvExitGone (q_from q)))) (q_from q) = h_keys eh
  /\ node_keys R' (q_from q) = h_keys eh.
Proof.
  intros Q EX NR. cbn zeta. rewrite (on_created_relay_l C R1 srcB tc num Y au ce o q Q), EX, NR.
  unfold node_keys. cbn [st fst step done n_exit n_relay set_relay set_creq set_exit].
  rewrite aget_adel_same, aget_aset_same, EX. cbn. auto.
Qed.

End Honest.
