(* C15 - lemmas about the value codec: unserialize_value, post_process_values, serialize_value. *)
From Coq Require Import ZArith List Bool Lia ZifyBool Arith.
From IPV8V Require Import lib.PyErr lib.Bytes lib.BE gen.G15_consts model.M15_dht_store proofs.P15_storage.
Import ListNotations.
Open Scope Z_scope.

(* ---- Python slices with a negative bound (as in P01_auth; restated here to keep C15 self-contained) ---- *)
Lemma clamp_neg15 len n : 0 < n -> 0 <= len -> clamp len (- n) = Z.max 0 (len - n).
Proof.
  intros Hn Hl. unfold clamp. cbv zeta.
  replace (- n <? 0) with true by lia.
  destruct (Z_lt_ge_dec (len - n) 0) as [Hlt|Hge].
  - replace (- n + len <? 0) with true by lia. rewrite Z.max_l by lia. reflexivity.
  - replace (- n + len <? 0) with false by lia. replace (len <? - n + len) with false by lia.
    rewrite Z.max_r by lia. lia.
Qed.

Lemma slice_upto15 d n : 0 < n -> slice d None (Some (- n)) = firstn (Z.to_nat (Z.max 0 (blen d - n))) d.
Proof.
  intros Hn. unfold slice. rewrite clamp_neg15 by (try lia; apply blen_nonneg).
  rewrite Z.sub_0_r. reflexivity.
Qed.

Lemma slice_from15 d n : 0 < n -> slice d (Some (- n)) None = skipn (Z.to_nat (Z.max 0 (blen d - n))) d.
Proof.
  intros Hn. unfold slice. rewrite clamp_neg15 by (try lia; apply blen_nonneg).
  apply firstn_all2. rewrite skipn_length. unfold blen. lia.
Qed.

Lemma slice_partition15 d n : 0 <= n -> slice d None (Some (- n)) ++ slice d (Some (- n)) None = d.
Proof.
  intros Hn. destruct (Z.eq_dec n 0) as [->|Hnz].
  - unfold slice, clamp. cbn. pose proof (blen_nonneg d).
    replace (blen d <? 0) with false by lia. cbn. rewrite Z.sub_0_r.
    apply firstn_all2. unfold blen. lia.
  - rewrite slice_upto15, slice_from15 by lia. apply firstn_skipn.
Qed.

Lemma okey_eqb_eq a b : okey_eqb a b = true <-> a = b.
Proof.
  destruct a as [x|], b as [y|]; cbn; split; intro H; try discriminate; try reflexivity.
  - apply bytes_eqb_eq in H. congruence.
  - inversion H. apply bytes_eqb_refl.
Qed.

Lemma okey_eqb_false a b : okey_eqb a b = false <-> a <> b.
Proof.
  split; intro H.
  - intro E. apply okey_eqb_eq in E. congruence.
  - destruct (okey_eqb a b) eqn:E; [|reflexivity]. apply okey_eqb_eq in E. contradiction.
Qed.

Section Codec.
Variable verify : bytes -> bytes -> bytes -> bool.
Variable siglen : bytes -> res nat.

Notation unserialize := (unserialize verify siglen).
Notation unpack_values := (unpack_values verify siglen).
Notation post_process := (post_process verify siglen).

(* ---- unserialize_value ---- *)
Lemma unserialize_signed_l value d pk ver :
  unserialize value = Ok (Some (d, Some pk, ver)) ->
  exists n, unpack_signed value = Ok (d, ver, pk)
    /\ siglen pk = Ok n
    /\ verify pk (slice value None (Some (- Z.of_nat n))) (slice value (Some (- Z.of_nat n)) None) = true
    /\ slice value None (Some (- Z.of_nat n)) ++ slice value (Some (- Z.of_nat n)) None = value.
Proof.
  unfold M15_dht_store.unserialize. destruct value as [|t tl]; [discriminate|].
  destruct (t =? DHT_ENTRY_STR); [discriminate|].
  destruct (t =? DHT_ENTRY_STR_SIGNED); [|discriminate].
  destruct (unpack_signed (t :: tl)) as [[[d0 ver0] pk0]|e]; cbn [bind]; [|discriminate].
  destruct (siglen pk0) as [n|e] eqn:En; cbn [bind]; [|discriminate]. cbv zeta.
  destruct (verify pk0 _ _) eqn:Ev; [|discriminate].
  intros H. inversion H; subst. exists n. split; [reflexivity|]. split; [exact En|]. split; [exact Ev|].
  apply slice_partition15. lia.
Qed.

Lemma unserialize_plain_l value d ver :
  unserialize value = Ok (Some (d, None, ver)) -> value = DHT_ENTRY_STR :: d /\ ver = 0.
Proof.
  unfold M15_dht_store.unserialize. destruct value as [|t tl]; [discriminate|].
  destruct (t =? DHT_ENTRY_STR) eqn:Et.
  - intros H. inversion H; subst. cbn [skipn]. split; [f_equal; lia | reflexivity].
  - destruct (t =? DHT_ENTRY_STR_SIGNED); [|discriminate].
    destruct (unpack_signed (t :: tl)) as [[[d0 ver0] pk0]|e]; cbn [bind]; [|discriminate].
    destruct (siglen pk0) as [n|e]; cbn [bind]; [|discriminate]. cbv zeta.
    destruct (verify pk0 _ _); discriminate.
Qed.

(* ---- the dictionary of post_process_values ---- *)
Definition entry_of (value : bytes) (k : option bytes) (x : Z * bytes) : Prop :=
  unserialize value = Ok (Some (snd x, k, fst x)).

Record dinv (seen : list bytes) (d : udict) : Prop := mkDinv {
  d_keys : NoDup (map fst d);
  d_sound : forall k l x, In (k, l) d -> In x l -> exists value, In value seen /\ entry_of value k x;
  d_complete : forall value k x, In value seen -> entry_of value k x -> exists l, In (k, l) d /\ In x l
}.

Lemma dd_append_keys d k x :
  map fst (dd_append d k x) = if existsb (fun e => okey_eqb (fst e) k) d then map fst d else map fst d ++ [k].
Proof.
  induction d as [|[k' l] d IH]; cbn [dd_append existsb map fst]; [reflexivity|].
  destruct (okey_eqb k' k) eqn:E; cbn [orb map fst]; [reflexivity|].
  rewrite IH. destruct (existsb _ d); reflexivity.
Qed.

Lemma dd_append_in d k x k' l' :
  NoDup (map fst d) ->
  In (k', l') (dd_append d k x) ->
  (k' <> k /\ In (k', l') d) \/
  (k' = k /\ ((exists l, In (k, l) d /\ l' = l ++ [x]) \/ (l' = [x] /\ ~ In k (map fst d)))).
Proof.
  induction d as [|[k1 l1] d IH]; cbn [dd_append map fst]; intros Hnd.
  - intros [H|[]]. inversion H; subst. right. split; [reflexivity|]. right. split; [reflexivity | intros []].
  - inversion Hnd as [|? ? Hnotin Hnd']; subst. destruct (okey_eqb k1 k) eqn:E.
    + apply okey_eqb_eq in E. subst k1. intros [H|H].
      * inversion H; subst. right. split; [reflexivity|]. left. exists l1. split; [left; reflexivity | reflexivity].
      * left. split; [|right; exact H]. intro Ek. subst k'. apply Hnotin.
        change k with (fst (k, l')). apply in_map. exact H.
    + intros [H|H].
      * inversion H; subst. left. apply okey_eqb_false in E. split; [exact E | left; reflexivity].
      * destruct (IH Hnd' H) as [[H1 H2]|[H1 [[l [H2 H3]]|[H2 H3]]]].
        -- left. split; [exact H1 | right; exact H2].
        -- right. split; [exact H1|]. left. exists l. split; [right; exact H2 | exact H3].
        -- right. split; [exact H1|]. right. split; [exact H2|]. intros [F|F]; [|auto].
           apply okey_eqb_false in E. congruence.
Qed.

Lemma dd_append_other d k x k' l' : k' <> k -> In (k', l') d -> In (k', l') (dd_append d k x).
Proof.
  intros Hne. induction d as [|[k1 l1] d IH]; cbn [dd_append]; intros H; [destruct H|].
  destruct (okey_eqb k1 k) eqn:E.
  - destruct H as [H|H]; [|right; exact H]. inversion H; subst. apply okey_eqb_eq in E. congruence.
  - destruct H as [H|H]; [left; exact H | right; apply IH; exact H].
Qed.

Lemma dd_append_hit d k x l : NoDup (map fst d) -> In (k, l) d -> In (k, l ++ [x]) (dd_append d k x).
Proof.
  induction d as [|[k1 l1] d IH]; cbn [dd_append map fst]; intros Hnd H; [destruct H|].
  inversion Hnd as [|? ? Hnotin Hnd']; subst. destruct (okey_eqb k1 k) eqn:E.
  - apply okey_eqb_eq in E. subst k1. destruct H as [H|H].
    + inversion H; subst. left. reflexivity.
    + exfalso. apply Hnotin. change k with (fst (k, l)). apply in_map. exact H.
  - destruct H as [H|H].
    + inversion H; subst. apply okey_eqb_false in E. congruence.
    + right. apply IH; assumption.
Qed.

Lemma dd_append_new d k x : ~ In k (map fst d) -> In (k, [x]) (dd_append d k x).
Proof.
  induction d as [|[k1 l1] d IH]; cbn [dd_append map fst]; intros H; [left; reflexivity|].
  destruct (okey_eqb k1 k) eqn:E.
  - apply okey_eqb_eq in E. subst k1. exfalso. apply H. left. reflexivity.
  - right. apply IH. intro F. apply H. right. exact F.
Qed.

Lemma NoDup_snoc {A} (l : list A) k : NoDup l -> ~ In k l -> NoDup (l ++ [k]).
Proof.
  induction l as [|x l IH]; cbn [app]; intros H Hk; [constructor; [intros []|constructor]|].
  inversion H; subst. constructor.
  - intro F. apply in_app_or in F as [F|[F|[]]]; [contradiction|]. apply Hk. left. symmetry. exact F.
  - apply IH; [assumption|]. intro F. apply Hk. right. exact F.
Qed.

Lemma key_in_dec (d : udict) k : In k (map fst d) \/ ~ In k (map fst d).
Proof.
  destruct (existsb (fun e => okey_eqb (fst e) k) d) eqn:E.
  - left. apply existsb_exists in E as [e [Hin He]]. apply okey_eqb_eq in He. subst k. apply in_map. exact Hin.
  - right. intro Hin. apply in_map_iff in Hin as [e [He Hin]].
    assert (F : existsb (fun e => okey_eqb (fst e) k) d = true).
    { apply existsb_exists. exists e. split; [exact Hin | apply okey_eqb_eq; exact He]. }
    congruence.
Qed.

Lemma dd_append_nodup d k x : NoDup (map fst d) -> NoDup (map fst (dd_append d k x)).
Proof.
  intros H. rewrite dd_append_keys. destruct (existsb (fun e => okey_eqb (fst e) k) d) eqn:E; [exact H|].
  apply NoDup_snoc; [exact H|].
  intro Hin. apply in_map_iff in Hin as [e [He Hin]].
  assert (F : existsb (fun e => okey_eqb (fst e) k) d = true).
  { apply existsb_exists. exists e. split; [exact Hin | apply okey_eqb_eq; exact He]. }
  congruence.
Qed.

Lemma nodup_fst_unique {A B} (d : list (A * B)) k l1 l2 :
  NoDup (map fst d) -> In (k, l1) d -> In (k, l2) d -> l1 = l2.
Proof.
  induction d as [|[k0 l0] d IH]; cbn [map fst]; intros Hnd H1 H2; [destruct H1|].
  inversion Hnd as [|? ? Hnotin Hnd']; subst.
  destruct H1 as [H1|H1], H2 as [H2|H2].
  - congruence.
  - inversion H1; subst. exfalso. apply Hnotin. change k with (fst (k, l2)). apply in_map. exact H2.
  - inversion H2; subst. exfalso. apply Hnotin. change k with (fst (k, l1)). apply in_map. exact H1.
  - eapply IH; eauto.
Qed.

Lemma dinv_nil : dinv [] [].
Proof. constructor; cbn; [constructor | intros ? ? ? [] | intros ? ? ? []]. Qed.

Lemma dinv_skip seen d v : dinv seen d -> unserialize v = Ok None -> dinv (seen ++ [v]) d.
Proof.
  intros [K S C] Hu. constructor; [exact K | |].
  - intros k l x Hin Hx. destruct (S k l x Hin Hx) as [value [H1 H2]]. exists value. split; [|exact H2].
    apply in_or_app. left. exact H1.
  - intros value k x Hin He. apply in_app_or in Hin as [Hin|[<-|[]]]; [eapply C; eauto|].
    unfold entry_of in He. congruence.
Qed.

Lemma dinv_add seen d v data pk ver :
  dinv seen d -> unserialize v = Ok (Some (data, pk, ver)) -> dinv (seen ++ [v]) (dd_append d pk (ver, data)).
Proof.
  intros [K S C] Hu. constructor; [apply dd_append_nodup; exact K | |].
  - intros k l x Hin Hx. apply (dd_append_in _ _ _ _ _ K) in Hin.
    destruct Hin as [[Hne Hin]|[-> [[l0 [Hin ->]]|[-> _]]]].
    + destruct (S k l x Hin Hx) as [value [H1 H2]]. exists value. split; [apply in_or_app; left; exact H1 | exact H2].
    + apply in_app_or in Hx as [Hx|[<-|[]]].
      * destruct (S pk l0 x Hin Hx) as [value [H1 H2]]. exists value. split; [apply in_or_app; left; exact H1 | exact H2].
      * exists v. split; [apply in_or_app; right; left; reflexivity | exact Hu].
    + destruct Hx as [<-|[]]. exists v. split; [apply in_or_app; right; left; reflexivity | exact Hu].
  - intros value k x Hin He. apply in_app_or in Hin as [Hin|[<-|[]]].
    + destruct (C value k x Hin He) as [l [H1 H2]].
      destruct (okey_eqb k pk) eqn:E.
      * apply okey_eqb_eq in E. subst k. exists (l ++ [(ver, data)]).
        split; [apply dd_append_hit; assumption | apply in_or_app; left; exact H2].
      * apply okey_eqb_false in E. exists l. split; [apply dd_append_other; assumption | exact H2].
    + unfold entry_of in He. rewrite Hu in He. inversion He; subst. destruct x as [xv xd]. cbn [fst snd] in *.
      destruct (key_in_dec d k) as [Hk|Hk].
      * apply in_map_iff in Hk as [[k0 l0] [Hk0 Hin0]]. cbn [fst] in Hk0. subst k0.
        exists (l0 ++ [(xv, xd)]). split; [apply dd_append_hit; assumption | apply in_or_app; right; left; reflexivity].
      * exists [(xv, xd)]. split; [apply dd_append_new; exact Hk | left; reflexivity].
Qed.

Lemma unpack_values_inv vals : forall seen d d',
  dinv seen d -> unpack_values vals d = Ok d' -> dinv (seen ++ vals) d'.
Proof.
  induction vals as [|v vals IH]; intros seen d d' Hd Hu; cbn [M15_dht_store.unpack_values] in Hu.
  - inversion Hu; subst. rewrite app_nil_r. exact Hd.
  - destruct (unserialize v) as [[[[data pk] ver]|]|e] eqn:Ev; cbn [bind] in Hu; [| |discriminate].
    + replace (seen ++ v :: vals) with ((seen ++ [v]) ++ vals) by (rewrite <- app_assoc; reflexivity).
      eapply IH; [|exact Hu]. eapply dinv_add; eauto.
    + replace (seen ++ v :: vals) with ((seen ++ [v]) ++ vals) by (rewrite <- app_assoc; reflexivity).
      eapply IH; [|exact Hu]. eapply dinv_skip; eauto.
Qed.

(* max(data_list, key=version) *)
Lemma max_by_version_in l : forall best, In (max_by_version best l) (best :: l).
Proof.
  induction l as [|x l IH]; intros best; cbn [max_by_version]; [left; reflexivity|].
  destruct (fst best <? fst x).
  - destruct (IH x) as [H|H]; [right; left; exact H | right; right; exact H].
  - destruct (IH best) as [H|H]; [left; exact H | right; right; exact H].
Qed.

Lemma max_by_version_ge l : forall best x, In x (best :: l) -> fst x <= fst (max_by_version best l).
Proof.
  assert (Hb : forall l best, fst best <= fst (max_by_version best l)).
  { induction l0 as [|y l0 IH]; intros best; cbn [max_by_version]; [lia|].
    destruct (fst best <? fst y) eqn:E; [specialize (IH y); lia | apply IH]. }
  induction l as [|y l IH]; intros best x Hin; cbn [max_by_version].
  - destruct Hin as [<-|[]]. lia.
  - destruct (fst best <? fst y) eqn:E.
    + destruct Hin as [<-|Hin]; [specialize (Hb l y); lia | apply IH; exact Hin].
    + destruct Hin as [<-|[<-|Hin]]; [apply Hb | specialize (Hb l best); lia | apply IH; right; exact Hin].
Qed.

Lemma signed_results_in d data pk :
  In (data, Some pk) (signed_results d) ->
  exists x tl, In (Some pk, x :: tl) d /\ data = snd (max_by_version x tl).
Proof.
  unfold signed_results. intros H. apply in_flat_map in H as [[k l] [Hin H]]. cbn [fst snd] in H.
  destruct k as [b|]; [|destruct H]. destruct l as [|x tl]; [destruct H|].
  destruct H as [H|[]]. inversion H; subst. exists x, tl. auto.
Qed.

Lemma unsigned_results_none d e : In e (unsigned_results d) -> snd e = None.
Proof.
  unfold unsigned_results. intros H. apply in_flat_map in H as [[k l] [_ H]]. cbn [fst snd] in H.
  destruct k; [destruct H|]. apply in_map_iff in H as [x [<- _]]. reflexivity.
Qed.

Lemma signed_results_some d e : In e (signed_results d) -> snd e <> None.
Proof.
  unfold signed_results. intros H. apply in_flat_map in H as [[k l] [_ H]]. cbn [fst snd] in H.
  destruct k as [b|]; [|destruct H]. destruct l; [destruct H|]. destruct H as [<-|[]]. discriminate.
Qed.

Lemma signed_results_keys d y : In y (map snd (signed_results d)) -> In y (map fst d).
Proof.
  intros H. apply in_map_iff in H as [e [<- H]]. unfold signed_results in H.
  apply in_flat_map in H as [[k l] [Hin H]]. cbn [fst snd] in H.
  destruct k as [b|]; [|destruct H]. destruct l; [destruct H|]. destruct H as [<-|[]]. cbn [snd].
  change (Some b) with (fst (Some b, p :: l)). apply in_map. exact Hin.
Qed.

Lemma signed_results_nodup d : NoDup (map fst d) -> NoDup (map snd (signed_results d)).
Proof.
  induction d as [|[k l] d IH]; cbn [map fst]; intros H; [constructor|].
  inversion H as [|? ? Hnotin Hnd]; subst.
  unfold signed_results. cbn [flat_map fst snd]. fold (signed_results d).
  destruct k as [b|]; [|apply IH; exact Hnd]. destruct l as [|x tl]; [apply IH; exact Hnd|].
  cbn [app map snd]. constructor; [|apply IH; exact Hnd].
  intro F. apply Hnotin. apply signed_results_keys. exact F.
Qed.

(* ---- post_process_values ---- *)
Lemma lookup_signed_l vals res data pk :
  post_process vals = Ok res -> In (data, Some pk) res ->
  exists value ver, In value vals /\ unserialize value = Ok (Some (data, Some pk, ver))
    /\ forall value' d' ver', In value' vals -> unserialize value' = Ok (Some (d', Some pk, ver')) -> ver' <= ver.
Proof.
  unfold M15_dht_store.post_process. destruct (unpack_values vals []) as [d|e] eqn:Eu; cbn [bind]; [|discriminate].
  intros H Hin. inversion H; subst. clear H.
  pose proof (unpack_values_inv vals [] [] d dinv_nil Eu) as [K S C]. cbn [app] in *.
  apply in_app_or in Hin as [Hin|Hin].
  2:{ apply unsigned_results_none in Hin. discriminate. }
  apply signed_results_in in Hin as [x [tl [Hin ->]]].
  set (m := max_by_version x tl).
  destruct (S (Some pk) (x :: tl) m Hin (max_by_version_in tl x)) as [value [Hv He]].
  exists value, (fst m). split; [exact Hv|]. split; [exact He|].
  intros value' d' ver' Hv' He'.
  destruct (C value' (Some pk) (ver', d') Hv' He') as [l2 [Hl2 Hx]].
  rewrite <- (nodup_fst_unique d (Some pk) (x :: tl) l2 K Hin Hl2) in Hx.
  apply (max_by_version_ge tl x (ver', d')) in Hx. exact Hx.
Qed.

Lemma lookup_shape_l vals res :
  post_process vals = Ok res ->
  exists sg us, res = sg ++ us /\ NoDup (map snd sg) /\ (forall e, In e sg -> snd e <> None)
                /\ (forall e, In e us -> snd e = None).
Proof.
  unfold M15_dht_store.post_process. destruct (unpack_values vals []) as [d|e] eqn:Eu; cbn [bind]; [|discriminate].
  intros H. inversion H; subst. clear H.
  pose proof (unpack_values_inv vals [] [] d dinv_nil Eu) as [K S C].
  exists (signed_results d), (unsigned_results d). split; [reflexivity|].
  split; [apply signed_results_nodup; exact K|]. split; [apply signed_results_some | apply unsigned_results_none].
Qed.

Lemma lookup_complete_l vals res value data pk ver :
  post_process vals = Ok res -> In value vals -> unserialize value = Ok (Some (data, Some pk, ver)) ->
  exists data', In (data', Some pk) res.
Proof.
  unfold M15_dht_store.post_process. destruct (unpack_values vals []) as [d|e] eqn:Eu; cbn [bind]; [|discriminate].
  intros H Hv He. inversion H; subst. clear H.
  pose proof (unpack_values_inv vals [] [] d dinv_nil Eu) as [K S C]. cbn [app] in *.
  destruct (C value (Some pk) (ver, data) Hv He) as [l [Hl Hx]].
  destruct l as [|x tl]; [destruct Hx|].
  exists (snd (max_by_version x tl)). apply in_or_app. left.
  unfold signed_results. apply in_flat_map. exists (Some pk, x :: tl). split; [exact Hl|]. cbn [fst snd]. left. reflexivity.
Qed.

Lemma lookup_unsigned_l vals res data :
  post_process vals = Ok res ->
  (In (data, None) res <-> exists value, In value vals /\ value = DHT_ENTRY_STR :: data).
Proof.
  unfold M15_dht_store.post_process. destruct (unpack_values vals []) as [d|e] eqn:Eu; cbn [bind]; [|discriminate].
  intros H. inversion H; subst. clear H.
  pose proof (unpack_values_inv vals [] [] d dinv_nil Eu) as [K S C]. cbn [app] in *.
  split.
  - intros Hin. apply in_app_or in Hin as [Hin|Hin].
    { apply signed_results_some in Hin. cbn in Hin. congruence. }
    unfold unsigned_results in Hin. apply in_flat_map in Hin as [[k l] [Hl Hin]]. cbn [fst snd] in Hin.
    destruct k; [destruct Hin|]. apply in_map_iff in Hin as [x [Hx Hin]]. inversion Hx; subst.
    destruct (S None l x Hl Hin) as [value [Hv He]]. exists value. split; [exact Hv|].
    unfold entry_of in He. apply unserialize_plain_l in He. tauto.
  - intros [value [Hv ->]].
    assert (He : entry_of (DHT_ENTRY_STR :: data) None (0, data)).
    { unfold entry_of, M15_dht_store.unserialize. rewrite Z.eqb_refl. reflexivity. }
    destruct (C _ None (0, data) Hv He) as [l [Hl Hx]].
    apply in_or_app. right. unfold unsigned_results. apply in_flat_map. exists (None, l). split; [exact Hl|].
    cbn [fst snd]. apply in_map_iff. exists (0, data). split; [reflexivity | exact Hx].
Qed.

End Codec.

(* ---- serialize_value followed by unserialize_value ---- *)
Lemma take_mid {A} (pre x post : list A) off n :
  length pre = off -> length x = n -> firstn n (skipn off (pre ++ x ++ post)) = x.
Proof.
  intros <- <-. rewrite skipn_app, skipn_all, Nat.sub_diag. cbn [skipn app].
  rewrite firstn_app, firstn_all, Nat.sub_diag. cbn [firstn]. apply app_nil_r.
Qed.

Lemma u16_at_mid pre v post off :
  length pre = off -> 0 <= v < 65536 -> u16_at (pre ++ be_encode 2 v ++ post) off = Ok (Z.to_nat v).
Proof.
  intros Hp Hv. unfold u16_at.
  replace (off + 2 <=? length (pre ++ be_encode 2 v ++ post))%nat with true
    by (symmetry; apply Nat.leb_le; rewrite !app_length, be_encode_length; lia).
  rewrite (take_mid pre (be_encode 2 v) post off 2 Hp (be_encode_length 2 v)).
  rewrite be_decode_encode by (change (256 ^ Z.of_nat 2) with 65536; lia). reflexivity.
Qed.

Lemma varlenH_at_mid pre x post off :
  length pre = off -> blen x < 65536 ->
  varlenH_at (pre ++ be_encode 2 (blen x) ++ x ++ post) off = Ok (x, (off + 2 + length x)%nat).
Proof.
  intros Hp Hx. unfold varlenH_at. pose proof (blen_nonneg x).
  rewrite u16_at_mid by (auto; lia). cbn [bind].
  replace (Z.to_nat (blen x)) with (length x) by (unfold blen; lia).
  replace (off + 2 + length x <=? length (pre ++ be_encode 2 (blen x) ++ x ++ post))%nat with true
    by (symmetry; apply Nat.leb_le; rewrite !app_length, be_encode_length; lia).
  replace (pre ++ be_encode 2 (blen x) ++ x ++ post) with ((pre ++ be_encode 2 (blen x)) ++ x ++ post)
    by (rewrite <- app_assoc; reflexivity).
  rewrite (take_mid (pre ++ be_encode 2 (blen x)) x post (off + 2) (length x));
    [reflexivity | rewrite app_length, be_encode_length; lia | reflexivity].
Qed.

Lemma u32_at_mid pre v post off :
  length pre = off -> 0 <= v < 4294967296 -> u32_at (pre ++ be_encode 4 v ++ post) off = Ok (v, (off + 4)%nat).
Proof.
  intros Hp Hv. unfold u32_at.
  replace (off + 4 <=? length (pre ++ be_encode 4 v ++ post))%nat with true
    by (symmetry; apply Nat.leb_le; rewrite !app_length, be_encode_length; lia).
  rewrite (take_mid pre (be_encode 4 v) post off 4 Hp (be_encode_length 4 v)).
  rewrite be_decode_encode by (change (256 ^ Z.of_nat 4) with 4294967296; lia). reflexivity.
Qed.

Section Roundtrip.
Variable verify : bytes -> bytes -> bytes -> bool.
Variable siglen : bytes -> res nat.
Variable sign : bytes -> bytes -> bytes.

Lemma unpack_signed_body data ver pk tail :
  blen data < 65536 -> blen pk < 65536 -> 0 <= ver < 4294967296 ->
  unpack_signed (signed_body data ver pk ++ tail) = Ok (data, ver, pk).
Proof.
  intros Hd Hk Hv. unfold unpack_signed, signed_body.
  rewrite <- !app_assoc.
  rewrite (varlenH_at_mid [DHT_ENTRY_STR_SIGNED] data _ 1) by (auto; reflexivity). cbn [bind].
  replace ([DHT_ENTRY_STR_SIGNED] ++ be_encode 2 (blen data) ++ data ++ be_encode 4 ver ++ be_encode 2 (blen pk) ++ pk ++ tail)
    with (([DHT_ENTRY_STR_SIGNED] ++ be_encode 2 (blen data) ++ data) ++ be_encode 4 ver ++ be_encode 2 (blen pk) ++ pk ++ tail)
    by (rewrite <- !app_assoc; reflexivity).
  rewrite (u32_at_mid _ ver _ (1 + 2 + length data)) by (auto; rewrite !app_length, be_encode_length; reflexivity).
  cbn [bind].
  replace (([DHT_ENTRY_STR_SIGNED] ++ be_encode 2 (blen data) ++ data) ++ be_encode 4 ver ++ be_encode 2 (blen pk) ++ pk ++ tail)
    with ((([DHT_ENTRY_STR_SIGNED] ++ be_encode 2 (blen data) ++ data) ++ be_encode 4 ver) ++ be_encode 2 (blen pk) ++ pk ++ tail)
    by (rewrite <- !app_assoc; reflexivity).
  rewrite (varlenH_at_mid _ pk tail (1 + 2 + length data + 4)) by (auto; rewrite !app_length, !be_encode_length; reflexivity).
  reflexivity.
Qed.

Lemma signed_roundtrip_l sk pk data ver n :
  blen data < 65536 -> blen pk < 65536 -> 0 <= ver < 4294967296 ->
  siglen pk = Ok n -> (0 < n)%nat ->
  (forall msg, length (sign sk msg) = n /\ verify pk msg (sign sk msg) = true) ->
  unserialize verify siglen (serialize_signed sign sk pk data ver) = Ok (Some (data, Some pk, ver)).
Proof.
  intros Hd Hk Hv Hn Hpos Hs. unfold serialize_signed. cbv zeta.
  set (body := signed_body data ver pk). destruct (Hs body) as [Hl Hok].
  unfold M15_dht_store.unserialize.
  assert (Hb : exists tl, body = DHT_ENTRY_STR_SIGNED :: tl) by (eexists; reflexivity).
  destruct Hb as [tl Hb]. rewrite Hb. cbn [app]. rewrite <- Hb.
  replace (DHT_ENTRY_STR_SIGNED =? DHT_ENTRY_STR) with false by reflexivity.
  rewrite Z.eqb_refl.
  change (DHT_ENTRY_STR_SIGNED :: tl ++ sign sk body) with ((DHT_ENTRY_STR_SIGNED :: tl) ++ sign sk body).
  rewrite <- Hb. unfold body at 1. rewrite unpack_signed_body by assumption. cbn [bind].
  rewrite Hn. cbn [bind]. cbv zeta.
  assert (Hcut : Z.to_nat (Z.max 0 (blen (body ++ sign sk body) - Z.of_nat n)) = length body).
  { rewrite blen_app. unfold blen. rewrite Hl. lia. }
  rewrite slice_upto15, slice_from15 by lia. rewrite Hcut.
  rewrite firstn_app, firstn_all, Nat.sub_diag, skipn_app, skipn_all, Nat.sub_diag. cbn [firstn skipn app].
  rewrite app_nil_r. rewrite Hok. reflexivity.
Qed.

Lemma plain_roundtrip_l data :
  unserialize verify siglen (serialize_plain data) = Ok (Some (data, None, 0)).
Proof. unfold serialize_plain, M15_dht_store.unserialize. rewrite Z.eqb_refl. reflexivity. Qed.

End Roundtrip.
