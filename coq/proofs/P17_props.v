(* C17 - invariants of the node and the property-level lemmas. *)
From Coq Require Import ZArith List Bool Arith Lia ZifyBool.
From IPV8V Require Import lib.PyErr lib.Bytes model.M16_tokentree model.M17_consent spec.S17_consent
  proofs.P16_gather proofs.P16_props proofs.P17_base proofs.P17_step.
Import ListNotations.
Open Scope Z_scope.

Section Props.
Variable hash : bytes -> bytes.
Variable sigverify : bytes -> bytes -> bytes -> bool.
Variable mysign : bytes -> bytes.
Variable parse : bytes -> jdoc.
Variable norm : bytes -> bytes.
Variable me : bytes.
Variable rhl rsl : nat.
Variable wide : bool.

Notation md_hash := (md_hash hash).
Notation md_verify := (md_verify sigverify).
Notation att_verify := (att_verify sigverify).
Notation add_att := (add_att sigverify wide).
Notation already := (already me).
Notation should_sign := (should_sign hash parse me).
Notation recv_disclosure := (recv_disclosure hash sigverify mysign parse me wide).
Notation advertise := (advertise hash sigverify mysign norm me rhl rsl).
Notation req_missing := (req_missing rhl rsl).
Notation step := (step hash sigverify mysign parse norm me rhl rsl wide).
Notation run := (run hash sigverify mysign parse norm me rhl rsl wide).
Notation Sound := (Sound hash sigverify).
Notation att_valid := (att_valid sigverify).
Notation md_valid := (md_valid sigverify).
Notation tverify := (tverify sigverify).
Notation registration := (registration norm).
Notation consent := (consent parse).
Notation opened_from := (opened_from hash sigverify mysign parse norm me rhl rsl wide).
Notation opened := (opened hash sigverify mysign parse norm me rhl rsl wide).

Definition final (s : state) (evs : list (Z * event)) : state := fst (run s evs).
Definition trace (s : state) (evs : list (Z * event)) := snd (run s evs).

Lemma run_cons s now ev tl :
  run s ((now, ev) :: tl) =
  (final (st_of (step s now ev)) tl,
   (outs_of (step s now ev), snd (step s now ev)) :: trace (st_of (step s now ev)) tl).
Proof.
  unfold final, trace, st_of, outs_of. cbn [M17_consent.run].
  destruct (step s now ev) as [[s1 o] x]. simpl. destruct (run s1 tl) as [s2 tr]. reflexivity.
Qed.

Lemma final_cons s now ev tl : final s ((now, ev) :: tl) = final (st_of (step s now ev)) tl.
Proof. unfold final at 1. rewrite run_cons. reflexivity. Qed.

Lemma final_app s a b : final s (a ++ b) = final (final s a) b.
Proof.
  revert s. induction a as [|[now ev] a IH]; intros s; [reflexivity|].
  simpl app. rewrite !final_cons. apply IH.
Qed.

(* ---------------------------------------------------------------- advertise *)
Lemma advertise_spec s p h json jlen s2 outs x :
  advertise s p h json jlen = (s2, outs, x) ->
  known s2 = known s /\ datt s2 = datt s /\
  prefix (dmd s) (dmd s2) /\ (md_valid (dmd s) -> md_valid (dmd s2)) /\
  (forall k, k <> me -> get_tree k (pseus s2) = get_tree k (pseus s)) /\
  prefix (chain s) (chain s2) /\
  (forall q, perm_of s2 q = perm_of s q \/ (p = Some q /\ perm_of s2 q = length (chain s2))) /\
  (forall o, In o outs -> exists q m toks kept, p = Some q /\ o = ODisclose q m toks kept).
Proof.
  unfold M17_consent.advertise. cbv zeta.
  match goal with |- context [gather_top ?a ?b ?c ?d ?e] =>
    destruct (gather_top a b c d e) as [[tr2 r]|e0] eqn:G end.
  2:{ intros E. inversion E; subst. clear E. simpl.
      split; [reflexivity|]. split; [reflexivity|]. split; [apply prefix_refl|]. split; [auto|].
      split; [intros k N; apply get_tree_aset_other; auto|]. split; [apply prefix_refl|]. split; [auto|]. intros o []. }
  assert (TO : forall k, k <> me -> get_tree k (aset me tr2 (pseus s)) = get_tree k (pseus s)).
  { intros k N. apply get_tree_aset_other. auto. }
  destruct r as [r|].
  2:{ intros E. inversion E; subst. clear E. simpl.
      split; [reflexivity|]. split; [reflexivity|]. split; [apply prefix_refl|]. split; [auto|].
      split; [exact TO|]. split; [apply prefix_refl|]. split; [auto|]. intros o []. }
  match goal with |- context [negb (M17_consent.md_verify ?a ?b ?c)] =>
    destruct (M17_consent.md_verify a b c) eqn:MV; cbn [negb] end.
  2:{ intros E. inversion E; subst. clear E. simpl.
      split; [reflexivity|]. split; [reflexivity|]. split; [apply prefix_refl|]. split; [auto|].
      split; [exact TO|]. split; [apply prefix_refl|]. split; [auto|]. intros o []. }
  match goal with |- context [insert_md me ?m ?d] => set (md := m) in *;
    assert (VM : md_valid d -> md_valid (insert_md me md d)) end.
  { intros V. apply Forall_forall. intros y Hy. apply insert_md_In in Hy as [Hy|Hy].
    - unfold P17_base.md_valid in V. rewrite Forall_forall in V. auto.
    - subst y. exact MV. }
  simpl in VM.
  destruct (find_key hash (m_tptr md) (elements tr2)) as [tk|] eqn:FK.
  2:{ intros E. inversion E; subst. clear E. simpl.
      split; [reflexivity|]. split; [reflexivity|]. split; [apply insert_md_prefix|]. split; [exact VM|].
      split; [exact TO|]. split; [apply prefix_refl|]. split; [auto|]. intros o []. }
  destruct p as [q|].
  2:{ intros E. inversion E; subst. clear E. simpl.
      split; [reflexivity|]. split; [reflexivity|]. split; [apply insert_md_prefix|]. split; [exact VM|].
      split; [exact TO|]. split; [apply prefix_app|]. split; [auto|]. intros o []. }
  assert (PQ : forall q0 n l, perm_of (set_perms l (aset q n (perms l))) q0 = perm_of l q0 \/
                 (Some q = Some q0 /\ perm_of (set_perms l (aset q n (perms l))) q0 = n)).
  { intros q0 n l. unfold perm_of. simpl. rewrite alookup_aset. destruct (bytes_eqb q q0) eqn:Eq.
    - apply bytes_eqb_eq in Eq. subst. right. auto.
    - left. reflexivity. }
  match goal with |- context [negb (tree_verify ?a ?b ?c ?d ?e ?f)] =>
    destruct (tree_verify a b c d e f); cbn [negb] end.
  - intros E. inversion E; subst. clear E.
    split; [reflexivity|]. split; [reflexivity|]. split; [apply insert_md_prefix|]. split; [exact VM|].
    split; [exact TO|]. split; [apply prefix_app|]. split.
    + intros q0. match goal with |- context [aset q ?n _] => destruct (PQ q0 n
        (set_chains (set_dmd (set_pseus s (aset me tr2 (pseus s))) (insert_md me md (dmd s))) (chain s ++ [tk]) (mdchain s ++ [md])))
        as [A|[A B]] end; [left; exact A|right; split; [exact A|exact B]].
    + intros o [Ho|[]]. subst o. do 4 eexists. split; reflexivity.
  - intros E. inversion E; subst. clear E.
    split; [reflexivity|]. split; [reflexivity|]. split; [apply insert_md_prefix|]. split; [exact VM|].
    split; [exact TO|]. split; [apply prefix_app|]. split.
    + intros q0. match goal with |- context [aset q ?n _] => destruct (PQ q0 n
        (set_chains (set_dmd (set_pseus s (aset me tr2 (pseus s))) (insert_md me md (dmd s))) (chain s ++ [tk]) (mdchain s ++ [md])))
        as [A|[A B]] end; [left; exact A|right; split; [exact A|exact B]].
    + intros o [].
Qed.

(* ---------------------------------------------------------------- frames of a step *)
Lemma step_known s now ev :
  known (st_of (step s now ev)) =
  match ev with
  | EKnown h name key md => aset (norm h) (mkEntry name now key md) (known s)
  | _ => known s
  end.
Proof.
  destruct ev as [h name key md|p h json jlen|p mds toks atts fail|p toks fail|p [a|]|p kn];
    cbn [M17_consent.step]; try reflexivity.
  - destruct (advertise s p h json jlen) as [[s2 o] x] eqn:E.
    destruct (advertise_spec _ _ _ _ _ _ _ _ E) as [K _]. exact K.
  - destruct (recv_disclosure s now p mds toks atts fail) as [[s2 o] x] eqn:E.
    destruct (recv_disclosure_spec _ _ _ _ _ _ _ _ _ _ _ _ _ _ _ _ E) as [[K _] _]. exact K.
  - destruct (recv_disclosure s now p [] toks [] (if fail then Some 0%nat else None)) as [[s2 o] x] eqn:E.
    destruct (recv_disclosure_spec _ _ _ _ _ _ _ _ _ _ _ _ _ _ _ _ E) as [[K _] _]. exact K.
Qed.

(* ---------------------------------------------------------------- the invariant of reachable states *)
Record Inv (s : state) : Prop := {
  i_md : md_valid (dmd s);
  i_att : att_valid (datt s);
  i_tree : forall k, k <> me -> exists P, Sound k P (get_tree k (pseus s))
}.

Lemma Inv_init : Inv (init me).
Proof.
  constructor; simpl; try constructor. intros k N. unfold get_tree. simpl.
  rewrite (bytes_eqb_neq me k); [|congruence]. exists []. apply Sound_empty.
Qed.

Lemma recv_Inv s now p mds toks atts fail :
  Inv s -> Inv (st_of (recv_disclosure s now p mds toks atts fail)).
Proof.
  intros [I1 I2 I3]. destruct (recv_disclosure s now p mds toks atts fail) as [[s2 o] x] eqn:E.
  destruct (recv_disclosure_spec _ _ _ _ _ _ _ _ _ _ _ _ _ _ _ _ E) as [_ [_ [_ [VM [VA [TO [TS _]]]]]]].
  unfold st_of. simpl. constructor; auto.
  intros k N. destruct (bytes_eq_dec k p) as [Ek|Nk].
  - subst k. destruct (I3 p N) as [P S]. eapply TS. exact S.
  - rewrite (TO k Nk). auto.
Qed.

Lemma step_Inv s now ev : Inv s -> Inv (st_of (step s now ev)).
Proof.
  intros I. destruct ev as [h name key md|p h json jlen|p mds toks atts fail|p toks fail|p [a|]|p kn];
    cbn [M17_consent.step].
  - destruct I as [I1 I2 I3]. constructor; simpl; auto.
  - destruct I as [I1 I2 I3]. destruct (advertise s p h json jlen) as [[s2 o] x] eqn:E.
    destruct (advertise_spec _ _ _ _ _ _ _ _ E) as [_ [D [_ [VM [TO _]]]]].
    unfold st_of. simpl. constructor; auto.
    + rewrite D. assumption.
    + intros k N. rewrite (TO k N). auto.
  - apply recv_Inv. assumption.
  - apply recv_Inv. assumption.
  - destruct I as [I1 I2 I3]. unfold st_of. simpl. constructor; simpl; auto. apply add_att_valid. assumption.
  - assumption.
  - assumption.
Qed.

Lemma final_Inv : forall evs s, Inv s -> Inv (final s evs).
Proof.
  induction evs as [|[now ev] evs IH]; intros s I; [exact I|].
  rewrite final_cons. apply IH. apply step_Inv. assumption.
Qed.

(* ---------------------------------------------------------------- the consent table is the history *)
Lemma known_registration : forall evs s h,
  alookup h (known (final s evs)) =
  match registration evs h with Some e => Some e | None => alookup h (known s) end.
Proof.
  induction evs as [|[now ev] evs IH]; intros s h; [reflexivity|].
  rewrite final_cons, IH. cbn [S17_consent.registration].
  destruct (registration evs h) as [e|]; [reflexivity|].
  rewrite step_known. destruct ev; try reflexivity.
  rewrite alookup_aset. destruct (bytes_eqb (norm h0) h); reflexivity.
Qed.

(* ---------------------------------------------------------------- `already` only ever turns true *)
Lemma find_app_some {A} (f : A -> bool) l x y : find f l = Some y -> find f (l ++ x) = Some y.
Proof.
  induction l as [|z l IH]; simpl; [discriminate|]. destruct (f z); auto.
Qed.

Lemma already_prefix d d' h : prefix d d' -> already d h = true -> already d' h = true.
Proof.
  intros [x E] H. subst d'. unfold M17_consent.already in *.
  apply existsb_exists in H as [r [Hr C]]. apply existsb_exists. exists r. split; [apply in_or_app; auto|].
  apply andb_true_iff in C as [C1 C2]. apply andb_true_iff. split; [assumption|].
  unfold authority_of in *. destruct (find (fun r0 => bytes_eqb (r_sig r0) (r_sig r)) d) as [r'|] eqn:F; [|discriminate].
  rewrite (find_app_some _ _ x _ F). assumption.
Qed.

Lemma already_prefix_false d d' h : prefix d d' -> already d' h = false -> already d h = false.
Proof.
  intros P H. destruct (already d h) eqn:E; [|reflexivity]. rewrite (already_prefix _ _ _ P E) in H. discriminate.
Qed.

(* ---------------------------------------------------------------- sign_requires_consent *)
Lemma recv_attest_consent pre now p mds toks atts fail q a :
  In (OAttest q a) (outs_of (recv_disclosure (final (init me) pre) now p mds toks atts fail)) ->
  q = p /\
  Forall (fun t => tverify p t = true) toks /\
  Forall (fun aa => att_verify (fst aa) (snd aa) = true) atts /\
  exists m tok e,
    a = mkAtt (md_hash m) (mysign (md_hash m)) /\
    In (p, m) (dmd (st_of (recv_disclosure (final (init me) pre) now p mds toks atts fail))) /\
    md_verify p m = true /\
    In tok (elements (get_tree p (pseus (st_of (recv_disclosure (final (init me) pre) now p mds toks atts fail))))) /\
    thash hash tok = m_tptr m /\
    (p <> me -> rooted hash sigverify p
       (elements (get_tree p (pseus (st_of (recv_disclosure (final (init me) pre) now p mds toks atts fail))))) tok) /\
    registration pre (t_chash tok) = Some e /\ consent e p now m /\
    already (datt (final (init me) pre)) (md_hash m) = false.
Proof.
  set (s := final (init me) pre). intros Hin.
  assert (I : Inv s) by (apply final_Inv, Inv_init).
  pose proof (recv_Inv s now p mds toks atts fail I) as I2.
  destruct (recv_disclosure s now p mds toks atts fail) as [[s2 o] x] eqn:E.
  unfold st_of, outs_of in *. simpl in *.
  destruct (recv_disclosure_spec _ _ _ _ _ _ _ _ _ _ _ _ _ _ _ _ E) as [_ [_ [_ [_ [_ [_ [_ [_ O]]]]]]]].
  destruct (O _ Hin) as [[n En]|[m [s' [Eo [Hm [SS [Ks [Pd [FT FA]]]]]]]]]; [discriminate|].
  inversion Eo; subst q a. clear Eo.
  split; [reflexivity|]. split; [assumption|]. split; [assumption|].
  destruct (should_sign_true hash parse me _ _ _ _ _ SS) as [kv [tok [e [EP [EF [F2 [F3 [EK [Kp [Tm [Nm [Md Al]]]]]]]]]]]].
  destruct (find_key_Some hash _ _ _ EF) as [Htok Hh].
  exists m, tok, e. split; [reflexivity|]. split; [assumption|]. split.
  { destruct I2 as [VM _ _]. unfold P17_base.md_valid in VM. rewrite Forall_forall in VM.
    exact (VM _ Hm). }
  split; [assumption|]. split; [assumption|]. split.
  { intros N. destruct I2 as [_ _ TS]. destruct (TS p N) as [P S]. eapply sound_rooted; eauto. }
  split.
  { rewrite Ks in EK. unfold s in EK. rewrite known_registration in EK. simpl in EK.
    destruct (registration pre (t_chash tok)); [assumption|discriminate]. }
  split.
  { unfold S17_consent.consent. split; [congruence|]. split; [assumption|].
    exists kv. split; [assumption|]. split; [assumption|]. split; [assumption|]. split; [assumption|].
    intros md Hmd. apply dict_eqb_true. apply Md. assumption. }
  eapply already_prefix_false; eauto.
Qed.

Lemma sign_requires_consent_l pre now ev p a :
  In (OAttest p a) (outs_of (step (final (init me) pre) now ev)) ->
  sender_of ev = Some p /\ is_disclosure ev = true /\
  Forall (fun t => tverify p t = true) (tokens_of ev) /\
  Forall (fun aa => att_verify (fst aa) (snd aa) = true) (atts_of ev) /\
  exists m tok e,
    a = mkAtt (md_hash m) (mysign (md_hash m)) /\
    In (p, m) (dmd (st_of (step (final (init me) pre) now ev))) /\ md_verify p m = true /\
    In tok (elements (get_tree p (pseus (st_of (step (final (init me) pre) now ev))))) /\
    thash hash tok = m_tptr m /\
    (p <> me -> rooted hash sigverify p
                  (elements (get_tree p (pseus (st_of (step (final (init me) pre) now ev))))) tok) /\
    registration pre (t_chash tok) = Some e /\ consent e p now m /\
    already (datt (final (init me) pre)) (md_hash m) = false.
Proof.
  destruct ev as [h name key md|q h json jlen|q mds toks atts fail|q toks fail|q [a0|]|q kn];
    cbn [M17_consent.step]; intros Hin.
  - destruct Hin.
  - exfalso. destruct (advertise (final (init me) pre) q h json jlen) as [[s2 o] x] eqn:E.
    destruct (advertise_spec _ _ _ _ _ _ _ _ E) as [_ [_ [_ [_ [_ [_ [_ O]]]]]]].
    unfold outs_of in Hin. simpl in Hin. destruct (O _ Hin) as [q0 [m [tk [kp [_ Eo]]]]]. discriminate.
  - destruct (recv_attest_consent pre now q mds toks atts fail p a Hin) as [Eq [FT [FA R]]]. subst p.
    cbn [sender_of is_disclosure tokens_of atts_of]. auto.
  - destruct (recv_attest_consent pre now q [] toks [] _ p a Hin) as [Eq [FT [FA R]]]. subst p.
    cbn [sender_of is_disclosure tokens_of atts_of]. auto.
  - destruct Hin.
  - destruct Hin.
  - destruct Hin as [H|[]]. discriminate.
Qed.

(* ---------------------------------------------------------------- stored attestations *)
Lemma stored_rows_l pre now ev r :
  In r (datt (st_of (step (final (init me) pre) now ev))) ->
  In r (datt (final (init me) pre)) \/
  (sigverify (r_auth r) (r_mptr r) (r_sig r) = true /\
   match ev with
   | EAttest p (Some a) => r = mkRow me p (a_mptr a) (a_sig a)
   | EDisclose p _ _ atts _ =>
       r_pk r = p /\
       (In (r_auth r, mkAtt (r_mptr r) (r_sig r)) atts \/
        (r_auth r = me /\
         In (OAttest p (mkAtt (r_mptr r) (r_sig r))) (outs_of (step (final (init me) pre) now ev))))
   | EMissingResp p _ _ =>
       r_pk r = p /\ r_auth r = me /\
       In (OAttest p (mkAtt (r_mptr r) (r_sig r))) (outs_of (step (final (init me) pre) now ev))
   | _ => False
   end).
Proof.
  set (s := final (init me) pre). intros Hin.
  assert (I : Inv s) by (apply final_Inv, Inv_init).
  assert (V : sigverify (r_auth r) (r_mptr r) (r_sig r) = true).
  { destruct (step_Inv s now ev I) as [_ VA _]. unfold P17_base.att_valid in VA.
    rewrite Forall_forall in VA. exact (VA _ Hin). }
  destruct ev as [h name key md|q h json jlen|q mds toks atts fail|q toks fail|q [a0|]|q kn];
    cbn [M17_consent.step] in *.
  - left. exact Hin.
  - left. destruct (advertise s q h json jlen) as [[s2 o] x] eqn:E.
    destruct (advertise_spec _ _ _ _ _ _ _ _ E) as [_ [D _]]. unfold st_of in Hin. simpl in Hin. rewrite D in Hin. exact Hin.
  - destruct (recv_disclosure s now q mds toks atts fail) as [[s2 o] x] eqn:E.
    destruct (recv_disclosure_spec _ _ _ _ _ _ _ _ _ _ _ _ _ _ _ _ E) as [_ [_ [_ [_ [_ [_ [_ [R _]]]]]]]].
    unfold st_of, outs_of in *. simpl in *.
    destruct (R _ Hin) as [H|[[H1 [H2 H3]]|[H1 [H2 H3]]]]; [left; assumption| |]; right; (split; [assumption|]); auto.
  - destruct (recv_disclosure s now q [] toks [] (if fail then Some 0%nat else None)) as [[s2 o] x] eqn:E.
    destruct (recv_disclosure_spec _ _ _ _ _ _ _ _ _ _ _ _ _ _ _ _ E) as [_ [_ [_ [_ [_ [_ [_ [R _]]]]]]]].
    unfold st_of, outs_of in *. simpl in *.
    destruct (R _ Hin) as [H|[[H1 [[] H3]]|[H1 [H2 H3]]]]; [left; assumption|]. right. auto.
  - unfold st_of in Hin. simpl in Hin. apply add_att_new in Hin as [H|[H _]]; [left; assumption|]. right. auto.
  - left. exact Hin.
  - left. exact Hin.
Qed.

Lemma attestations_valid_l evs :
  Forall (fun r => sigverify (r_auth r) (r_mptr r) (r_sig r) = true) (datt (final (init me) evs)).
Proof. destruct (final_Inv evs _ Inv_init) as [_ V _]. exact V. Qed.

(* ---------------------------------------------------------------- unsolicited disclosures *)
Lemma aset_In {V} k (v : V) l k2 v2 : In (k2, v2) (aset k v l) -> In (k2, v2) l \/ v2 = v.
Proof.
  induction l as [|[k' v'] l IH]; simpl.
  - intros [H|[]]. inversion H. auto.
  - destruct (bytes_eqb k' k); simpl; intros [H|H]; auto.
    + inversion H. auto.
    + destruct (IH H); auto.
Qed.

Lemma known_from_history : forall evs s h e,
  In (h, e) (known (final s evs)) ->
  In (h, e) (known s) \/ exists t h' md, In (t, EKnown h' (e_name e) (e_key e) md) evs.
Proof.
  induction evs as [|[now ev] evs IH]; intros s h e Hin; [left; exact Hin|].
  rewrite final_cons in Hin. destruct (IH _ _ _ Hin) as [H|[t [h' [md H]]]].
  - rewrite step_known in H. destruct ev; try (left; exact H).
    apply aset_In in H as [H|H]; [left; exact H|]. right. subst e. simpl. exists now, h0, md. left. reflexivity.
  - right. exists t, h', md. right. exact H.
Qed.

Lemma unsolicited_dropped_l pre now p mds toks atts fail :
  (forall t h name md, ~ In (t, EKnown h name p md) pre) ->
  step (final (init me) pre) now (EDisclose p mds toks atts fail) = (final (init me) pre, [], None) /\
  forall b, step (final (init me) pre) now (EMissingResp p toks b) = (final (init me) pre, [], None).
Proof.
  intros N.
  assert (X : existsb (fun kv => bytes_eqb (e_key (snd kv)) p) (known (final (init me) pre)) = false).
  { destruct (existsb _ _) eqn:E; [|reflexivity]. exfalso.
    apply existsb_exists in E as [[h e] [Hin K]]. simpl in K. apply bytes_eqb_eq in K.
    destruct (known_from_history _ _ _ _ Hin) as [H|[t [h' [md H]]]]; [destruct H|].
    rewrite K in H. exact (N _ _ _ _ H). }
  split; [|intros b]; cbn [M17_consent.step]; unfold M17_consent.recv_disclosure; rewrite X; reflexivity.
Qed.

(* ---------------------------------------------------------------- token hand-out *)
Lemma collect_sub : forall l idx kn len tok,
  In tok (collect rhl rsl l idx kn len) -> exists j, nth_error l j = Some tok /\ kn <= idx + Z.of_nat j.
Proof.
  induction l as [|t l IH]; intros idx kn len tok H; cbn [M17_consent.collect] in H; [destruct H|].
  destruct (kn <=? idx) eqn:K.
  - destruct (1296 <? len + tokw rhl rsl); [destruct H|].
    destruct H as [H|H].
    + subst. exists 0%nat. split; [reflexivity|lia].
    + destruct (IH _ _ _ _ H) as [j [A B]]. exists (S j). split; [exact A|lia].
  - destruct (IH _ _ _ _ H) as [j [A B]]. exists (S j). split; [exact A|lia].
Qed.

Lemma nth_error_firstn_some {A} : forall n (l : list A) j x,
  nth_error (firstn n l) j = Some x -> (j < n)%nat /\ nth_error l j = Some x.
Proof.
  induction n as [|n IH]; intros l j x H.
  - destruct j; discriminate.
  - destruct l as [|y l]; [destruct j; discriminate|]. destruct j as [|j]; simpl in *.
    + split; [lia|assumption].
    + destruct (IH _ _ _ H). split; [lia|assumption].
Qed.

Lemma prefix_length {A} (a b : list A) : prefix a b -> (length a <= length b)%nat.
Proof. intros [x E]. subst. rewrite app_length. lia. Qed.

Lemma prefix_nth {A} (a b : list A) i x : prefix a b -> nth_error a i = Some x -> nth_error b i = Some x.
Proof.
  intros [y E] H. subst. rewrite nth_error_app1; [assumption|]. apply nth_error_Some. congruence.
Qed.

Lemma step_perm s now ev q :
  prefix (chain s) (chain (st_of (step s now ev))) /\
  (perm_of (st_of (step s now ev)) q = perm_of s q \/
   ((exists h j l, ev = EAdvertise (Some q) h j l) /\
    perm_of (st_of (step s now ev)) q = length (chain (st_of (step s now ev))))).
Proof.
  destruct ev as [h name key md|p h json jlen|p mds toks atts fail|p toks fail|p [a|]|p kn];
    cbn [M17_consent.step]; try (split; [apply prefix_refl|left; reflexivity]).
  - destruct (advertise s p h json jlen) as [[s2 o] x] eqn:E.
    destruct (advertise_spec _ _ _ _ _ _ _ _ E) as [_ [_ [_ [_ [_ [C [Pm _]]]]]]].
    unfold st_of. simpl. split; [exact C|]. destruct (Pm q) as [A|[A B]]; [left; exact A|].
    right. subst p. split; [eauto|exact B].
  - destruct (recv_disclosure s now p mds toks atts fail) as [[s2 o] x] eqn:E.
    destruct (recv_disclosure_spec _ _ _ _ _ _ _ _ _ _ _ _ _ _ _ _ E) as [[_ [C [_ Pm]]] _].
    unfold st_of, perm_of. simpl. rewrite C, Pm. split; [apply prefix_refl|left; reflexivity].
  - destruct (recv_disclosure s now p [] toks [] (if fail then Some 0%nat else None)) as [[s2 o] x] eqn:E.
    destruct (recv_disclosure_spec _ _ _ _ _ _ _ _ _ _ _ _ _ _ _ _ E) as [[_ [C [_ Pm]]] _].
    unfold st_of, perm_of. simpl. rewrite C, Pm. split; [apply prefix_refl|left; reflexivity].
Qed.

Lemma opened_inv : forall evs s p cur,
  (perm_of s p <= cur)%nat -> (perm_of s p <= length (chain s))%nat ->
  (perm_of (final s evs) p <= opened_from s evs p cur)%nat /\
  (perm_of (final s evs) p <= length (chain (final s evs)))%nat /\
  prefix (chain s) (chain (final s evs)).
Proof.
  induction evs as [|[now ev] evs IH]; intros s p cur H1 H2.
  - simpl. split; [exact H1|]. split; [exact H2|apply prefix_refl].
  - rewrite final_cons. cbn [S17_consent.opened_from].
    destruct (step_perm s now ev p) as [C Pm].
    pose proof (prefix_length _ _ C) as L.
    set (s1 := st_of (step s now ev)) in *.
    assert (A : (perm_of s1 p <=
                 match ev with
                 | EAdvertise (Some q) _ _ _ => if bytes_eqb q p then length (chain s1) else cur
                 | _ => cur
                 end)%nat /\ (perm_of s1 p <= length (chain s1))%nat).
    { destruct Pm as [Pm|[[h [j [l Ev]]] Pm]].
      - rewrite Pm. split; [|lia].
        destruct ev as [| [q|] ? ? ? | | | |]; try lia. destruct (bytes_eqb q p); lia.
      - subst ev. rewrite bytes_eqb_refl. lia. }
    destruct A as [A1 A2]. destruct (IH s1 p _ A1 A2) as [B1 [B2 B3]].
    split; [exact B1|]. split; [exact B2|]. eapply prefix_trans; eauto.
Qed.

Lemma tokens_only_up_to_permission_l pre now ev p toks :
  In (OMissingResp p toks) (outs_of (step (final (init me) pre) now ev)) ->
  exists kn, ev = EReqMissing p kn /\
  forall tok, In tok toks ->
    exists i, nth_error (chain (final (init me) pre)) i = Some tok /\ kn <= Z.of_nat i /\ (i < opened pre p)%nat.
Proof.
  set (s := final (init me) pre).
  destruct ev as [h name key md|q h json jlen|q mds toks0 atts fail|q toks0 fail|q [a0|]|q kn];
    cbn [M17_consent.step]; intros Hin.
  - destruct Hin.
  - exfalso. destruct (advertise s q h json jlen) as [[s2 o] x] eqn:E.
    destruct (advertise_spec _ _ _ _ _ _ _ _ E) as [_ [_ [_ [_ [_ [_ [_ O]]]]]]].
    unfold outs_of in Hin. simpl in Hin. destruct (O _ Hin) as [q0 [m [tk [kp [_ Eo]]]]]. discriminate.
  - exfalso. destruct (recv_disclosure s now q mds toks0 atts fail) as [[s2 o] x] eqn:E.
    destruct (recv_disclosure_spec _ _ _ _ _ _ _ _ _ _ _ _ _ _ _ _ E) as [_ [_ [_ [_ [_ [_ [_ [_ O]]]]]]]].
    unfold outs_of in Hin. simpl in Hin. destruct (O _ Hin) as [[n En]|[m [s' [Eo _]]]]; discriminate.
  - exfalso. destruct (recv_disclosure s now q [] toks0 [] (if fail then Some 0%nat else None)) as [[s2 o] x] eqn:E.
    destruct (recv_disclosure_spec _ _ _ _ _ _ _ _ _ _ _ _ _ _ _ _ E) as [_ [_ [_ [_ [_ [_ [_ [_ O]]]]]]]].
    unfold outs_of in Hin. simpl in Hin. destruct (O _ Hin) as [[n En]|[m [s' [Eo _]]]]; discriminate.
  - destruct Hin.
  - destruct Hin.
  - destruct Hin as [H|[]]. inversion H; subst q toks. clear H. exists kn. split; [reflexivity|].
    intros tok Ht. apply collect_sub in Ht as [j [A B]].
    apply nth_error_firstn_some in A as [A1 A2]. exists j. split; [exact A2|]. split; [lia|].
    destruct (opened_inv pre (init me) p 0%nat) as [O1 _]; [unfold perm_of; simpl; lia|unfold perm_of; simpl; lia|].
    fold s in O1. unfold S17_consent.opened. lia.
Qed.

Lemma unpermitted_peers_get_nothing_l pre now ev p toks :
  opened pre p = 0%nat ->
  In (OMissingResp p toks) (outs_of (step (final (init me) pre) now ev)) -> toks = [].
Proof.
  intros Z0 Hin. destruct (tokens_only_up_to_permission_l _ _ _ _ _ Hin) as [kn [_ F]].
  destruct toks as [|t toks]; [reflexivity|]. exfalso.
  destruct (F t (or_introl eq_refl)) as [i [_ [_ L]]]. lia.
Qed.

Lemma consent_table_is_history_l pre h :
  alookup h (known (final (init me) pre)) = registration pre h.
Proof. rewrite known_registration. simpl. destruct (registration pre h); reflexivity. Qed.

End Props.
