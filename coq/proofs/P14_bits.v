(* C14 - lemmas on bit-list identifiers: prefixes, integer value, XOR distance. *)
From Coq Require Import ZArith List Bool Arith Lia ZifyBool.
From IPV8V Require Import lib.PyErr model.M14_routing.
Import ListNotations.
Open Scope Z_scope.

Lemma NoDup_app_disj {B} (l1 l2 : list B) :
  NoDup l1 -> NoDup l2 -> (forall x, In x l1 -> ~ In x l2) -> NoDup (l1 ++ l2).
Proof.
  induction l1 as [|a l1 IH]; intros N1 N2 D; cbn; [exact N2|].
  inversion N1; subst. constructor.
  - rewrite in_app_iff. intros [H|H]; [contradiction|]. apply (D a); [left; reflexivity | exact H].
  - apply IH; auto. intros x Hx. apply D. right. exact Hx.
Qed.

(* ------------------------------------------------------------------ equality, prefixes *)
Lemma bits_eqb_eq a b : bits_eqb a b = true <-> a = b.
Proof.
  revert b; induction a as [|x a IH]; intros [|y b]; cbn; split; intro H;
    try reflexivity; try discriminate.
  - apply andb_true_iff in H as [H1 H2]. apply eqb_prop in H1. apply IH in H2. congruence.
  - inversion H; subst. rewrite eqb_reflx. cbn. apply IH. reflexivity.
Qed.

Lemma bits_eqb_refl a : bits_eqb a a = true.
Proof. apply bits_eqb_eq. reflexivity. Qed.

Lemma bits_eqb_neq a b : bits_eqb a b = false <-> a <> b.
Proof.
  split.
  - intros H E. apply bits_eqb_eq in E. congruence.
  - intros H. destruct (bits_eqb a b) eqn:E; [apply bits_eqb_eq in E; contradiction | reflexivity].
Qed.

Lemma bits_eqb_sym a b : bits_eqb a b = bits_eqb b a.
Proof.
  destruct (bits_eqb a b) eqn:E.
  - apply bits_eqb_eq in E. subst. symmetry. apply bits_eqb_refl.
  - symmetry. apply bits_eqb_neq. apply bits_eqb_neq in E. congruence.
Qed.

Lemma starts_with_iff p l : starts_with p l = true <-> exists s, l = p ++ s.
Proof.
  revert l; induction p as [|x p IH]; intros l; cbn.
  - split; [intros _; exists l; reflexivity | reflexivity].
  - destruct l as [|y l].
    + split; [discriminate | intros [s H]; discriminate].
    + split.
      * intros H. apply andb_true_iff in H as [H1 H2]. apply eqb_prop in H1. apply IH in H2 as [s Hs].
        exists s. subst. reflexivity.
      * intros [s H]. inversion H; subst. rewrite eqb_reflx. cbn. apply IH. exists s. reflexivity.
Qed.

Lemma starts_with_app p s : starts_with p (p ++ s) = true.
Proof. apply starts_with_iff. exists s. reflexivity. Qed.

Lemma starts_with_refl p : starts_with p p = true.
Proof. apply starts_with_iff. exists []. symmetry. apply app_nil_r. Qed.

Lemma starts_with_nil l : starts_with [] l = true.
Proof. reflexivity. Qed.

(* a prefix of a prefix *)
Lemma starts_with_app_l p q l : starts_with (p ++ q) l = true -> starts_with p l = true.
Proof.
  intros H. apply starts_with_iff in H as [s Hs]. apply starts_with_iff.
  exists (q ++ s). rewrite Hs. symmetry. apply app_assoc.
Qed.

Lemma starts_with_trans p q l : starts_with p q = true -> starts_with q l = true -> starts_with p l = true.
Proof.
  intros H1 H2. apply starts_with_iff in H1 as [s Hs]. subst q. eapply starts_with_app_l. exact H2.
Qed.

Lemma starts_with_app_inv p q s : starts_with (p ++ q) (p ++ s) = starts_with q s.
Proof. induction p as [|x p IH]; cbn; [reflexivity|]. rewrite eqb_reflx. cbn. exact IH. Qed.

Lemma starts_with_length p l : starts_with p l = true -> (length p <= length l)%nat.
Proof. intros H. apply starts_with_iff in H as [s Hs]. subst. rewrite app_length. lia. Qed.

Lemma starts_with_same_length p l : starts_with p l = true -> length p = length l -> p = l.
Proof.
  intros H L. apply starts_with_iff in H as [s Hs]. subst l. rewrite app_length in L.
  destruct s; [symmetry; apply app_nil_r | cbn in L; lia].
Qed.

(* two prefixes of the same list that differ in their last bit *)
Lemma starts_with_snoc_neg p x l :
  starts_with (p ++ [x]) l = true -> starts_with (p ++ [negb x]) l = false.
Proof.
  intros H. apply starts_with_iff in H as [s Hs]. subst l. rewrite <- app_assoc.
  rewrite starts_with_app_inv. cbn. destruct x; reflexivity.
Qed.

(* two prefixes of the same list are comparable *)
Lemma starts_with_comparable p q l :
  starts_with p l = true -> starts_with q l = true -> (length p <= length q)%nat -> starts_with p q = true.
Proof.
  revert q l; induction p as [|x p IH]; intros q l Hp Hq L; [reflexivity|].
  destruct q as [|y q]; [cbn in L; lia|]. destruct l as [|z l]; [discriminate|].
  cbn in *. apply andb_true_iff in Hp as [H1 H2]. apply andb_true_iff in Hq as [H3 H4].
  apply eqb_prop in H1, H3. subst. rewrite eqb_reflx. cbn. eapply IH; eauto. lia.
Qed.

Lemma starts_with_firstn i p : starts_with (firstn i p) p = true.
Proof. apply starts_with_iff. exists (skipn i p). symmetry. apply firstn_skipn. Qed.

Lemma starts_with_firstn_mono i : forall j (p : bits),
  (i <= j)%nat -> starts_with (firstn i p) (firstn j p) = true.
Proof.
  induction i as [|i IH]; intros j p L; [reflexivity|].
  destruct j as [|j]; [lia|]. destruct p as [|x p]; [reflexivity|].
  cbn. rewrite eqb_reflx. cbn. apply IH. lia.
Qed.

(* ------------------------------------------------------------------ integer value *)
Fixpoint bval (l : bits) : Z :=
  match l with [] => 0 | b :: t => Z.b2z b * 2 ^ Z.of_nat (length t) + bval t end.

Lemma bitsZ_acc_spec l : forall acc, bitsZ_acc l acc = acc * 2 ^ Z.of_nat (length l) + bval l.
Proof.
  induction l as [|b t IH]; intros acc; cbn [bitsZ_acc bval length].
  - cbn. lia.
  - rewrite IH. rewrite Nat2Z.inj_succ, Z.pow_succ_r by lia. ring.
Qed.

Lemma bitsZ_bval l : bitsZ l = bval l.
Proof. unfold bitsZ. rewrite bitsZ_acc_spec. lia. Qed.

Lemma bval_range l : 0 <= bval l < 2 ^ Z.of_nat (length l).
Proof.
  induction l as [|b t IH]; cbn [bval length].
  - cbn. lia.
  - rewrite Nat2Z.inj_succ, Z.pow_succ_r by lia. destruct b; cbn [Z.b2z]; lia.
Qed.

Lemma bval_inj a : forall b, length a = length b -> bval a = bval b -> a = b.
Proof.
  induction a as [|x a IH]; intros [|y b] L E; try reflexivity; try discriminate.
  cbn [length] in L. injection L as L. cbn [bval] in E. rewrite L in E.
  pose proof (bval_range a) as Ra. pose proof (bval_range b) as Rb. rewrite L in Ra.
  assert (P : 0 < 2 ^ Z.of_nat (length b)) by (apply Z.pow_pos_nonneg; lia).
  destruct x, y; cbn [Z.b2z] in E; try (exfalso; lia); f_equal; apply IH; auto; lia.
Qed.

(* ------------------------------------------------------------------ XOR *)
Fixpoint xorl (a b : bits) : bits :=
  match a, b with x :: a', y :: b' => xorb x y :: xorl a' b' | _, _ => [] end.

Lemma xorl_length a : forall b, length a = length b -> length (xorl a b) = length a.
Proof. induction a; intros [|y b] L; cbn in *; try lia. f_equal. apply IHa. lia. Qed.

Lemma lxor_step x y p q :
  Z.lxor (2 * x + Z.b2z p) (2 * y + Z.b2z q) = 2 * Z.lxor x y + Z.b2z (xorb p q).
Proof.
  apply Z.bits_inj'. intros n Hn.
  rewrite Z.lxor_spec.
  destruct (Z.eq_dec n 0) as [->|Hz].
  - rewrite !Z.testbit_0_r. reflexivity.
  - replace n with (Z.succ (n - 1)) by lia.
    rewrite !Z.testbit_succ_r by lia. rewrite Z.lxor_spec. reflexivity.
Qed.

Lemma lxor_acc a : forall b x y, length a = length b ->
  Z.lxor (bitsZ_acc a x) (bitsZ_acc b y) = bitsZ_acc (xorl a b) (Z.lxor x y).
Proof.
  induction a as [|p a IH]; intros [|q b] x y L; try discriminate; cbn [bitsZ_acc xorl].
  - reflexivity.
  - rewrite IH by (cbn in L; lia). rewrite lxor_step. reflexivity.
Qed.

(* the code's integer XOR is the bitwise XOR of the two bit strings *)
Lemma dist_xorl a b : length a = length b -> dist a b = bval (xorl a b).
Proof.
  intros L. unfold dist, bitsZ. rewrite lxor_acc by exact L. rewrite Z.lxor_0_l.
  fold (bitsZ (xorl a b)). apply bitsZ_bval.
Qed.

Lemma xorl_inj_l t : forall a b, length a = length t -> length b = length t -> xorl a t = xorl b t -> a = b.
Proof.
  induction t as [|z t IH]; intros [|x a] [|y b] La Lb E; try discriminate; try reflexivity.
  cbn in E. injection E as E1 E2. f_equal.
  - destruct x, y, z; cbn in E1; congruence.
  - apply IH; cbn in *; auto; lia.
Qed.

Lemma dist_inj t a b : length a = length t -> length b = length t -> dist a t = dist b t -> a = b.
Proof.
  intros La Lb E. rewrite !dist_xorl in E by assumption.
  apply bval_inj in E.
  - eapply xorl_inj_l; eauto.
  - rewrite !xorl_length by assumption. lia.
Qed.

Lemma dist_nonneg a t : length a = length t -> 0 <= dist a t.
Proof. intros L. rewrite dist_xorl by exact L. apply bval_range. Qed.

(* xor_order_by_common_prefix: an identifier inside the sub-tree of a prefix of the target is strictly
   closer to the target than any identifier outside that sub-tree *)
Lemma xor_order_by_common_prefix p : forall t a b,
  starts_with p t = true -> starts_with p a = true -> starts_with p b = false ->
  length a = length t -> length b = length t ->
  dist a t < dist b t.
Proof.
  intros t a b Ht Ha Hb La Lb. rewrite !dist_xorl by assumption.
  revert t a b Ht Ha Hb La Lb.
  induction p as [|x p IH]; intros t a b Ht Ha Hb La Lb; [discriminate|].
  destruct t as [|z t]; [discriminate|]. destruct a as [|u a]; [discriminate|].
  destruct b as [|v b]; [discriminate|].
  cbn in Ht, Ha, Hb. apply andb_true_iff in Ht as [T1 T2]. apply andb_true_iff in Ha as [A1 A2].
  apply eqb_prop in T1, A1. subst z u.
  cbn [length] in La, Lb. injection La as La. injection Lb as Lb.
  cbn [xorl bval]. rewrite xorb_nilpotent. cbn [Z.b2z].
  rewrite !xorl_length by assumption. rewrite La, Lb.
  destruct (Bool.eqb x v) eqn:E.
  - apply eqb_prop in E. subst v. cbn in Hb. rewrite xorb_nilpotent. cbn [Z.b2z].
    specialize (IH t a b T2 A2 Hb La Lb). lia.
  - assert (X : xorb v x = true) by (destruct x, v; cbn in E |- *; congruence).
    rewrite X. cbn [Z.b2z].
    pose proof (bval_range (xorl a t)) as Ra. pose proof (bval_range (xorl b t)) as Rb.
    rewrite (xorl_length a t La) in Ra. rewrite (xorl_length b t Lb) in Rb.
    rewrite La in Ra. rewrite Lb in Rb. lia.
Qed.

(* ------------------------------------------------------------------ format(z, "0<w>b") *)
Lemma Z_to_bits_acc_length w : forall z acc, length (Z_to_bits_acc w z acc) = (w + length acc)%nat.
Proof. induction w; intros z acc; cbn; [reflexivity|]. rewrite IHw. cbn. lia. Qed.

Lemma Z_to_bits_length w z : length (Z_to_bits w z) = w.
Proof. unfold Z_to_bits. rewrite Z_to_bits_acc_length. cbn. lia. Qed.

Lemma Z_to_bits_acc_app w : forall z acc, Z_to_bits_acc w z acc = Z_to_bits_acc w z [] ++ acc.
Proof.
  induction w; intros z acc; cbn; [reflexivity|].
  rewrite IHw. rewrite (IHw _ [Z.odd z]). rewrite <- app_assoc. reflexivity.
Qed.

Lemma odd_div2 z : z = 2 * Z.div2 z + Z.b2z (Z.odd z).
Proof. apply Z.div2_odd. Qed.

(* round trip: the w-bit rendering of z has value z *)
Lemma bval_Z_to_bits w : forall z, 0 <= z < 2 ^ Z.of_nat w -> bval (Z_to_bits w z) = z.
Proof.
  unfold Z_to_bits. induction w; intros z Hz.
  - cbn in *. lia.
  - cbn [Z_to_bits_acc]. rewrite Z_to_bits_acc_app.
    assert (B : forall l b, bval (l ++ [b]) = 2 * bval l + Z.b2z b).
    { induction l as [|c l IHl]; intros b; cbn [app bval length].
      - cbn. lia.
      - rewrite IHl. rewrite app_length. cbn [length]. rewrite Nat.add_1_r, Nat2Z.inj_succ, Z.pow_succ_r by lia. ring. }
    rewrite B. rewrite IHw.
    + symmetry. apply odd_div2.
    + rewrite Nat2Z.inj_succ, Z.pow_succ_r in Hz by lia.
      pose proof (odd_div2 z). destruct (Z.odd z); cbn [Z.b2z] in *; lia.
Qed.
