(* C18 - bit-pair profiles: the honest round reconstructs binary_relativity, the true value scores
   1 - 2^-n, every other profile scores 0. *)
From Coq Require Import ZArith List Bool Lia ZifyBool QArith Qabs Qpower Permutation.
From IPV8V Require Import lib.PyErr model.M18_hom model.M18_bitpairs proofs.P18_hom.
Import ListNotations.
Open Scope Z_scope.

(* ------------------------------------------------------------------ bits *)
Definition is_bit (x : Z) : Prop := x = 0 \/ x = 1.

Lemma pos_bits_bit p : forall acc, Forall is_bit acc -> Forall is_bit (pos_bits p acc).
Proof.
  induction p as [q IH|q IH|]; intros acc Hacc; cbn [pos_bits].
  - apply IH. constructor; [right; reflexivity|exact Hacc].
  - apply IH. constructor; [left; reflexivity|exact Hacc].
  - constructor; [right; reflexivity|exact Hacc].
Qed.

Lemma bits_bit v b A : bits v b = Ok A -> Forall is_bit A.
Proof.
  unfold bits, bin_digits. destruct v as [|p|p]; cbn [bind]; intros H; inversion H; subst; clear H.
  - unfold pad_bits. apply Forall_app. split; [apply Forall_forall; intros x Hx; apply repeat_spec in Hx; left; exact Hx|].
    constructor; [left; reflexivity|constructor].
  - unfold pad_bits. apply Forall_app. split; [apply Forall_forall; intros x Hx; apply repeat_spec in Hx; left; exact Hx|].
    apply pos_bits_bit. constructor.
Qed.

Lemma nth_bit A i : Forall is_bit A -> is_bit (nth i A 0).
Proof.
  intros H. destruct (nth_in_or_default i A 0) as [Hin| ->]; [|left; reflexivity].
  rewrite Forall_forall in H. exact (H _ Hin).
Qed.

Lemma pair_class_range A j : Forall is_bit A -> 0 <= pair_class A j <= 2.
Proof.
  intros H. unfold pair_class. destruct (nth_bit A (2 * j) H), (nth_bit A (2 * j + 1) H); lia.
Qed.

(* ------------------------------------------------------------------ tallies *)
Definition cnt (cs : list Z) (k : Z) : Z := Z.of_nat (count_occ Z.eq_dec cs k).

Lemma tally_from_counts cs : forall m, Forall (fun c => 0 <= c <= 3) cs ->
  tally_from m cs = Ok (MkRM (r0 m + cnt cs 0) (r1 m + cnt cs 1) (r2 m + cnt cs 2) (r3 m + cnt cs 3)).
Proof.
  unfold tally_from, cnt. induction cs as [|c cs IH]; intros m H.
  - cbn. destruct m; cbn. repeat rewrite Z.add_0_r. reflexivity.
  - inversion H as [|? ? Hc Hcs]; subst. cbn [fold_left bind].
    assert (Hc' : c = 0 \/ c = 1 \/ c = 2 \/ c = 3) by lia.
    destruct Hc' as [->|[->|[->| ->]]]; cbn [rm_incr Z.eqb Pos.eqb]; rewrite IH by exact Hcs;
      cbn [r0 r1 r2 r3 count_occ]; f_equal;
      repeat match goal with |- context [Z.eq_dec ?a ?b] => destruct (Z.eq_dec a b); try lia end;
      f_equal; lia.
Qed.

Lemma tally_counts cs : Forall (fun c => 0 <= c <= 3) cs ->
  tally cs = Ok (MkRM (cnt cs 0) (cnt cs 1) (cnt cs 2) (cnt cs 3)).
Proof. intros H. unfold tally. rewrite tally_from_counts by exact H. reflexivity. Qed.

Lemma cnt_perm cs cs' k : Permutation cs cs' -> cnt cs k = cnt cs' k.
Proof. intros H. unfold cnt. f_equal. apply Permutation_count_occ. exact H. Qed.

Lemma cnt_app cs cs' k : cnt (cs ++ cs') k = cnt cs k + cnt cs' k.
Proof. unfold cnt. rewrite count_occ_app. lia. Qed.

Lemma cnt_nonneg cs k : 0 <= cnt cs k.
Proof. unfold cnt. lia. Qed.

Lemma cnt_total cs : Forall (fun c => 0 <= c <= 2) cs ->
  cnt cs 0 + cnt cs 1 + cnt cs 2 = Z.of_nat (length cs) /\ cnt cs 3 = 0.
Proof.
  unfold cnt. induction 1 as [|c cs Hc _ IH]; [cbn; lia|].
  cbn [count_occ length].
  repeat match goal with |- context [Z.eq_dec ?a ?b] => destruct (Z.eq_dec a b); try lia end.
Qed.

Lemma classes_range A order : Forall is_bit A -> Forall (fun c => 0 <= c <= 2) (map (pair_class A) order).
Proof.
  intros H. apply Forall_forall. intros c Hc. apply in_map_iff in Hc as (j & <- & _). apply pair_class_range. exact H.
Qed.

Lemma range2_range3 cs : Forall (fun c => 0 <= c <= 2) cs -> Forall (fun c => 0 <= c <= 3) cs.
Proof. apply Forall_impl. intros; lia. Qed.

(* ------------------------------------------------------------------ the honest round *)
Section Round.
  Variable G : Type.
  Variable gmul : G -> G -> G.
  Variable gone : G.
  Variable ginv : G -> G.
  Variable geqb : G -> G -> bool.
  Hypothesis geqb_eq : forall a b, geqb a b = true <-> a = b.
  Hypothesis gmul_assoc : forall a b c, gmul a (gmul b c) = gmul (gmul a b) c.
  Hypothesis gmul_comm : forall a b, gmul a b = gmul b a.
  Hypothesis gmul_one_l : forall a, gmul gone a = a.
  Hypothesis gmul_inv_l : forall a, gmul (ginv a) a = gone.
  Variable g h : G.
  Variable t1 t2 : Z.
  Hypothesis t2_big : 2 < t2.
  Hypothesis h_order : gpow G gmul gone ginv h t1 = gone.
  Hypothesis g_n : gpow G gmul gone ginv g (t1 * t2) = gone.
  Hypothesis g_t1_order : forall m, 0 < m < t2 -> gpow G gmul gone ginv (gpow G gmul gone ginv g t1) m <> gone.
  Variable P : Z.
  Hypothesis P_pos : 0 < P + 1.
  Hypothesis n_divides : (t1 * t2 | P + 1).      (* generate_prime: p = l*n - 1 *)

  Lemma pair_response_class bit_a bit_b r : is_bit bit_a -> is_bit bit_b ->
    pair_response G gmul gone ginv geqb g h t1 P bit_a bit_b r = bit_a + bit_b.
  Proof.
    intros Ha Hb. unfold pair_response, attest_pair, challenge_of.
    rewrite !(encode_mul_l G gmul gone ginv gmul_assoc gmul_comm gmul_one_l gmul_inv_l).
    rewrite (challenge_response_spec_l G gmul gone ginv geqb geqb_eq gmul_assoc gmul_comm gmul_one_l gmul_inv_l
               g h t1 t2 ltac:(lia) h_order g_n g_t1_order _ _ t2_big).
    set (M := bit_a + ra r + (bit_b + rb r) + (P - (ra r + rb r) mod (P + 1) + 1) + 0).
    assert (HM : M mod t2 = bit_a + bit_b).
    { destruct n_divides as [q Hq].
      pose proof (Z.div_mod (ra r + rb r) (P + 1) ltac:(lia)) as Hdm.
      replace M with (bit_a + bit_b + ((ra r + rb r) / (P + 1) + 1) * q * t1 * t2).
      - rewrite Z_mod_plus_full. apply Z.mod_small. destruct Ha, Hb; lia.
      - unfold M. remember ((ra r + rb r) / (P + 1)) as d. remember ((ra r + rb r) mod (P + 1)) as rr.
        clear Heqd Heqrr. nia. }
    rewrite HM. destruct Ha as [-> | ->], Hb as [-> | ->]; reflexivity.
  Qed.

  Lemma honest_run_classes A rand order : Forall is_bit A ->
    honest_run G gmul gone ginv geqb g h t1 P A rand order = tally (map (pair_class A) order).
  Proof.
    intros HA. unfold honest_run. f_equal. apply map_ext. intros j.
    apply pair_response_class; apply nth_bit; exact HA.
  Qed.

  (* all orders: any permutation of the bit pairs reconstructs exactly binary_relativity(value) *)
  Lemma profile_exact_l v bitspace A rand order : bits v bitspace = Ok A ->
    Permutation order (seq 0 (npairs bitspace)) ->
    honest_run G gmul gone ginv geqb g h t1 P A rand order = binary_relativity v bitspace.
  Proof.
    intros HA Hperm. pose proof (bits_bit _ _ _ HA) as Hb.
    rewrite honest_run_classes by exact Hb. unfold binary_relativity. rewrite HA. cbn [bind].
    rewrite !tally_counts by (apply range2_range3, classes_range; exact Hb).
    f_equal. f_equal; apply cnt_perm, Permutation_map; exact Hperm.
  Qed.

  (* all subsets, in any order: the aggregate after the answers to `order`, when `order ++ rest` is a
     permutation of all pairs, counts exactly the classes asked, never exceeds the true profile, and
     its total is the number of answers *)
  Lemma profile_partial_l v bitspace A rand order rest e : bits v bitspace = Ok A ->
    Permutation (order ++ rest) (seq 0 (npairs bitspace)) ->
    binary_relativity v bitspace = Ok e ->
    exists o, honest_run G gmul gone ginv geqb g h t1 P A rand order = Ok o /\
      (forall k, 0 <= rget o k <= rget e k) /\ rm_total o = Z.of_nat (length order) /\ r3 o = 0 /\ r3 e = 0 /\
      rm_total e = Z.of_nat (npairs bitspace).
  Proof.
    intros HA Hperm He. pose proof (bits_bit _ _ _ HA) as Hb.
    rewrite honest_run_classes by exact Hb.
    unfold binary_relativity in He. rewrite HA in He. cbn [bind] in He.
    rewrite tally_counts in He by (apply range2_range3, classes_range; exact Hb). inversion He; subst e; clear He.
    rewrite tally_counts by (apply range2_range3, classes_range; exact Hb).
    eexists; split; [reflexivity|].
    assert (Hle : forall k, cnt (map (pair_class A) order) k <= cnt (map (pair_class A) (seq 0 (npairs bitspace))) k).
    { intros k. rewrite <- (cnt_perm _ _ k (Permutation_map (pair_class A) Hperm)), map_app, cnt_app.
      pose proof (cnt_nonneg (map (pair_class A) rest) k). lia. }
    destruct (cnt_total _ (classes_range A order Hb)) as [Ht1 Ht3].
    destruct (cnt_total _ (classes_range A (seq 0 (npairs bitspace)) Hb)) as [Ht1' Ht3'].
    rewrite map_length in Ht1, Ht1'. rewrite seq_length in Ht1'.
    split.
    - intros k. unfold rget; cbn [r0 r1 r2 r3].
      repeat match goal with |- context [if ?c then _ else _] => destruct c end;
        split; try apply cnt_nonneg; apply Hle.
    - unfold rm_total; cbn [r0 r1 r2 r3]. repeat split; lia.
  Qed.
End Round.

(* ------------------------------------------------------------------ scores *)
Lemma rget_0 m : rget m 0 = r0 m. Proof. reflexivity. Qed.
Lemma rget_1 m : rget m 1 = r1 m. Proof. reflexivity. Qed.
Lemma rget_2 m : rget m 2 = r2 m. Proof. reflexivity. Qed.
Lemma rget_3 m : rget m 3 = r3 m. Proof. reflexivity. Qed.

Lemma match_loop_self e ks : forall acc, (match_loop ks e e acc == acc)%Q.
Proof.
  induction ks as [|k ks IH]; intros acc; cbn [match_loop]; [reflexivity|].
  rewrite Z.ltb_irrefl. destruct ((rget e k =? 0) || (rget e k =? 0)) eqn:E; [apply IH|].
  rewrite IH. assert (Hnz : rget e k <> 0) by lia.
  unfold Qdiv. rewrite Qmult_inv_r; [apply Qmult_1_r|].
  intros H. apply Hnz. unfold Qeq, inject_Z in H. cbn in H. lia.
Qed.

Lemma relativity_match_self e : (relativity_match e e == 1)%Q.
Proof. apply match_loop_self. Qed.

Lemma half_pow_lt_1 n : 0 < n -> (Qpower (1 # 2) n < 1)%Q.
Proof.
  intros Hn. change (1 # 2)%Q with (/ 2)%Q. rewrite Qinv_power.
  assert (H1 : (1 < 2 ^ n)%Q) by (apply Qpower_1_lt; [reflexivity|exact Hn]).
  assert (H0 : (0 < 2 ^ n)%Q) by (apply Qpower_0_lt; reflexivity).
  assert (Hp1 : (0 < 1)%Q) by reflexivity.
  exact (proj1 (Qinv_lt_contravar 1 (2 ^ n) Hp1 H0) H1).
Qed.

(* the true value after a complete round *)
Lemma true_value_score_l e : (certainty e e == 1 - Qpower (1 # 2) (rm_total e))%Q.
Proof. unfold certainty. rewrite relativity_match_self. apply Qmult_1_l. Qed.

(* a candidate whose expected count is exceeded in some class is ruled out *)
Lemma match_exceeded e o : (exists k, 0 <= k <= 3 /\ rget e k < rget o k) -> relativity_match e o = 0%Q.
Proof.
  intros (k & Hk & Hlt). unfold relativity_match. cbn [match_loop]. rewrite !rget_0, !rget_1, !rget_2, !rget_3.
  assert (Hc : k = 0 \/ k = 1 \/ k = 2 \/ k = 3) by lia.
  destruct (r0 e <? r0 o) eqn:E0; [reflexivity|].
  destruct ((r0 e =? 0) || (r0 o =? 0));
    (destruct (r1 e <? r1 o) eqn:E1; [reflexivity|]);
    (destruct ((r1 e =? 0) || (r1 o =? 0));
      (destruct (r2 e <? r2 o) eqn:E2; [reflexivity|]);
      (destruct ((r2 e =? 0) || (r2 o =? 0));
        (destruct (r3 e <? r3 o) eqn:E3; [reflexivity|])));
    exfalso; destruct Hc as [->|[->|[->| ->]]];
    rewrite ?rget_0, ?rget_1, ?rget_2, ?rget_3 in Hlt; lia.
Qed.

(* two different profiles of the same number of pairs: some class of the first is exceeded *)
Lemma other_profile_exceeded e o : r3 e = 0 -> r3 o = 0 -> rm_total e = rm_total o -> e <> o ->
  exists k, 0 <= k <= 3 /\ rget e k < rget o k.
Proof.
  intros He3 Ho3 Ht Hne. unfold rm_total in Ht.
  destruct (Z_lt_dec (r0 e) (r0 o)); [exists 0; rewrite !rget_0; lia|].
  destruct (Z_lt_dec (r1 e) (r1 o)); [exists 1; rewrite !rget_1; lia|].
  destruct (Z_lt_dec (r2 e) (r2 o)); [exists 2; rewrite !rget_2; lia|].
  exfalso. apply Hne. destruct e, o; cbn in *. f_equal; lia.
Qed.

Lemma other_profile_zero_l e o : r3 e = 0 -> r3 o = 0 -> rm_total e = rm_total o -> e <> o ->
  (certainty e o == 0)%Q.
Proof.
  intros H1 H2 H3 H4. unfold certainty. rewrite (match_exceeded e o (other_profile_exceeded e o H1 H2 H3 H4)).
  apply Qmult_0_l.
Qed.

(* partial rounds: as long as no class is exceeded the match is the product of observed/expected
   over the classes seen so far, and is positive *)
Lemma match_loop_pos e o ks : (forall k, 0 <= rget o k <= rget e k) ->
  forall acc, (0 < acc)%Q -> (0 < match_loop ks e o acc)%Q.
Proof.
  intros Hle. induction ks as [|k ks IH]; intros acc Hacc; cbn [match_loop]; [exact Hacc|].
  pose proof (Hle k) as Hk. destruct (rget e k <? rget o k) eqn:E; [lia|].
  destruct ((rget e k =? 0) || (rget o k =? 0)) eqn:E2; [apply IH; exact Hacc|].
  apply IH. apply Qmult_lt_0_compat; [exact Hacc|].
  apply Qlt_shift_div_l; unfold Qlt, inject_Z; cbn; lia.
Qed.

Lemma partial_round_positive_l e o : (forall k, 0 <= rget o k <= rget e k) -> 0 < rm_total o ->
  (0 < certainty e o)%Q.
Proof.
  intros Hle Hn. unfold certainty. apply Qmult_lt_0_compat.
  - apply match_loop_pos; [exact Hle|reflexivity].
  - pose proof (half_pow_lt_1 _ Hn) as H. apply (Qplus_lt_l _ _ (Qpower (1 # 2) (rm_total o))). ring_simplify. exact H.
Qed.

(* ------------------------------------------------------------------ the property, assembled *)
Lemma binary_relativity_shape v bs e : binary_relativity v bs = Ok e ->
  r3 e = 0 /\ rm_total e = Z.of_nat (npairs bs) /\ 0 <= r0 e /\ 0 <= r1 e /\ 0 <= r2 e.
Proof.
  unfold binary_relativity. destruct (bits v bs) as [A|] eqn:HA; [|discriminate]. cbn [bind].
  pose proof (bits_bit _ _ _ HA) as Hb.
  rewrite tally_counts by (apply range2_range3, classes_range; exact Hb). intros H; inversion H; subst e; clear H.
  destruct (cnt_total _ (classes_range A (seq 0 (npairs bs)) Hb)) as [Ht Ht3].
  rewrite map_length, seq_length in Ht. unfold rm_total; cbn [r0 r1 r2 r3].
  pose proof (cnt_nonneg (map (pair_class A) (seq 0 (npairs bs))) 0).
  pose proof (cnt_nonneg (map (pair_class A) (seq 0 (npairs bs))) 1).
  pose proof (cnt_nonneg (map (pair_class A) (seq 0 (npairs bs))) 2). lia.
Qed.

Section Property.
  Variable G : Type.
  Variable gmul : G -> G -> G.
  Variable gone : G.
  Variable ginv : G -> G.
  Variable geqb : G -> G -> bool.
  Hypothesis geqb_eq : forall a b, geqb a b = true <-> a = b.
  Hypothesis gmul_assoc : forall a b c, gmul a (gmul b c) = gmul (gmul a b) c.
  Hypothesis gmul_comm : forall a b, gmul a b = gmul b a.
  Hypothesis gmul_one_l : forall a, gmul gone a = a.
  Hypothesis gmul_inv_l : forall a, gmul (ginv a) a = gone.
  Variable g h : G.
  Variable t1 t2 : Z.
  Hypothesis t2_big : 2 < t2.
  Hypothesis h_order : gpow G gmul gone ginv h t1 = gone.
  Hypothesis g_n : gpow G gmul gone ginv g (t1 * t2) = gone.
  Hypothesis g_t1_order : forall m, 0 < m < t2 -> gpow G gmul gone ginv (gpow G gmul gone ginv g t1) m <> gone.
  Variable P : Z.
  Hypothesis P_pos : 0 < P + 1.
  Hypothesis n_divides : (t1 * t2 | P + 1).

  (* After the n answers of an honest prover, in any order and whatever the randomness, the verifier
     holds exactly the profile of the attested value; the attested value scores 1 - 2^-n and every
     value whose profile differs scores 0. *)
  Lemma honest_round_scores_l v bs A rand order : bits v bs = Ok A ->
    Permutation order (seq 0 (npairs bs)) ->
    exists e, honest_run G gmul gone ginv geqb g h t1 P A rand order = Ok e /\
      binary_relativity v bs = Ok e /\
      (certainty e e == 1 - Qpower (1 # 2) (Z.of_nat (npairs bs)))%Q /\
      forall v' e', binary_relativity v' bs = Ok e' -> e' <> e -> (certainty e' e == 0)%Q.
  Proof.
    intros HA Hperm.
    pose proof (profile_exact_l G gmul gone ginv geqb geqb_eq gmul_assoc gmul_comm gmul_one_l gmul_inv_l
                  g h t1 t2 t2_big h_order g_n g_t1_order P P_pos n_divides v bs A rand order HA Hperm) as Hrun.
    destruct (binary_relativity v bs) as [e|] eqn:He.
    - exists e. split; [exact Hrun|]. split; [reflexivity|].
      destruct (binary_relativity_shape _ _ _ He) as (H3 & Ht & _).
      split; [rewrite <- Ht; apply true_value_score_l|].
      intros v' e' He' Hne. destruct (binary_relativity_shape _ _ _ He') as (H3' & Ht' & _).
      apply other_profile_zero_l; [exact H3'|exact H3|lia|exact Hne].
    - exfalso. unfold binary_relativity in He. rewrite HA in He. cbn [bind] in He.
      rewrite tally_counts in He by (apply range2_range3, classes_range; eapply bits_bit; exact HA). discriminate.
  Qed.
End Property.
