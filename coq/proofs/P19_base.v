(* C19 - lemmas about the logical database content (no store, no crash): statements, version row,
   schema script, well-formed configuration. *)
From Coq Require Import ZArith List Bool Lia Arith.
From IPV8V Require Import lib.PyErr lib.Bytes model.M19_crash spec.S19_durable.
Import ListNotations.
Open Scope Z_scope.

(* ---------------------------------------------------------------- statements *)
Lemma apply_stmt_fail d q : fst (apply_stmt d q) <> SOk -> snd (apply_stmt d q) = d.
Proof.
  destruct q as [td|ig t r|t c v]; cbn [apply_stmt].
  - destruct (find_table d (t_id td)); cbn; congruence.
  - destruct (find_table d t); [|reflexivity].
    destruct (has_key d t (t_pk t0) (key_of (t_pk t0) r)); [reflexivity|]. cbn. congruence.
  - destruct (find_table d t); cbn; congruence.
Qed.

Lemma find_table_some d t td : find_table d t = Some td -> In td (d_tables d) /\ t_id td = t.
Proof.
  unfold find_table. intros H. apply find_some in H as [H1 H2]. apply Z.eqb_eq in H2. auto.
Qed.

Lemma find_table_none d t : find_table d t = None -> forall td, In td (d_tables d) -> t_id td <> t.
Proof.
  unfold find_table. intros H td Hin E. apply (find_none _ _ H) in Hin. apply Z.eqb_neq in Hin. auto.
Qed.

(* the data rows: everything but the option table *)
Definition is_data (tr : Z * row) : bool := negb (fst tr =? T_OPTION).
Definition data_rows (d : dstate) : list (Z * row) := filter is_data (d_rows d).

Lemma in_data_rows d t r : t <> T_OPTION -> (In (t, r) (data_rows d) <-> In (t, r) (d_rows d)).
Proof.
  intros Ht. unfold data_rows. rewrite filter_In. unfold is_data. cbn [fst].
  apply Z.eqb_neq in Ht. rewrite Ht. cbn. tauto.
Qed.

(* version row *)
Definition is_version (tr : Z * row) : bool := del_match T_OPTION 0 K_VERSION tr.

Lemma version_row_app_data d t r tabs :
  t <> T_OPTION -> version_row (mkD tabs (d_rows d ++ [(t, r)])) = version_row d.
Proof.
  intros Ht. unfold version_row. cbn [d_rows].
  assert (E : find (fun tr => del_match T_OPTION 0 K_VERSION tr) (d_rows d ++ [(t, r)])
              = find (fun tr => del_match T_OPTION 0 K_VERSION tr) (d_rows d)).
  { induction (d_rows d) as [|x l IH]; cbn [app find].
    - unfold del_match. cbn [fst]. apply Z.eqb_neq in Ht. rewrite Ht. reflexivity.
    - destruct (del_match T_OPTION 0 K_VERSION x); [reflexivity|exact IH]. }
  rewrite E. reflexivity.
Qed.

Lemma version_row_tables d tabs : version_row (mkD tabs (d_rows d)) = version_row d.
Proof. reflexivity. Qed.

Lemma find_filter_none {A} (p : A -> bool) l : find p (filter (fun x => negb (p x)) l) = None.
Proof.
  induction l as [|x l IH]; cbn; [reflexivity|].
  destruct (p x) eqn:E; cbn; [exact IH|]. rewrite E. exact IH.
Qed.

Lemma find_app_none {A} (p : A -> bool) l x : find p l = None -> find p (l ++ [x]) = if p x then Some x else None.
Proof.
  induction l as [|y l IH]; cbn; [reflexivity|].
  destruct (p y); [discriminate|exact IH].
Qed.

Lemma filter_filter_comm {A} (p q : A -> bool) l : filter p (filter q l) = filter q (filter p l).
Proof.
  induction l as [|x l IH]; cbn; [reflexivity|].
  destruct (q x) eqn:Q, (p x) eqn:P; cbn; rewrite ?Q, ?P, IH; reflexivity.
Qed.

Lemma filter_id_when {A} (p : A -> bool) l : (forall x, In x l -> p x = true) -> filter p l = l.
Proof.
  induction l as [|x l IH]; cbn; intros H; [reflexivity|].
  rewrite (H x (or_introl eq_refl)). f_equal. apply IH. intros y Hy. apply H. right. exact Hy.
Qed.

(* deleting the version row leaves the data rows alone *)
Lemma data_rows_delete_version d :
  filter is_data (filter (fun tr => negb (del_match T_OPTION 0 K_VERSION tr)) (d_rows d)) = data_rows d.
Proof.
  unfold data_rows. rewrite filter_filter_comm. apply filter_id_when.
  intros [t r] H. apply filter_In in H as [_ H]. unfold is_data in H. cbn [fst] in H.
  unfold del_match. cbn [fst]. destruct (t =? T_OPTION); [discriminate|reflexivity].
Qed.

Lemma data_rows_app_option rows r :
  filter is_data (rows ++ [(T_OPTION, r)]) = filter is_data rows.
Proof. rewrite filter_app. cbn. rewrite app_nil_r. reflexivity. Qed.

Lemma data_rows_app_data rows t r : t <> T_OPTION ->
  filter is_data (rows ++ [(t, r)]) = filter is_data rows ++ [(t, r)].
Proof.
  intros Ht. rewrite filter_app. cbn. unfold is_data. cbn [fst]. apply Z.eqb_neq in Ht. rewrite Ht. reflexivity.
Qed.

(* ---------------------------------------------------------------- configuration *)
Lemma script_split_eq sc : forall tds rest, script_split sc = (tds, rest) -> sc = map SCreate tds ++ rest.
Proof.
  induction sc as [|q sc IH]; cbn [script_split]; intros tds rest E.
  - inversion E; subst. reflexivity.
  - destruct q as [td|ig t r|t c v]; try (inversion E; subst; reflexivity).
    destruct (script_split sc) as [a b] eqn:Es. inversion E; subst.
    cbn [map app]. f_equal. apply IH. reflexivity.
Qed.

Lemma nodup_z_NoDup l : nodup_z l = true -> NoDup l.
Proof.
  induction l as [|x l IH]; cbn [nodup_z]; intros H; [constructor|].
  apply andb_true_iff in H as [H1 H2]. constructor; [|apply IH; exact H2].
  intros Hin. apply negb_true_iff in H1.
  assert (existsb (Z.eqb x) l = true).
  { apply existsb_exists. exists x. split; [exact Hin|apply Z.eqb_refl]. }
  congruence.
Qed.

Record cfg_wf (cfg : dbcfg) : Prop := {
  w_check : cfg_check cfg =
            [OScript (map SCreate (schema_tables cfg)
                      ++ [SDelete T_OPTION 0 K_VERSION; SInsert false T_OPTION [K_VERSION; cfg_latest cfg]]);
             OCommit];
  w_nodup : NoDup (map t_id (schema_tables cfg));
  w_option : exists td, In td (schema_tables cfg) /\ t_id td = T_OPTION /\ t_pk td = [O];
  w_inserts : forall fn ops, nth_error (cfg_inserts cfg) fn = Some ops ->
              exists ig t td, ops = [OExec ig t; OCommit] /\ t <> T_OPTION /\
                              In td (schema_tables cfg) /\ t_id td = t
}.

Lemma cfg_okb_wf cfg : cfg_okb cfg = true -> cfg_wf cfg.
Proof.
  unfold cfg_okb. intros H.
  destruct (cfg_check cfg) as [|o1 [|o2 [|o3 l]]] eqn:Ec; try discriminate.
  - destruct o1; discriminate.
  - destruct o1 as [| sc |]; try discriminate. destruct o2; try discriminate.
    apply andb_true_iff in H as [H H3]. apply andb_true_iff in H as [H1 H2].
    unfold script_okb in H1. destruct (script_split sc) as [tds rest] eqn:Es.
    apply andb_true_iff in H1 as [H1 Hn]. apply andb_true_iff in H1 as [Hr Ho].
    assert (Est : schema_tables cfg = tds).
    { unfold schema_tables. rewrite Ec, Es. reflexivity. }
    destruct rest as [|q1 [|q2 [|q3 rest]]]; try discriminate.
    { destruct q1; discriminate. }
    2:{ destruct q1; try discriminate. destruct q2; try discriminate. destruct ignore; try discriminate.
        destruct r as [|? [|? [|? ?]]]; discriminate. }
    destruct q1 as [|?|t c v]; try discriminate. destruct q2 as [|ig t2 r|]; try discriminate.
    destruct ig; try discriminate. destruct r as [|k [|v2 [|? ?]]]; try discriminate.
    apply andb_true_iff in Hr as [Hr A6]. apply andb_true_iff in Hr as [Hr A5].
    apply andb_true_iff in Hr as [Hr A4]. apply andb_true_iff in Hr as [Hr A3].
    apply andb_true_iff in Hr as [A1 A2].
    apply Z.eqb_eq in A1, A3, A4, A5, A6. apply Nat.eqb_eq in A2. subst t c v t2 k v2.
    constructor.
    + rewrite Est, Ec. rewrite (script_split_eq _ _ _ Es) at 1. reflexivity.
    + rewrite Est. apply nodup_z_NoDup. exact Hn.
    + rewrite Est. apply existsb_exists in Ho as [td [Hin Htd]]. apply andb_true_iff in Htd as [A B].
      apply Z.eqb_eq in A. exists td. split; [exact Hin|]. split; [exact A|].
      unfold pk_is_first in B. destruct (t_pk td) as [|[|?] [|? ?]]; try discriminate. reflexivity.
    + intros fn ops Hnth. apply nth_error_In in Hnth.
      rewrite forallb_forall in H2, H3. specialize (H2 _ Hnth). specialize (H3 _ Hnth).
      unfold insert_okb in H2. destruct ops as [|[ig t| |] [|[| |] [|? ?]]]; try discriminate.
      apply existsb_exists in H3 as [td [Hin Htd]]. apply Z.eqb_eq in Htd. cbn [fst] in Hin.
      exists ig, t, td. rewrite Est. apply negb_true_iff, Z.eqb_neq in H2. auto.
  - destruct o1; try discriminate. destruct o2; discriminate.
Qed.

Lemma wf_call_table cfg fn ops ig t :
  nth_error (cfg_inserts cfg) fn = Some ops -> ops = [OExec ig t; OCommit] -> call_table cfg fn = Some t.
Proof. intros H E. unfold call_table. rewrite H, E. reflexivity. Qed.

Lemma wf_call_stmt cfg fn r ops ig t :
  nth_error (cfg_inserts cfg) fn = Some ops -> ops = [OExec ig t; OCommit] ->
  call_stmt cfg (fn, r) = Some (SInsert ig t r).
Proof. intros H E. unfold call_stmt. cbn [fst snd]. rewrite H, E. reflexivity. Qed.

Lemma wf_call_stmt_none cfg fn r : nth_error (cfg_inserts cfg) fn = None -> call_stmt cfg (fn, r) = None.
Proof. intros H. unfold call_stmt. cbn [fst]. rewrite H. reflexivity. Qed.

(* tables of the schema are found under their own definition on a valid disk *)
Lemma NoDup_map_eq {A B} (f : A -> B) l a b : NoDup (map f l) -> In a l -> In b l -> f a = f b -> a = b.
Proof.
  induction l as [|x l IH]; cbn; intros N Ha Hb E; [contradiction|].
  inversion N as [|? ? Nx Nl]; subst.
  destruct Ha as [Ha|Ha], Hb as [Hb|Hb]; subst; auto.
  - exfalso. apply Nx. rewrite E. apply in_map. exact Hb.
  - exfalso. apply Nx. rewrite <- E. apply in_map. exact Ha.
Qed.

Lemma valid_find cfg d t td td' :
  cfg_wf cfg -> incl (d_tables d) (schema_tables cfg) ->
  find_table d t = Some td -> In td' (schema_tables cfg) -> t_id td' = t -> td = td'.
Proof.
  intros W I F Hin Hid. apply find_table_some in F as [F1 F2].
  apply (NoDup_map_eq t_id (schema_tables cfg)); [apply (w_nodup _ W)|apply I; exact F1|exact Hin|congruence].
Qed.

(* ---------------------------------------------------------------- the schema script on a valid disk *)
(* pure reading of run_script: intermediate contents, final content, outcome *)
Fixpoint script_pure (d : dstate) (sc : list stmt) : list dstate * dstate * outcome :=
  match sc with
  | [] => ([], d, Done)
  | q :: tl =>
      match sres_err (fst (apply_stmt d q)) with
      | Some e => ([], snd (apply_stmt d q), Raised e)
      | None => let '(ds, d2, o) := script_pure (snd (apply_stmt d q)) tl in
                (snd (apply_stmt d q) :: ds, d2, o)
      end
  end.

Lemma script_pure_app d a b :
  script_pure d (a ++ b) =
  let '(ds1, d1, o1) := script_pure d a in
  match o1 with
  | Raised e => (ds1, d1, o1)
  | Done => let '(ds2, d2, o2) := script_pure d1 b in (ds1 ++ ds2, d2, o2)
  end.
Proof.
  revert d. induction a as [|q a IH]; intros d; cbn [app script_pure].
  - destruct (script_pure d b) as [[ds2 d2] o2]. reflexivity.
  - destruct (sres_err (fst (apply_stmt d q))); [reflexivity|].
    rewrite IH. destruct (script_pure (snd (apply_stmt d q)) a) as [[ds1 d1] o1].
    destruct o1; [|reflexivity]. destruct (script_pure d1 b) as [[ds2 d2] o2]. reflexivity.
Qed.

(* the CREATE TABLE IF NOT EXISTS prefix: rows untouched, tables stay inside the schema, all created *)
Lemma creates_pure cfg : forall tds d,
  incl tds (schema_tables cfg) -> incl (d_tables d) (schema_tables cfg) ->
  exists ds d',
    script_pure d (map SCreate tds) = (ds, d', Done) /\
    Forall (fun x => d_rows x = d_rows d /\ incl (d_tables x) (schema_tables cfg)) ds /\
    d_rows d' = d_rows d /\ incl (d_tables d') (schema_tables cfg) /\
    (forall td, In td (d_tables d) -> In td (d_tables d')) /\
    (forall td, In td tds -> exists td', find_table d' (t_id td) = Some td').
Proof.
  induction tds as [|td tds IH]; intros d I1 I2; cbn [map script_pure].
  - exists [], d. repeat split; auto. intros td [].
  - assert (Itd : In td (schema_tables cfg)) by (apply I1; left; reflexivity).
    assert (Itl : incl tds (schema_tables cfg)) by (intros x Hx; apply I1; right; exact Hx).
    cbn [apply_stmt]. destruct (find_table d (t_id td)) as [td0|] eqn:Ef; cbn [fst snd sres_err].
    + destruct (IH d Itl I2) as [ds [d' [E [F [R [T [K C]]]]]]]. rewrite E.
      exists (d :: ds), d'. split; [reflexivity|]. split; [constructor; auto|].
      split; [exact R|]. split; [exact T|]. split; [exact K|].
      intros x [Hx|Hx]; [|apply C; exact Hx]. subst x.
      apply find_table_some in Ef as [Ef1 Ef2]. apply K in Ef1.
      destruct (find_table d' (t_id td)) eqn:Ef'; [eauto|].
      exfalso. apply (find_table_none _ _ Ef' _ Ef1). exact Ef2.
    + set (d1 := mkD (d_tables d ++ [td]) (d_rows d)).
      assert (I3 : incl (d_tables d1) (schema_tables cfg)).
      { unfold d1. cbn [d_tables]. intros x Hx. apply in_app_or in Hx as [Hx|[Hx|[]]]; [apply I2; exact Hx|subst; exact Itd]. }
      destruct (IH d1 Itl I3) as [ds [d' [E [F [R [T [K C]]]]]]]. rewrite E.
      exists (d1 :: ds), d'. split; [reflexivity|]. split.
      { constructor; [split; [reflexivity|exact I3]|]. exact F. }
      split; [exact R|]. split; [exact T|]. split.
      { intros x Hx. apply K. unfold d1. cbn [d_tables]. apply in_or_app. left. exact Hx. }
      intros x [Hx|Hx]; [|apply C; exact Hx]. subst x.
      assert (Hin : In td (d_tables d')). { apply K. unfold d1. cbn [d_tables]. apply in_or_app. right. left. reflexivity. }
      destruct (find_table d' (t_id td)) eqn:Ef'; [eauto|].
      exfalso. apply (find_table_none _ _ Ef' _ Hin). reflexivity.
Qed.

Record opened (cfg : dbcfg) (d0 d' : dstate) : Prop := {
  o_version : version_row d' = Some (cfg_latest cfg);
  o_tables : incl (d_tables d') (schema_tables cfg);
  o_found : forall td, In td (schema_tables cfg) -> find_table d' (t_id td) = Some td;
  o_data : data_rows d' = data_rows d0
}.

Lemma has_key_after_delete rows :
  existsb (row_has_key T_OPTION [O] (key_of [O] [K_VERSION; 0]))
          (filter (fun tr => negb (del_match T_OPTION 0 K_VERSION tr)) rows) = false.
Proof.
  induction rows as [|[t r] rows IH]; cbn [filter existsb]; [reflexivity|].
  destruct (del_match T_OPTION 0 K_VERSION (t, r)) eqn:E; cbn [negb]; [exact IH|].
  cbn [existsb]. rewrite IH. rewrite orb_false_r.
  unfold row_has_key, del_match in *. cbn [fst snd key_of map nth] in *.
  destruct (t =? T_OPTION); [|reflexivity]. cbn [andb] in *.
  cbn [bytes_eqb]. rewrite E. reflexivity.
Qed.

(* the whole schema script, from any valid disk: it succeeds; every intermediate content is a valid disk
   with the same data rows; the result has every table, the current version row and the same data rows *)
Lemma schema_script_pure cfg d :
  cfg_wf cfg -> valid_disk cfg d ->
  exists ds d',
    script_pure d (map SCreate (schema_tables cfg)
                   ++ [SDelete T_OPTION 0 K_VERSION; SInsert false T_OPTION [K_VERSION; cfg_latest cfg]])
    = (ds, d', Done) /\
    Forall (fun x => valid_disk cfg x /\ data_rows x = data_rows d) ds /\
    opened cfg d d'.
Proof.
  intros W [V1 V2].
  destruct (creates_pure cfg (schema_tables cfg) d (incl_refl _) V2) as [ds1 [d1 [E1 [F1 [R1 [T1 [K1 C1]]]]]]].
  rewrite script_pure_app, E1.
  destruct (w_option _ W) as [otd [Hotd [Hoid Hopk]]].
  destruct (C1 _ Hotd) as [otd' Efo]. rewrite Hoid in Efo.
  assert (otd' = otd) by (eapply valid_find; eauto). subst otd'.
  cbn [script_pure apply_stmt]. rewrite Efo. cbn [fst snd sres_err].
  set (d2 := mkD (d_tables d1) (filter (fun tr => negb (del_match T_OPTION 0 K_VERSION tr)) (d_rows d1))).
  assert (Ef2 : find_table d2 T_OPTION = Some otd) by exact Efo.
  rewrite Ef2. rewrite Hopk.
  assert (Hk : has_key d2 T_OPTION [O] (key_of [O] [K_VERSION; cfg_latest cfg]) = false).
  { unfold has_key, d2. cbn [d_rows]. apply has_key_after_delete. }
  rewrite Hk. cbn [fst snd sres_err].
  set (d3 := mkD (d_tables d2) (d_rows d2 ++ [(T_OPTION, [K_VERSION; cfg_latest cfg])])).
  exists (ds1 ++ [d2; d3]), d3. split; [reflexivity|].
  assert (D2 : data_rows d2 = data_rows d).
  { unfold d2, data_rows at 1. cbn [d_rows]. rewrite data_rows_delete_version. unfold data_rows. rewrite R1. reflexivity. }
  assert (D3 : data_rows d3 = data_rows d).
  { unfold d3, data_rows at 1. cbn [d_rows]. rewrite data_rows_app_option. exact D2. }
  assert (Vn2 : version_row d2 = None).
  { unfold version_row, d2. cbn [d_rows]. rewrite find_filter_none. reflexivity. }
  assert (Vn3 : version_row d3 = Some (cfg_latest cfg)).
  { unfold version_row, d3. cbn [d_rows].
    rewrite find_app_none.
    - reflexivity.
    - unfold d2. cbn [d_rows]. apply find_filter_none. }
  split.
  - apply Forall_app. split.
    + eapply Forall_impl; [|exact F1]. cbn. intros x [Rx Tx]. split.
      * split; [|exact Tx]. unfold version_row in *. rewrite Rx. exact V1.
      * unfold data_rows. rewrite Rx. reflexivity.
    + constructor; [|constructor; [|constructor]].
      * split; [split; [left; exact Vn2|exact T1]|exact D2].
      * split; [split; [right; exact Vn3|exact T1]|exact D3].
  - constructor; [exact Vn3|exact T1| |exact D3].
    intros td Htd. destruct (C1 _ Htd) as [td' Ef].
    assert (td' = td) by (eapply valid_find; eauto). subst td'. exact Ef.
Qed.
