(* C09, path level - positions on a path: nodes and link ids are pairwise distinct, so a node name or an
   id determines its position. *)
From Coq Require Import ZArith List Bool Lia ZifyBool.
From IPV8V Require Import gen.G09_rules model.M09_reclaim model.M09_network.
Import ListNotations.
Open Scope Z_scope.

Lemma existsb_eqb_in x l : existsb (Z.eqb x) l = true <-> In x l.
Proof.
  rewrite existsb_exists. split.
  - intros (y & Hy & E). apply Z.eqb_eq in E. subst; exact Hy.
  - intro H. exists x. split; [exact H | apply Z.eqb_refl].
Qed.

Lemma inI_in ids x : inI ids x = true <-> In x ids.
Proof. apply existsb_eqb_in. Qed.

Lemma inI_not_in ids x : inI ids x = false <-> ~ In x ids.
Proof.
  split; intro H.
  - intro Hin. apply inI_in in Hin. congruence.
  - destruct (inI ids x) eqn:E; [|reflexivity]. exfalso. apply H. apply inI_in. exact E.
Qed.

Lemma nodup_b_sound l : nodup_b l = true -> NoDup l.
Proof.
  induction l as [|x tl IH]; simpl; intro H; [constructor|].
  apply andb_true_iff in H. destruct H as [H1 H2]. constructor; [|apply IH; exact H2].
  intro Hin. apply existsb_eqb_in in Hin. rewrite Hin in H1. discriminate.
Qed.

Section Path.
Variable p : path.
Hypothesis Hp : path_ok_b p = true.

Let h := p_len p.

Lemma nodes_nodup : NoDup (p_nodes p).
Proof. unfold path_ok_b in Hp. apply andb_true_iff in Hp. apply nodup_b_sound. tauto. Qed.

Lemma ids_nodup : NoDup (p_ids p).
Proof. unfold path_ok_b in Hp. apply andb_true_iff in Hp. apply nodup_b_sound. tauto. Qed.

Lemma len_nodes : length (p_nodes p) = S h.
Proof. unfold p_nodes, h, p_len. simpl. rewrite map_length. reflexivity. Qed.

Lemma len_ids : length (p_ids p) = h.
Proof. unfold p_ids, h, p_len. apply map_length. Qed.

Lemma nd_inj i j : (i <= h)%nat -> (j <= h)%nat -> nd p i = nd p j -> i = j.
Proof.
  intros Hi Hj E. unfold nd in E.
  apply (proj1 (NoDup_nth (p_nodes p) (-1)) nodes_nodup); try (rewrite len_nodes; lia). exact E.
Qed.

Lemma idk_S k : idk p (S k) = nth k (p_ids p) 0.
Proof. reflexivity. Qed.

Lemma idk_inj i j : (1 <= i <= h)%nat -> (1 <= j <= h)%nat -> idk p i = idk p j -> i = j.
Proof.
  intros Hi Hj E. destruct i as [|i]; [lia|]. destruct j as [|j]; [lia|].
  rewrite !idk_S in E. f_equal.
  apply (proj1 (NoDup_nth (p_ids p) 0) ids_nodup); try (rewrite len_ids; lia). exact E.
Qed.

Lemma idk_in k : (1 <= k <= h)%nat -> inI (p_ids p) (idk p k) = true.
Proof.
  intro Hk. apply inI_in. destruct k as [|k]; [lia|]. rewrite idk_S. apply nth_In. rewrite len_ids. lia.
Qed.

Lemma in_idk x : inI (p_ids p) x = true -> exists k, (1 <= k <= h)%nat /\ x = idk p k.
Proof.
  intro H. apply inI_in in H. destruct (In_nth _ _ 0 H) as (k & Hk & E). rewrite len_ids in Hk.
  exists (S k). split; [lia|]. rewrite idk_S. symmetry; exact E.
Qed.

End Path.
