(* After IPv8.unload_overlay(x) no strategy of x is left for the ticker. *)
From Coq Require Import ZArith List Bool Lia.
From IPV8V Require Import model.M11_service.
Import ListNotations.
Open Scope Z_scope.

Definition clean (x : oid) (s : svc) : Prop := forall e, In e (v_strategies s) -> snd e <> x.
Definition is_fs (u : sstep) : bool := match u with SFilterStrategies => true | _ => false end.

Lemma filter_clean x (l : list (sid * oid)) : forall e, In e (filter (fun e => negb (snd e =? x)) l) -> snd e <> x.
Proof. intros e H. apply filter_In in H. destruct H as [_ H]. apply negb_true_iff, Z.eqb_neq in H. exact H. Qed.

Lemma sstep_clean_keeps x y s u : clean x s -> clean x (sstep_apply y s u).
Proof.
  intros C. destruct u; unfold clean in *; simpl; auto.
  intros e H. apply filter_In in H. destruct H as [H _]. auto.
Qed.

Lemma steps_clean steps : forall x s,
  clean x s \/ existsb is_fs steps = true -> clean x (fold_left (sstep_apply x) steps s).
Proof.
  induction steps as [|u r IH]; intros x s H; simpl.
  - destruct H as [H|H]; [exact H|discriminate].
  - apply IH. destruct H as [H|H].
    + left. apply sstep_clean_keeps. exact H.
    + simpl in H. apply orb_true_iff in H. destruct H as [H|H]; [|right; exact H].
      left. destruct u; try discriminate. unfold clean. simpl. apply filter_clean.
Qed.

Lemma steps_clean_other steps : forall x y s, clean x s -> clean x (fold_left (sstep_apply y) steps s).
Proof.
  induction steps as [|u r IH]; intros x y s H; simpl; [exact H|]. apply IH. apply sstep_clean_keeps. exact H.
Qed.

Definition adds (x : oid) (o : sop) : bool := match o with SAdd ov _ => ov =? x | _ => false end.

Lemma sop_clean steps x s o : adds x o = false -> clean x s ->
  clean x (fst (sop_apply steps s o)) /\ Forall (fun e => snd e <> x) (snd (sop_apply steps s o)).
Proof.
  intros Ha C. destruct o as [ov st|y|due|]; simpl in *.
  - split; [|constructor]. unfold clean. simpl. intros e H. apply in_app_iff in H. destruct H as [H|[H|[]]]; [auto|].
    subst e. simpl. apply Z.eqb_neq. exact Ha.
  - split; [apply steps_clean_other; exact C|constructor].
  - destruct (v_running s); simpl; [|split; [exact C|constructor]]. split; [exact C|].
    apply Forall_forall. intros e H. apply filter_In in H. destruct H as [H _]. auto.
  - split; [|constructor]. unfold clean. simpl.
    assert (H : forall l acc, clean x acc ->
                clean x (fold_left (fun acc y => fold_left (sstep_apply y) steps acc) l acc)).
    { induction l as [|y r IH]; intros acc Hc; simpl; [exact Hc|]. apply IH. apply steps_clean_other. exact Hc. }
    exact (H _ _ C).
Qed.

Lemma srun_clean steps x ops : forall s, Forall (fun o => adds x o = false) ops -> clean x s ->
  clean x (fst (srun steps s ops)) /\ Forall (fun e => snd e <> x) (snd (srun steps s ops)).
Proof.
  induction ops as [|o r IH]; intros s Ha C; simpl; [split; [exact C|constructor]|].
  inversion Ha; subst. destruct (sop_clean steps x s o H1 C) as [C1 O1].
  destruct (sop_apply steps s o) as [s1 o1]. destruct (IH s1 H2 C1) as [C2 O2].
  destruct (srun steps s1 r) as [s2 o2]. simpl in *. split; [exact C2|apply Forall_app; auto].
Qed.

Lemma complete_has_fs steps : complete_service_unload steps = true -> existsb is_fs steps = true.
Proof. unfold complete_service_unload. rewrite !andb_true_iff. intros [[H _] _]. exact H. Qed.

(* after unload_overlay(x): in every later history that does not add a strategy for x again, the
   ticker never calls take_step on a strategy of x, and none is in the list - from ANY service state *)
Lemma unloaded_overlay_not_stepped_l : forall steps s x ops,
  complete_service_unload steps = true ->
  Forall (fun o => adds x o = false) ops ->
  let s1 := fst (sop_apply steps s (SUnloadOverlay x)) in
  Forall (fun e => snd e <> x) (snd (srun steps s1 ops))
  /\ (forall e, In e (v_strategies (fst (srun steps s1 ops))) -> snd e <> x).
Proof.
  intros steps s x ops Hc Ha. cbv zeta. simpl.
  assert (C : clean x (fold_left (sstep_apply x) steps s)).
  { apply steps_clean. right. apply complete_has_fs. exact Hc. }
  destruct (srun_clean steps x ops _ Ha C) as [C2 O2]. split; [exact O2|exact C2].
Qed.

(* the strategies of the other overlays stay scheduled *)
Lemma sstep_keeps_other x s u e : snd e <> x -> In e (v_strategies s) -> In e (v_strategies (sstep_apply x s u)).
Proof.
  intros Hn Hi. destruct u; simpl; auto. apply filter_In. split; [exact Hi|].
  apply negb_true_iff, Z.eqb_neq. exact Hn.
Qed.
Lemma unload_keeps_others_l : forall steps s x e,
  snd e <> x -> In e (v_strategies s) -> In e (v_strategies (fst (sop_apply steps s (SUnloadOverlay x)))).
Proof.
  intros steps s x e Hn. simpl. revert s. induction steps as [|u r IH]; intros s Hi; simpl; [exact Hi|].
  apply IH. apply sstep_keeps_other; assumption.
Qed.

(* and the overlay is not listed any more *)
Lemma sstep_overlays_gone x steps : forall s,
  (~ In x (v_overlays s) \/ existsb (fun u => match u with SFilterOverlays => true | _ => false end) steps = true) ->
  ~ In x (v_overlays (fold_left (sstep_apply x) steps s)).
Proof.
  induction steps as [|u r IH]; intros s H; simpl.
  - destruct H as [H|H]; [exact H|discriminate].
  - apply IH. destruct H as [H|H].
    + left. destruct u; simpl; auto. intros Hin. apply filter_In in Hin. tauto.
    + simpl in H. apply orb_true_iff in H. destruct H as [H|H]; [|right; exact H].
      left. destruct u; try discriminate. simpl. intros Hin. apply filter_In in Hin. destruct Hin as [_ Hin].
      rewrite Z.eqb_refl in Hin. discriminate.
Qed.
Lemma unloaded_overlay_unlisted_l : forall steps s x,
  complete_service_unload steps = true -> ~ In x (v_overlays (fst (sop_apply steps s (SUnloadOverlay x)))).
Proof.
  intros steps s x Hc. simpl. apply sstep_overlays_gone. right.
  unfold complete_service_unload in Hc. rewrite !andb_true_iff in Hc. tauto.
Qed.
