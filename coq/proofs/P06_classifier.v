From Coq Require Import ZArith List Bool Lia ZifyBool.
From IPV8V Require Import lib.PyErr lib.Bytes lib.BE gen.G06_datachecker spec.S06_policy.
Import ListNotations.
Open Scope Z_scope.

Lemma unpack_u_skip w d off :
  0 <= off -> unpack_u w d off = unpack_u w (skipn (Z.to_nat off) d) 0 \/ blen d < off.
Proof.
  intros Hoff. destruct (Z_lt_le_dec (blen d) off) as [Hlt|Hle]; [right; exact Hlt|left].
  unfold unpack_u. change (Z.to_nat 0) with 0%nat. cbn [skipn].
  assert (Hl : blen (skipn (Z.to_nat off) d) = blen d - off).
  { unfold blen in *. rewrite skipn_length. lia. }
  rewrite Hl.
  replace (off <? 0) with false by lia. replace (0 <? 0) with false by reflexivity. cbn [orb].
  destruct (blen d <? off + Z.of_nat w) eqn:E1.
  - replace (blen d - off <? 0 + Z.of_nat w) with true by lia. reflexivity.
  - replace (blen d - off <? 0 + Z.of_nat w) with false by lia. reflexivity.
Qed.

Lemma unpack_u_1_0 b tl : unpack_u 1 (b :: tl) (0 + 0) = Ok b.
Proof.
  unfold unpack_u. rewrite blen_cons. pose proof (blen_nonneg tl).
  destruct ((0 + 0 <? 0) || (1 + blen tl <? 0 + 0 + Z.of_nat 1)) eqn:E; [lia|].
  simpl. unfold be_decode. simpl. f_equal.
Qed.

Lemma unpack_u_1_1 a b tl : unpack_u 1 (a :: b :: tl) (0 + 1) = Ok b.
Proof.
  unfold unpack_u. rewrite !blen_cons. pose proof (blen_nonneg tl).
  destruct ((0 + 1 <? 0) || (1 + (1 + blen tl) <? 0 + 1 + Z.of_nat 1)) eqn:E; [lia|].
  simpl. unfold be_decode. simpl. f_equal.
Qed.

Lemma unpack_u_4_0 a b c d tl :
  unpack_u 4 (a :: b :: c :: d :: tl) 0 = Ok (((a * 256 + b) * 256 + c) * 256 + d).
Proof.
  unfold unpack_u. rewrite !blen_cons. pose proof (blen_nonneg tl).
  destruct ((0 <? 0) || (1 + (1 + (1 + (1 + blen tl))) <? 0 + Z.of_nat 4)) eqn:E; [lia|].
  simpl. unfold be_decode. simpl. f_equal.
Qed.

Lemma unpack_u_short w d : blen d < Z.of_nat w -> unpack_u w d 0 = Raise StructError.
Proof.
  intros H. unfold unpack_u. destruct ((0 <? 0) || (blen d <? 0 + Z.of_nat w)) eqn:E; [reflexivity|lia].
Qed.

(* --- nibble test on the first uTP byte: finite sweep over a byte, lifted --- *)
Definition utp_b0_code (b : Z) : bool :=
  ((0 <=? Z.shiftr b 4) && (Z.shiftr b 4 <=? 4)) && (Z.land b 15 =? 1).
Definition utp_b0_spec (b : Z) : bool := existsb (Z.eqb b) [1; 17; 33; 49; 65].

Lemma utp_b0_sweep :
  forallb (fun n => Bool.eqb (utp_b0_code (Z.of_nat n)) (utp_b0_spec (Z.of_nat n))) (seq 0 256) = true.
Proof. vm_compute. reflexivity. Qed.

Lemma utp_b0_equiv b : 0 <= b < 256 -> utp_b0_code b = utp_b0_spec b.
Proof.
  intros Hb. pose proof utp_b0_sweep as H. rewrite forallb_forall in H.
  specialize (H (Z.to_nat b)). rewrite Z2Nat.id in H by lia.
  apply Bool.eqb_prop. apply H. apply in_seq. lia.
Qed.

Lemma utp_correct d : bytes_ok d -> could_be_utp d = Ok (utp_shaped d).
Proof.
  intros Hok. unfold could_be_utp, utp_shaped.
  destruct (blen d <? 20) eqn:Hlen.
  - destruct d as [|b0 [|b1 tl]]; try reflexivity.
    replace (20 <=? blen (b0 :: b1 :: tl)) with false by lia. reflexivity.
  - destruct d as [|b0 [|b1 tl]]; try (unfold blen in Hlen; simpl in Hlen; lia).
    rewrite unpack_u_1_0. cbn [bind]. rewrite unpack_u_1_1. cbn [bind].
    inversion Hok as [|? ? Hb0 Hok']; subst. inversion Hok' as [|? ? Hb1 _]; subst.
    fold (utp_b0_code b0). rewrite (utp_b0_equiv b0 Hb0). fold (utp_b0_spec b0).
    replace (20 <=? blen (b0 :: b1 :: tl)) with true by lia.
    destruct (utp_b0_spec b0); simpl; [|reflexivity]. f_equal. lia.
Qed.

Lemma action_correct d : bytes_ok d -> 4 <= blen d ->
  bind (unpack_u 4 d 0) (fun t => Ok ((0 <=? t) && (t <=? 3))) = Ok (action_at d).
Proof.
  intros Hok Hlen.
  destruct d as [|a [|b [|c [|e tl]]]]; try (unfold blen in Hlen; simpl in Hlen; lia).
  rewrite unpack_u_4_0. cbn [bind]. f_equal.
  inversion Hok as [|? ? Ha Hok1]; subst. inversion Hok1 as [|? ? Hb Hok2]; subst.
  inversion Hok2 as [|? ? Hc Hok3]; subst. inversion Hok3 as [|? ? He _]; subst.
  unfold action_at. cbn [existsb]. lia.
Qed.

Lemma bytes_ok_skipn n d : bytes_ok d -> bytes_ok (skipn n d).
Proof.
  revert d; induction n as [|n IH]; intros d H; simpl; [exact H|].
  destruct d; [constructor|]. inversion H; subst. apply IH; assumption.
Qed.

Lemma tracker_correct d : bytes_ok d -> could_be_udp_tracker d = Ok (tracker_shaped d).
Proof.
  intros Hok. unfold could_be_udp_tracker, tracker_shaped.
  replace (0 + 0) with 0 by reflexivity. replace (8 + 0) with 8 by reflexivity.
  destruct (blen d >=? 8) eqn:H8.
  - replace (8 <=? blen d) with true by lia.
    cbn [pand por bind]. rewrite action_correct by (try assumption; lia). cbn [bind].
    destruct (action_at d); [reflexivity|]. simpl orb.
    destruct (blen d >=? 12) eqn:H12.
    + replace (12 <=? blen d) with true by lia. cbn [bind].
      destruct (unpack_u_skip 4 d 8 ltac:(lia)) as [E|E]; [|lia]. rewrite E.
      rewrite action_correct.
      * reflexivity.
      * apply bytes_ok_skipn; assumption.
      * unfold blen in *. rewrite skipn_length. lia.
    + replace (12 <=? blen d) with false by lia. reflexivity.
  - replace (8 <=? blen d) with false by lia. replace (12 <=? blen d) with false by lia.
    replace (blen d >=? 12) with false by lia. reflexivity.
Qed.

Lemma slice_0_1 x tl : slice (x :: tl) (Some 0) (Some 1) = [x].
Proof.
  unfold slice, clamp. rewrite blen_cons. pose proof (blen_nonneg tl).
  replace (0 <? 0) with false by reflexivity.
  replace (1 + blen tl <? 0) with false by lia.
  replace (1 <? 0) with false by reflexivity.
  replace (1 + blen tl <? 1) with false by lia. reflexivity.
Qed.

Lemma slice_1_2 x y tl : slice (x :: y :: tl) (Some 1) (Some 2) = [y].
Proof.
  unfold slice, clamp. rewrite !blen_cons. pose proof (blen_nonneg tl).
  replace (1 <? 0) with false by reflexivity.
  replace (1 + (1 + blen tl) <? 1) with false by lia.
  replace (2 <? 0) with false by reflexivity.
  replace (1 + (1 + blen tl) <? 2) with false by lia. reflexivity.
Qed.

Lemma skipn_last (d : bytes) : d <> [] -> skipn (length d - 1) d = [last d 0].
Proof.
  induction d as [|x tl IH]; intros H; [congruence|].
  destruct tl as [|y tl']; [reflexivity|].
  replace (length (x :: y :: tl') - 1)%nat with (S (length (y :: tl') - 1)) by (simpl; lia).
  cbn [skipn]. rewrite IH by congruence. reflexivity.
Qed.

Lemma slice_m1 (d : bytes) : d <> [] -> slice d (Some (-1)) None = [last d 0].
Proof.
  intros H. unfold slice, clamp.
  assert (Hl : 1 <= blen d). { destruct d; [congruence|]. rewrite blen_cons. pose proof (blen_nonneg d). lia. }
  replace (-1 <? 0) with true by reflexivity.
  replace (-1 + blen d <? 0) with false by lia.
  replace (blen d <? -1 + blen d) with false by lia.
  replace (Z.to_nat (-1 + blen d)) with (length d - 1)%nat by (unfold blen in *; lia).
  rewrite skipn_last by assumption.
  replace (Z.to_nat (blen d - (-1 + blen d))) with 1%nat by lia. reflexivity.
Qed.

Lemma dht_correct d : could_be_dht d = Ok (dht_shaped d).
Proof.
  unfold could_be_dht, dht_shaped.
  destruct d as [|x [|y tl]].
  - reflexivity.
  - unfold blen. simpl length. replace (Z.of_nat 1 >? 1) with false by reflexivity. reflexivity.
  - rewrite slice_0_1. rewrite slice_m1 by congruence.
    replace (blen (x :: y :: tl) >? 1) with true
      by (rewrite !blen_cons; pose proof (blen_nonneg tl); lia).
    cbn [bytes_eqb andb]. rewrite !andb_true_r.
    destruct ((x =? 100) && (last (x :: y :: tl) 0 =? 101)); reflexivity.
Qed.

Lemma bt_correct d : bytes_ok d -> could_be_bt d = Ok (bt_shaped d).
Proof.
  intros H. unfold could_be_bt, bt_shaped.
  rewrite utp_correct, tracker_correct, dht_correct by assumption.
  unfold por; cbn [bind]. destruct (utp_shaped d); [reflexivity|].
  destruct (tracker_shaped d); reflexivity.
Qed.

Lemma ipv8_correct d : could_be_ipv8 d = Ok (ipv8_shaped d).
Proof.
  unfold could_be_ipv8, ipv8_shaped. f_equal.
  destruct d as [|x [|y tl]].
  - reflexivity.
  - unfold blen; simpl length. replace (Z.of_nat 1 >=? 23) with false by reflexivity. reflexivity.
  - rewrite slice_0_1, slice_1_2. cbn [bytes_eqb existsb andb]. lia.
Qed.

Lemma bytes_eqb_sym a b : bytes_eqb a b = bytes_eqb b a.
Proof.
  destruct (bytes_eqb a b) eqn:E.
  - apply bytes_eqb_eq in E; subst. symmetry. apply bytes_eqb_refl.
  - destruct (bytes_eqb b a) eqn:E2; [|reflexivity].
    apply bytes_eqb_eq in E2; subst. rewrite bytes_eqb_refl in E. discriminate.
Qed.

Lemma is_allowed_correct flags prefix d :
  bytes_ok d -> is_allowed flags prefix d = Ok (permitted flags prefix d).
Proof.
  intros H. unfold is_allowed, permitted.
  rewrite bt_correct, ipv8_correct by assumption. cbn [bind].
  rewrite slice_prefix by lia. change (Z.to_nat 22) with 22%nat.
  unfold has_flag, EXIT_BT, EXIT_IPV8.
  rewrite (bytes_eqb_sym prefix).
  destruct (bt_shaped d), (ipv8_shaped d), (existsb (Z.eqb 2) flags), (existsb (Z.eqb 4) flags),
    (bytes_eqb (firstn 22 d) prefix); reflexivity.
Qed.
