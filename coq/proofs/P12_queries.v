(* C12 - the property lemmas: every query agrees with the graph, queries change nothing, removed
   peers are gone and can come back, blacklists are respected. *)
From Coq Require Import ZArith List Bool Lia Arith.
From IPV8V Require Import lib.PyErr lib.Bytes model.M02_wire model.M12_network spec.S12_graph proofs.P12_base proofs.P12_inv.
Import ListNotations.
Open Scope Z_scope.

(* ------------------------------------------------------------------ the abstraction *)
Definition pobj (n : net) (i : nat) : nat * obj := (i, hget (heap n) i).

Lemma find_map {A B} (f : B -> bool) (g : A -> B) l :
  find f (map g l) = option_map g (find (fun x => f (g x)) l).
Proof. induction l as [|x l IH]; simpl; [reflexivity|]. destruct (f (g x)); [reflexivity|exact IH]. Qed.

Lemma filter_map_comm {A B} (f : B -> bool) (g : A -> B) l :
  filter f (map g l) = map g (filter (fun x => f (g x)) l).
Proof. induction l as [|x l IH]; simpl; [reflexivity|]. destruct (f (g x)); simpl; rewrite IH; reflexivity. Qed.

Lemma flat_map_map {A B C} (f : B -> list C) (g : A -> B) l : flat_map f (map g l) = flat_map (fun x => f (g x)) l.
Proof. induction l as [|x l IH]; simpl; [reflexivity|]. rewrite IH. reflexivity. Qed.

Lemma filter_true {A} (l : list A) : filter (fun _ => true) l = l.
Proof. induction l as [|x l IH]; simpl; [reflexivity|]. rewrite IH. reflexivity. Qed.

Lemma abs_ids n f : map p_id (filter f (g_peers (abs n))) = filter (fun i => f (pobj n i)) (verified n).
Proof.
  unfold abs. cbn [g_peers]. change (fun i => (i, hget (heap n) i)) with (pobj n).
  rewrite filter_map_comm, map_map. unfold p_id, pobj. cbn. apply map_id.
Qed.

Lemma abs_taken n f : taken (abs n) f = addrs_of n (filter (fun i => f (pobj n i)) (verified n)).
Proof.
  unfold taken, abs, addrs_of. cbn [g_peers]. change (fun i => (i, hget (heap n) i)) with (pobj n).
  rewrite filter_map_comm, flat_map_map. reflexivity.
Qed.

Lemma absent_key_iff n k : absent_key (abs n) k <-> forall i, In i (verified n) -> hkey (heap n) i <> k.
Proof.
  unfold absent_key, abs. cbn [g_peers]. split.
  - intros H i Hi. apply (H (i, hget (heap n) i)). apply in_map_iff. exists i. auto.
  - intros H p Hp. apply in_map_iff in Hp as (i & E & Hi). subst p. exact (H i Hi).
Qed.

Lemma unused_addr_iff n a : unused_addr (abs n) a <-> forall i, In i (verified n) -> owns n a i = false.
Proof.
  unfold unused_addr, abs, owns. cbn [g_peers]. split.
  - intros H i Hi. apply mem_addr_false. apply (H (i, hget (heap n) i)). apply in_map_iff. exists i. auto.
  - intros H p Hp. apply in_map_iff in Hp as (i & E & Hi). subst p. apply mem_addr_false. exact (H i Hi).
Qed.

(* ------------------------------------------------------------------ lookup by key *)
Lemma by_key_agrees n k : Inv n -> get_verified_by_public_key_bin n k = spec_by_key (abs n) k.
Proof.
  intros H. unfold get_verified_by_public_key_bin, spec_by_key, abs. cbn [g_peers].
  rewrite (inv_idx n H). rewrite find_map. unfold p_key. cbn [fst snd].
  change (fun x : nat => fst (hget (heap n) x) =? k) with (fun i : nat => hkey (heap n) i =? k).
  destruct (find (fun i : nat => hkey (heap n) i =? k) (verified n)); reflexivity.
Qed.

(* ------------------------------------------------------------------ lookup by address *)
Definition ip_pick (n : net) (a : addr) (hint : option nat) : option nat :=
  match match d_get addr_eqb a (ip_cache n) with
        | Some i => if ip_valid n a i then Some i else None
        | None => None
        end with
  | Some i => Some i
  | None => choose hint (filter (owns n a) (verified n))
  end.

Lemma gvba_snd n a hint : snd (get_verified_by_address n a hint) = ip_pick n a hint.
Proof. unfold get_verified_by_address. fold (ip_pick n a hint). destruct (ip_pick n a hint); reflexivity. Qed.

Lemma choose_spec hint l :
  match choose hint l with Some i => In i l | None => l = [] end.
Proof.
  unfold choose.
  assert (Hh : match hd_error l with Some i => In i l | None => l = [] end).
  { destruct l; simpl; auto. }
  destruct hint as [h|]; [|exact Hh].
  destruct (existsb (Nat.eqb h) l) eqn:E; [|exact Hh].
  apply existsb_exists in E as (x & Hx & Ex). apply Nat.eqb_eq in Ex. subst. assumption.
Qed.

Lemma gvba_result n a hint : Inv n ->
  match snd (get_verified_by_address n a hint) with
  | Some i => In i (filter (owns n a) (verified n))
  | None => filter (owns n a) (verified n) = []
  end.
Proof.
  intros H. rewrite gvba_snd. unfold ip_pick.
  destruct (d_get addr_eqb a (ip_cache n)) as [i|]; [|apply choose_spec].
  destruct (ip_valid n a i) eqn:V; [|apply choose_spec].
  unfold ip_valid in V. rewrite (inv_idx n H) in V.
  destruct (find (fun i0 => hkey (heap n) i0 =? hkey (heap n) i) (verified n)) as [j|] eqn:F; [|discriminate].
  apply andb_true_iff in V as [V1 V2]. apply Nat.eqb_eq in V1. subst j.
  apply find_some in F as [F1 _]. apply filter_In. auto.
Qed.

Lemma by_address_agrees n a hint : Inv n ->
  match snd (get_verified_by_address n a hint) with
  | Some i => In i (spec_owners (abs n) a)
  | None => spec_owners (abs n) a = []
  end.
Proof.
  intros H. unfold spec_owners. rewrite abs_ids.
  change (fun i => mem_addr a (p_addrs (pobj n i))) with (owns n a). apply gvba_result. assumption.
Qed.

(* ------------------------------------------------------------------ peers per service *)
Lemma peers_for_service_agrees n s i : Inv n ->
  In i (snd (get_peers_for_service n s)) <-> In i (spec_peers_for_service (abs n) s).
Proof.
  intros H. rewrite (gpfs_result n s H). unfold spec_peers_for_service. rewrite abs_ids.
  change (fun i0 => serves_peer (abs n) s (pobj n i0)) with (has_service n s). rewrite filter_In. reflexivity.
Qed.

(* ------------------------------------------------------------------ walkable addresses *)
Lemma addrs_of_ext n l1 l2 a : (forall j, In j l1 <-> In j l2) -> In a (addrs_of n l1) <-> In a (addrs_of n l2).
Proof.
  intros E. unfold addrs_of. rewrite !in_flat_map. split; intros (j & Hj & Ha); exists j; split; try assumption; apply E; assumption.
Qed.

Lemma mem_addr_ext a l1 l2 : (In a l1 <-> In a l2) -> mem_addr a l1 = mem_addr a l2.
Proof.
  intros E. destruct (mem_addr a l2) eqn:M.
  - apply mem_addr_In. apply E. apply mem_addr_In. assumption.
  - apply mem_addr_false. intro Hc. apply E in Hc. apply mem_addr_In in Hc. congruence.
Qed.

Lemma walkable_agrees n so old a : Inv n ->
  In a (snd (get_walkable_addresses n so old)) <-> In a (spec_walkable (abs n) so old).
Proof.
  intros H. unfold get_walkable_addresses, spec_walkable. destruct so as [s|].
  - pose proof (gpfs_result n s H) as R. unfold get_peers_for_service in *. cbn [fst snd] in *.
    set (known := match d_get Z.eqb s (svc_cache n) with
                  | Some l => filter (fun i => in_verified n (hkey (heap n) i) && has_service n s i) l
                  | None => filter (has_service n s) (verified n)
                  end) in *.
    rewrite abs_taken. change (fun i => serves_peer (abs n) s (pobj n i)) with (has_service n s).
    rewrite !filter_In. cbn [all_addrs set_svc_cache g_addrs abs].
    assert (EM : mem_addr a (addrs_of n known) = mem_addr a (addrs_of n (filter (has_service n s) (verified n)))).
    { apply mem_addr_ext. apply addrs_of_ext. intros j. rewrite R, filter_In. reflexivity. }
    change (addrs_of (set_svc_cache n (evict (svc_cap n) (d_del Z.eqb s (svc_cache n) ++ [(s, known)]))) known)
      with (addrs_of n known).
    change (walk_serves (set_svc_cache n (evict (svc_cap n) (d_del Z.eqb s (svc_cache n) ++ [(s, known)]))) s old a)
      with (serves_addr (abs n) s old a).
    rewrite EM. rewrite andb_true_iff. tauto.
  - cbn [snd]. rewrite abs_taken. rewrite filter_true. reflexivity.
Qed.

(* ------------------------------------------------------------------ introductions, services, snapshot *)
Lemma introductions_agree n k a : Inv n ->
  In a (snd (get_introductions_from n k)) <-> In a (spec_introductions (abs n) k).
Proof.
  intros H. unfold get_introductions_from, spec_introductions.
  destruct (d_get Z.eqb k (intro_cache n)) as [l|] eqn:G; cbn [snd].
  - apply (d_get_In Z.eqb zeq) in G. exact (inv_intro n H k l G a).
  - reflexivity.
Qed.

Lemma snapshot_addrs_agree n : snapshot_addrs n = spec_snapshot_addrs (abs n).
Proof. unfold snapshot_addrs, spec_snapshot_addrs, abs. cbn [g_peers]. rewrite map_map. reflexivity. Qed.

Theorem answers_agree_inv n : Inv n -> answers_agree n.
Proof.
  intros H. unfold answers_agree. cbv zeta. repeat split.
  - intros k. apply by_key_agrees. assumption.
  - intros a hint. apply by_address_agrees. assumption.
  - apply peers_for_service_agrees. assumption.
  - apply peers_for_service_agrees. assumption.
  - apply walkable_agrees. assumption.
  - apply walkable_agrees. assumption.
  - apply introductions_agree. assumption.
  - apply introductions_agree. assumption.
  - rewrite snapshot_addrs_agree. auto.
  - rewrite snapshot_addrs_agree. auto.
Qed.

Theorem queries_agree_l ipc intc svcc bla blm ops :
  answers_agree (run (init_net ipc intc svcc bla blm) ops).
Proof. apply answers_agree_inv. apply Inv_reachable. Qed.

(* ------------------------------------------------------------------ queries change nothing *)
Lemma abs_gvba n a hint : abs (fst (get_verified_by_address n a hint)) = abs n.
Proof. unfold get_verified_by_address. fold (ip_pick n a hint). destruct (ip_pick n a hint); reflexivity. Qed.

Lemma abs_gpfs n s : abs (fst (get_peers_for_service n s)) = abs n.
Proof. reflexivity. Qed.

Lemma abs_walkable n so old : abs (fst (get_walkable_addresses n so old)) = abs n.
Proof. destruct so; reflexivity. Qed.

Lemma abs_intros n k : abs (fst (get_introductions_from n k)) = abs n.
Proof. unfold get_introductions_from. destruct (d_get Z.eqb k (intro_cache n)); reflexivity. Qed.

Theorem queries_pure_l n o : is_query o = true -> abs (fst (step n o)) = abs n.
Proof.
  destruct o; cbn [is_query]; try discriminate; intros _; cbn [step]; try reflexivity.
  - pose proof (abs_gvba n a hint) as E. destruct (get_verified_by_address n a hint). exact E.
  - pose proof (abs_walkable n s old) as E. destruct (get_walkable_addresses n s old). exact E.
  - pose proof (abs_intros n k) as E. destruct (get_introductions_from n k). exact E.
Qed.

Lemma run_app l1 : forall n l2, run n (l1 ++ l2) = run (run n l1) l2.
Proof. induction l1 as [|o l1 IH]; intros n l2; simpl; [reflexivity|]. apply IH. Qed.

Lemma abs_run_queries qs : forall n, all_queries qs -> abs (run n qs) = abs n.
Proof.
  unfold all_queries. induction qs as [|q qs IH]; intros n H; simpl in *; [reflexivity|].
  apply andb_true_iff in H as [H1 H2]. rewrite IH by assumption. apply queries_pure_l. assumption.
Qed.

Theorem asking_changes_nothing_l ipc intc svcc bla blm ops qs :
  all_queries qs ->
  let n := run (init_net ipc intc svcc bla blm) ops in
  abs (run n qs) = abs n /\ answers_agree (run n qs).
Proof.
  intros Hq n. split; [apply abs_run_queries; assumption|].
  apply answers_agree_inv. apply Inv_run. apply Inv_reachable.
Qed.

(* ------------------------------------------------------------------ removed peers are gone *)
Lemma never_returned_absent n k : Inv n -> absent_key (abs n) k -> never_returned n k.
Proof.
  intros H A0. pose proof (proj1 (absent_key_iff n k) A0) as A. unfold never_returned. split; [|split].
  - unfold get_verified_by_public_key_bin. rewrite (inv_idx n H). apply find_none_iff.
    intros i Hi. apply Z.eqb_neq. auto.
  - intros a hint i E. pose proof (gvba_result n a hint H) as R. rewrite E in R.
    apply filter_In in R as [R _]. auto.
  - intros s i Hi. apply (gpfs_result n s H) in Hi as [Hi _]. auto.
Qed.

Lemma absent_after_remove_peer n k am : absent_key (abs (remove_peer n k am)) k.
Proof.
  apply absent_key_iff. unfold remove_peer. cbn. intros i Hi. apply filter_In in Hi as [_ Hi].
  apply negb_true_iff in Hi. apply Z.eqb_neq. assumption.
Qed.

Theorem removed_peer_is_gone_l ipc intc svcc bla blm ops k am qs :
  all_queries qs ->
  let n := run (init_net ipc intc svcc bla blm) (ops ++ RemovePeer k am :: qs) in
  absent_key (abs n) k /\ never_returned n k.
Proof.
  intros Hq n.
  assert (A : absent_key (abs n) k).
  { unfold n. rewrite run_app. simpl. rewrite abs_run_queries by assumption. apply absent_after_remove_peer. }
  split; [assumption|]. apply never_returned_absent; [apply Inv_reachable|assumption].
Qed.

Lemma after_remove_by_address n a : Inv n ->
  let n1 := remove_by_address n a in
  unused_addr (abs n1) a /\
  forall i, In i (verified n) -> owns n a i = true -> absent_key (abs n1) (hkey (heap n) i).
Proof.
  intros H n1. split.
  - apply unused_addr_iff. unfold n1, remove_by_address. cbn. intros i Hi. apply filter_In in Hi as [_ Hi].
    apply negb_true_iff in Hi. exact Hi.
  - intros i Hi Oi. apply absent_key_iff. unfold n1, remove_by_address. cbn. intros j Hj Ej.
    apply filter_In in Hj as [Hj Oj]. apply negb_true_iff in Oj.
    assert (j = i) by (apply (NoDup_map_inj (hkey (heap n)) (verified n)); [exact (inv_uniq n H)|assumption|assumption|assumption]).
    subst j. congruence.
Qed.

Theorem removed_by_address_is_gone_l ipc intc svcc bla blm ops a qs :
  all_queries qs ->
  let n0 := run (init_net ipc intc svcc bla blm) ops in
  let n := run n0 (RemoveByAddress a :: qs) in
  unused_addr (abs n) a /\
  (forall hint, snd (get_verified_by_address n a hint) = None) /\
  (forall i, In i (verified n0) -> owns n0 a i = true ->
             absent_key (abs n) (hkey (heap n0) i) /\ never_returned n (hkey (heap n0) i)).
Proof.
  intros Hq n0 n.
  assert (H0 : Inv n0) by apply Inv_reachable.
  assert (HN : Inv n) by (unfold n; apply Inv_run; assumption).
  assert (EA : abs n = abs (remove_by_address n0 a)).
  { unfold n. simpl. apply abs_run_queries. assumption. }
  destruct (after_remove_by_address n0 a H0) as [U A].
  split; [rewrite EA; assumption|]. split.
  - intros hint. pose proof (gvba_result n a hint HN) as R.
    destruct (snd (get_verified_by_address n a hint)) as [i|]; [|reflexivity].
    apply filter_In in R as [R1 R2]. rewrite <- EA in U. rewrite (proj1 (unused_addr_iff n a) U i R1) in R2. discriminate.
  - intros i Hi Oi. assert (Ai : absent_key (abs n) (hkey (heap n0) i)) by (rewrite EA; apply A; assumption).
    split; [assumption|]. apply never_returned_absent; assumption.
Qed.

(* ------------------------------------------------------------------ ... and can be added again *)
Lemma readd n k am :
  Inv n -> absent_key (abs n) k -> blacklisted n k am = false ->
  let n' := fst (step n (AddVerified k am)) in
  let i := length (heap n) in
  get_verified_by_public_key_bin n' k = Some i /\ hget (heap n') i = (k, am) /\ In i (verified n').
Proof.
  intros H A0 B. pose proof (proj1 (absent_key_iff n k) A0) as A. cbn [step]. unfold alloc. cbn zeta.
  set (i := length (heap n)). set (n1 := set_heap n (heap n ++ [(k, am)])). cbn [fst].
  assert (Ek : hkey (heap n1) i = k) by (unfold n1, i, hkey; cbn [heap set_heap]; rewrite hget_app_new; reflexivity).
  assert (Ea : haddrs (heap n1) i = am) by (unfold n1, i, haddrs; cbn [heap set_heap]; rewrite hget_app_new; reflexivity).
  assert (Eo : forall j, In j (verified n) -> hkey (heap n1) j = hkey (heap n) j).
  { intros j Hj. unfold n1, hkey. cbn [heap set_heap]. rewrite hget_app_lt by (exact (inv_ids n H j Hj)). reflexivity. }
  unfold add_verified_peer. rewrite Ek, Ea.
  change (blacklisted n1 k am) with (blacklisted n k am). rewrite B.
  change (by_key n1) with (by_key n). rewrite (inv_idx n H).
  assert (F : find (fun j => hkey (heap n) j =? k) (verified n) = None).
  { apply find_none_iff. intros j Hj. apply Z.eqb_neq. auto. }
  rewrite F.
  assert (V : forall n2, heap n2 = heap n1 -> verified n2 = verified n -> by_key n2 = by_key n ->
              get_verified_by_public_key_bin (verify n2 i) k = Some i /\
              hget (heap (verify n2 i)) i = (k, am) /\ In i (verified (verify n2 i))).
  { intros n2 E1 E2 E3. unfold verify. rewrite E1, Ek.
    assert (IV : in_verified n2 k = false).
    { unfold in_verified. apply in_ver_false. rewrite E1, E2. intros j Hj. rewrite Eo by assumption. auto. }
    rewrite IV. unfold get_verified_by_public_key_bin, forget_service_caches. cbn.
    rewrite (d_get_set Z.eqb zeq), Z.eqb_refl. split; [reflexivity|]. split.
    - change (nth i (heap n2) null_obj) with (hget (heap n2) i). rewrite E1. unfold n1, i. cbn [heap set_heap].
      apply hget_app_new.
    - rewrite E2. apply in_app_iff. right. left. reflexivity. }
  destruct (existsb (fun a => d_mem addr_eqb a (all_addrs n1)) (am_values am)); apply V; reflexivity.
Qed.

Theorem removed_can_be_added_again_l ipc intc svcc bla blm ops k am0 qs am :
  all_queries qs ->
  let n := run (init_net ipc intc svcc bla blm) (ops ++ RemovePeer k am0 :: qs) in
  blacklisted n k am = false ->
  let n' := fst (step n (AddVerified k am)) in
  exists i, get_verified_by_public_key_bin n' k = Some i /\ hget (heap n') i = (k, am) /\ In i (verified n').
Proof.
  intros Hq n B n'. exists (length (heap n)). apply readd; [apply Inv_reachable| |assumption].
  exact (proj1 (removed_peer_is_gone_l ipc intc svcc bla blm ops k am0 qs Hq)).
Qed.

Theorem removed_by_address_can_be_added_again_l ipc intc svcc bla blm ops a qs i am :
  all_queries qs ->
  let n0 := run (init_net ipc intc svcc bla blm) ops in
  let n := run n0 (RemoveByAddress a :: qs) in
  In i (verified n0) -> owns n0 a i = true ->
  let k := hkey (heap n0) i in
  blacklisted n k am = false ->
  let n' := fst (step n (AddVerified k am)) in
  exists j, get_verified_by_public_key_bin n' k = Some j /\ hget (heap n') j = (k, am) /\ In j (verified n').
Proof.
  intros Hq n0 n Hi Oi k B n'. exists (length (heap n)).
  apply readd; [unfold n; apply Inv_run; apply Inv_reachable| |assumption].
  destruct (removed_by_address_is_gone_l ipc intc svcc bla blm ops a qs Hq) as (_ & _ & R).
  exact (proj1 (R i Hi Oi)).
Qed.
