(* C17 - no metadata is attested twice (repaired Attestations key; two hypotheses on the signature scheme). *)
From Coq Require Import ZArith List Bool Arith Lia ZifyBool.
From IPV8V Require Import lib.PyErr lib.Bytes model.M16_tokentree model.M17_consent spec.S17_consent
  proofs.P16_gather proofs.P16_props proofs.P17_base proofs.P17_step proofs.P17_props.
Import ListNotations.
Open Scope Z_scope.

Section NDS.
Variable hash : bytes -> bytes.
Variable sigverify : bytes -> bytes -> bytes -> bool.
Variable mysign : bytes -> bytes.
Variable parse : bytes -> jdoc.
Variable norm : bytes -> bytes.
Variable me : bytes.
Variable rhl rsl : nat.

(* the node's signing operation produces signatures that verify under its public key *)
Hypothesis mysign_ok : forall m, sigverify me m (mysign m) = true.
(* a signature string verifies under one key only (exclusive ownership) *)
Hypothesis sig_binds : forall k1 k2 m1 m2 sg,
  sigverify k1 m1 sg = true -> sigverify k2 m2 sg = true -> k1 = k2.

Notation md_hash := (md_hash hash).
Notation add_att := (add_att sigverify true).
Notation already := (already me).
Notation should_sign := (should_sign hash parse me).
Notation sign_loop := (sign_loop hash sigverify mysign parse me true).
Notation recv_disclosure := (recv_disclosure hash sigverify mysign parse me true).
Notation advertise := (advertise hash sigverify mysign norm me rhl rsl).
Notation step := (step hash sigverify mysign parse norm me rhl rsl true).
Notation run := (run hash sigverify mysign parse norm me rhl rsl true).
Notation final := (final hash sigverify mysign parse norm me rhl rsl true).
Notation trace := (trace hash sigverify mysign parse norm me rhl rsl true).
Notation att_valid := (att_valid sigverify).

(* L: the metadata pointers attested so far; each has a row made by this node, and none repeats *)
Definition logged (d : list attrow) (L : list bytes) : Prop :=
  att_valid d /\ NoDup L /\ forall h, In h L -> exists r, In r d /\ r_auth r = me /\ r_mptr r = h.

Lemma find_some_exists {A} (f : A -> bool) l x : In x l -> f x = true -> exists y, find f l = Some y.
Proof.
  induction l as [|z l IH]; simpl; [intros []|]. intros [H|H] F.
  - subst. rewrite F. eauto.
  - destruct (f z); eauto.
Qed.

Lemma already_of_row d h r :
  att_valid d -> In r d -> r_auth r = me -> r_mptr r = h -> already d h = true.
Proof.
  intros V Hr A M. unfold M17_consent.already. apply existsb_exists. exists r. split; [assumption|].
  apply andb_true_iff. split; [subst h; apply bytes_eqb_refl|].
  unfold authority_of.
  destruct (find_some_exists (fun r0 => bytes_eqb (r_sig r0) (r_sig r)) d r Hr (bytes_eqb_refl _)) as [y Fy].
  rewrite Fy. apply find_some in Fy as [Hy Sy]. apply bytes_eqb_eq in Sy.
  unfold P17_base.att_valid in V. rewrite Forall_forall in V.
  pose proof (V _ Hr) as V1. pose proof (V _ Hy) as V2. unfold row_valid in *. rewrite Sy in V2.
  rewrite (sig_binds _ _ _ _ _ V2 V1), A. apply bytes_eqb_refl.
Qed.

Lemma logged_mono d d' L : logged d L -> prefix d d' -> att_valid d' -> logged d' L.
Proof.
  intros [V [N R]] P V'. split; [assumption|]. split; [assumption|].
  intros h Hh. destruct (R h Hh) as [r [A B]]. exists r. split; [apply (prefix_incl _ _ P); assumption|assumption].
Qed.

Lemma attest_ptrs_app a b : attest_ptrs (a ++ b) = attest_ptrs a ++ attest_ptrs b.
Proof. unfold attest_ptrs. apply flat_map_app. Qed.

Lemma attest_ptrs_none l : (forall o, In o l -> forall p a, o <> OAttest p a) -> attest_ptrs l = [].
Proof.
  induction l as [|o l IH]; intros H; [reflexivity|]. simpl.
  rewrite IH; [|intros o' Ho; apply H; right; assumption].
  destruct o; try reflexivity. exfalso. exact (H _ (or_introl eq_refl) _ _ eq_refl).
Qed.

Lemma sign_loop_logged now pk tr : forall mds s s2 outs x L,
  sign_loop s now pk tr mds = (s2, outs, x) -> logged (datt s) L ->
  logged (datt s2) (L ++ attest_ptrs outs).
Proof.
  induction mds as [|m mds IH]; intros s s2 outs x L E LG; cbn [M17_consent.sign_loop] in E.
  - inversion E; subst. simpl. rewrite app_nil_r. assumption.
  - destruct (should_sign s now pk tr m) as [[|]|e] eqn:SS.
    + set (a := mkAtt (md_hash m) (mysign (md_hash m))) in *.
      set (s' := set_datt s (fst (add_att pk me a (datt s)))) in *.
      destruct (sign_loop s' now pk tr mds) as [[s3 outs3] x3] eqn:SL.
      inversion E; subst s2 outs x. clear E.
      destruct (should_sign_true hash parse me _ _ _ _ _ SS) as [_ [_ [_ [_ [_ [_ [_ [_ [_ [_ [_ [_ Al]]]]]]]]]]]].
      destruct LG as [V [N R]].
      assert (NL : ~ In (md_hash m) L).
      { intros Hin. destruct (R _ Hin) as [r [A [B C]]].
        rewrite (already_of_row _ _ _ V A B C) in Al. discriminate. }
      assert (LG' : logged (datt s') (L ++ [md_hash m])).
      { subst s'. simpl. unfold M17_consent.add_att.
        assert (AV : att_verify sigverify me a = true) by (unfold M17_consent.att_verify; simpl; apply mysign_ok).
        rewrite AV. simpl.
        assert (V' : att_valid (insert_att true (mkRow pk me (a_mptr a) (a_sig a)) (datt s))).
        { apply Forall_forall. intros y Hy. apply insert_att_In in Hy as [Hy|Hy].
          - unfold P17_base.att_valid in V. rewrite Forall_forall in V. auto.
          - subst y. exact AV. }
        split; [exact V'|]. split.
        - apply NoDup_snoc; assumption.
        - intros h Hh. apply in_app_or in Hh as [Hh|[Hh|[]]].
          + destruct (R h Hh) as [r [A B]]. exists r. split; [|assumption].
            apply (prefix_incl _ _ (insert_att_prefix _ _ _)). assumption.
          + subst h. destruct (insert_att_wide_has (mkRow pk me (a_mptr a) (a_sig a)) (datt s)) as [y [Hy [_ [Ay My]]]].
            exists y. split; [assumption|]. split; [exact Ay|exact My]. }
      pose proof (IH _ _ _ _ _ SL LG') as F. cbn [attest_ptrs flat_map a_mptr a].
      rewrite <- app_assoc in F. exact F.
    + eapply IH; eauto.
    + inversion E; subst. simpl. rewrite app_nil_r. assumption.
Qed.

Lemma recv_logged s now p mds toks atts fail L :
  logged (datt s) L ->
  logged (datt (st_of (recv_disclosure s now p mds toks atts fail)))
         (L ++ attest_ptrs (outs_of (recv_disclosure s now p mds toks atts fail))).
Proof.
  intros LG. unfold M17_consent.recv_disclosure.
  destruct (existsb (fun kv => bytes_eqb (e_key (snd kv)) p) (known s)); cbn [negb].
  2:{ unfold st_of, outs_of. simpl. rewrite app_nil_r. assumption. }
  destruct (substantiate hash sigverify true s p mds toks atts fail) as [s1 r] eqn:SB.
  destruct (substantiate_spec hash sigverify true _ _ _ _ _ _ _ _ SB) as [_ [_ [PA [_ [VA _]]]]].
  assert (LG1 : logged (datt s1) L).
  { eapply logged_mono; eauto. apply VA. destruct LG. assumption. }
  destruct r as [correct|e].
  2:{ unfold st_of, outs_of. simpl. rewrite app_nil_r. assumption. }
  match goal with |- context [if ?c then _ else _] => destruct c end.
  - match goal with |- context [sign_loop ?a ?b ?c ?d ?e] =>
      destruct (sign_loop a b c d e) as [[s3 outs3] x3] eqn:SL end.
    pose proof (sign_loop_logged _ _ _ _ _ _ _ _ _ SL LG1) as F.
    destruct x3; unfold st_of, outs_of; simpl; [assumption|].
    rewrite attest_ptrs_app.
    rewrite (attest_ptrs_none (map _ _)); [rewrite app_nil_r; assumption|].
    intros o Ho. apply in_map_iff in Ho as [h [Eo _]]. subst o. discriminate.
  - unfold st_of, outs_of. simpl.
    rewrite (attest_ptrs_none (map _ _)); [rewrite app_nil_r; assumption|].
    intros o Ho. apply in_map_iff in Ho as [h [Eo _]]. subst o. discriminate.
Qed.

Lemma step_logged s now ev L :
  logged (datt s) L ->
  logged (datt (st_of (step s now ev))) (L ++ attest_ptrs (outs_of (step s now ev))).
Proof.
  intros LG.
  destruct ev as [h name key md|q h json jlen|q mds toks atts fail|q toks fail|q [a0|]|q kn];
    cbn [M17_consent.step].
  - unfold st_of, outs_of. simpl. rewrite app_nil_r. assumption.
  - destruct (advertise s q h json jlen) as [[s2 o] x] eqn:E.
    destruct (advertise_spec hash sigverify mysign norm me rhl rsl _ _ _ _ _ _ _ _ E) as [_ [D [_ [_ [_ [_ [_ O]]]]]]].
    unfold st_of, outs_of. simpl. rewrite D.
    rewrite (attest_ptrs_none o); [rewrite app_nil_r; assumption|].
    intros o0 Ho. destruct (O _ Ho) as [q0 [m [tk [kp [_ Eo]]]]]. subst o0. discriminate.
  - apply recv_logged. assumption.
  - apply recv_logged. assumption.
  - unfold st_of, outs_of. simpl. rewrite app_nil_r.
    eapply logged_mono; [exact LG|apply add_att_prefix|apply add_att_valid; destruct LG; assumption].
  - unfold st_of, outs_of. simpl. rewrite app_nil_r. assumption.
  - unfold st_of, outs_of. simpl. rewrite app_nil_r. assumption.
Qed.

Lemma trace_cons s now ev tl :
  trace s ((now, ev) :: tl) = (outs_of (step s now ev), snd (step s now ev)) :: trace (st_of (step s now ev)) tl.
Proof. unfold P17_props.trace at 1. rewrite run_cons. reflexivity. Qed.

Lemma run_logged : forall evs s L,
  logged (datt s) L -> logged (datt (final s evs)) (L ++ trace_ptrs (trace s evs)).
Proof.
  induction evs as [|[now ev] evs IH]; intros s L LG.
  - simpl. rewrite app_nil_r. assumption.
  - rewrite final_cons, trace_cons. cbn [trace_ptrs flat_map fst].
    rewrite app_assoc. apply IH. apply step_logged. assumption.
Qed.

Lemma no_double_sign_l evs : NoDup (trace_ptrs (trace (init me) evs)).
Proof.
  assert (L0 : logged (datt (init me)) []).
  { split; [constructor|]. split; [constructor|]. intros h []. }
  destruct (run_logged evs (init me) [] L0) as [_ [N _]]. exact N.
Qed.

End NDS.

(* ---------------------------------------------------------------- the hypotheses are satisfiable: toy scheme *)
Lemma toy_mysign_ok k : forall m, toy_verify3 k m (toy_sig k m) = true.
Proof. intros m. unfold toy_verify3. apply bytes_eqb_refl. Qed.

Lemma toy_sig_binds : forall k1 k2 m1 m2 sg,
  toy_verify3 k1 m1 sg = true -> toy_verify3 k2 m2 sg = true -> k1 = k2.
Proof.
  unfold toy_verify3, toy_sig. intros k1 k2 m1 m2 sg H1 H2.
  apply bytes_eqb_eq in H1, H2. subst sg. inversion H2 as [[L E]].
  apply Nat2Z.inj in L. symmetry. eapply app_inv_length; eauto.
Qed.
