(* C14 - Bucket.split loses no node: the two halves are the order-preserving partition of the bucket's
   nodes by their next identifier bit. *)
From Coq Require Import ZArith List Bool Arith Lia.
From IPV8V Require Import lib.PyErr model.M14_routing proofs.P14_bits proofs.P14_bucket.
Import ListNotations.

Lemma starts_with_next_bit p : forall l,
  starts_with p l = true -> (length p < length l)%nat ->
  starts_with (p ++ [false]) l = false -> starts_with (p ++ [true]) l = true.
Proof.
  induction p as [|x p IH]; intros l S L N.
  - destruct l as [|y l]; [cbn in L; lia|]. cbn in *. destruct y; [reflexivity|discriminate].
  - destruct l as [|y l]; [discriminate|]. cbn in *. apply andb_true_iff in S as [S1 S2]. rewrite S1 in *. cbn in *.
    apply IH; auto. lia.
Qed.

Section SplitFacts.
Variable W : nat.
Variable cap : nat.

Lemma filter_len {B} (f : B -> bool) l : (length (filter f l) <= length l)%nat.
Proof. induction l as [|x l IH]; cbn; [lia|]. destruct (f x); cbn; lia. Qed.

Lemma badd_append b n :
  owns b (nid n) = true -> has_id (nid n) (bnodes b) = false ->
  (length (bnodes b) < cap)%nat ->
  badd cap b n = (mkBucket (bprefix b) (bnodes b ++ [n]), true).
Proof.
  intros O H L. unfold badd. rewrite O, H. cbn [negb].
  replace (cap <=? length (bnodes b))%nat with false by (symmetry; apply Nat.leb_gt; exact L).
  replace (length (bnodes b) <? cap)%nat with true by (symmetry; apply Nat.ltb_lt; exact L). reflexivity.
Qed.

Definition low (p : bits) (n : node) : bool := starts_with (p ++ [false]) (nid n).

Lemma bsplit_partition p b b0 b1 :
  bucket_ok W cap p b -> (length p < W)%nat -> bsplit cap b = Some (b0, b1) ->
  b0 = mkBucket (p ++ [false]) (filter (low p) (bnodes b)) /\
  b1 = mkBucket (p ++ [true]) (filter (fun n => negb (low p n)) (bnodes b)).
Proof.
  intros (P & L & C & N & F) Lp. unfold bsplit.
  destruct (length (bnodes b) <? cap)%nat; [discriminate|]. intros H. injection H as H. rewrite P in H.
  assert (G : forall todo done,
             bnodes b = done ++ todo ->
             fold_left (split_step cap) todo
                       (mkBucket (p ++ [false]) (filter (low p) done),
                        mkBucket (p ++ [true]) (filter (fun n => negb (low p n)) done))
             = (mkBucket (p ++ [false]) (filter (low p) (bnodes b)),
                mkBucket (p ++ [true]) (filter (fun n => negb (low p n)) (bnodes b)))).
  { induction todo as [|n todo IH]; intros done E; cbn [fold_left].
    - rewrite app_nil_r in E. rewrite E. reflexivity.
    - assert (E' : bnodes b = (done ++ [n]) ++ todo) by (rewrite <- app_assoc; exact E).
      rewrite <- (IH (done ++ [n]) E'). f_equal.
      rewrite !filter_app. cbn [filter].
      (* facts about n *)
      assert (Hn : In (nid n) (map nid (bnodes b))) by (rewrite E, map_app, in_app_iff; right; left; reflexivity).
      rewrite Forall_forall in F. destruct (F _ Hn) as [Ln Sn].
      assert (Fresh : ~ In (nid n) (map nid done)).
      { rewrite E, map_app in N. cbn [map] in N. apply NoDup_remove_2 in N. intros Hd. apply N. apply in_app_iff. left. exact Hd. }
      assert (Len : (length done < cap)%nat).
      { rewrite E, app_length in C. cbn [length] in C. lia. }
      assert (Fresh' : forall f, has_id (nid n) (filter f done) = false).
      { intros f. apply has_id_false. intros Hi. apply Fresh. rewrite in_map_iff in Hi |- *.
        destruct Hi as (m & Em & Hm). apply filter_In in Hm as [Hm _]. eauto. }
      assert (Len' : forall f, (length (filter f done) < cap)%nat).
      { intros f. pose proof (filter_len f done). lia. }
      unfold split_step, owns. cbn [bprefix]. change (starts_with (p ++ [false]) (nid n)) with (low p n).
      destruct (low p n) eqn:Lo; cbn [negb].
      + rewrite badd_append;
          [| unfold owns; cbn [bprefix]; exact Lo | cbn [bnodes]; apply Fresh' | cbn [bnodes]; apply Len'].
        cbn [fst bprefix bnodes]. rewrite app_nil_r. reflexivity.
      + assert (Hi : starts_with (p ++ [true]) (nid n) = true).
        { apply starts_with_next_bit; auto. lia. }
        rewrite Hi. rewrite badd_append;
          [| unfold owns; cbn [bprefix]; exact Hi | cbn [bnodes]; apply Fresh' | cbn [bnodes]; apply Len'].
        cbn [fst bprefix bnodes]. rewrite app_nil_r. reflexivity. }
  specialize (G (bnodes b) [] eq_refl). cbn [filter] in G. rewrite G in H. injection H as <- <-. auto.
Qed.

End SplitFacts.
