(* C12 - basic lemmas: address equality, association lists, the object heap, list utilities. *)
From Coq Require Import ZArith List Bool Lia Arith.
From IPV8V Require Import lib.PyErr lib.Bytes model.M02_wire model.M12_network.
Import ListNotations.
Open Scope Z_scope.

(* ------------------------------------------------------------------ equality tests *)
Lemma addr_eqb_eq a b : addr_eqb a b = true <-> a = b.
Proof.
  destruct a as [i p|i p|i p], b as [j q|j q|j q]; simpl; split; intro H; try discriminate;
    try (apply andb_true_iff in H as [H1 H2]; apply bytes_eqb_eq in H1; apply Z.eqb_eq in H2; congruence);
    inversion H; subst; rewrite bytes_eqb_refl, Z.eqb_refl; reflexivity.
Qed.

Lemma addr_eqb_refl a : addr_eqb a a = true.
Proof. apply addr_eqb_eq. reflexivity. Qed.

Lemma addr_eqb_neq a b : addr_eqb a b = false <-> a <> b.
Proof.
  split; intro H.
  - intro E. apply addr_eqb_eq in E. congruence.
  - destruct (addr_eqb a b) eqn:E; [|reflexivity]. apply addr_eqb_eq in E. contradiction.
Qed.

Lemma addr_eqb_sym a b : addr_eqb a b = addr_eqb b a.
Proof.
  destruct (addr_eqb a b) eqn:E.
  - apply addr_eqb_eq in E. subst. symmetry. apply addr_eqb_refl.
  - symmetry. apply addr_eqb_neq. apply addr_eqb_neq in E. congruence.
Qed.

Lemma mem_z_In x l : mem_z x l = true <-> In x l.
Proof.
  unfold mem_z. rewrite existsb_exists. split.
  - intros (y & Hy & E). apply Z.eqb_eq in E. subst. assumption.
  - intros H. exists x. split; [assumption|apply Z.eqb_refl].
Qed.

Lemma mem_z_false x l : mem_z x l = false <-> ~ In x l.
Proof.
  split; intro H.
  - intro Hin. apply mem_z_In in Hin. congruence.
  - destruct (mem_z x l) eqn:E; [|reflexivity]. apply mem_z_In in E. contradiction.
Qed.

Lemma mem_addr_In x l : mem_addr x l = true <-> In x l.
Proof.
  unfold mem_addr. rewrite existsb_exists. split.
  - intros (y & Hy & E). apply addr_eqb_eq in E. subst. assumption.
  - intros H. exists x. split; [assumption|apply addr_eqb_refl].
Qed.

Lemma mem_addr_false x l : mem_addr x l = false <-> ~ In x l.
Proof.
  split; intro H.
  - intro Hin. apply mem_addr_In in Hin. congruence.
  - destruct (mem_addr x l) eqn:E; [|reflexivity]. apply mem_addr_In in E. contradiction.
Qed.

(* ------------------------------------------------------------------ association lists *)
Section DictLemmas.
  Context {K V : Type} (eqb : K -> K -> bool).
  Hypothesis eqb_eq : forall a b, eqb a b = true <-> a = b.

  Lemma eqb_refl' a : eqb a a = true.
  Proof. apply eqb_eq. reflexivity. Qed.

  Lemma eqb_neq' a b : eqb a b = false <-> a <> b.
  Proof.
    split; intro H.
    - intro E. apply eqb_eq in E. congruence.
    - destruct (eqb a b) eqn:E; [|reflexivity]. apply eqb_eq in E. contradiction.
  Qed.

  Lemma d_get_In k (l : list (K * V)) v : d_get eqb k l = Some v -> In (k, v) l.
  Proof.
    induction l as [|[k' v'] tl IH]; simpl; [discriminate|].
    destruct (eqb k' k) eqn:E.
    - intros H. inversion H; subst. apply eqb_eq in E. subst. left. reflexivity.
    - intros H. right. apply IH. assumption.
  Qed.

  Lemma d_get_None k (l : list (K * V)) : d_get eqb k l = None <-> ~ In k (map fst l).
  Proof.
    induction l as [|[k' v'] tl IH]; simpl.
    - split; [intros _ []|reflexivity].
    - destruct (eqb k' k) eqn:E.
      + apply eqb_eq in E. subst. split; [discriminate|]. intros H. exfalso. apply H. left. reflexivity.
      + apply eqb_neq' in E. rewrite IH. split.
        * intros H [H1|H1]; [contradiction|]. apply H. assumption.
        * intros H H1. apply H. right. assumption.
  Qed.

  Lemma d_mem_In k (l : list (K * V)) : d_mem eqb k l = true <-> In k (map fst l).
  Proof.
    unfold d_mem. destruct (d_get eqb k l) eqn:E.
    - split; [|reflexivity]. intros _. apply d_get_In in E. apply in_map_iff. exists (k, v). auto.
    - split; [discriminate|]. intros H. apply d_get_None in E. contradiction.
  Qed.

  Lemma d_mem_false k (l : list (K * V)) : d_mem eqb k l = false <-> ~ In k (map fst l).
  Proof.
    split; intro H.
    - intro Hin. apply d_mem_In in Hin. congruence.
    - destruct (d_mem eqb k l) eqn:E; [|reflexivity]. apply d_mem_In in E. contradiction.
  Qed.

  Lemma In_d_del e k (l : list (K * V)) : In e (d_del eqb k l) <-> In e l /\ fst e <> k.
  Proof.
    unfold d_del. rewrite filter_In. split; intros [H1 H2]; split; try assumption.
    - apply negb_true_iff in H2. apply eqb_neq' in H2. assumption.
    - apply negb_true_iff. apply eqb_neq'. assumption.
  Qed.

  Lemma d_get_del k' k (l : list (K * V)) :
    d_get eqb k' (d_del eqb k l) = if eqb k k' then None else d_get eqb k' l.
  Proof.
    induction l as [|[k1 v1] tl IH]; simpl.
    - destruct (eqb k k'); reflexivity.
    - destruct (eqb k1 k) eqn:E1; simpl.
      + apply eqb_eq in E1. subst k1. rewrite IH. destruct (eqb k k'); reflexivity.
      + destruct (eqb k1 k') eqn:E2.
        * apply eqb_eq in E2. subst k1. apply eqb_neq' in E1.
          assert (E3 : eqb k k' = false) by (apply eqb_neq'; congruence). rewrite E3. reflexivity.
        * exact IH.
  Qed.

  Lemma d_get_map_set k' k v (l : list (K * V)) :
    d_get eqb k' (map (fun kv => if eqb (fst kv) k then (fst kv, v) else kv) l)
    = if eqb k k' then option_map (fun _ => v) (d_get eqb k' l) else d_get eqb k' l.
  Proof.
    induction l as [|[k1 v1] tl IH]; simpl.
    - destruct (eqb k k'); reflexivity.
    - destruct (eqb k1 k) eqn:E1; simpl.
      + apply eqb_eq in E1. subst k1. destruct (eqb k k') eqn:E2; [reflexivity|]. exact IH.
      + destruct (eqb k1 k') eqn:E2.
        * apply eqb_eq in E2. subst k1. apply eqb_neq' in E1.
          assert (E3 : eqb k k' = false) by (apply eqb_neq'; congruence). rewrite E3. reflexivity.
        * exact IH.
  Qed.

  Lemma d_get_app k (l1 l2 : list (K * V)) :
    d_get eqb k (l1 ++ l2) = match d_get eqb k l1 with Some v => Some v | None => d_get eqb k l2 end.
  Proof.
    induction l1 as [|[k1 v1] tl IH]; simpl; [reflexivity|].
    destruct (eqb k1 k); [reflexivity|exact IH].
  Qed.

  Lemma d_get_set k' k v (l : list (K * V)) :
    d_get eqb k' (d_set eqb k v l) = if eqb k k' then Some v else d_get eqb k' l.
  Proof.
    unfold d_set, d_mem. destruct (d_get eqb k l) eqn:E.
    - rewrite d_get_map_set. destruct (eqb k k') eqn:E2; [|reflexivity].
      apply eqb_eq in E2. subst k'. rewrite E. reflexivity.
    - rewrite d_get_app. simpl. destruct (eqb k k') eqn:E2.
      + apply eqb_eq in E2. subst k'. rewrite E. reflexivity.
      + destruct (d_get eqb k' l); reflexivity.
  Qed.

  (* what an entry of the dict after `d[k] = v` can be *)
  Lemma In_d_set k' v' k v (l : list (K * V)) :
    In (k', v') (d_set eqb k v l) -> (k' = k /\ v' = v) \/ (k' <> k /\ In (k', v') l).
  Proof.
    unfold d_set. destruct (d_mem eqb k l) eqn:M.
    - intros H. apply in_map_iff in H as ([k1 v1] & E & Hin). simpl in E.
      destruct (eqb k1 k) eqn:E1.
      + inversion E; subst. apply eqb_eq in E1. left. auto.
      + inversion E; subst. apply eqb_neq' in E1. right. auto.
    - intros H. apply in_app_iff in H as [H|H].
      + right. split; [|assumption]. intro E. subst k'. apply d_mem_false in M. apply M.
        apply in_map_iff. exists (k, v'). auto.
      + destruct H as [H|[]]. inversion H; subst. left. auto.
  Qed.

  Lemma keys_d_set x k v (l : list (K * V)) :
    In x (map fst (d_set eqb k v l)) <-> x = k \/ In x (map fst l).
  Proof.
    unfold d_set. destruct (d_mem eqb k l) eqn:M.
    - apply d_mem_In in M.
      assert (E : map fst (map (fun kv : K * V => if eqb (fst kv) k then (fst kv, v) else kv) l) = map fst l).
      { rewrite map_map. apply map_ext. intros [k1 v1]. simpl. destruct (eqb k1 k); reflexivity. }
      rewrite E. split; [auto|]. intros [H|H]; [subst; assumption|assumption].
    - rewrite map_app, in_app_iff. simpl. split.
      + intros [H|[H|[]]]; auto.
      + intros [H|H]; auto.
  Qed.

  Lemma keys_d_del x k (l : list (K * V)) :
    In x (map fst (d_del eqb k l)) <-> x <> k /\ In x (map fst l).
  Proof.
    rewrite !in_map_iff. split.
    - intros ([k1 v1] & E & H). apply In_d_del in H as [H1 H2]. simpl in *. subst k1.
      split; [assumption|]. exists (x, v1). auto.
    - intros (Hne & [k1 v1] & E & H). simpl in E. subst k1. exists (x, v1). split; [reflexivity|].
      apply In_d_del. auto.
  Qed.

  (* filtering a dict on a property of the key *)
  Lemma d_get_filter_key (q : K -> bool) k (l : list (K * V)) :
    d_get eqb k (filter (fun e => q (fst e)) l) = if q k then d_get eqb k l else None.
  Proof.
    induction l as [|[k1 v1] tl IH]; simpl.
    - destruct (q k); reflexivity.
    - destruct (q k1) eqn:Q1; simpl.
      + destruct (eqb k1 k) eqn:E.
        * apply eqb_eq in E. subst k1. rewrite Q1. reflexivity.
        * exact IH.
      + destruct (eqb k1 k) eqn:E.
        * apply eqb_eq in E. subst k1. rewrite Q1 in IH |- *. exact IH.
        * exact IH.
  Qed.
End DictLemmas.

Definition zeq := Z.eqb_eq.

(* ------------------------------------------------------------------ lists *)
Lemma evict_In {A} cap (c : list A) x : In x (evict cap c) -> In x c.
Proof.
  unfold evict. destruct (Z.of_nat (length c) >? cap); [|auto].
  destruct c; simpl; auto.
Qed.

Lemma NoDup_map_filter {A B} (f : A -> B) (p : A -> bool) l :
  NoDup (map f l) -> NoDup (map f (filter p l)).
Proof.
  induction l as [|x l IH]; simpl; intros H; [constructor|].
  inversion H; subst. destruct (p x); simpl.
  - constructor; [|auto]. intro Hin. apply H2. apply in_map_iff in Hin as (y & E & Hy).
    apply filter_In in Hy as [Hy _]. apply in_map_iff. exists y. auto.
  - auto.
Qed.

Lemma NoDup_map_inj {A B} (f : A -> B) l x y :
  NoDup (map f l) -> In x l -> In y l -> f x = f y -> x = y.
Proof.
  induction l as [|z l IH]; simpl; intros H Hx Hy E; [contradiction|].
  inversion H; subst.
  destruct Hx as [Hx|Hx], Hy as [Hy|Hy]; subst.
  - reflexivity.
  - exfalso. apply H2. rewrite E. apply in_map. assumption.
  - exfalso. apply H2. rewrite <- E. apply in_map. assumption.
  - auto.
Qed.

Lemma NoDup_snoc {A} (l : list A) x : NoDup l -> ~ In x l -> NoDup (l ++ [x]).
Proof.
  induction l as [|y l IH]; simpl; intros H Hn.
  - constructor; [intros []|constructor].
  - inversion H; subst. constructor.
    + rewrite in_app_iff. intros [H1|[H1|[]]]; [contradiction|]. subst. apply Hn. left. reflexivity.
    + apply IH; [assumption|]. intro. apply Hn. right. assumption.
Qed.

Lemma find_app {A} (f : A -> bool) l1 l2 :
  find f (l1 ++ l2) = match find f l1 with Some y => Some y | None => find f l2 end.
Proof.
  induction l1 as [|x l1 IH]; simpl; [reflexivity|]. destruct (f x); [reflexivity|exact IH].
Qed.

Lemma find_none_iff {A} (f : A -> bool) l : find f l = None <-> forall x, In x l -> f x = false.
Proof.
  split.
  - intros H x Hx. exact (find_none f l H x Hx).
  - induction l as [|x l IH]; simpl; intros H; [reflexivity|].
    rewrite (H x (or_introl eq_refl)). apply IH. intros y Hy. apply H. right. assumption.
Qed.

Lemma existsb_false_iff {A} (f : A -> bool) l : existsb f l = false <-> forall x, In x l -> f x = false.
Proof.
  split.
  - intros H x Hx. destruct (f x) eqn:E; [|reflexivity].
    assert (existsb f l = true) by (apply existsb_exists; exists x; auto). congruence.
  - intros H. destruct (existsb f l) eqn:E; [|reflexivity].
    apply existsb_exists in E as (x & Hx & Hf). rewrite (H x Hx) in Hf. discriminate.
Qed.

(* ------------------------------------------------------------------ the heap *)
Lemma hget_app_lt h o i : (i < length h)%nat -> hget (h ++ [o]) i = hget h i.
Proof. intros H. unfold hget. apply app_nth1. assumption. Qed.

Lemma hget_app_new h o : hget (h ++ [o]) (length h) = o.
Proof. unfold hget. rewrite app_nth2 by lia. rewrite Nat.sub_diag. reflexivity. Qed.

Lemma hset_length h i o : length (hset h i o) = length h.
Proof. revert i; induction h as [|x h IH]; intros [|i]; simpl; auto. Qed.

Lemma hget_hset_same h i o : (i < length h)%nat -> hget (hset h i o) i = o.
Proof.
  revert i; induction h as [|x h IH]; intros [|i] H; simpl in *; try lia; [reflexivity|].
  unfold hget in *. simpl. apply IH. lia.
Qed.

Lemma hget_hset_other h i j o : i <> j -> hget (hset h j o) i = hget h i.
Proof.
  revert i j; induction h as [|x h IH]; intros [|i] [|j] H; simpl; try reflexivity; try congruence.
  unfold hget in *. simpl. apply IH. congruence.
Qed.

(* an address update keeps the key of every object *)
Lemma hkey_hset h j am i : hkey (hset h j (hkey h j, am)) i = hkey h i.
Proof.
  unfold hkey. destruct (Nat.eq_dec i j) as [E|E].
  - subst. destruct (lt_dec j (length h)) as [L|L].
    + rewrite hget_hset_same by assumption. reflexivity.
    + assert (E : hset h j (fst (hget h j), am) = h).
      { clear - L. revert j L. induction h as [|x h IH]; intros [|j] L; simpl in *; try reflexivity; try lia.
        f_equal. unfold hget in *. simpl. apply IH. lia. }
      rewrite E. reflexivity.
  - rewrite hget_hset_other by assumption. reflexivity.
Qed.

Lemma am_values_update m m' a :
  In a (am_values (am_update m m')) -> In a (am_values m) \/ In a (am_values m').
Proof.
  destruct m as [x4 x6 xd], m' as [[y4|] [y6|] [yd|]]; unfold am_values, am_update, opt_or, opt_list;
    cbn [am4 am6 amd]; rewrite !in_app_iff; cbn [In]; tauto.
Qed.

(* ------------------------------------------------------------------ more on `d[k] = v` *)
Section DictLemmas2.
  Context {K V : Type} (eqb : K -> K -> bool).
  Hypothesis eqb_eq : forall a b, eqb a b = true <-> a = b.

  Lemma In_d_set_same k v (l : list (K * V)) : In (k, v) (d_set eqb k v l).
  Proof.
    unfold d_set. destruct (d_mem eqb k l) eqn:M.
    - apply (d_mem_In eqb eqb_eq) in M. apply in_map_iff in M as ([k1 v1] & E & H). simpl in E. subst k1.
      apply in_map_iff. exists (k, v1). split; [|assumption]. simpl. rewrite (eqb_refl' eqb eqb_eq). reflexivity.
    - apply in_app_iff. right. left. reflexivity.
  Qed.

  Lemma In_d_set_other k' v' k v (l : list (K * V)) :
    k' <> k -> In (k', v') l -> In (k', v') (d_set eqb k v l).
  Proof.
    intros Hne H. unfold d_set. destruct (d_mem eqb k l).
    - apply in_map_iff. exists (k', v'). split; [|assumption]. simpl.
      assert (E : eqb k' k = false) by (apply (eqb_neq' eqb eqb_eq); assumption). rewrite E. reflexivity.
    - apply in_app_iff. left. assumption.
  Qed.
End DictLemmas2.

Definition aeq := addr_eqb_eq.

Lemma opt_z_eqb_true a b : opt_z_eqb a b = true <-> a = b.
Proof.
  destruct a, b; simpl; split; intro H; try discriminate; try reflexivity.
  - apply Z.eqb_eq in H. congruence.
  - inversion H. apply Z.eqb_refl.
Qed.

Lemma intros_of_In all k x : In x (intros_of all k) <-> exists w, In (x, w) all /\ w_intro w = Some k.
Proof.
  unfold intros_of. rewrite in_map_iff. split.
  - intros ([x' w] & E & H). simpl in E. subst x'. apply filter_In in H as [H1 H2].
    unfold introduced_by in H2. simpl in H2. apply opt_z_eqb_true in H2. exists w. auto.
  - intros (w & H1 & H2). exists (x, w). split; [reflexivity|]. apply filter_In. split; [assumption|].
    unfold introduced_by. simpl. apply opt_z_eqb_true. assumption.
Qed.

Lemma svc_lookup_set svcs k v k' :
  svc_lookup (d_set Z.eqb k v svcs) k' = if k =? k' then v else svc_lookup svcs k'.
Proof. unfold svc_lookup. rewrite (d_get_set Z.eqb Z.eqb_eq). destruct (k =? k'); reflexivity. Qed.

Lemma svc_lookup_del svcs k k' :
  svc_lookup (d_del Z.eqb k svcs) k' = if k =? k' then [] else svc_lookup svcs k'.
Proof. unfold svc_lookup. rewrite (d_get_del Z.eqb Z.eqb_eq). destruct (k =? k'); reflexivity. Qed.

Lemma svc_lookup_filter (q : key -> bool) svcs k' :
  svc_lookup (filter (fun e => q (fst e)) svcs) k' = if q k' then svc_lookup svcs k' else [].
Proof. unfold svc_lookup. rewrite (d_get_filter_key Z.eqb Z.eqb_eq). destruct (q k'); reflexivity. Qed.
