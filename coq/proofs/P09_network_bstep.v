(* C09, path level, circuits under construction - every event of a node preserves the family invariant,
   and what the node sends for the family is a cell on one of its links, in the right direction, early
   enough.  Events that create nothing for the family go through the frame lemmas of P09_network_step;
   the handshake events (create / created / extend / extended, the deferred bodies of on_create and
   on_extend, the originator's retries) are followed through the code of the model. *)
From Coq Require Import ZArith List Bool Lia ZifyBool.
From IPV8V Require Import gen.G09_rules model.M09_reclaim model.M09_network spec.S09_reclaim proofs.P09_alist
  proofs.P09_main proofs.P09_network_frame proofs.P09_network_node proofs.P09_network_step proofs.P09_network_path
  proofs.P09_network_binv.
Import ListNotations.
Open Scope Z_scope.

Section BStep.
Variable st : settings.
Variable D : Z.
Variable F : family.
Variable O x0 : Z.
Variable h : nat.
Variable tq : Z.
Hypothesis HD : 0 <= D.
Hypothesis Hwf : fam_ok_b F O x0 h = true.

Notation I := (IF F).
Notation ngoodF := (ngoodF st D F O x0 h tq).
Notation mgoodF := (mgoodF D F h tq).
Notation circ_good := (circ_good st F O x0 tq).
Notation relay_good := (relay_good D F h tq).
Notation exit_good := (exit_good D h tq).
Notation cache_good := (cache_good F).
Notation start_good := (start_good D F O x0 h tq).
Notation alive0 := (alive0 x0).
Notation TmaxB := (TmaxB D h tq).
Notation T0 := (T0 F x0).
Notation frame := (frame st I).

(* the node's new state is good and every cell it sends (stamped t, a relayed cell inheriting the kind of the
   cell it relays) is good *)
Definition outs_good (n t inherit : Z) (o : list out) : Prop :=
  forall d c e mm, In (OCell d c e mm) o -> mgoodF (FCell n d c e (if mm =? 0 then inherit else mm) t).

Definition node_ok (n t inherit : Z) (so : node * list out) : Prop :=
  ngoodF n (fst so) /\ outs_good n t inherit (snd so).

Lemma outs_good_nil n t inh : outs_good n t inh [].
Proof. intros d c e mm []. Qed.

Lemma outs_good_app n t inh o1 o2 : outs_good n t inh o1 -> outs_good n t inh o2 -> outs_good n t inh (o1 ++ o2).
Proof. intros H1 H2 d c e mm H. apply in_app_or in H. destruct H; eauto. Qed.

Lemma outs_good_no_I n t inh o : no_I_cells I o -> outs_good n t inh o.
Proof.
  intros H d c e mm Hin ix Hx. exfalso. pose proof (H _ _ _ _ Hin) as Hc.
  assert (I c = true) by (apply IF_some; eauto). congruence.
Qed.

Lemma outs_good_no_cells n t inh o : no_cells o -> outs_good n t inh o.
Proof. intros H d c e mm Hin. exfalso. eapply H; eauto. Qed.

(* frames keep goodness *)
Lemma good_frame n s s' (touch : Z -> Prop) :
  ngoodF n s -> frame touch s s' ->
  (forall x, I x = true -> touch x -> now s <= TmaxB) -> (alive0 s -> now s <= tq) -> ngoodF n s'.
Proof. intros. eapply (ngoodF_frame st D F O x0 h tq); eauto. Qed.

Lemma good_frame0 n s s' :
  ngoodF n s -> frame (fun _ => False) s s' -> (alive0 s -> now s <= tq) -> ngoodF n s'.
Proof. intros G Fr Ha. eapply good_frame; eauto. intros x _ []. Qed.

Lemma root_info : exists i0, aget x0 F = Some i0 /\ f_lvl i0 = 1%nat /\ f_par i0 = O /\ f_from i0 = None
                             /\ f_tgts i0 = T0.
Proof. exact (fam_root F O x0 h Hwf). Qed.

(* a cell the originator puts on its own circuit, by tq *)
Lemma origin_cell_good t inh d e mm :
  t <= tq -> In d T0 -> kind_dn_b mm = true -> mm <> 0 -> mgoodF (FCell O d x0 e (if mm =? 0 then inh else mm) t).
Proof.
  intros Ht Hd Hk Hm. destruct root_info as (i0 & H0 & L0 & P0 & _ & T0').
  assert (E : (mm =? 0) = false) by lia. rewrite E. intros ix Hx. rewrite H0 in Hx. inversion Hx; subst ix.
  left. rewrite P0, T0', L0. split; [reflexivity|]. split; [exact Hd|]. split; [exact Hk|]. simpl. lia.
Qed.

(* ---------------------------------------------------------------- the originator: start_hop, ours *)
(* what start_hop needs of the circuit record it is given *)
Definition pre_circ (s : node) (c : circuit) : Prop :=
  0 <= c_hops c /\ (c_hops c <> 0 -> In (c_first c) T0)
  /\ ((c_closing c = true /\ exists due, In (due, KCirc, x0) (sleeping s) /\ due <= tq + s_remove_delay st)
      \/ (c_closing c = false /\ c_hops c < c_goal c
          /\ creation (c_ro c) + build_bound st (c_goal c) + s_remove_delay st <= tq)).

Lemma send_cell_out_in s dst cid mid ls d c e mm :
  In (OCell d c e mm) (snd (fst (send_cell st s dst cid mid ls))) -> d = dst /\ c = cid /\ mm = mid.
Proof.
  destruct (send_cell_out st s dst cid mid ls) as (early & E). rewrite E. intros [H|[]]. inversion H; auto.
Qed.

Lemma start_hop_goodF s c tries ini p ls t inh :
  ngoodF O s -> now s = t -> t <= tq -> pre_circ s c ->
  (c_hops c = 0 -> forall nxt, p_next p = Some nxt -> In nxt T0) ->
  node_ok O t inh (fst (start_hop st s x0 c tries ini p ls)).
Proof.
  intros G Hn Ht (Hh & Hf & Hst) Hp. unfold start_hop.
  assert (Ha : forall s', now s' = t -> alive0 s' -> now s' <= tq) by (intros s' E _; lia).
  destruct (p_next p) as [nxt|] eqn:Ep.
  - match goal with |- context [aset x0 ?C1 (circuits s)] => set (c1 := C1) end.
    set (s1 := set_circuits (aset x0 c1 (circuits s)) s).
    set (sm := set_retries (adel x0 (retries s1)) s1).
    match goal with |- context [aset x0 ?RT (adel x0 (retries s1))] => set (rt := RT) end.
    set (s2 := set_retries (aset x0 rt (retries sm)) sm).
    assert (Fc : In (c_first c1) T0).
    { unfold c1. simpl. destruct (c_hops c =? 0) eqn:E0; [apply Hp; [lia | reflexivity] | apply Hf; lia]. }
    assert (G1 : ngoodF O s1).
    { apply (bgood_set_circuit st D F O x0 h tq); [exact G|]. intros _.
      split; [reflexivity|]. split; [reflexivity|]. split; [exact Fc|]. split; [exact Hh|]. split.
      - simpl. intros Hz u Eu. inversion Eu; subst u. apply Hp; [exact Hz | reflexivity].
      - exact Hst. }
    assert (Gm : ngoodF O sm) by (apply (good_frame0 O s1); [exact G1 | apply frame_del_retry | apply Ha; exact Hn]).
    assert (G2 : ngoodF O s2) by (apply (bgood_add_retry st D F O x0 h tq); [exact Gm | auto]).
    change (node_ok O t inh (fst (send_cell st s2 (c_first c1) x0 (if ini then MSG_CREATE else MSG_EXTEND) ls))).
    split.
    + apply (good_frame0 O s2); [exact G2 | apply send_cell_frame | apply Ha; exact Hn].
    + intros d c0 e mm Hin. apply send_cell_out_in in Hin. destruct Hin as (Ed & Ec & Em). subst d c0 mm.
      apply origin_cell_good; auto; destruct ini; unfold MSG_CREATE, MSG_EXTEND; try reflexivity; lia.
  - split; [|apply outs_good_nil]. simpl. apply (bgood_defer st D F O x0 h tq); [exact G | exact Logic.I].
Qed.

Lemma ours_goodF s v p ls t inh c :
  ngoodF O s -> now s = t -> (alive0 s -> t <= tq) -> aget x0 (circuits s) = Some c ->
  (forall c', aget x0 (circuits (fst (fst (ours st s x0 v p ls)))) = Some c' ->
              c_closing c' = true \/ c_hops c' < c_goal c') ->
  node_ok O t inh (fst (ours st s x0 v p ls)).
Proof.
  intros G Hn Hal Hc Hun. unfold ours in *. rewrite Hc in *.
  assert (R0 : node_ok O t inh (s, [])) by (split; [exact G | apply outs_good_nil]).
  destruct (c_unver c) as [u|] eqn:Eu; [|exact R0].
  destruct v; [|split; [apply (bgood_defer st D F O x0 h tq); [exact G | exact Logic.I] | apply outs_good_nil]|exact R0].
  assert (Ix : I x0 = true) by (destruct root_info as (i0 & H0 & _); apply IF_some; eauto).
  destruct (b_circ _ _ _ _ _ _ _ _ _ G _ _ Ix Hc) as (_ & _ & Hf & Hh & Hu & Hst).
  set (c1 := mkCirc (c_ro c) (c_goal c) (c_hops c + 1) (c_closing c) None
                    (if c_hops c =? 0 then u else c_first c) (c_early c)) in *.
  set (s1 := set_circuits (aset x0 c1 (circuits s)) s) in *.
  assert (Fc : In (c_first c1) T0).
  { unfold c1. simpl. destruct (c_hops c =? 0) eqn:E0; [exact (Hu ltac:(lia) u Eu) | exact Hf]. }
  assert (G1 : (c_closing c = true \/ c_hops c + 1 < c_goal c) -> ngoodF O s1).
  { intro Hs. apply (bgood_set_circuit st D F O x0 h tq); [exact G|]. intros _.
    split; [reflexivity|]. split; [reflexivity|]. split; [exact Fc|]. split; [simpl; lia|]. split.
    - simpl. intros Hz. lia.
    - simpl. destruct Hst as [(K & W)|(K & Hlt & Hcr)]; [left; auto | right].
      destruct Hs as [Hs|Hs]; [congruence|]. auto. }
  assert (Ha1 : alive0 s1 -> now s1 <= tq).
  { intros (c' & Hc' & K'). unfold s1 in Hc'. simpl in Hc'. rewrite aget_aset, Z.eqb_refl in Hc'.
    inversion Hc'; subst c'. simpl in K'. simpl. rewrite Hn. apply Hal. exists c. auto. }
  unfold c_state, circuit_state in *. cbn [c_closing c_hops c_goal c1] in *.
  destruct (c_closing c) eqn:Kc.
  - (* closing: nothing more happens *)
    simpl in *. split; [apply G1; left; reflexivity | apply outs_good_nil].
  - destruct (c_hops c + 1 <? c_goal c) eqn:Elt.
    + (* still extending: the next extend goes out *)
      change (1 =? CIRCUIT_STATE_EXTENDING) with true in *. cbv iota in *.
      assert (Gs1 : ngoodF O s1) by (apply G1; right; lia).
      change (retries s1) with (retries s) in *.
      destruct (aget x0 (retries s)) as [rt|] eqn:Er; [|split; [exact Gs1 | apply outs_good_nil]].
      assert (Ht : t <= tq) by (apply Hal; exists c; auto).
      apply start_hop_goodF; auto.
      * apply (good_frame0 O s1); [exact Gs1 | exact (frame_del_retry st I _ s1 x0) | exact Ha1].
      * split; [simpl; lia|]. split; [intros _; exact Fc|]. right. simpl.
        destruct Hst as [(K & _)|(_ & _ & Hcr)]; [congruence|]. split; [reflexivity|]. split; [lia | exact Hcr].
      * simpl. intros Hz. lia.
    + (* it would be ready: excluded *)
      change (0 =? CIRCUIT_STATE_EXTENDING) with false in *. change (0 =? CIRCUIT_STATE_READY) with true in *.
      cbv iota in *. exfalso.
      assert (X : aget x0 (circuits (fst (fst (set_retries (adel x0 (retries s1)) s1, @nil out, ls)))) = Some c1).
      { simpl. rewrite aget_aset, Z.eqb_refl. reflexivity. }
      destruct (Hun _ X) as [K|K]; simpl in K; [congruence | lia].
Qed.

(* ---------------------------------------------------------------- the tail of process_cell *)
Definition refresh (x len tnow : Z) (so : node * list out) : node * list out :=
  match aget x (circuits (fst so)) with
  | Some c => (set_circuits (aset x (c_with_ro (fun r => ro_down len (ro_beat tnow r)) c) (circuits (fst so))) (fst so),
               snd so)
  | None => so
  end.

Lemma refresh_ok n t inh x len so :
  node_ok n t inh so -> now (fst so) = t -> (I x = true -> t <= TmaxB) ->
  node_ok n t inh (refresh x len t so).
Proof.
  intros [G Og] Hn Ht. unfold refresh. destruct (aget x (circuits (fst so))) as [c|] eqn:Ec; [|split; assumption].
  split; [|exact Og]. simpl.
  apply (ngoodF_frame_flip st D F O x0 h tq Hwf n (fst so) _ (fun y => y = x)); [exact G | | |].
  - apply frame_set_circuit. intros _. exists c. split; [exact Ec|]. simpl. repeat split; auto.
  - intros y Hi Hy. subst y. rewrite Hn. auto.
  - intros c0 c' H0 H' K0 K'. exfalso. simpl in H'. rewrite aget_aset in H'.
    destruct (x0 =? x) eqn:E; [|congruence]. apply Z.eqb_eq in E. subst x. rewrite Ec in H0.
    inversion H0; subst c0. inversion H'; subst c'. simpl in K'. congruence.
Qed.

Lemma refresh_circ x len t so y c :
  aget y (circuits (fst so)) = Some c ->
  exists c', aget y (circuits (fst (refresh x len t so))) = Some c'
             /\ c_closing c' = c_closing c /\ c_hops c' = c_hops c /\ c_goal c' = c_goal c.
Proof.
  intro H. unfold refresh. destruct (aget x (circuits (fst so))) as [cx|] eqn:Ec; [|eauto].
  simpl. rewrite aget_aset. destruct (y =? x) eqn:E; [|eauto].
  apply Z.eqb_eq in E. subst y. rewrite Ec in H. inversion H; subst cx. eexists. split; [reflexivity|]. auto.
Qed.

(* a cell that is not relayed and carries a control message: dropped, or handled and the circuit refreshed *)
Lemma recv_cell_unrelayed s src x plain early len m ls :
  aget x (relays s) = None -> (forall a b c l, m <> MData a b c l) ->
  recv_cell st s src x plain early len (COk m) ls = (s, [])
  \/ recv_cell st s src x plain early len (COk m) ls
     = refresh x len (now s) (let '(s', o', _) := handle st s src x m ls in (s', o')).
Proof.
  intros Hr Hm. unfold recv_cell. rewrite Hr.
  destruct (negb (ahas x (circuits s)) && negb (ahas x (exits s)) && negb plain); [left; reflexivity|].
  destruct (recv_drops_early early (msg_id m) (s_max_early st)); [left; reflexivity|].
  destruct (plain && negb (existsb (Z.eqb (msg_id m)) NO_CRYPTO_PACKETS)); [left; reflexivity|].
  right. destruct m; try (exfalso; eapply Hm; reflexivity);
    match goal with |- context [handle st s src x ?M ls] => destruct (handle st s src x M ls) as [[s' o'] l'] end;
    reflexivity.
Qed.

(* ---------------------------------------------------------------- a cell of the family is delivered *)
Lemma kind_dn_facts mid : kind_dn_b mid = true -> mid <> 0 /\ mid <> MSG_CREATED /\ mid <> MSG_EXTENDED.
Proof. unfold kind_dn_b, MSG_CREATED, MSG_EXTENDED. simpl. lia. Qed.
Lemma kind_upw_facts mid :
  kind_upw_b mid = true -> mid <> 0 /\ mid <> MSG_CREATE /\ mid <> MSG_EXTEND /\ mid <> MSG_PING.
Proof. unfold kind_upw_b, MSG_CREATE, MSG_EXTEND, MSG_PING. simpl. lia. Qed.

Lemma lvl_child iy x ix : aget x F = Some ix -> f_from iy = Some x -> (exists y, aget y F = Some iy) ->
  f_lvl iy = S (f_lvl ix) /\ In (f_par iy) (f_tgts ix).
Proof.
  intros Hx Hf (y & Hy). destruct (fam_info F O x0 h Hwf _ _ Hy) as (_ & _ & H). rewrite Hf in H.
  destruct H as (ix' & Hx' & L & P). rewrite Hx in Hx'. inversion Hx'; subst ix'. auto.
Qed.

(* the part that goes through the frame lemmas: relayed cells, data, ping, pong, and control messages that
   find nothing to act on *)
Lemma family_cell_framed n s src x plain early len cr ls t mid sent ix :
  ngoodF n s -> now s = t -> (alive0 s -> t <= tq) -> aget x F = Some ix ->
  mgoodF (FCell src n x early mid sent) -> t <= sent + D ->
  (aget x (relays s) = None -> forall m, cr = COk m -> mid = 0 \/ msg_id m = mid) ->
  cell_ok_l I s x cr ->
  node_ok n t mid (recv_cell st s src x plain early len cr ls).
Proof.
  intros G Hn Hal Hx M Hlife Hty Hok.
  pose proof (mgoodF_deadline D F O x0 h tq HD Hwf _ _ _ _ _ _ t ix M Hx Hlife) as Hdead.
  destruct (fam_info F O x0 h Hwf _ _ Hx) as (Hl & Hpt & Hfrom).
  destruct (recv_cell_frame_l st I s src x plain early len cr ls Hok) as [Fr Oc].
  destruct (recv_cell st s src x plain early len cr ls) as [s' o]. simpl in Fr, Oc. split; simpl.
  - apply (good_frame n s s' (cell_touch s x)); auto; [intros y _ _; lia | intro A; rewrite Hn; auto].
  - intros d c e mm Hin iy Hy. assert (Ic : I c = true) by (apply IF_some; eauto).
    assert (Nh : 0 <= Z.of_nat h) by lia.
    destruct (Oc _ _ _ _ Hin Ic) as [(r & Hr & Ed & Ec & Em)|(Hr & Ed & Ec & Em & Hcr & Hh)].
    + (* relayed *)
      subst d c mm. change (0 =? 0) with true. cbv iota.
      destruct (b_rel _ _ _ _ _ _ _ _ _ G _ _ _ Hx Hr) as [_ [(Hnt & iy' & Hy' & Py & Fy & Pe)|(Hnp & z & iz & Fz & Nz & Hz & Pz)]].
      * rewrite Hy in Hy'. inversion Hy'; subst iy'.
        destruct (lvl_child iy x ix Hx Fy ltac:(eauto)) as [Ly _].
        destruct (M _ Hx) as [(Es & _ & Hk & Hs)|(En' & _)]; [|exfalso; apply Hpt; rewrite <- En'; exact Hnt].
        left. split; [congruence|]. split; [exact Pe|]. split; [exact Hk|]. rewrite Ly. nia.
      * rewrite Nz in Hy. rewrite Hz in Hy. inversion Hy; subst iy.
        destruct (lvl_child ix z iz Hz Fz ltac:(eauto)) as [Lx Px].
        destruct (M _ Hx) as [(_ & Hd & _)|(_ & _ & Hk & Hs)]; [exfalso; apply Hpt; rewrite <- Hnp; exact Hd|].
        right. split; [exact Pz|]. split; [rewrite Hnp; exact Px|]. split; [exact Hk|]. rewrite Lx in Hs. nia.
    + (* the pong *)
      subst d c mm. change (MSG_PONG =? 0) with false. cbv iota.
      rewrite Hx in Hy. inversion Hy; subst iy.
      destruct (Hty Hr _ Hcr) as [E|E]; simpl in E.
      * exfalso. destruct (M _ Hx) as [(_ & _ & Hk & _)|(_ & _ & Hk & _)];
          [apply kind_dn_facts in Hk | apply kind_upw_facts in Hk]; tauto.
      * destruct (M _ Hx) as [(Es & Hd & Hk & Hs)|(_ & _ & Hk & _)].
        -- right. split; [exact Es|]. split; [exact Hd|]. split; [reflexivity|]. nia.
        -- exfalso. apply kind_upw_facts in Hk. unfold MSG_PING in *. lia.
Qed.

Lemma family_cell_ok n s src x plain early len cr ls t mid sent ix :
  ngoodF n s -> now s = t -> (alive0 s -> t <= tq) -> aget x F = Some ix ->
  mgoodF (FCell src n x early mid sent) -> t <= sent + D ->
  (aget x (relays s) = None -> forall m, cr = COk m -> mid = 0 \/ msg_id m = mid) ->
  ident_ok_b s (ERecvCell src x plain early len cr ls) = true ->
  (n = O -> forall c', aget x0 (circuits (fst (recv_cell st s src x plain early len cr ls))) = Some c' ->
              c_closing c' = true \/ c_hops c' < c_goal c') ->
  node_ok n t mid (recv_cell st s src x plain early len cr ls).
Proof.
  intros G Hn Hal Hx M Hlife Hty Hid Hun.
  assert (Framed : cell_ok_l I s x cr -> node_ok n t mid (recv_cell st s src x plain early len cr ls))
    by (apply (family_cell_framed n s src x plain early len cr ls t mid sent ix); auto).
  destruct (aget x (relays s)) as [r|] eqn:Er; [apply Framed; intros E; congruence|].
  destruct cr as [| |m]; try (apply Framed; intros _ m E; discriminate).
  specialize (Hty eq_refl m eq_refl).
  pose proof (mgoodF_deadline D F O x0 h tq HD Hwf _ _ _ _ _ _ t ix M Hx Hlife) as Hdead.
  destruct (fam_info F O x0 h Hwf _ _ Hx) as (Hl & Hpt & Hfrom).
  assert (Ix : I x = true) by (apply IF_some; eauto).
  assert (Nh : 0 <= Z.of_nat h) by lia.
  assert (Kmid : mid <> 0).
  { destruct (M _ Hx) as [(_ & _ & Hk & _)|(_ & _ & Hk & _)];
      [apply kind_dn_facts in Hk | apply kind_upw_facts in Hk]; tauto. }
  destruct Hty as [Hty|Hty]; [congruence|].
  assert (Same : node_ok n t mid (s, [])) by (split; [exact G | apply outs_good_nil]).
  (* the tail of process_cell after a handler whose result is good *)
  assert (Tail : forall m', (forall a b c l, m' <> MData a b c l) -> m = m' ->
            (recv_cell st s src x plain early len (COk m') ls
             = refresh x len (now s) (let '(s', o', _) := handle st s src x m' ls in (s', o')) ->
             node_ok n t mid (let '(s', o', _) := handle st s src x m' ls in (s', o'))) ->
            node_ok n t mid (recv_cell st s src x plain early len (COk m') ls)).
  { intros m' Hnd Em Hh. destruct (recv_cell_unrelayed s src x plain early len m' ls Er Hnd) as [E|E].
    - rewrite E. exact Same.
    - specialize (Hh E). rewrite E. rewrite Hn. apply refresh_ok; [exact Hh | | auto].
      pose proof (handle_now st s src x m' ls) as Hw. destruct (handle st s src x m' ls) as [[s' o'] l']. simpl in *. lia. }
  (* the originator's retry cache matches: _ours_on_created_extended *)
  assert (Ours : forall m' v p, m = m' -> n = O -> x = x0 ->
            recv_cell st s src x plain early len (COk m') ls
             = refresh x len (now s) (let '(s', o', _) := ours st s x0 v p ls in (s', o')) ->
            node_ok n t mid (let '(s', o', _) := ours st s x0 v p ls in (s', o'))).
  { intros m' v p Em En Ex E. subst n x m'. destruct (aget x0 (circuits s)) as [c|] eqn:Ec.
    - pose proof (ours_goodF s v p ls t mid c G Hn Hal Ec) as Ho.
      destruct (ours st s x0 v p ls) as [[s' o'] l'] eqn:Eo. simpl in *. apply Ho.
      intros c' Hc'. destruct (refresh_circ x0 len (now s) (s', o') x0 c' Hc') as (c2 & H2 & K2 & Hh2 & Hg2).
      rewrite E in Hun. destruct (Hun eq_refl _ H2) as [K|K]; [left; congruence | right; lia].
    - unfold ours. rewrite Ec. exact Same. }
  destruct m as [ident|ident v p|ident|ident v p|a b c l| | |mm]; simpl in Hty.
  - (* create: the body of on_create is deferred *)
    apply (Tail (MCreate ident)); [intros; discriminate | reflexivity|]. intros _. simpl.
    destruct (M _ Hx) as [(Es & Hd & _ & Hs)|(_ & _ & Hk & _)];
      [|exfalso; apply kind_upw_facts in Hk; unfold MSG_CREATE in *; lia].
    split; [|apply outs_good_nil]. apply (bgood_defer st D F O x0 h tq); [exact G|].
    simpl. intros ix' Hx'. rewrite Hx in Hx'. inversion Hx'; subst ix'. split; [exact Hd|]. split; [exact Es|]. nia.
  - (* created *)
    destruct (aget ident (creates s)) as [cc|] eqn:Ecc.
    + (* the answer to one of this node's creates: it becomes a relay *)
      apply (Tail (MCreated ident v p)); [intros; discriminate | reflexivity|]. intros _. simpl. rewrite Ecc.
      simpl in Hid. rewrite Ecc in Hid. assert (Eto : cc_to cc = x) by lia.
      destruct (b_creates _ _ _ _ _ _ _ _ _ G _ _ Ecc) as (iy & iz & Hy & Hz & Py & Fy & Pe & Pp);
        [left; rewrite Eto; exact Ix|].
      rewrite Eto in Hy. rewrite Hx in Hy. inversion Hy; subst iy. set (z := cc_from cc) in *.
      destruct (lvl_child ix z iz Hz Fy ltac:(eauto)) as [Lx Px].
      destruct (M _ Hx) as [(_ & _ & Hk & _)|(En' & Hs' & Hk & Hs)];
        [exfalso; apply kind_dn_facts in Hk; unfold MSG_CREATED in *; lia|].
      set (s1 := set_creates (adel ident (creates s)) s).
      assert (G1 : ngoodF n s1) by (apply (good_frame0 n s); [exact G | apply frame_del_create | rewrite Hn; exact Hal]).
      assert (Same1 : node_ok n t mid (s1, [])) by (split; [exact G1 | apply outs_good_nil]).
      change (relays s1) with (relays s). change (exits s1) with (exits s).
      destruct (ahas z (relays s)); [exact Same1|].
      destruct (aget z (exits s)) as [e0|] eqn:Ez; [|exact Same1].
      set (s2 := defer (DRemove KExit z 0 true) s1).
      assert (G2 : ngoodF n s2) by (apply (bgood_defer st D F O x0 h tq); [exact G1 | exact Logic.I]).
      match goal with |- context [aset z ?fw (aset (cc_to cc) ?bw _)] => set (FW := fw); set (BW := bw) end.
      set (sa := set_relays (aset (cc_to cc) BW (relays s2)) s2).
      assert (Ga : ngoodF n sa).
      { apply (bgood_add_relay st D F O x0 h tq); [exact G2 | | rewrite Eto; congruence].
        rewrite Eto. intros ix' Hx'. rewrite Hx in Hx'. inversion Hx'; subst ix'. split; [simpl; lia|].
        right. split; [congruence|]. exists z, iz. simpl. auto. }
      set (s3 := set_relays (aset z FW (relays sa)) sa).
      assert (G3 : ngoodF n s3).
      { apply (bgood_add_relay st D F O x0 h tq); [exact Ga | | intro Hc; exfalso; assert (I z = true) by (apply IF_some; eauto); congruence].
        intros iz' Hz'. rewrite Hz in Hz'. inversion Hz'; subst iz'. split; [simpl; lia|].
        left. split; [rewrite <- Py; exact Px|]. exists ix. simpl. rewrite Eto. auto. }
      change (node_ok n t mid (let '(s', o', _) := send_cell st s3 (cc_peer cc) z MSG_EXTENDED ls in (s', o'))).
      pose proof (send_cell_frame st I (fun _ => False) s3 (cc_peer cc) z MSG_EXTENDED ls) as Fs.
      pose proof (fun d c e mm => send_cell_out_in s3 (cc_peer cc) z MSG_EXTENDED ls d c e mm) as Os.
      destruct (send_cell st s3 (cc_peer cc) z MSG_EXTENDED ls) as [[s4 o4] l4]. simpl in Fs, Os. split; simpl.
      * apply (good_frame0 n s3); [exact G3 | exact Fs|]. intro A. change (now s3) with (now s). rewrite Hn. apply Hal. exact A.
      * intros d c e mm Hin. destruct (Os _ _ _ _ Hin) as (Ed & Ec & Em). subst d c mm.
        change (MSG_EXTENDED =? 0) with false. cbv iota. intros iz' Hz'. rewrite Hz in Hz'. inversion Hz'; subst iz'.
        right. split; [exact Pp|]. split; [rewrite <- Py; exact Px|]. split; [reflexivity|]. rewrite Lx in Hs. nia.
    + destruct (aget x (retries s)) as [rt|] eqn:Ert.
      * (* the originator's own create answered *)
        destruct (b_retries _ _ _ _ _ _ _ _ _ G _ _ Ix Ert) as [En Ex].
        apply (Tail (MCreated ident v p)); [intros; discriminate | reflexivity|]. intro E. simpl in E |- *.
        rewrite Ecc, Ert in E |- *.
        destruct (rt_ident rt =? ident); [|exact Same].
        subst x. apply (Ours (MCreated ident v p) v p); auto.
      * apply Framed. intros _ m' Em. inversion Em; subst m'. split.
        -- intros _. simpl. unfold MSG_CREATED, MSG_CREATE, MSG_EXTEND. lia.
        -- simpl. split; [intros cc Hc; congruence | intros rt Hr; congruence].
  - (* extend: the body of on_extend is deferred *)
    apply (Tail (MExtend ident)); [intros; discriminate | reflexivity|]. intros _. simpl.
    destruct (M _ Hx) as [(Es & Hd & _ & Hs)|(_ & _ & Hk & _)];
      [|exfalso; apply kind_upw_facts in Hk; unfold MSG_EXTEND in *; lia].
    split; [|apply outs_good_nil]. apply (bgood_defer st D F O x0 h tq); [exact G|].
    simpl. intros ix' Hx'. rewrite Hx in Hx'. inversion Hx'; subst ix'. split; [exact Hd|]. nia.
  - (* extended *)
    destruct (aget x (retries s)) as [rt|] eqn:Ert.
    + destruct (b_retries _ _ _ _ _ _ _ _ _ G _ _ Ix Ert) as [En Ex].
      apply (Tail (MExtended ident v p)); [intros; discriminate | reflexivity|]. intro E. simpl in E |- *.
      rewrite Ert in E |- *.
      destruct (rt_ident rt =? ident); [|exact Same].
      subst x. apply (Ours (MExtended ident v p) v p); auto.
    + apply Framed. intros _ m' Em. inversion Em; subst m'. split.
      * intros _. simpl. unfold MSG_EXTENDED, MSG_CREATE, MSG_EXTEND. lia.
      * simpl. intros rt Hr; congruence.
  - apply Framed. intros _ m' Em. inversion Em; subst m'. split; [|exact Logic.I].
    intros _. simpl. unfold MSG_DATA, MSG_CREATE, MSG_EXTEND. lia.
  - apply Framed. intros _ m' Em. inversion Em; subst m'. split; [|exact Logic.I].
    intros _. simpl. unfold MSG_PING, MSG_CREATE, MSG_EXTEND. lia.
  - apply Framed. intros _ m' Em. inversion Em; subst m'. split; [|exact Logic.I].
    intros _. simpl. unfold MSG_PONG, MSG_CREATE, MSG_EXTEND. lia.
  - apply (Tail (MOther mm)); [intros; discriminate | reflexivity|]. intros _. simpl. exact Same.
Qed.

(* ---------------------------------------------------------------- events that create nothing for the family *)
Definition not_family_cell (e : ev) : Prop :=
  match e with ERecvCell _ cid _ _ _ _ _ => I cid = false | _ => True end.

Lemma framed_event_ok n s e t inh :
  ngoodF n s -> now s = t -> (alive0 s -> t <= tq) -> ev_ok_l I s e -> not_family_cell e ->
  node_ok n t inh (step_at st s e).
Proof.
  intros G Hn Hal Hok Hnf.
  destruct (step_at_frame_l st I s e Hok) as [Fr Oc].
  destruct (step_at st s e) as [s' o]. simpl in Fr, Oc. split; simpl.
  - apply (good_frame n s s' (ev_touch s e)); auto; [|intro A; rewrite Hn; auto].
    intros x Hi Hx.
    destruct e as [src cid plain early len cr ls|src cid reason| |ls|i eo tg tc nb pk ls|i|cid|cid|number
                   |cid goal pk ls|k cid dd rn|dst cid ls|cid len allowed ls]; simpl in Hx; try contradiction.
    + exfalso. simpl in Hnf. destruct Hx as [Hx|(nxt & Hr & Hx)]; [congruence|].
      subst x. pose proof (b_rel_out _ _ _ _ _ _ _ _ _ G _ _ Hnf Hr). congruence.
    + pose proof (b_starts _ _ _ _ _ _ _ _ _ G _ (nth_error_In _ _ Hx)) as Hs. simpl in Hs. auto.
  - intros d c e0 mm Hin ic Hc. assert (Ic : I c = true) by (apply IF_some; eauto).
    destruct e as [src cid plain early len cr ls|src cid reason| |ls|i eo tg tc nb pk ls|i|cid|cid|number
                   |cid goal pk ls|k cid dd rn|dst cid ls|cid len allowed ls]; simpl in Oc;
      try (exfalso; pose proof (Oc _ _ _ _ Hin); congruence).
    + exfalso. simpl in Hnf. destruct (Oc _ _ _ _ Hin Ic) as [(nxt & Hr & _ & Ec & _)|(_ & _ & Ec & _)]; [|congruence].
      subst c. pose proof (b_rel_out _ _ _ _ _ _ _ _ _ G _ _ Hnf Hr). congruence.
    + (* the pings of the originator while it is still building *)
      destruct (Oc _ _ _ _ Hin Ic) as (circ & Hcirc & Hcl & Hd & Hm). subst d mm.
      destruct (b_circ _ _ _ _ _ _ _ _ _ G _ _ Ic Hcirc) as (En & Ex & Hf & _). subst n c.
      assert (Ht : t <= tq) by (apply Hal; exists circ; auto).
      exact (origin_cell_good t inh (c_first circ) e0 MSG_PING Ht Hf eq_refl ltac:(discriminate) ic Hc).
Qed.

(* ---------------------------------------------------------------- the deferred handler bodies *)
Lemma aset_aset {A} k (v1 v2 : A) l : aset k v2 (aset k v1 l) = aset k v2 l.
Proof.
  induction l as [|[k0 v0] tl IH]; simpl; [rewrite Z.eqb_refl; reflexivity|].
  destruct (k =? k0) eqn:E; simpl; [rewrite Z.eqb_refl; reflexivity | rewrite E, IH; reflexivity].
Qed.

Lemma run_event_ok n s i eo tg tc nb p ls t inh :
  ngoodF n s -> now s = t -> (alive0 s -> t <= tq) ->
  bquiet_b st F O x0 tq t true n s (ERun i eo tg tc nb p ls) = true ->
  node_ok n t inh (step_at st s (ERun i eo tg tc nb p ls)).
Proof.
  intros G Hn Hal Hq. simpl in Hq.
  assert (Framed : ev_ok_l I s (ERun i eo tg tc nb p ls) -> node_ok n t inh (step_at st s (ERun i eo tg tc nb p ls)))
    by (intro H; apply framed_event_ok; auto; exact Logic.I).
  cbn [step_at] in *. destruct (nth_error (starts s) i) as [d|] eqn:En; [|split; [exact G | apply outs_good_nil]].
  pose proof (b_starts _ _ _ _ _ _ _ _ _ G _ (nth_error_In _ _ En)) as Hd.
  set (s0 := set_starts (remove_nth i (starts s)) s).
  assert (G0 : ngoodF n s0).
  { apply (good_frame0 n s); [exact G | | rewrite Hn; exact Hal].
    apply frame_sub_starts. intros d0 H0. eapply in_remove_nth; eauto. }
  assert (Hal0 : alive0 s0 -> t <= tq) by exact Hal.
  assert (Nh : 0 <= Z.of_nat h) by lia.
  destruct d as [k c dd rn|src x ident|src x ident|x tr ini|x].
  - apply Framed. intros d0 E0. rewrite En in E0. inversion E0; subst d0. split; [exact Logic.I | intros; discriminate].
  - (* on_create *)
    destruct (aget x F) as [ix|] eqn:Hx.
    + destruct (Hd ix Hx) as (Hnt & Esrc & Hnow). destruct (fam_info F O x0 h Hwf _ _ Hx) as (Hl & _).
      assert (R0 : node_ok n t inh (s0, [])) by (split; [exact G0 | apply outs_good_nil]).
      simpl. destruct (negb (s_any_flag st)); [exact R0|].
      destruct (ahas x (createds s)); [exact R0|].
      destruct (ahas x (circuits s) || ahas x (relays s) || ahas x (exits s)); [exact R0|].
      destruct (negb (should_join (s_max_joined st) (zlen (relays s)) (zlen (exits s)))); [exact R0|].
      set (s1 := set_createds (aset x (now s + s_unstable_timeout st) (createds s0)) s0).
      set (s2 := set_exits (aset x (mkExit (ro_new (now s)) src false false []) (exits s1)) s1).
      assert (G1 : ngoodF n s1).
      { apply (bgood_add_created st D F O x0 h tq); [exact G0|]. intros ix' Hx'. congruence. }
      assert (G2 : ngoodF n s2).
      { apply (bgood_add_exit st D F O x0 h tq); [exact G1|]. intros ix' Hx'. rewrite Hx in Hx'. inversion Hx'; subst ix'.
        split; [exact Hnt|]. split; [exact Esrc|]. simpl. unfold P09_network_binv.TmaxB. nia. }
      change (node_ok n t inh (let '(s3, o, _) := send_cell st s2 src x MSG_CREATED ls in (s3, o))).
      pose proof (send_cell_frame st I (fun _ => False) s2 src x MSG_CREATED ls) as Fs.
      pose proof (fun d c e mm => send_cell_out_in s2 src x MSG_CREATED ls d c e mm) as Os.
      destruct (send_cell st s2 src x MSG_CREATED ls) as [[s3 o3] l3]. simpl in Fs, Os. split; simpl.
      * apply (good_frame0 n s2); [exact G2 | exact Fs|]. intro A. change (now s2) with (now s). rewrite Hn. apply Hal. exact A.
      * intros d c e' mm Hin. destruct (Os _ _ _ _ Hin) as (Ed & Ec' & Em). subst d c mm.
        change (MSG_CREATED =? 0) with false. cbv iota. intros ix' Hx'. rewrite Hx in Hx'. inversion Hx'; subst ix'.
        right. split; [exact Esrc|]. split; [exact Hnt|]. split; [reflexivity|]. nia.
    + apply Framed. intros d0 E0. rewrite En in E0. inversion E0; subst d0. split; [|intros; discriminate].
      simpl. apply IF_none. exact Hx.
  - (* on_extend *)
    destruct (aget x F) as [ix|] eqn:Hx.
    + destruct (Hd ix Hx) as (Hnt & Hnow). destruct (fam_info F O x0 h Hwf _ _ Hx) as (Hl & Hpt & _).
      assert (R0' : node_ok n t inh (s0, [])) by (split; [exact G0 | apply outs_good_nil]).
      destruct eo.
      2:{ simpl. destruct (negb (s_relay_flag st)); [exact R0'|]. destruct (negb (ahas x (createds s))); exact R0'. }
      simpl in Hq.
      apply andb_true_iff in Hq. destruct Hq as [Hex Hq].
      destruct (aget tc F) as [iy|] eqn:Hy; [|discriminate].
      repeat (apply andb_true_iff in Hq; destruct Hq as [Hq ?]).
      assert (Py : f_par iy = n) by lia.
      assert (Fy : f_from iy = Some x) by (unfold optz_is in H0; destruct (f_from iy); [f_equal; lia | discriminate]).
      assert (Ty : In tg (f_tgts iy)) by (apply inl_in; assumption).
      destruct (lvl_child iy x ix Hx Fy ltac:(eauto)) as [Ly _].
      assert (R0 : node_ok n t inh (s0, [])) by (split; [exact G0 | apply outs_good_nil]).
      simpl. destruct (negb (s_relay_flag st)); [exact R0|].
      destruct (negb (ahas x (createds s))); [exact R0|].
      simpl negb. cbv iota.
      assert (Nc : aget x (circuits s) = None).
      { destruct (aget x (circuits s)) as [c|] eqn:Ec; [|reflexivity]. exfalso.
        assert (Ix : I x = true) by (apply IF_some; eauto).
        destruct (b_circ _ _ _ _ _ _ _ _ _ G _ _ Ix Ec) as (EO & Ex0 & _). subst n x.
        destruct root_info as (i0 & H0' & _ & P0 & _). rewrite H0' in Hx. inversion Hx; subst ix.
        apply Hpt. rewrite P0. rewrite <- EO. exact Hnt. }
      rewrite Nc. apply ahas_aget in Hex. destruct Hex as (e & He). rewrite He.
      destruct (b_exit _ _ _ _ _ _ _ _ _ G _ _ _ Hx He) as (_ & Pe & _).
      match goal with |- context [aset nb ?CC (creates s)] => set (cc := CC) end.
      set (s1 := set_creates (aset nb cc (creates s0)) s0).
      assert (G1 : ngoodF n s1).
      { apply (bgood_add_create st D F O x0 h tq); [exact G0|]. intros _. exists iy, ix. simpl. auto 10. }
      change (node_ok n t inh (let '(s2, o, _) := send_cell st s1 tg tc MSG_CREATE ls in (s2, o))).
      pose proof (send_cell_frame st I (fun _ => False) s1 tg tc MSG_CREATE ls) as Fs.
      pose proof (fun d c e mm => send_cell_out_in s1 tg tc MSG_CREATE ls d c e mm) as Os.
      destruct (send_cell st s1 tg tc MSG_CREATE ls) as [[s2 o2] l2]. simpl in Fs, Os. split; simpl.
      * apply (good_frame0 n s1); [exact G1 | exact Fs|]. intro A. change (now s1) with (now s). rewrite Hn. apply Hal. exact A.
      * intros d c e' mm Hin. destruct (Os _ _ _ _ Hin) as (Ed & Ec' & Em). subst d c mm.
        change (MSG_CREATE =? 0) with false. cbv iota. intros iy' Hy'. rewrite Hy in Hy'. inversion Hy'; subst iy'.
        left. split; [congruence|]. split; [exact Ty|]. split; [reflexivity|]. rewrite Ly. nia.
    + apply Framed. intros d0 E0. rewrite En in E0. inversion E0; subst d0. split.
      * simpl. apply IF_none. exact Hx.
      * intros src' cid' id' E'. inversion E'; subst. apply negb_true_iff in Hq. exact Hq.
  - (* the originator's retry *)
    destruct (I x) eqn:Ix.
    + destruct (Hd Ix) as (EO & Ex0 & Hnow). subst n x. simpl in Hq. unfold inF in Hq. unfold IF, inF in Ix.
      rewrite Ix in Hq. simpl in Hq.
      simpl. change (circuits s0) with (circuits s). destruct (aget x0 (circuits s)) as [c|] eqn:Ec;
        [|split; [exact G0 | apply outs_good_nil]].
      assert (Ix' : I x0 = true) by exact Ix.
      destruct (b_circ _ _ _ _ _ _ _ _ _ G _ _ Ix' Ec) as (_ & _ & Hf & Hh & Hu & Hstt).
      pose proof (start_hop_goodF s0 c tr ini p ls t inh G0 Hn ltac:(lia)) as Hs.
      destruct (start_hop st s0 x0 c tr ini p ls) as [[s1 o1] l1]. simpl in *. apply Hs.
      * split; [exact Hh|]. split; [intros _; exact Hf | exact Hstt].
      * intros Hz nxt Ep. assert (Z0 : (c_hops c =? 0) = true) by lia. rewrite Z0 in Hq. simpl in Hq.
        unfold pick_in_tgts in Hq. rewrite Ep in Hq. apply inl_in. exact Hq.
    + apply Framed. intros d0 E0. rewrite En in E0. inversion E0; subst d0. split; [exact Ix | intros; discriminate].
  - apply Framed. intros d0 E0. rewrite En in E0. inversion E0; subst d0. split; [exact Logic.I | intros; discriminate].
Qed.

(* ---------------------------------------------------------------- the originator's timers and API *)
Lemma retry_timeout_ok n s cid t inh :
  ngoodF n s -> now s = t -> (alive0 s -> t <= tq) -> node_ok n t inh (step_at st s (ERetryTimeout cid)).
Proof.
  intros G Hn Hal. destruct (I cid) eqn:Ic.
  2:{ apply framed_event_ok; auto; [|exact Logic.I]. simpl. intros rt _. exact Ic. }
  cbn [step_at]. destruct (aget cid (retries s)) as [rt|] eqn:Er; [|split; [exact G | apply outs_good_nil]].
  destruct (b_retries _ _ _ _ _ _ _ _ _ G _ _ Ic Er) as [En Ex]. subst n cid.
  set (s1 := set_retries (adel x0 (retries s)) s).
  assert (G1 : ngoodF O s1) by (apply (good_frame0 O s); [exact G | apply frame_del_retry | rewrite Hn; exact Hal]).
  change (circuits s1) with (circuits s).
  destruct (aget x0 (circuits s)) as [c|] eqn:Ec; [|split; [exact G1 | apply outs_good_nil]].
  destruct (c_closing c) eqn:Kc; [split; [exact G1 | apply outs_good_nil]|].
  destruct (retry_gives_up (rt_cands rt) (rt_tries rt)); (split; [|apply outs_good_nil]); simpl;
    apply (bgood_defer st D F O x0 h tq); try exact G1; try exact Logic.I.
  simpl. intros _. split; [reflexivity|]. split; [reflexivity|]. change (now s1) with (now s). rewrite Hn.
  apply Hal. exists c. auto.
Qed.

Lemma start_hop_over s c tries ini p ls nxt :
  p_next p = Some nxt ->
  start_hop st (set_circuits (aset x0 c (circuits s)) s) x0 c tries ini p ls = start_hop st s x0 c tries ini p ls.
Proof. intro Ep. unfold start_hop. rewrite Ep. simpl. rewrite aset_aset. reflexivity. Qed.

Lemma create_circuit_ok n s cid goal p ls t inh :
  ngoodF n s -> now s = t -> (alive0 s -> t <= tq) ->
  bquiet_b st F O x0 tq t true n s (ECreateCircuit cid goal p ls) = true ->
  node_ok n t inh (step_at st s (ECreateCircuit cid goal p ls)).
Proof.
  intros G Hn Hal Hq. simpl in Hq. destruct (I cid) eqn:Ic.
  2:{ apply framed_event_ok; auto; try exact Ic; exact Logic.I. }
  unfold IF, inF in Ic. unfold inF in Hq. rewrite Ic in Hq. simpl in Hq.
  repeat (apply andb_true_iff in Hq; destruct Hq as [Hq ?]).
  assert (n = O) by lia. assert (cid = x0) by lia. subst n cid.
  cbn [step_at]. destruct (p_next p) as [nxt|] eqn:Ep; [|split; [exact G | apply outs_good_nil]].
  match goal with |- context [start_hop st _ x0 ?C ?T true p ls] => set (c := C); set (tr := T) end.
  rewrite (start_hop_over s c tr true p ls nxt Ep).
  pose proof (start_hop_goodF s c tr true p ls t inh G Hn ltac:(lia)) as Hs.
  destruct (start_hop st s x0 c tr true p ls) as [[s1 o1] l1]. simpl in *. apply Hs.
  - split; [simpl; lia|]. split; [simpl; intro; lia|]. right. simpl. rewrite Hn. split; [reflexivity|]. split; lia.
  - intros _ nxt' Ep'. unfold pick_in_tgts in H2. rewrite Ep in H2. rewrite Ep in Ep'. inversion Ep'; subst nxt'.
    apply inl_in. exact H2.
Qed.

(* a cell that does not belong to the family (from the network or from outside) *)
Lemma nonfamily_cell_ok n s src cid plain early len cr ls t inh :
  ngoodF n s -> now s = t -> (alive0 s -> t <= tq) -> I cid = false ->
  ident_ok_b s (ERecvCell src cid plain early len cr ls) = true ->
  node_ok n t inh (step_at st s (ERecvCell src cid plain early len cr ls)).
Proof.
  intros G Hn Hal Ic Hid. apply framed_event_ok; auto. simpl. intros _ m Em. subst cr. split.
  - intro Hc. congruence.
  - destruct m; simpl; auto.
    + split; [|intros rt _; exact Ic]. intros cc Hcc. simpl in Hid. rewrite Hcc in Hid.
      assert (Eto : cc_to cc = cid) by lia.
      pose proof (b_creates _ _ _ _ _ _ _ _ _ G _ _ Hcc) as Hg.
      destruct (I (cc_from cc)) eqn:If.
      * exfalso. destruct Hg as (iy & iz & Hy & _); [right; exact If|].
        rewrite Eto in Hy. apply IF_none in Ic. congruence.
      * split; [reflexivity | rewrite Eto; exact Ic].
Qed.

(* every event of a node except the delivery of a cell of the family *)
Lemma local_event_ok n s e t inh :
  ngoodF n s -> now s = t -> (alive0 s -> t <= tq) ->
  bquiet_b st F O x0 tq t true n s e = true -> ident_ok_b s e = true ->
  node_ok n t inh (step_at st s e).
Proof.
  intros G Hn Hal Hq Hid.
  destruct e as [src cid plain early len cr ls|src cid reason| |ls|i eo tg tc nb pk ls|i|cid|cid|number
                 |cid goal pk ls|k cid dd rn|dst cid ls|cid len allowed ls].
  - apply nonfamily_cell_ok; auto. simpl in Hq. apply negb_true_iff in Hq. exact Hq.
  - apply framed_event_ok; auto; exact Logic.I.
  - apply framed_event_ok; auto; exact Logic.I.
  - apply framed_event_ok; auto; exact Logic.I.
  - apply run_event_ok; auto.
  - apply framed_event_ok; auto; exact Logic.I.
  - apply retry_timeout_ok; auto.
  - apply framed_event_ok; auto; exact Logic.I.
  - apply framed_event_ok; auto; exact Logic.I.
  - apply create_circuit_ok; auto.
  - apply framed_event_ok; auto; exact Logic.I.
  - apply framed_event_ok; auto; [|exact Logic.I]. simpl in *. apply negb_true_iff in Hq. exact Hq.
  - apply framed_event_ok; auto; [|exact Logic.I]. simpl in *. apply negb_true_iff in Hq. exact Hq.
Qed.

End BStep.
