(* C09, path level, circuits under construction - every network step of a building run preserves the family
   invariant; the reclamation bound for circuits that never become ready. *)
From Coq Require Import ZArith List Bool Lia ZifyBool.
From IPV8V Require Import gen.G09_rules model.M09_reclaim model.M09_network spec.S09_reclaim proofs.P09_alist
  proofs.P09_inv proofs.P09_special proofs.P09_remove proofs.P09_main
  proofs.P09_network_frame proofs.P09_network_node proofs.P09_network_step proofs.P09_network_path
  proofs.P09_network_main proofs.P09_network_binv proofs.P09_network_bstep.
Import ListNotations.
Open Scope Z_scope.

Section BMain.
Variable st : settings.
Variable D : Z.
Variable F : family.
Variable O x0 : Z.
Variable h : nat.
Variable tq : Z.
Hypothesis Hst : settings_ok st.
Hypothesis HD : 0 <= D.
Hypothesis Hwf : fam_ok_b F O x0 h = true.

Notation I := (IF F).
Notation ngoodF := (ngoodF st D F O x0 h tq).
Notation mgoodF := (mgoodF D F h tq).
Notation wgoodF := (wgoodF st D F O x0 h tq).
Notation node_ok := (node_ok st D F O x0 h tq).
Notation alive0 := (alive0 x0).
Notation TmaxB := (TmaxB D h tq).

(* ---------------------------------------------------------------- the retry budget of the code *)
(* while an own circuit is neither closing nor ready, every properly timed event of the node happens within
   next_hop_timeout * (tries + goal - 1) + remove_tunnel_delay of its creation (this is the sharper half of the
   argument behind C09 circuit_bounded_reclaim) *)
Lemma building_time s t x c :
  inv st s -> on_time st s t = true -> aget x (circuits s) = Some c -> c_closing c = false ->
  c_hops c < c_goal c -> t <= creation (c_ro c) + build_bound st (c_goal c) + s_remove_delay st.
Proof.
  clear Hwf HD. intros Hi Hon Hg Hcl Hlt. pose proof Hi as (Hside & _ & _ & Hrt & Hdr & Hc).
  pose proof Hon as Hon'. apply on_time_facts in Hon'. destruct Hon' as (Hle & Hor & (T1 & T2 & T3)).
  simpl in T1, T2, T3. destruct Hst as (Hmi & Hsw & Hd & Hn & Hct). destruct Hside as [_ S2].
  destruct (S2 _ _ Hg) as [Hh _].
  specialize (Hc _ _ Hg). unfold circ_ok in Hc. rewrite Hcl in Hc.
  assert (E : (c_goal c <=? c_hops c) = false) by lia. rewrite E in Hc.
  destruct Hc as [Hr|[(tries & ini & Hin)|[(dd & rn & Hin & Hle')|(due & Hin & Hle')]]].
  - apply ahas_aget in Hr. destruct Hr as (rt & Hr).
    pose proof (retry_due_bound st Hst c rt (Hrt _ _ _ Hr Hg) Hlt). specialize (T3 _ _ Hr). lia.
  - destruct (Hdr _ _ _ Hin) as (D1 & D2 & D3).
    pose proof (dretry_bound st Hst s c tries (D3 _ Hg) D1 Hh Hlt).
    destruct Hor as [Hor|Hor]; [lia | rewrite Hor in Hin; destruct Hin].
  - destruct Hor as [Hor|Hor]; [lia | rewrite Hor in Hin; destruct Hin].
  - specialize (T2 _ Hin). simpl in T2. lia.
Qed.

Lemma alive_early n s t :
  ngoodF n s -> inv st s -> on_time st s t = true -> alive0 (set_now t s) -> t <= tq.
Proof.
  intros G Hi Hon (c & Hc & Hcl). simpl in Hc.
  assert (Ix : I x0 = true).
  { destruct (fam_root F O x0 h Hwf) as (i0 & H0 & _). apply IF_some. eauto. }
  destruct (b_circ _ _ _ _ _ _ _ _ _ G _ _ Ix Hc) as (_ & _ & _ & _ & _ & [(K & _)|(_ & Hlt & Hcr)]); [congruence|].
  pose proof (building_time s t x0 c Hi Hon Hc Hcl Hlt). lia.
Qed.

(* ---------------------------------------------------------------- one event at one node *)
Lemma bevent_good w n t e inherit :
  wgoodF w ->
  (forall s, aget n (nodes w) = Some s -> on_time st s t = true) ->
  (forall s, aget n (nodes w) = Some s -> ngoodF n (set_now t s) -> node_ok n t inherit (step_at st (set_now t s) e)) ->
  wgoodF (node_event st w n t e inherit).
Proof.
  intros [Wn Wf] Hon Hok. unfold node_event.
  destruct (aget n (nodes w)) as [s|] eqn:En; [|split; assumption].
  assert (G0 : ngoodF n (set_now t s)).
  { apply (ngoodF_set_now st D F O x0 h tq Hwf); [apply Hon; reflexivity | apply Wn; exact En]. }
  destruct (Hok _ eq_refl G0) as [G' O']. change (step st s (t, e)) with (step_at st (set_now t s) e).
  destruct (step_at st (set_now t s) e) as [s' o]. simpl in *. split.
  - intros n' s1 Hg. simpl in Hg. rewrite aget_aset in Hg. destruct (n' =? n) eqn:E.
    + apply Z.eqb_eq in E. subst n'. inversion Hg; subst s1. exact G'.
    + apply Wn; exact Hg.
  - intros m Hin. simpl in Hin. apply in_app_or in Hin. destruct Hin as [Hin|Hin]; [apply Wf; exact Hin|].
    unfold msgs_of_outs in Hin. apply in_flat_map in Hin. destruct Hin as (o1 & Ho1 & Hm).
    destruct o1 as [d c early mm|d c reason|c l|c|c]; simpl in Hm; try contradiction;
      destruct Hm as [Hm|[]]; subst m; [|exact Logic.I].
    exact (O' _ _ _ _ Ho1).
Qed.

Lemma wgoodF_take w i keep : wgoodF w -> wgoodF (take_msg w i keep).
Proof.
  intros [Wn Wf]. unfold take_msg. destruct keep; [split; assumption|]. split; [exact Wn|].
  simpl. intros m H. apply Wf. eapply in_remove_nth; eauto.
Qed.

(* the state of the originator after a step at node n *)
Lemma node_event_at w n t e inh s :
  aget n (nodes w) = Some s -> aget n (nodes (node_event st w n t e inh)) = Some (fst (step st s (t, e))).
Proof. intro H. unfold node_event. rewrite H. simpl. rewrite aget_aset, Z.eqb_refl. reflexivity. Qed.

(* ---------------------------------------------------------------- one network step *)
Lemma bnstep_good w tl :
  wgoodF w -> winv st w -> bstep_ok st D F O x0 tq w tl = true -> wgoodF (nstep st w tl).
Proof.
  intros W Wi Hok. destruct tl as [t l]. unfold bstep_ok in Hok.
  repeat (apply andb_true_iff in Hok; destruct Hok as [Hok ?]).
  rename Hok into Htime, H into Hun, H0 into Hev, H1 into Hty, H2 into Hlife.
  unfold step_timely, step_within, step_typed, step_events_ok in *. simpl fst in *. simpl snd in *.
  unfold nstep in *. simpl fst in *. simpl snd in *.
  destruct l as [i keep plain len cr ls|i|n e].
  - (* a message is delivered *)
    simpl in Htime, Hev. destruct (nth_error (flight w) i) as [m|] eqn:En; [|exact W].
    assert (Hm : mgoodF m) by (apply (proj2 W); eapply nth_error_In; eauto).
    pose proof (wgoodF_take w i keep W) as W1.
    assert (Nodes1 : nodes (take_msg w i keep) = nodes w) by (unfold take_msg; destruct keep; reflexivity).
    destruct m as [src dst cid early mid sent|src dst cid reason sent].
    + apply bevent_good; [exact W1 | |].
      { intros s Hs. rewrite Nodes1 in Hs. rewrite Hs in Htime. exact Htime. }
      intros s Hs G0. rewrite Nodes1 in Hs. rewrite Hs in Htime, Hev.
      apply andb_true_iff in Hev. destruct Hev as [Hid _].
      assert (Hal : alive0 (set_now t s) -> t <= tq).
      { apply (alive_early dst s t); [apply (proj1 W); exact Hs | exact (Wi _ _ Hs) | exact Htime]. }
      destruct (aget cid F) as [ix|] eqn:Hx.
      * apply (family_cell_ok st D F O x0 h tq HD Hwf dst (set_now t s) src cid plain early len cr ls t mid sent ix);
          auto.
        -- simpl in Hlife. lia.
        -- intros Hnr m Hc. subst cr. simpl in Hty. unfold relaying in Hty. rewrite Hs in Hty.
           unfold ahas in Hty. simpl in Hnr. rewrite Hnr in Hty. lia.
        -- intros EO c' Hc'. subst dst. unfold unready_b in Hun.
           rewrite (node_event_at (take_msg w i keep) O t _ mid s) in Hun by (rewrite Nodes1; exact Hs).
           change (step st s (t, ERecvCell src cid plain early len cr ls))
             with (recv_cell st (set_now t s) src cid plain early len cr ls) in Hun.
           rewrite Hc' in Hun. apply orb_true_iff in Hun. destruct Hun as [K|K]; [left; exact K | right; lia].
      * apply (nonfamily_cell_ok st D F O x0 h tq Hwf); auto. apply IF_none. exact Hx.
    + apply bevent_good; [exact W1 | |].
      { intros s Hs. rewrite Nodes1 in Hs. rewrite Hs in Htime. exact Htime. }
      intros s Hs G0. rewrite Nodes1 in Hs. rewrite Hs in Htime.
      apply (framed_event_ok st D F O x0 h tq Hwf); auto; try exact Logic.I.
      apply (alive_early dst s t); [apply (proj1 W); exact Hs | exact (Wi _ _ Hs) | exact Htime].
  - destruct W as [Wn Wf]. split; [exact Wn|]. simpl. intros m H. apply Wf. eapply in_remove_nth; eauto.
  - apply bevent_good; [exact W | |].
    { intros s Hs. simpl in Htime. rewrite Hs in Htime. exact Htime. }
    intros s Hs G0. simpl in Htime, Hev. rewrite Hs in Htime, Hev.
    apply andb_true_iff in Hev. destruct Hev as [Hid Hq].
    assert (Hal : alive0 (set_now t s) -> t <= tq).
    { apply (alive_early n s t); [apply (proj1 W); exact Hs | exact (Wi _ _ Hs) | exact Htime]. }
    apply (local_event_ok st D F O x0 h tq HD Hwf); auto.
Qed.

Lemma bstep_ok_timely w tl : bstep_ok st D F O x0 tq w tl = true -> step_timely st w tl = true.
Proof. unfold bstep_ok. intro H. repeat (apply andb_true_iff in H; destruct H as [H ?]). exact H. Qed.

Lemma brun_good tr : forall w,
  wgoodF w -> winv st w -> brun_ok st D F O x0 tq w tr = true -> wgoodF (nrun st w tr) /\ winv st (nrun st w tr).
Proof.
  induction tr as [|tl rest IH]; intros w W Wi H; [split; assumption|].
  simpl in H. apply andb_true_iff in H. destruct H as [H1 H2]. simpl. apply IH; [| |exact H2].
  - apply bnstep_good; assumption.
  - apply (nstep_inv st Hst); [exact Wi | eapply bstep_ok_timely; eauto].
Qed.

(* ---------------------------------------------------------------- the bound *)
Lemma breclaimed_node w T n s x :
  wgoodF w -> winv st w -> aget n (nodes w) = Some s -> on_time st s T = true ->
  tq + B_path st D h < T -> I x = true -> holds_id s x = false.
Proof.
  intros [Wn _] Wi Hg Hon HT Hi. pose proof (Wn _ _ Hg) as G. pose proof (Wi _ _ Hg) as Iv.
  unfold B_path in HT. pose proof Hst as (Hmi & Hsw & Hdl & _).
  assert (N : 0 <= 2 * Z.of_nat h * D) by (apply Z.mul_nonneg_nonneg; lia).
  apply IF_some in Hi. destruct Hi as (ix & Hx). assert (Hi : I x = true) by (apply IF_some; eauto).
  unfold holds_id.
  destruct (aget x (circuits s)) as [c|] eqn:Ec.
  - exfalso. destruct (b_circ _ _ _ _ _ _ _ _ _ G _ _ Hi Ec) as (_ & _ & _ & _ & _ & [(_ & due & Hin & Hle)|(Hcl & Hlt & Hcr)]).
    + unfold on_time in Hon. repeat (apply andb_true_iff in Hon; destruct Hon as [Hon ?]).
      rewrite forallb_forall in H1. specialize (H1 _ Hin). simpl in H1. lia.
    + pose proof (building_time s T x c Iv Hon Ec Hcl Hlt). lia.
  - destruct (aget x (relays s)) as [r|] eqn:Er.
    + exfalso. destruct (b_rel _ _ _ _ _ _ _ _ _ G _ _ _ Hx Er) as [Hla _].
      pose proof (relay_bound_l st Hst s T x r Iv Hon Er). unfold P09_network_binv.TmaxB, B_entry in *. lia.
    + destruct (aget x (exits s)) as [e|] eqn:Ee.
      * exfalso. destruct (b_exit _ _ _ _ _ _ _ _ _ G _ _ _ Hx Ee) as (_ & _ & Hla).
        pose proof (exit_bound_l st Hst s T x e Iv Hon Ee). unfold P09_network_binv.TmaxB, B_entry in *. lia.
      * unfold ahas. rewrite Ec, Er, Ee. reflexivity.
Qed.

End BMain.

(* ================================================================ the statements of props/C09_path.v *)
Section BFinal.
Variable st : settings.
Hypothesis Hst : settings_ok st.

Lemma build_reclaim_from_l D F O x0 h tq wq tr T :
  0 <= D ->
  (forall n s, aget n (nodes wq) = Some s -> inv st s) ->
  build_shape_b st F O x0 h tq wq = true ->
  brun_ok st D F O x0 tq wq tr = true ->
  tq + B_path st D h < T ->
  forall n s x, aget n (nodes (nrun st wq tr)) = Some s -> on_time st s T = true ->
    In x (map fst F) -> holds_id s x = false.
Proof.
  intros HD Wi Hq Hrun HT n s x Hg Hon Hx.
  assert (Hwf : fam_ok_b F O x0 h = true).
  { pose proof Hq as Hq'. unfold build_shape_b in Hq'. apply andb_true_iff in Hq'. destruct Hq' as [Hq' _].
    apply andb_true_iff in Hq'. destruct Hq' as [Hq' _]. exact Hq'. }
  destruct (brun_good st D F O x0 h tq Hst HD Hwf tr wq) as [W' Wi']; auto.
  { apply (build_shape_sound st D F O x0 h tq HD Hwf); auto. }
  eapply (breclaimed_node st D F O x0 h tq); eauto.
  apply in_map_iff in Hx. destruct Hx as ([y i] & E & Hin). simpl in E. subst y.
  apply IF_some. destruct (in_aget _ _ _ Hin) as (i' & Hi'). eauto.
Qed.

Lemma build_reclaim_l D F O x0 h tq names t0 tr1 tr2 T :
  0 <= D -> nodup_b names = true ->
  nrun_timely st (init_net names t0) tr1 = true ->
  let wq := nrun st (init_net names t0) tr1 in
  build_shape_b st F O x0 h tq wq = true ->
  brun_ok st D F O x0 tq wq tr2 = true ->
  let wT := nrun st wq tr2 in
  all_on_time st wT T = true ->
  tq + B_path st D h < T ->
  net_holds wT (map fst F) = false.
Proof.
  intros HD Hnd Ht1 wq Hq Hrun wT Hall HT.
  assert (Wi : forall n s, aget n (nodes wq) = Some s -> inv st s).
  { apply (nrun_inv st Hst); [apply init_winv | exact Ht1]. }
  assert (Keys : NoDup (map fst (nodes wT))).
  { unfold wT, wq. rewrite !nrun_keys, init_keys. apply nodup_b_sound. exact Hnd. }
  unfold net_holds. destruct (existsb _ (nodes wT)) eqn:E; [|reflexivity]. exfalso.
  apply existsb_exists in E. destruct E as ([n s] & Hin & E). unfold holds_any in E. simpl in E.
  apply existsb_exists in E. destruct E as (x & Hx & E).
  pose proof (in_aget_nodup _ _ _ Keys Hin) as Hg.
  assert (Hon : on_time st s T = true).
  { unfold all_on_time in Hall. rewrite forallb_forall in Hall. apply (Hall (n, s) Hin). }
  pose proof (build_reclaim_from_l D F O x0 h tq wq tr2 T HD Wi Hq Hrun HT n s x Hg Hon Hx) as R.
  unfold holds_id in R. rewrite R in E. discriminate.
Qed.

End BFinal.
