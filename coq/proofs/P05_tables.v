(* C05: no cell whatsoever - any byte string from any address - adds, removes, re-keys or re-routes an entry
   of the three routing tables through the data plane; only counters move. *)
From Coq Require Import ZArith List Bool Lia ZifyBool Arith.
From IPV8V Require Import lib.PyErr lib.Bytes lib.BE model.M02_wire model.M03_recv model.M04_onion model.M05_isolation
  spec.S04_onion_spec spec.S05_isolation_spec proofs.P04_base.
Import ListNotations.
Open Scope Z_scope.

Lemma cores_upd {A B} (f : A -> B) k (v v' : A) l :
  assoc k l = Some v -> f v' = f v -> cores f (upd k v' l) = cores f l.
Proof.
  unfold cores. induction l as [|[k2 v2] tl IH]; intros Ha Hf; [discriminate|].
  cbn [assoc] in Ha. cbn [upd]. destruct (k =? k2) eqn:E.
  - injection Ha as ->. apply Z.eqb_eq in E. subst k2. cbn [map fst snd]. rewrite Hf. reflexivity.
  - cbn [map]. rewrite IH by assumption. reflexivity.
Qed.

Section Tables.
Variables key nonce : Type.
Variable enc : key -> dir -> nonce -> bytes -> bytes.
Variable dec : key -> dir -> bytes -> option bytes.
Notation node := (node key).
Notation same := (@same_tables key).

Lemma same_refl (nd : node) : same nd nd.
Proof. unfold same_tables. repeat split; reflexivity. Qed.

Lemma same_trans (a b c : node) : same a b -> same b c -> same a c.
Proof.
  unfold same_tables. intros (A1 & A2 & A3 & A4 & A4' & A5 & A6 & A7 & A8) (B1 & B2 & B3 & B4 & B4' & B5 & B6 & B7 & B8).
  repeat split; congruence.
Qed.

Lemma same_set_circuits (nd : node) cid ci ci' :
  assoc cid (n_circuits nd) = Some ci -> circuit_core ci' = circuit_core ci ->
  same nd (set_circuits nd (upd cid ci' (n_circuits nd))).
Proof.
  intros Ha Hc. unfold same_tables, set_circuits. cbn. repeat split; try reflexivity.
  symmetry. apply (cores_upd circuit_core cid ci ci' _ Ha Hc).
Qed.

Lemma same_set_relays (nd : node) cid r r' :
  assoc cid (n_relays nd) = Some r -> relay_core r' = relay_core r ->
  same nd (set_relays nd (upd cid r' (n_relays nd))).
Proof.
  intros Ha Hc. unfold same_tables, set_relays. cbn. repeat split; try reflexivity.
  symmetry. apply (cores_upd relay_core cid r r' _ Ha Hc).
Qed.

Lemma same_set_enabled (nd : node) cid es :
  assoc cid (n_exits nd) = Some es -> same nd (set_enabled nd cid es).
Proof.
  intros Ha. unfold same_tables, set_enabled, set_exits. cbn. repeat split; try reflexivity.
  symmetry. apply (cores_upd exit_core cid es _ _ Ha). reflexivity.
Qed.

Ltac done_same H := injection H as <- <-; apply same_refl.

Lemma ep_send_cell_same (nd : node) target c ns nd' acts :
  ep_send_cell enc nd target c ns = Ok (nd', acts) -> same nd nd'.
Proof.
  unfold ep_send_cell. destruct (assoc (cl_cid c) (n_circuits nd)) as [ci|] eqn:Ea.
  - destruct (idx (cl_msg c) 0) as [m0|]; cbn [bind]; [|discriminate].
    set (early := (m0 =? 4) || (c_early ci <? n_max_early nd)).
    set (nd1 := set_circuits nd _).
    assert (S1 : same nd nd1).
    { unfold nd1. apply (same_set_circuits nd (cl_cid c) ci); [exact Ea|]. destruct early; reflexivity. }
    destruct (outgoing_crypto enc nd1 _ ns) as [[c2|]|]; cbn [bind]; try discriminate;
      intros H; injection H as <- <-; exact S1.
  - cbn [bind]. destruct (outgoing_crypto enc nd c ns) as [[c2|]|]; cbn [bind]; try discriminate;
      intros H; done_same H.
Qed.

Lemma send_cell_same (nd : node) target cid mid m vals ns nd' acts :
  send_cell enc nd target cid mid m vals ns = Ok (nd', acts) -> same nd nd'.
Proof.
  unfold send_cell. destruct (pack_msg no_keys m (VInt cid :: vals)); cbn [bind]; [|discriminate].
  destruct ((mid <? 0) || (255 <? mid)); [discriminate|]. apply ep_send_cell_same.
Qed.

Lemma relay_cell_same (nd : node) c ns nd' acts :
  relay_cell enc dec nd c ns = Ok (nd', acts) -> same nd nd'.
Proof.
  unfold relay_cell. destruct (cl_plain c). { intros H; done_same H. }
  destruct (assoc (cl_cid c) (n_relays nd)) as [nxt|] eqn:Ea; [|discriminate].
  destruct (cl_early c && (n_max_early nd <=? rr_early nxt)). { intros H; done_same H. }
  match goal with |- (do oc <- ?X; _) = _ -> _ => destruct X as [[c1|]|] end; cbn [bind]; try discriminate.
  - intros H. injection H as <- <-. apply (same_set_relays nd (cl_cid c) nxt); [exact Ea | reflexivity].
  - intros H; done_same H.
Qed.

Lemma exit_data_same (nd : node) cid sa dest data : same nd (fst (exit_data nd cid sa dest data)).
Proof.
  unfold exit_data. destruct (assoc cid (n_exits nd)) as [es|] eqn:Ea; [|apply same_refl].
  destruct (es_enabled es); [apply same_refl|].
  destruct (ip_eqb sa (h_addr (es_hop es))); [|apply same_refl]. cbn [fst]. apply same_set_enabled. exact Ea.
Qed.

Lemma on_data_same (nd : node) src data nd' acts :
  on_data nd src data = Ok (nd', acts) -> same nd nd'.
Proof.
  unfold on_data. destruct (unpack_msg no_keys fmt_data data 23) as [[vs o]|]; cbn [bind]; [|discriminate].
  destruct vs as [|[cid| | | | | | | | |] [|[| | | | |dest| | | |] [|[| | | | |origin| | | |] [|[| |payload| | | | | | |] [|? ?]]]]]; try discriminate.
  assert (EX : forall r, (if negb (is_null dest) then Ok (exit_data nd cid src dest payload) else Ok (nd, [])) = Ok r -> same nd (fst r)).
  { intros r. destruct (negb (is_null dest)); intros H; injection H as <-; [apply exit_data_same | apply same_refl]. }
  destruct (assoc cid (n_circuits nd)) as [ci|].
  - destruct (circuit_hop ci) as [h0|]; cbn [bind]; [|discriminate].
    destruct (addr_eqb src (h_addr h0)).
    + destruct (could_be_ipv8 payload && negb (is_e2e (c_ctype ci))).
      * destruct (bytes_eqb (n_prefix nd) (slice payload None (Some 22))).
        { destruct (idx payload 22) as [m|]; cbn [bind]; [|discriminate].
          destruct (existsb (Z.eqb m) (n_data_ids nd)); intros H; done_same H. }
        destruct (n_tunnel_ep nd); intros H; done_same H.
      * intros H; done_same H.
    + intros H. apply (EX _ H).
  - intros H. apply (EX _ H).
Qed.

Lemma on_ping_same (nd : node) src data ns nd' acts :
  on_ping enc nd src data ns = Ok (nd', acts) -> same nd nd'.
Proof.
  unfold on_ping. destruct (unpack_msg no_keys fmt_ping data 23) as [[vs o]|]; cbn [bind]; [|discriminate].
  destruct vs as [|[cid| | | | | | | | |] [|[ident| | | | | | | | |] [|? ?]]]; try discriminate.
  destruct (negb (known_cid nd cid)). { intros H; done_same H. }
  apply send_cell_same.
Qed.

Lemma on_pong_same (nd : node) src data nd' acts :
  on_pong nd src data = Ok (nd', acts) -> same nd nd'.
Proof.
  unfold on_pong. destruct (unpack_msg no_keys fmt_ping data 23) as [[vs o]|]; cbn [bind]; [|discriminate].
  destruct vs as [|[cid| | | | | | | | |] [|[ident| | | | | | | | |] [|? ?]]]; try discriminate.
  intros H; done_same H.
Qed.

Lemma on_test_request_same (nd : node) src data cid rnd ns nd' acts :
  on_test_request enc nd src data cid rnd ns = Ok (nd', acts) -> same nd nd'.
Proof.
  unfold on_test_request. destruct (negb (existsb (Z.eqb PEER_FLAG_SPEED_TEST) (n_flags nd))). { intros H; done_same H. }
  destruct (unpack_msg no_keys fmt_test_request data 23) as [[vs o]|]; cbn [bind]; [|discriminate].
  destruct vs as [|[c0| | | | | | | | |] [|[ident| | | | | | | | |] [|[rsize| | | | | | | | |] [|[| |d| | | | | | |] [|? ?]]]]]; try discriminate.
  match goal with |- (if ?b then _ else _) = _ -> _ => destruct b end. { intros H; done_same H. }
  apply send_cell_same.
Qed.

Lemma on_test_response_same (nd : node) src data cid nd' acts :
  on_test_response nd src data cid = Ok (nd', acts) -> same nd nd'.
Proof.
  unfold on_test_response. destruct (unpack_msg no_keys fmt_test_response data 23) as [[vs o]|]; cbn [bind]; [|discriminate].
  destruct vs as [|[c0| | | | | | | | |] [|[ident| | | | | | | | |] [|[| |d| | | | | | |] [|? ?]]]]; try discriminate.
  destruct (negb (has cid (n_circuits nd))); intros H; done_same H.
Qed.

Lemma pfc_same (nd : node) src data cid rnd ns nd' acts :
  on_packet_from_circuit enc nd src data cid rnd ns = Ok (nd', acts) -> same nd nd'.
Proof.
  unfold on_packet_from_circuit.
  destruct (negb (bytes_eqb (n_prefix nd) (slice data None (Some 22)))). { intros H; done_same H. }
  destruct (idx data 22) as [mid|]; cbn [bind]; [|discriminate].
  destruct (negb (existsb (Z.eqb mid) (n_handlers nd))). { intros H; done_same H. }
  match goal with |- try_catch ?X _ = _ -> _ => destruct X as [[n1 a1]|] eqn:E end; cbn [try_catch].
  2:{ intros H; done_same H. }
  intros H. injection H as <- <-. revert E.
  destruct (mid =? 1); [apply on_data_same|].
  destruct (mid =? 6); [apply on_ping_same|].
  destruct (mid =? 7); [apply on_pong_same|].
  destruct (mid =? 19); [apply on_test_request_same|].
  destruct (mid =? 20); [apply on_test_response_same|].
  intros H; done_same H.
Qed.

Lemma community_same (nd : node) src data rnd ns nd' acts :
  community_on_cell_packet enc nd src data rnd ns = Ok (nd', acts) -> same nd nd'.
Proof.
  unfold community_on_cell_packet.
  match goal with |- (if ?b then _ else _) = _ -> _ => destruct b end. { intros H; done_same H. }
  match goal with |- try_catch ?X _ = _ -> _ => destruct X as [[n1 a1]|] eqn:E end; cbn [try_catch].
  2:{ intros H; done_same H. }
  intros H. injection H as <- <-. revert E. unfold on_cell.
  destruct (from_bin data) as [c|]; cbn [bind]; [|discriminate].
  match goal with |- (do skip <- ?X; _) = _ -> _ => destruct X as [skip|] end; cbn [bind]; [|discriminate].
  destruct skip. { intros H; done_same H. }
  destruct (unwrap (n_prefix nd) c); cbn [bind]; [|discriminate]. apply pfc_same.
Qed.

(* data_plane_preserves_tables *)
Lemma on_packet_same (nd : node) src pkt rnd ns nd' acts :
  on_packet enc dec nd src pkt rnd ns = Ok (nd', acts) -> same nd nd'.
Proof.
  unfold on_packet.
  destruct (negb (bytes_eqb (n_prefix nd) (slice pkt None (Some 22)))). { intros H; done_same H. }
  destruct (22 <? blen pkt). 2:{ intros H; done_same H. }
  destruct (idx pkt 22) as [b|]; cbn [bind]; [|discriminate].
  destruct (b =? 0). 2:{ intros H; done_same H. }
  unfold process_cell. destruct (blen pkt <? 29). { intros H; done_same H. }
  destruct (from_bin pkt) as [c|]; cbn [bind]; [|discriminate].
  destruct (has (cl_cid c) (n_relays nd)); [apply relay_cell_same|].
  destruct (incoming_crypto dec nd c) as [[c1|]|]; cbn [bind]; try discriminate.
  2:{ intros H; done_same H. }
  destruct (length (cl_msg c1) =? 0)%nat. { intros H; done_same H. }
  destruct (idx (cl_msg c1) 0) as [m0|]; cbn [bind]; [|discriminate].
  match goal with |- (if ?b then _ else _) = _ -> _ => destruct b end. { intros H; done_same H. }
  match goal with |- (if ?b then _ else _) = _ -> _ => destruct b end. { intros H; done_same H. }
  apply community_same.
Qed.

(* the nested dispatch of re-injected datagrams preserves the tables as well *)
Definition is_reinject (a : action) : bool := match a with Reinject _ _ _ => true | _ => false end.

Lemma expand_other fuel rnd ns (nd : node) a tl :
  is_reinject a = false ->
  expand enc fuel rnd ns nd (a :: tl) = (do (nd2, a2) <- expand enc fuel rnd ns nd tl; Ok (nd2, a :: a2)).
Proof. intros H. destruct fuel; destruct a; try discriminate H; reflexivity. Qed.

Lemma expand_reinj_O rnd ns (nd : node) o p c tl :
  expand enc O rnd ns nd (Reinject o p c :: tl) = (do (nd2, a2) <- expand enc O rnd ns nd tl; Ok (nd2, Reinject o p c :: a2)).
Proof. reflexivity. Qed.

Lemma expand_reinj_S f rnd ns (nd : node) o p c tl :
  expand enc (S f) rnd ns nd (Reinject o p c :: tl) =
  (do (nd1, a1) <- on_packet_from_circuit enc nd o p c rnd ns;
   do (nd1', a1') <- expand enc f rnd ns nd1 a1;
   do (nd2, a2) <- expand enc (S f) rnd ns nd1' tl;
   Ok (nd2, Reinject o p c :: a1' ++ a2)).
Proof. reflexivity. Qed.

Lemma expand_nil fuel rnd ns (nd : node) : expand enc fuel rnd ns nd [] = Ok (nd, []).
Proof. destruct fuel; reflexivity. Qed.

Lemma expand_same : forall fuel rnd ns (nd : node) acts nd' acts',
  expand enc fuel rnd ns nd acts = Ok (nd', acts') -> same nd nd'.
Proof.
  induction fuel as [|f IHf]; intros rnd ns nd acts; revert nd;
    induction acts as [|a tl IHa]; intros nd nd' acts'.
  - rewrite expand_nil. intros H; done_same H.
  - destruct (is_reinject a) eqn:Ea.
    + destruct a; try discriminate Ea. rewrite expand_reinj_O.
      destruct (expand enc 0 rnd ns nd tl) as [[n2 a2]|] eqn:E; cbn [bind]; [|discriminate].
      intros H. injection H as <- _. apply (IHa _ _ _ E).
    + rewrite (expand_other _ _ _ _ _ _ Ea).
      destruct (expand enc 0 rnd ns nd tl) as [[n2 a2]|] eqn:E; cbn [bind]; [|discriminate].
      intros H. injection H as <- _. apply (IHa _ _ _ E).
  - rewrite expand_nil. intros H; done_same H.
  - destruct (is_reinject a) eqn:Ea.
    + destruct a; try discriminate Ea. rewrite expand_reinj_S.
      destruct (on_packet_from_circuit enc nd origin data cid rnd ns) as [[n1 a1]|] eqn:E1; cbn [bind]; [|discriminate].
      destruct (expand enc f rnd ns n1 a1) as [[n1' a1']|] eqn:E2; cbn [bind]; [|discriminate].
      destruct (expand enc (S f) rnd ns n1' tl) as [[n2 a2]|] eqn:E3; cbn [bind]; [|discriminate].
      intros H. injection H as <- _.
      apply (same_trans nd n1 n2); [apply (pfc_same _ _ _ _ _ _ _ _ E1)|].
      apply (same_trans n1 n1' n2); [apply (IHf _ _ _ _ _ _ E2) | apply (IHa _ _ _ E3)].
    + rewrite (expand_other _ _ _ _ _ _ Ea).
      destruct (expand enc (S f) rnd ns nd tl) as [[n2 a2]|] eqn:E; cbn [bind]; [|discriminate].
      intros H. injection H as <- _. apply (IHa _ _ _ E).
Qed.

Lemma on_packet_rec_same (nd : node) src pkt rnd ns nd' acts :
  on_packet_rec enc dec nd src pkt rnd ns = Ok (nd', acts) -> same nd nd'.
Proof.
  unfold on_packet_rec. destruct (on_packet enc dec nd src pkt rnd ns) as [[n1 a1]|] eqn:E; cbn [bind]; [|discriminate].
  intros H. apply (same_trans nd n1 nd'); [apply (on_packet_same _ _ _ _ _ _ _ E) | apply (expand_same _ _ _ _ _ _ _ H)].
Qed.

End Tables.
