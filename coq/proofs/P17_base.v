(* C17 - basic lemmas: dicts, table inserts, the pieces of substantiate / should_sign / sign_loop. *)
From Coq Require Import ZArith List Bool Arith Lia ZifyBool.
From IPV8V Require Import lib.PyErr lib.Bytes model.M16_tokentree model.M17_consent spec.S17_consent
  proofs.P16_gather proofs.P16_props.
Import ListNotations.
Open Scope Z_scope.

(* ---------------------------------------------------------------- bytes_eqb *)
Lemma bytes_eqb_sym a b : bytes_eqb a b = bytes_eqb b a.
Proof.
  destruct (bytes_eqb a b) eqn:E1, (bytes_eqb b a) eqn:E2; auto.
  - apply bytes_eqb_eq in E1. subst. rewrite bytes_eqb_refl in E2. discriminate.
  - apply bytes_eqb_eq in E2. subst. rewrite bytes_eqb_refl in E1. discriminate.
Qed.

Lemma bytes_eqb_neq a b : a <> b -> bytes_eqb a b = false.
Proof. intros N. destruct (bytes_eqb a b) eqn:E; auto. apply bytes_eqb_eq in E. contradiction. Qed.

Lemma bytes_eqb_false a b : bytes_eqb a b = false -> a <> b.
Proof. intros E H. subst. rewrite bytes_eqb_refl in E. discriminate. Qed.

(* ---------------------------------------------------------------- dicts *)
Lemma alookup_aset_same {V} k (v : V) l : alookup k (aset k v l) = Some v.
Proof.
  induction l as [|[k' v'] l IH]; simpl.
  - rewrite bytes_eqb_refl. reflexivity.
  - destruct (bytes_eqb k' k) eqn:E; simpl; rewrite E; auto.
Qed.

Lemma alookup_aset_other {V} k k2 (v : V) l : k <> k2 -> alookup k2 (aset k v l) = alookup k2 l.
Proof.
  intros N. induction l as [|[k' v'] l IH]; simpl.
  - rewrite (bytes_eqb_neq _ _ N). reflexivity.
  - destruct (bytes_eqb k' k) eqn:E; simpl.
    + apply bytes_eqb_eq in E. subst k'. rewrite (bytes_eqb_neq _ _ N). reflexivity.
    + destruct (bytes_eqb k' k2); auto.
Qed.

Lemma alookup_aset {V} k k2 (v : V) l :
  alookup k2 (aset k v l) = if bytes_eqb k k2 then Some v else alookup k2 l.
Proof.
  destruct (bytes_eqb k k2) eqn:E.
  - apply bytes_eqb_eq in E. subst. apply alookup_aset_same.
  - apply alookup_aset_other. apply bytes_eqb_false. assumption.
Qed.

Lemma alookup_In {V} k (v : V) l : alookup k l = Some v -> exists k', In (k', v) l /\ k' = k.
Proof.
  induction l as [|[k' v'] l IH]; simpl; [discriminate|].
  destruct (bytes_eqb k' k) eqn:E; intros H.
  - inversion H; subst. apply bytes_eqb_eq in E. eauto.
  - destruct (IH H) as [k2 [A B]]. eauto.
Qed.

(* ---------------------------------------------------------------- prefixes (tables only grow at the end) *)
Definition prefix {A} (a b : list A) : Prop := exists x, b = a ++ x.

Lemma prefix_refl {A} (a : list A) : prefix a a.
Proof. exists []. rewrite app_nil_r. reflexivity. Qed.

Lemma prefix_trans {A} (a b c : list A) : prefix a b -> prefix b c -> prefix a c.
Proof. intros [x E1] [y E2]. exists (x ++ y). subst. rewrite app_assoc. reflexivity. Qed.

Lemma prefix_incl {A} (a b : list A) : prefix a b -> incl a b.
Proof. intros [x E] y Hy. subst. apply in_or_app. auto. Qed.

Lemma prefix_app {A} (a x : list A) : prefix a (a ++ x).
Proof. exists x. reflexivity. Qed.

Lemma insert_att_prefix w r d : prefix d (insert_att w r d).
Proof. unfold insert_att. destruct (existsb _ d); [apply prefix_refl|apply prefix_app]. Qed.

Lemma insert_md_prefix pk m d : prefix d (insert_md pk m d).
Proof. unfold insert_md. destruct (existsb _ d); [apply prefix_refl|apply prefix_app]. Qed.

Lemma insert_att_In w r d x : In x (insert_att w r d) -> In x d \/ x = r.
Proof.
  unfold insert_att. destruct (existsb _ d); auto. intros H. apply in_app_or in H as [H|[H|[]]]; auto.
Qed.

Lemma insert_md_In pk m d x : In x (insert_md pk m d) -> In x d \/ x = (pk, m).
Proof.
  unfold insert_md. destruct (existsb _ d); auto. intros H. apply in_app_or in H as [H|[H|[]]]; auto.
Qed.

(* with the repaired key, after an insert a row of that subject, authority and pointer is there *)
Lemma insert_att_wide_has r d :
  exists x, In x (insert_att true r d) /\ r_pk x = r_pk r /\ r_auth x = r_auth r /\ r_mptr x = r_mptr r.
Proof.
  unfold insert_att. destruct (existsb (att_conflict true r) d) eqn:E.
  - apply existsb_exists in E as [x [Hx C]]. unfold att_conflict in C.
    apply andb_true_iff in C as [C C3]. apply andb_true_iff in C as [C1 C2].
    apply bytes_eqb_eq in C1, C2, C3. exists x. auto.
  - exists r. split; [apply in_or_app; right; left; reflexivity|auto].
Qed.

Section Base.
Variable hash : bytes -> bytes.
Variable sigverify : bytes -> bytes -> bytes -> bool.
Variable mysign : bytes -> bytes.
Variable parse : bytes -> jdoc.
Variable norm : bytes -> bytes.
Variable me : bytes.
Variable rhl rsl : nat.
Variable wide : bool.

Notation md_hash := (md_hash hash).
Notation md_verify := (md_verify sigverify).
Notation att_verify := (att_verify sigverify).
Notation add_metadata := (add_metadata sigverify).
Notation add_att := (add_att sigverify wide).
Notation add_atts := (add_atts sigverify wide).
Notation gather_list := (gather_list hash sigverify).
Notation substantiate := (substantiate hash sigverify wide).
Notation already := (already me).
Notation should_sign := (should_sign hash parse me).
Notation sign_loop := (sign_loop hash sigverify mysign parse me wide).
Notation recv_disclosure := (recv_disclosure hash sigverify mysign parse me wide).
Notation advertise := (advertise hash sigverify mysign norm me rhl rsl).
Notation req_missing := (req_missing rhl rsl).
Notation step := (step hash sigverify mysign parse norm me rhl rsl wide).
Notation run := (run hash sigverify mysign parse norm me rhl rsl wide).

Definition row_valid (r : attrow) : Prop := sigverify (r_auth r) (r_mptr r) (r_sig r) = true.
Definition att_valid (d : list attrow) : Prop := Forall row_valid d.
Definition md_valid (d : list (bytes * metadata)) : Prop :=
  Forall (fun r => md_verify (fst r) (snd r) = true) d.

(* ---------------------------------------------------------------- add_att / add_atts *)
Lemma add_att_prefix subj auth a d : prefix d (fst (add_att subj auth a d)).
Proof. unfold M17_consent.add_att. destruct (att_verify auth a); simpl; [apply insert_att_prefix|apply prefix_refl]. Qed.

Lemma add_att_valid subj auth a d : att_valid d -> att_valid (fst (add_att subj auth a d)).
Proof.
  unfold M17_consent.add_att, att_valid. intros V. destruct (att_verify auth a) eqn:E; simpl; auto.
  apply Forall_forall. intros x Hx. apply insert_att_In in Hx as [Hx|Hx].
  - rewrite Forall_forall in V. auto.
  - subst x. exact E.
Qed.

(* a row that add_att adds is the row of that attestation, which verifies under the named authority *)
Lemma add_att_new subj auth a d x :
  In x (fst (add_att subj auth a d)) -> In x d \/
  (x = mkRow subj auth (a_mptr a) (a_sig a) /\ att_verify auth a = true).
Proof.
  unfold M17_consent.add_att. destruct (att_verify auth a) eqn:E; simpl; auto.
  intros H. apply insert_att_In in H as [H|H]; auto.
Qed.

Lemma add_att_ok subj auth a d : snd (add_att subj auth a d) = att_verify auth a.
Proof. unfold M17_consent.add_att. destruct (att_verify auth a); reflexivity. Qed.

Lemma add_atts_spec subj : forall atts d c d' c',
  add_atts subj atts d c = (d', c') ->
  prefix d d' /\ (att_valid d -> att_valid d') /\
  (c' = true -> c = true /\ Forall (fun aa => att_verify (fst aa) (snd aa) = true) atts) /\
  (forall x, In x d' -> In x d \/ exists aa, In aa atts /\
        x = mkRow subj (fst aa) (a_mptr (snd aa)) (a_sig (snd aa)) /\ att_verify (fst aa) (snd aa) = true).
Proof.
  unfold M17_consent.add_atts.
  induction atts as [|aa atts IH]; intros d c d' c' E; simpl in E.
  - inversion E; subst. split; [apply prefix_refl|]. split; [auto|]. split; [auto|]. auto.
  - destruct (add_att subj (fst aa) (snd aa) d) as [d1 ok] eqn:E1.
    destruct (IH _ _ _ _ E) as [P [V [C N]]].
    pose proof (add_att_prefix subj (fst aa) (snd aa) d) as P1. rewrite E1 in P1. simpl in P1.
    pose proof (add_att_valid subj (fst aa) (snd aa) d) as V1. rewrite E1 in V1. simpl in V1.
    pose proof (add_att_ok subj (fst aa) (snd aa) d) as O1. rewrite E1 in O1. simpl in O1.
    split; [eapply prefix_trans; eauto|]. split; [auto|]. split.
    + intros Hc. destruct (C Hc) as [Hc1 F]. apply andb_true_iff in Hc1 as [Hc1 Hok]. split; [assumption|].
      constructor; [congruence|assumption].
    + intros x Hx. destruct (N x Hx) as [Hx1|[bb [Hb [Ex Vb]]]].
      * pose proof (add_att_new subj (fst aa) (snd aa) d x) as Nw. rewrite E1 in Nw. simpl in Nw.
        destruct (Nw Hx1) as [A|[A B]]; auto. right. exists aa. split; [left; reflexivity|auto].
      * right. exists bb. split; [right; assumption|auto].
Qed.

(* ---------------------------------------------------------------- add_metadata *)
Lemma add_metadata_prefix pk m d : prefix d (add_metadata pk m d).
Proof. unfold M17_consent.add_metadata. destruct (md_verify pk m); [apply insert_md_prefix|apply prefix_refl]. Qed.

Lemma add_metadata_valid pk m d : md_valid d -> md_valid (add_metadata pk m d).
Proof.
  unfold M17_consent.add_metadata, md_valid. intros V. destruct (md_verify pk m) eqn:E; auto.
  apply Forall_forall. intros x Hx. apply insert_md_In in Hx as [Hx|Hx].
  - rewrite Forall_forall in V. auto.
  - subst x. exact E.
Qed.

Lemma fold_add_metadata pk : forall mds d,
  prefix d (fold_left (fun d m => add_metadata pk m d) mds d) /\
  (md_valid d -> md_valid (fold_left (fun d m => add_metadata pk m d) mds d)).
Proof.
  induction mds as [|m mds IH]; intros d; simpl.
  - split; [apply prefix_refl|auto].
  - destruct (IH (add_metadata pk m d)) as [P V]. split.
    + eapply prefix_trans; [apply add_metadata_prefix|exact P].
    + intros Vd. apply V. apply add_metadata_valid. assumption.
Qed.

(* ---------------------------------------------------------------- gather_list *)
Lemma gather_some_verifies pk f tr t tr' r :
  gather hash sigverify pk f tr t = Ok (tr', Some r) -> tverify sigverify pk t = true.
Proof.
  destruct f as [|f]; cbn [gather]; [discriminate|].
  destruct (tverify sigverify pk t); cbn [negb]; [reflexivity|]. intros H. inversion H.
Qed.

Lemma gather_list_correct pk : forall toks tr c tr' c',
  gather_list pk tr toks c = Ok (tr', c') -> c' = true ->
  c = true /\ Forall (fun t => tverify sigverify pk t = true) toks.
Proof.
  induction toks as [|t toks IH]; intros tr c tr' c' E Hc; cbn [M17_consent.gather_list] in E.
  - inversion E; subst. auto.
  - destruct (gather_top hash sigverify pk tr t) as [[tr1 r]|e] eqn:G; [|discriminate].
    destruct (IH _ _ _ _ E Hc) as [A B]. apply andb_true_iff in A as [A1 A2]. split; [assumption|].
    constructor; [|assumption]. destruct r as [r|]; [|discriminate].
    unfold gather_top in G. eapply gather_some_verifies. exact G.
Qed.

Lemma gather_list_sound pk : forall toks tr c tr' c' P,
  Sound hash sigverify pk P tr -> gather_list pk tr toks c = Ok (tr', c') ->
  exists P', Sound hash sigverify pk P' tr'.
Proof.
  induction toks as [|t toks IH]; intros tr c tr' c' P S E; cbn [M17_consent.gather_list] in E.
  - inversion E; subst. eauto.
  - destruct (gather_top hash sigverify pk tr t) as [[tr1 r]|e] eqn:G; [|discriminate].
    assert (S1 : Sound hash sigverify pk (t :: P) tr) by (eapply Sound_mono; [|exact S]; apply incl_tl, incl_refl).
    destruct (gather_top_spec hash sigverify pk (t :: P) tr t S1 (gpre_of_In sigverify pk (t :: P) t (or_introl eq_refl)))
      as [tr2 [r2 [E2 [S2 _]]]].
    rewrite G in E2. inversion E2; subst. eapply IH; eauto.
Qed.

(* every element of a sound tree is rooted: validly signed and connected to genesis through elements *)
Lemma sound_rooted pk P tr e :
  Sound hash sigverify pk P tr -> In e (elements tr) -> rooted hash sigverify pk (elements tr) e.
Proof.
  intros [S1 S2 _ _ _] He. apply in_split in He as [e1 [e2 Ee]].
  eapply verify_loop_rooted. eapply verify_elements; eauto.
  eapply Forall_impl; [|exact S1]. simpl. tauto.
Qed.

End Base.
