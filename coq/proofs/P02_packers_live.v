(* The live objects of gen/G02_packers.v against the tables of gen/G02_registry.v (decided by computation). *)
From Coq Require Import String Ascii.
From Coq Require Import ZArith List Bool.
From IPV8V Require Import lib.PyErr lib.Bytes lib.BE model.M02_wire model.M02_oldstyle model.M02_packers_rt
  gen.G02_registry gen.G02_packers.
Import ListNotations.

Lemma live_packers_are_registry_l :
  map (fun e => (bytes_of_string (fst e), Some (snd e))) (registry_default ++ registry_overlay)
  = map (fun e => (fst e, rfmt_of_packer (snd e))) ser_live.
Proof. vm_compute. reflexivity. Qed.

Lemma live_serializer_wf_l : ser_wf ser_live = true.
Proof. vm_compute. reflexivity. Qed.

Lemma live_classes_are_msgdefs_l :
  map (fun c => (cls_name c, msgfmt_fuel 32 ser_live (cls_formats c))) classes_live
  = map (fun d => (fst d, Some (msg_of_list (snd d)))) msgdefs.
Proof. vm_compute. reflexivity. Qed.
