(* C19 - the machine over any store meeting the durability contract: open, insert calls, kill, reopen. *)
From Coq Require Import ZArith List Bool Lia Arith.
From IPV8V Require Import lib.PyErr lib.Bytes model.M19_crash spec.S19_durable proofs.P19_base.
Import ListNotations.
Open Scope Z_scope.

Section Crash.
Context {S : Type}.
Variable O : store_ops S.
Hypothesis K : contract O.
Variable cfg : dbcfg.
Hypothesis W : cfg_wf cfg.

Definition vw (m : ms S) : dstate := s_view O (ms_st m).
Definition du (m : ms S) : dstate := s_durable O (ms_st m).

Definition same_meta (m m' : ms S) : Prop :=
  ms_pend m' = ms_pend m /\ ms_started m' = ms_started m /\ ms_acks m' = ms_acks m.

Lemma same_meta_refl m : same_meta m m.
Proof. unfold same_meta. auto. Qed.

Lemma same_meta_trans a b c : same_meta a b -> same_meta b c -> same_meta a c.
Proof. unfold same_meta. intros [A1 [A2 A3]] [B1 [B2 B3]]. repeat split; congruence. Qed.

Lemma du_add_ack m c : du (add_ack m c) = du m.
Proof. reflexivity. Qed.
Lemma vw_add_ack m c : vw (add_ack m c) = vw m.
Proof. reflexivity. Qed.
Lemma vw_set_st m s : vw (set_st m s) = s_view O s.
Proof. reflexivity. Qed.
Lemma du_set_st m s : du (set_st m s) = s_durable O s.
Proof. reflexivity. Qed.

(* ---------------------------------------------------------------- primitive steps under the contract *)
Lemma exec_spec m q r s1 :
  s_exec O (ms_st m) q = (r, s1) ->
  r = fst (apply_stmt (vw m) q) /\ s_view O s1 = snd (apply_stmt (vw m) q) /\ s_durable O s1 = du m.
Proof.
  intros E. pose proof (k_exec_res O K (ms_st m) q) as A.
  pose proof (k_exec_view O K (ms_st m) q) as B. pose proof (k_exec_durable O K (ms_st m) q) as C.
  rewrite E in A, B, C. cbn [fst snd] in *. unfold vw, du. auto.
Qed.

Lemma real_commit_spec m :
  vw (real_commit O m) = vw m /\ du (real_commit O m) = vw m /\ same_meta m (real_commit O m).
Proof.
  unfold real_commit, set_st, vw, du, same_meta. cbn.
  rewrite (k_commit_view O K), (k_commit_durable O K). auto.
Qed.

(* ---------------------------------------------------------------- executescript *)
Lemma run_script_spec : forall sc m ds d' o',
  script_pure (vw m) sc = (ds, d', o') -> du m = vw m ->
  exists tr m',
    run_script O m sc = (tr, m', o') /\ map vw tr = ds /\ vw m' = d' /\ du m' = vw m' /\
    same_meta m m' /\ Forall (fun x => du x = vw x /\ same_meta m x) tr.
Proof.
  induction sc as [|q sc IH]; intros m ds d' o' E C; cbn [script_pure run_script] in *.
  - inversion E; subst. exists [], m. repeat split; auto using same_meta_refl.
  - destruct (s_exec O (ms_st m) q) as [r s1] eqn:Ex.
    destruct (exec_spec m q r s1 Ex) as [Er [Ev Ed]]. rewrite <- Er in E.
    destruct (sres_err r) as [e|] eqn:Ee.
    + inversion E; subst ds d' o'. exists [], (set_st m s1).
      assert (Hfail : snd (apply_stmt (vw m) q) = vw m).
      { apply apply_stmt_fail. rewrite <- Er. destruct r; cbn in Ee; congruence. }
      split; [reflexivity|]. split; [reflexivity|]. rewrite du_set_st, vw_set_st.
      split; [exact Ev|]. split.
      { rewrite Ev, Ed, Hfail. exact C. }
      split; [unfold same_meta; cbn; auto|constructor].
    + set (m1 := set_st m (s_commit O s1)).
      assert (V1 : vw m1 = snd (apply_stmt (vw m) q)).
      { unfold m1, vw, set_st. cbn [ms_st]. rewrite (k_commit_view O K). exact Ev. }
      assert (D1 : du m1 = vw m1).
      { unfold m1, vw, du, set_st. cbn [ms_st]. rewrite (k_commit_view O K), (k_commit_durable O K). reflexivity. }
      assert (M1 : same_meta m m1) by (unfold m1, same_meta, set_st; cbn; auto).
      destruct (script_pure (snd (apply_stmt (vw m) q)) sc) as [[ds2 d2] o2] eqn:E2.
      inversion E; subst ds d' o'. rewrite <- V1 in E2.
      destruct (IH m1 ds2 d2 o2 E2 D1) as [tr [m' [R [Mp [Vf [Df [Mf F]]]]]]].
      rewrite R. exists (m1 :: tr), m'. split; [reflexivity|].
      split; [cbn [map]; rewrite Mp, V1; reflexivity|].
      split; [exact Vf|]. split; [exact Df|]. split; [exact (same_meta_trans _ _ _ M1 Mf)|].
      constructor; [auto|]. eapply Forall_impl; [|exact F]. cbn. intros x [A B].
      split; [exact A|exact (same_meta_trans _ _ _ M1 B)].
Qed.

(* ---------------------------------------------------------------- the invariant *)
Record good (started acks : list (nat * row)) (d : dstate) : Prop := {
  g_valid : valid_disk cfg d;
  g_acks : Forall (ack_stored cfg d) acks;
  g_rows : rows_started cfg started d
}.

(* U: every call the workload can ever make *)
Record MInv (U : list (nat * row)) (m : ms S) : Prop := {
  i_du : good (ms_started m) (ms_acks m) (du m);
  i_vw : good (ms_started m) (ms_acks m) (vw m);
  i_pend : ms_pend m = 0;
  i_acks : incl (ms_acks m) (ms_started m);
  i_started : incl (ms_started m) U
}.

Lemma call_table_wf fn t : call_table cfg fn = Some t ->
  t <> T_OPTION /\ exists td, In td (schema_tables cfg) /\ t_id td = t.
Proof.
  unfold call_table. destruct (nth_error (cfg_inserts cfg) fn) as [ops|] eqn:E; [|discriminate].
  destruct (w_inserts _ W _ _ E) as [ig [t' [td [Eo [Nt [Hin Hid]]]]]]. subst ops.
  intros H. inversion H; subst. eauto.
Qed.

Lemma ack_stored_data d1 d2 c : data_rows d1 = data_rows d2 -> ack_stored cfg d1 c -> ack_stored cfg d2 c.
Proof.
  intros E [t [td [r' [A [B [C [D F]]]]]]]. exists t, td, r'.
  destruct (call_table_wf _ _ A) as [Nt _].
  repeat split; auto. apply (in_data_rows d2 t r' Nt). rewrite <- E. apply (in_data_rows d1 t r' Nt). exact D.
Qed.

Lemma rows_started_data st d1 d2 : data_rows d1 = data_rows d2 -> rows_started cfg st d1 -> rows_started cfg st d2.
Proof.
  intros E H t r Hin Nt. apply (H t r); [|exact Nt].
  apply (in_data_rows d1 t r Nt). rewrite E. apply (in_data_rows d2 t r Nt). exact Hin.
Qed.

Lemma good_data_eq st ak d1 d2 : valid_disk cfg d2 -> data_rows d1 = data_rows d2 -> good st ak d1 -> good st ak d2.
Proof.
  intros V E [G1 G2 G3]. constructor; [exact V| |eapply rows_started_data; eauto].
  eapply Forall_impl; [|exact G2]. intros c. apply ack_stored_data. exact E.
Qed.

Lemma good_more_started st st' ak d : incl st st' -> good st ak d -> good st' ak d.
Proof.
  intros I [G1 G2 G3]. constructor; auto. intros t r Hin Nt. destruct (G3 t r Hin Nt) as [fn [A B]]. eauto.
Qed.

(* ---------------------------------------------------------------- open *)
Lemma prepare_version_valid d :
  valid_disk cfg d -> exists v, prepare_version false d = inl v /\ (v = 0 \/ v = cfg_latest cfg).
Proof.
  intros [[V|V] _]; unfold prepare_version; destruct (find_table d T_OPTION); rewrite ?V; eauto.
Qed.

Lemma open_spec U m :
  MInv U m ->
  exists tr m',
    open O cfg false m = (tr, m', Done) /\ Forall (MInv U) tr /\ MInv U m' /\
    du m' = vw m' /\ opened cfg (vw m) (vw m') /\ same_meta m m'.
Proof.
  intros I. destruct I as [Idu Ivw Ip Ia Is].
  unfold open. destruct (prepare_version_valid _ (g_valid _ _ _ Ivw)) as [v [Ev Hv]]. fold (vw m). rewrite Ev.
  assert (Hb : (v =? 0) || (v =? cfg_latest cfg) = true).
  { destruct Hv; subst; rewrite ?Z.eqb_refl, ?orb_true_r; reflexivity. }
  rewrite Hb. rewrite (w_check _ W). cbn [run_ops].
  destruct (real_commit_spec m) as [V0 [D0 M0]]. set (m0 := real_commit O m) in *.
  destruct (schema_script_pure cfg (vw m) W (g_valid _ _ _ Ivw)) as [ds [d' [Ep [Fp Op]]]].
  rewrite <- V0 in Ep. assert (C0 : du m0 = vw m0) by congruence.
  destruct (run_script_spec _ m0 ds d' Done Ep C0) as [tr1 [m1 [R [Mp [V1 [D1 [M1 F1]]]]]]].
  rewrite R. cbn [run_ops].
  assert (P1 : ms_pend m1 = 0). { destruct M0 as [A _], M1 as [B _]. congruence. }
  unfold db_commit. rewrite P1. cbn [Z.eqb].
  destruct (real_commit_spec m1) as [V2 [D2 M2]]. set (m2 := real_commit O m1) in *.
  exists (m0 :: tr1 ++ [m2]), m2. split; [reflexivity|].
  assert (mk : forall x, same_meta m x -> du x = vw x -> valid_disk cfg (vw x) -> data_rows (vw x) = data_rows (vw m) ->
               MInv U x).
  { intros x [X1 [X2 X3]] Dx Vx Ex. constructor; rewrite ?X1, ?X2, ?X3; auto.
    - rewrite Dx. eapply good_data_eq; [exact Vx|symmetry; exact Ex|exact Ivw].
    - eapply good_data_eq; [exact Vx|symmetry; exact Ex|exact Ivw]. }
  assert (Vd' : valid_disk cfg d').
  { split; [right; apply (o_version _ _ _ Op)|apply (o_tables _ _ _ Op)]. }
  assert (I2 : MInv U m2).
  { apply mk.
    - exact (same_meta_trans _ _ _ M0 (same_meta_trans _ _ _ M1 M2)).
    - congruence.
    - rewrite V2, V1. exact Vd'.
    - rewrite V2, V1. rewrite (o_data _ _ _ Op). reflexivity. }
  split; [|split; [exact I2|]].
  - constructor.
    + apply mk; [exact M0|exact C0|rewrite V0; apply (g_valid _ _ _ Ivw)|rewrite V0; reflexivity].
    + apply Forall_app. split; [|constructor; [exact I2|constructor]].
      assert (Fz : Forall (fun x => (du x = vw x /\ same_meta m0 x) /\ valid_disk cfg (vw x) /\ data_rows (vw x) = data_rows (vw m)) tr1).
      { clear - F1 Fp Mp. revert ds Mp Fp. induction F1 as [|x tr Hx F IH]; intros ds Mp Fp; [constructor|].
        destruct ds as [|dd ds]; [discriminate|]. cbn [map] in Mp. inversion Mp; subst.
        inversion Fp; subst. constructor; [split; [exact Hx|assumption]|]. eapply IH; eauto. }
      eapply Forall_impl; [|exact Fz]. cbn. intros x [[A B] [C D]].
      apply mk; [exact (same_meta_trans _ _ _ M0 B)|exact A|exact C|exact D].
  - split; [congruence|]. split.
    + rewrite V2, V1. exact Op.
    + exact (same_meta_trans _ _ _ M0 (same_meta_trans _ _ _ M1 M2)).
Qed.

(* ---------------------------------------------------------------- one insert call: the invariant *)
Lemma insert_good st ak d ig t r fn td :
  good st ak d -> In (fn, r) st -> call_table cfg fn = Some t -> t <> T_OPTION ->
  In td (schema_tables cfg) -> t_id td = t ->
  fst (apply_stmt d (SInsert ig t r)) = SOk ->
  good st ak (snd (apply_stmt d (SInsert ig t r))) /\ ack_stored cfg (snd (apply_stmt d (SInsert ig t r))) (fn, r).
Proof.
  intros [[G1 G1'] G2 G3] Hst Hct Nt Htd Hid. cbn [apply_stmt].
  destruct (find_table d t) as [td0|] eqn:Ef; [|cbn; discriminate].
  assert (td0 = td) by (eapply valid_find; eauto). subst td0.
  destruct (has_key d t (t_pk td) (key_of (t_pk td) r)) eqn:Hk.
  - intros _. cbn [snd]. split; [constructor; [split|..]; auto|].
    unfold has_key in Hk. apply existsb_exists in Hk as [[t' r'] [Hin Hm]].
    unfold row_has_key in Hm. cbn [fst snd] in Hm. apply andb_true_iff in Hm as [A B].
    apply Z.eqb_eq in A. apply bytes_eqb_eq in B. subst t'.
    exists t, td, r'. cbn [fst snd]. auto.
  - intros _. cbn [snd]. split.
    + constructor.
      * split; [|exact G1']. rewrite version_row_app_data; [exact G1|exact Nt].
      * eapply Forall_impl; [|exact G2]. intros c [t1 [td1 [r1 [A [B [C [D E]]]]]]].
        exists t1, td1, r1. repeat split; auto. cbn [d_rows]. apply in_or_app. left. exact D.
      * intros t1 r1 Hin N1. cbn [d_rows] in Hin. apply in_app_or in Hin as [Hin|[Hin|[]]].
        { apply (G3 t1 r1 Hin N1). }
        { inversion Hin; subst. exists fn. auto. }
    + exists t, td, r. cbn [fst snd d_rows]. repeat split; auto. apply in_or_app. right. left. reflexivity.
Qed.

Lemma call_spec U m fn r :
  MInv U m -> In (fn, r) U ->
  exists tr m' o, run_action O cfg m (ACall fn r) = (tr, m', o) /\ Forall (MInv U) tr /\ MInv U m'.
Proof.
  intros [Idu Ivw Ip Ia Is] HU. cbn [run_action].
  set (m0 := add_start m (fn, r)).
  assert (I0 : MInv U m0).
  { constructor; unfold m0, add_start, du, vw; cbn [ms_st ms_started ms_acks ms_pend]; auto.
    - eapply good_more_started; [|exact Idu]. apply incl_appl, incl_refl.
    - eapply good_more_started; [|exact Ivw]. apply incl_appl, incl_refl.
    - apply incl_appl. exact Ia.
    - apply incl_app; [exact Is|]. intros x [Hx|[]]. subst. exact HU. }
  destruct (nth_error (cfg_inserts cfg) fn) as [ops|] eqn:En.
  2:{ exists [m0], m0, (Raised EOutOfModel). split; [reflexivity|]. split; [constructor; [exact I0|constructor]|exact I0]. }
  destruct (w_inserts _ W _ _ En) as [ig [t [td [Eo [Nt [Htd Hid]]]]]]. subst ops.
  cbn [run_ops].
  destruct (s_exec O (ms_st m0) (SInsert ig t r)) as [res s1] eqn:Ex.
  destruct (exec_spec m0 _ res s1 Ex) as [Er [Ev Ed]].
  assert (Hst : In (fn, r) (ms_started m0)).
  { unfold m0, add_start. cbn. apply in_or_app. right. left. reflexivity. }
  assert (Hct : call_table cfg fn = Some t) by (eapply wf_call_table; eauto).
  destruct I0 as [Jdu Jvw Jp Ja Js].
  destruct (sres_err res) as [e|] eqn:Ee.
  - (* the statement raised: nothing changed *)
    exists [m0], (set_st m0 s1), (Raised e). split; [reflexivity|].
    assert (Hfail : snd (apply_stmt (vw m0) (SInsert ig t r)) = vw m0).
    { apply apply_stmt_fail. rewrite <- Er. destruct res; cbn in Ee; congruence. }
    split; [constructor; [constructor; auto|constructor]|].
    constructor; unfold set_st, du, vw; cbn [ms_st ms_started ms_acks ms_pend]; auto.
    + rewrite Ed. exact Jdu.
    + rewrite Ev, Hfail. exact Jvw.
  - assert (Rok : fst (apply_stmt (vw m0) (SInsert ig t r)) = SOk).
    { rewrite <- Er. destruct res; cbn in Ee; congruence. }
    destruct (insert_good _ _ _ ig t r fn td Jvw Hst Hct Nt Htd Hid Rok) as [G1 A1].
    set (m1 := set_st m0 s1).
    assert (I1 : MInv U m1).
    { constructor; unfold m1, set_st, du, vw; cbn [ms_st ms_started ms_acks ms_pend]; auto.
      - rewrite Ed. exact Jdu.
      - rewrite Ev. exact G1. }
    assert (P1 : ms_pend m1 = 0) by exact Jp.
    unfold db_commit. fold m1. rewrite P1. cbn [Z.eqb].
    destruct (real_commit_spec m1) as [V2 [D2 [M2a [M2b M2c]]]]. set (m2 := real_commit O m1) in *.
    assert (Vm1 : vw m1 = snd (apply_stmt (vw m0) (SInsert ig t r))).
    { unfold m1, vw, set_st. cbn [ms_st]. exact Ev. }
    assert (I2 : MInv U m2).
    { constructor; rewrite ?M2a, ?M2b, ?M2c; auto.
      - rewrite D2, Vm1. exact G1.
      - rewrite V2, Vm1. exact G1. }
    set (m3 := add_ack m2 (fn, r)).
    assert (I3 : MInv U m3).
    { destruct I2 as [Kdu Kvw Kp Ka Ks].
      constructor.
      - unfold m3. rewrite du_add_ack. cbn [add_ack ms_started ms_acks].
        destruct Kdu as [X1 X2 X3]. constructor; auto. apply Forall_app. split; [exact X2|].
        constructor; [|constructor]. rewrite D2, Vm1. exact A1.
      - unfold m3. rewrite vw_add_ack. cbn [add_ack ms_started ms_acks].
        destruct Kvw as [X1 X2 X3]. constructor; auto. apply Forall_app. split; [exact X2|].
        constructor; [|constructor]. rewrite V2, Vm1. exact A1.
      - exact Kp.
      - unfold m3. cbn [add_ack ms_started ms_acks].
        apply incl_app; [exact Ka|]. intros x [Hx|[]]. subst x. rewrite M2b. exact Hst.
      - exact Ks. }
    exists (m0 :: [m1; m2] ++ [m3]), m3, Done. split; [reflexivity|].
    split; [|exact I3].
    constructor; [constructor; auto|]. constructor; [exact I1|]. constructor; [exact I2|]. constructor; [exact I3|constructor].
Qed.

Lemma calls_spec U : forall acts m,
  forallb is_call acts = true -> incl (calls_of acts) U -> MInv U m ->
  exists tr m', run_actions O cfg m acts = (tr, m') /\ Forall (MInv U) tr /\ MInv U m'.
Proof.
  induction acts as [|a acts IH]; intros m Hc HU I; cbn [run_actions].
  - exists [], m. auto.
  - cbn [forallb] in Hc. apply andb_true_iff in Hc as [Ha Hc].
    destruct a as [fn r| | | |]; try discriminate.
    assert (HU1 : In (fn, r) U) by (apply HU; cbn; left; reflexivity).
    assert (HU2 : incl (calls_of acts) U) by (intros x Hx; apply HU; cbn; right; exact Hx).
    destruct (call_spec U m fn r I HU1) as [tr1 [m1 [o [E1 [F1 I1]]]]]. rewrite E1.
    destruct (IH m1 Hc HU2 I1) as [tr2 [m2 [E2 [F2 I2]]]]. rewrite E2.
    exists (tr1 ++ tr2), m2. split; [reflexivity|]. split; [apply Forall_app; auto|exact I2].
Qed.

Lemma reboot_inv U m : MInv U m -> MInv U (reboot O m) /\ du (reboot O m) = vw (reboot O m).
Proof.
  intros [Idu Ivw Ip Ia Is]. unfold reboot, du, vw. cbn [ms_st].
  rewrite (k_crash_view O K), (k_crash_durable O K). split; [|reflexivity].
  constructor; unfold du, vw; cbn [ms_st ms_started ms_acks ms_pend];
    rewrite ?(k_crash_view O K), ?(k_crash_durable O K); auto.
Qed.

Lemma process_spec U m acts :
  forallb is_call acts = true -> incl (calls_of acts) U -> MInv U m ->
  exists snaps mf, run_process O cfg false m acts = (snaps, mf) /\ Forall (MInv U) snaps /\ MInv U mf.
Proof.
  intros Hc HU I. unfold run_process.
  destruct (open_spec U m I) as [tr0 [m1 [E0 [F0 [I1 _]]]]]. rewrite E0.
  destruct (calls_spec U acts m1 Hc HU I1) as [tr [m2 [E [F I2]]]]. rewrite E.
  exists (m :: tr0 ++ tr), m2. split; [reflexivity|]. split; [|exact I2].
  constructor; [exact I|apply Forall_app; auto].
Qed.

Lemma history_inv U : forall h m,
  only_calls h -> incl (all_calls h) U -> MInv U m -> MInv U (run_history O cfg false m h).
Proof.
  induction h as [|[acts k] h IH]; intros m Hc HU I; cbn [run_history]; [exact I|].
  inversion Hc as [|? ? Hc1 Hc2]; subst. cbn [fst] in Hc1.
  assert (HU1 : incl (calls_of acts) U).
  { intros x Hx. apply HU. unfold all_calls. cbn [flat_map fst]. apply in_or_app. left. exact Hx. }
  assert (HU2 : incl (all_calls h) U).
  { intros x Hx. apply HU. unfold all_calls. cbn [flat_map fst]. apply in_or_app. right. exact Hx. }
  destruct (process_spec U m acts Hc1 HU1 I) as [snaps [mf [E [F If]]]]. rewrite E.
  apply IH; auto. apply reboot_inv.
  destruct (nth_in_or_default k snaps mf) as [Hin|Hd]; [|rewrite Hd; exact If].
  rewrite Forall_forall in F. apply F. exact Hin.
Qed.

Lemma fresh_inv U m :
  fresh O (ms_st m) -> ms_pend m = 0 -> ms_started m = [] -> ms_acks m = [] -> MInv U m.
Proof.
  intros [Fv Fd] P St Ak.
  assert (G : good [] [] empty_d).
  { constructor.
    - split; [left; reflexivity|intros x []].
    - constructor.
    - intros t r []. }
  constructor; unfold du, vw; rewrite ?Fv, ?Fd, ?St, ?Ak; auto; intros x [].
Qed.

(* ---------------------------------------------------------------- the property, for every history *)
Theorem history_reopen_l : forall s0 h,
  fresh O s0 -> only_calls h ->
  let m := run_history O cfg false (mkMs s0 0 [] []) h in
  exists tr m',
    open O cfg false m = (tr, m', Done) /\
    version_row (vw m') = Some (cfg_latest cfg) /\
    (forall td, In td (schema_tables cfg) -> find_table (vw m') (t_id td) = Some td) /\
    du m' = vw m' /\ data_rows (vw m') = data_rows (vw m) /\
    Forall (ack_stored cfg (vw m')) (ms_acks m) /\
    rows_started cfg (ms_started m) (vw m') /\
    incl (ms_acks m) (ms_started m) /\ incl (ms_started m) (all_calls h).
Proof.
  intros s0 h Fr Hc m.
  assert (I : MInv (all_calls h) m).
  { apply history_inv; [exact Hc|apply incl_refl|]. apply fresh_inv; auto. }
  destruct (open_spec _ m I) as [tr [m' [E [_ [I' [C [Op [M1 [M2 M3]]]]]]]]].
  exists tr, m'. split; [exact E|]. split; [apply (o_version _ _ _ Op)|].
  split; [apply (o_found _ _ _ Op)|]. split; [exact C|]. split; [apply (o_data _ _ _ Op)|].
  destruct I' as [_ [_ G2 G3] _ Ia Is]. rewrite M2, M3 in *. auto.
Qed.

(* with keys that identify records, the acknowledged record itself is there, unchanged *)
Lemma ack_present_of_stored d st c :
  key_consistent cfg st -> rows_started cfg st d -> In c st -> ack_stored cfg d c -> ack_present cfg d c.
Proof.
  intros KC RS Hc [t [td [r' [A [B [C [D E]]]]]]]. exists t. split; [exact A|].
  destruct (call_table_wf _ _ A) as [Nt _].
  destruct (RS t r' D Nt) as [fn' [Hin' Hct']].
  assert (r' = snd c).
  { apply (KC (fn', r') c t td); auto. }
  subst r'. exact D.
Qed.

(* ---------------------------------------------------------------- one process, exactly *)
Lemma effect_cons d c l : effect cfg d (c :: l) = effect cfg (effect cfg d [c]) l.
Proof. cbn [effect]. destruct (call_stmt cfg c); reflexivity. Qed.

Lemma returned_cons d c l : returned cfg d (c :: l) = returned cfg d [c] ++ returned cfg (effect cfg d [c]) l.
Proof.
  cbn [returned effect]. destruct (call_stmt cfg c); [|reflexivity].
  rewrite app_nil_r. reflexivity.
Qed.

Definition snap_rel (m : ms S) (wl : list (nat * row)) (x : ms S) : Prop :=
  exists a j s, (a <= j)%nat /\ (j <= s)%nat /\ (s <= a + 1)%nat /\ (s <= length wl)%nat /\
    du x = effect cfg (du m) (firstn j wl) /\
    ms_acks x = ms_acks m ++ returned cfg (du m) (firstn a wl) /\
    ms_started x = ms_started m ++ firstn s wl.

Lemma call_exact m fn r :
  ms_pend m = 0 -> du m = vw m ->
  exists tr m' o,
    run_action O cfg m (ACall fn r) = (tr, m', o) /\
    du m' = vw m' /\ ms_pend m' = 0 /\
    vw m' = effect cfg (vw m) [(fn, r)] /\
    ms_acks m' = ms_acks m ++ returned cfg (vw m) [(fn, r)] /\
    ms_started m' = ms_started m ++ [(fn, r)] /\
    Forall (fun x => ms_started x = ms_started m ++ [(fn, r)] /\
                     ((du x = du m /\ ms_acks x = ms_acks m) \/
                      (du x = vw m' /\ (ms_acks x = ms_acks m \/ ms_acks x = ms_acks m')))) tr.
Proof.
  intros P C. cbn [run_action]. set (m0 := add_start m (fn, r)).
  assert (V0 : vw m0 = vw m) by reflexivity. assert (D0 : du m0 = du m) by reflexivity.
  destruct (nth_error (cfg_inserts cfg) fn) as [ops|] eqn:En.
  2:{ exists [m0], m0, (Raised EOutOfModel). cbn [effect returned]. rewrite (wf_call_stmt_none _ _ _ En).
      rewrite app_nil_r. split; [reflexivity|]. split; [exact C|]. split; [exact P|]. split; [reflexivity|].
      split; [reflexivity|]. split; [reflexivity|].
      constructor; [|constructor]. split; [reflexivity|]. left. split; reflexivity. }
  destruct (w_inserts _ W _ _ En) as [ig [t [td [Eo [Nt [Htd Hid]]]]]]. subst ops.
  cbn [run_ops effect returned]. rewrite (wf_call_stmt _ _ r _ _ _ En eq_refl).
  destruct (s_exec O (ms_st m0) (SInsert ig t r)) as [res s1] eqn:Ex.
  destruct (exec_spec m0 _ res s1 Ex) as [Er [Ev Ed]]. rewrite V0 in Er, Ev. rewrite D0 in Ed.
  destruct (sres_err res) as [e|] eqn:Ee.
  - assert (Hfail : snd (apply_stmt (vw m) (SInsert ig t r)) = vw m).
    { apply apply_stmt_fail. rewrite <- Er. destruct res; cbn in Ee; congruence. }
    exists [m0], (set_st m0 s1), (Raised e). split; [reflexivity|].
    unfold du at 1, vw at 1 2, set_st. cbn [ms_st ms_pend ms_acks ms_started].
    rewrite Ev, Ed, Hfail. split; [exact C|]. split; [exact P|]. split; [reflexivity|].
    split.
    { rewrite <- Er. destruct res; cbn in Ee; try discriminate; rewrite app_nil_r; reflexivity. }
    split; [reflexivity|]. constructor; [|constructor]. split; [reflexivity|]. left. auto.
  - assert (Rok : fst (apply_stmt (vw m) (SInsert ig t r)) = SOk).
    { rewrite <- Er. destruct res; cbn in Ee; congruence. }
    set (m1 := set_st m0 s1).
    assert (P1 : ms_pend m1 = 0) by exact P.
    unfold db_commit. fold m1. rewrite P1. cbn [Z.eqb].
    destruct (real_commit_spec m1) as [V2 [D2 [M2a [M2b M2c]]]]. set (m2 := real_commit O m1) in *.
    assert (Vm1 : vw m1 = snd (apply_stmt (vw m) (SInsert ig t r))) by exact Ev.
    set (m3 := add_ack m2 (fn, r)).
    exists (m0 :: [m1; m2] ++ [m3]), m3, Done. split; [reflexivity|].
    assert (V3 : vw m3 = snd (apply_stmt (vw m) (SInsert ig t r))).
    { unfold m3. rewrite vw_add_ack, V2. exact Vm1. }
    assert (D3 : du m3 = vw m3).
    { unfold m3. rewrite vw_add_ack, du_add_ack, V2. exact D2. }
    split; [exact D3|]. split; [unfold m3; cbn [add_ack ms_pend]; rewrite M2a; exact P1|]. split; [exact V3|].
    assert (A3 : ms_acks m3 = ms_acks m ++ [(fn, r)]).
    { unfold m3, add_ack. cbn [ms_acks]. rewrite M2c. reflexivity. }
    split; [rewrite Rok, app_nil_r; exact A3|].
    assert (S3 : ms_started m3 = ms_started m ++ [(fn, r)]).
    { unfold m3, add_ack. cbn [ms_started]. rewrite M2b. reflexivity. }
    split; [exact S3|].
    constructor; [split; [reflexivity|left; auto]|].
    constructor; [split; [reflexivity|left; split; [exact Ed|reflexivity]]|].
    constructor.
    { split; [exact M2b|]. right. split; [rewrite D2, V3; exact Vm1|left; exact M2c]. }
    constructor; [|constructor]. split; [exact S3|]. right. split; [exact D3|right; reflexivity].
Qed.

Lemma firstn_S_cons {A} n (x : A) l : firstn (Datatypes.S n) (x :: l) = x :: firstn n l.
Proof. reflexivity. Qed.

Theorem crash_prefix_exact_l : forall wl m,
  ms_pend m = 0 -> du m = vw m ->
  exists tr m',
    run_actions O cfg m (map (fun c => ACall (fst c) (snd c)) wl) = (tr, m') /\
    du m' = vw m' /\ ms_pend m' = 0 /\
    vw m' = effect cfg (vw m) wl /\
    ms_acks m' = ms_acks m ++ returned cfg (vw m) wl /\
    ms_started m' = ms_started m ++ wl /\
    Forall (snap_rel m wl) tr.
Proof.
  induction wl as [|[fn r] wl IH]; intros m P C; cbn [map run_actions fst snd].
  - exists [], m. cbn [effect returned]. rewrite !app_nil_r. repeat split; auto.
  - destruct (call_exact m fn r P C) as [tr1 [m1 [o [E1 [C1 [P1 [V1 [A1 [S1 F1]]]]]]]]]. rewrite E1.
    destruct (IH m1 P1 C1) as [tr2 [m2 [E2 [C2 [P2 [V2 [A2 [S2 F2]]]]]]]]. rewrite E2.
    exists (tr1 ++ tr2), m2. split; [reflexivity|]. split; [exact C2|]. split; [exact P2|].
    split; [rewrite V2, V1, <- effect_cons; reflexivity|].
    split; [rewrite A2, A1, V1, <- app_assoc, <- returned_cons; reflexivity|].
    split; [rewrite S2, S1, <- app_assoc; reflexivity|].
    apply Forall_app. split.
    + eapply Forall_impl; [|exact F1]. cbn. intros x [Sx [[Dx Ax]|[Dx [Ax|Ax]]]].
      * exists 0%nat, 0%nat, 1%nat. cbn [firstn effect returned length]. rewrite app_nil_r.
        repeat split; auto; lia.
      * exists 0%nat, 1%nat, 1%nat. rewrite firstn_S_cons. cbn [firstn returned length]. rewrite app_nil_r.
        repeat split; auto; try lia. rewrite Dx, V1, C. reflexivity.
      * exists 1%nat, 1%nat, 1%nat. rewrite firstn_S_cons. cbn [firstn length].
        repeat split; auto; try lia.
        { rewrite Dx, V1, C. reflexivity. }
        { rewrite Ax, A1, C. reflexivity. }
    + eapply Forall_impl; [|exact F2]. cbn. intros x [a [j [s [L1 [L2 [L3 [L4 [Dx [Ax Sx]]]]]]]]].
      exists (Datatypes.S a), (Datatypes.S j), (Datatypes.S s). rewrite !firstn_S_cons. cbn [length].
      repeat split; try lia.
      * rewrite Dx, C1, V1, C, <- effect_cons. reflexivity.
      * rewrite Ax, A1, C1, V1, C, <- app_assoc, <- returned_cons. reflexivity.
      * rewrite Sx, S1, <- app_assoc. reflexivity.
Qed.

(* ---------------------------------------------------------------- with db: *)
(* inside a with block every commit is deferred: whatever insert calls return, nothing is published *)
Lemma with_call_durable m fn r :
  0 < ms_pend m ->
  exists tr m' o, run_action O cfg m (ACall fn r) = (tr, m', o) /\ 0 < ms_pend m' /\ du m' = du m /\
                  Forall (fun x => du x = du m) tr.
Proof.
  intros P. cbn [run_action]. set (m0 := add_start m (fn, r)).
  destruct (nth_error (cfg_inserts cfg) fn) as [ops|] eqn:En.
  2:{ exists [m0], m0, (Raised EOutOfModel). repeat split; auto. }
  destruct (w_inserts _ W _ _ En) as [ig [t [td [Eo _]]]]. subst ops. cbn [run_ops].
  destruct (s_exec O (ms_st m0) (SInsert ig t r)) as [res s1] eqn:Ex.
  destruct (exec_spec m0 _ res s1 Ex) as [_ [_ Ed]].
  destruct (sres_err res) as [e|].
  - exists [m0], (set_st m0 s1), (Raised e). repeat split; auto.
  - set (m1 := set_st m0 s1). unfold db_commit. fold m1.
    assert (P1 : ms_pend m1 = ms_pend m) by reflexivity.
    destruct (ms_pend m1 =? 0) eqn:Ez; [apply Z.eqb_eq in Ez; lia|].
    set (m2 := set_pend m1 (ms_pend m1 + 1)).
    exists (m0 :: [m1; m2] ++ [add_ack m2 (fn, r)]), (add_ack m2 (fn, r)), Done.
    split; [reflexivity|]. split; [cbn; lia|]. split; [exact Ed|].
    repeat constructor; auto.
Qed.

Theorem with_block_defers_l : forall wl m,
  exists tr m',
    run_actions O cfg m (AEnter :: map (fun c => ACall (fst c) (snd c)) wl) = (tr, m') /\
    Forall (fun x => du x = du m) tr /\ du m' = du m /\ 0 < ms_pend m'.
Proof.
  intros wl m. cbn [run_actions run_action].
  set (m0 := set_pend m (Z.max 1 (ms_pend m))).
  assert (P0 : 0 < ms_pend m0) by (cbn; lia).
  assert (D0 : du m0 = du m) by reflexivity.
  assert (G : forall l x, 0 < ms_pend x -> exists tr m', run_actions O cfg x (map (fun c => ACall (fst c) (snd c)) l) = (tr, m') /\
               Forall (fun y => du y = du x) tr /\ du m' = du x /\ 0 < ms_pend m').
  { induction l as [|[fn r] l IH]; intros x Px; cbn [map run_actions fst snd].
    - exists [], x. auto.
    - destruct (with_call_durable x fn r Px) as [tr1 [x1 [o [E1 [P1 [D1 F1]]]]]]. rewrite E1.
      destruct (IH x1 P1) as [tr2 [x2 [E2 [F2 [D2 P2]]]]]. rewrite E2.
      exists (tr1 ++ tr2), x2. split; [reflexivity|]. split; [|split; [congruence|exact P2]].
      apply Forall_app. split; [exact F1|]. eapply Forall_impl; [|exact F2]. cbn. intros; congruence. }
  destruct (G wl m0 P0) as [tr [m' [E [F [D P]]]]]. rewrite E.
  exists (m0 :: tr), m'. split; [reflexivity|]. split; [|split; [congruence|exact P]].
  constructor; [exact D0|]. eapply Forall_impl; [|exact F]. cbn. intros; congruence.
Qed.

(* leaving the block normally publishes everything the block did, if any commit was requested *)
Lemma exit_publishes_l m :
  1 < ms_pend m ->
  exists m', run_action O cfg m (AExit XNone) = ([m'], m', Done) /\ du m' = vw m /\ vw m' = vw m /\ ms_pend m' = 0.
Proof.
  intros P. cbn [run_action]. assert (E : (1 <? ms_pend m) = true) by (apply Z.ltb_lt; exact P). rewrite E.
  unfold db_commit. cbn [set_pend ms_pend Z.eqb].
  destruct (real_commit_spec (set_pend m 0)) as [V [D [M _]]].
  eexists. split; [reflexivity|]. split; [exact D|]. split; [exact V|exact M].
Qed.

(* ---------------------------------------------------------------- an upgrade script in one transaction *)
Fixpoint fold_stmts (d : dstate) (sc : list stmt) : dstate :=
  match sc with [] => d | q :: tl => fold_stmts (snd (apply_stmt d q)) tl end.

Lemma run_tx_spec : forall sc m,
  exists tr m' o, run_tx O m sc = (tr, m', o) /\ du m' = du m /\
                  Forall (fun x => du x = du m) tr /\ (o = Done -> vw m' = fold_stmts (vw m) sc).
Proof.
  induction sc as [|q sc IH]; intros m; cbn [run_tx fold_stmts].
  - exists [], m, Done. auto.
  - destruct (s_exec O (ms_st m) q) as [r s1] eqn:Ex.
    destruct (exec_spec m q r s1 Ex) as [_ [Ev Ed]].
    destruct (sres_err r) as [e|].
    + exists [], (set_st m s1), (Raised e). rewrite du_set_st. repeat split; auto. discriminate.
    + set (m1 := set_st m s1). assert (D1 : du m1 = du m) by exact Ed. assert (V1 : vw m1 = snd (apply_stmt (vw m) q)) by exact Ev.
      destruct (IH m1) as [tr [m' [o [E [D [F V]]]]]]. rewrite E.
      exists (m1 :: tr), m', o. split; [reflexivity|]. split; [congruence|]. split.
      * constructor; [exact D1|]. eapply Forall_impl; [|exact F]. cbn. intros; congruence.
      * intros Ho. rewrite (V Ho), V1. reflexivity.
Qed.

(* at every kill instant the published content is the old one, except after the final COMMIT, where it is
   the old one with every statement applied; a failing statement publishes nothing *)
Theorem atomic_script_l : forall sc m,
  exists tr m' o,
    run_atomic O m sc = (tr, m', o) /\
    (o = Done ->
       du m' = fold_stmts (vw m) sc /\ vw m' = fold_stmts (vw m) sc /\
       exists tr0, tr = tr0 ++ [m'] /\ Forall (fun x => du x = vw m) tr0) /\
    (o <> Done -> Forall (fun x => du x = vw m) tr /\ du m' = vw m).
Proof.
  intros sc m. unfold run_atomic.
  destruct (real_commit_spec m) as [V0 [D0 _]]. set (m0 := real_commit O m) in *.
  destruct (run_tx_spec sc m0) as [tr [m1 [o [E [D [F V]]]]]]. rewrite E.
  assert (F' : Forall (fun x => du x = vw m) tr).
  { eapply Forall_impl; [|exact F]. cbn. intros; congruence. }
  destruct o as [|e].
  - destruct (real_commit_spec m1) as [V2 [D2 _]]. set (m2 := real_commit O m1) in *.
    exists (m0 :: tr ++ [m2]), m2, Done. split; [reflexivity|]. split; [|intros H; congruence].
    intros _. specialize (V eq_refl). rewrite V0 in V.
    split; [congruence|]. split; [congruence|].
    exists (m0 :: tr). split; [reflexivity|]. constructor; [exact D0|exact F'].
  - exists (m0 :: tr), m1, (Raised e). split; [reflexivity|]. split; [discriminate|].
    intros _. split; [constructor; [exact D0|exact F']|congruence].
Qed.

End Crash.
