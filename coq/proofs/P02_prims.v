(* Round-trip lemmas for the leaf encoders of the wire model. *)
From Coq Require Import ZArith List Bool Lia ZifyBool Arith.
From IPV8V Require Import lib.PyErr lib.Bytes lib.BE model.M02_wire.
Import ListNotations.
Open Scope Z_scope.

Lemma skipn_app_exact {A} (a b : list A) : skipn (length a) (a ++ b) = b.
Proof. induction a as [|x a IH]; simpl; auto. Qed.

Lemma firstn_app_exact {A} (a b : list A) : firstn (length a) (a ++ b) = a.
Proof. induction a as [|x a IH]; simpl; [destruct b; reflexivity|]. rewrite IH. reflexivity. Qed.

Lemma skipn_app_plus {A} (a b : list A) k : skipn (length a + k) (a ++ b) = skipn k b.
Proof. induction a as [|x a IH]; simpl; auto. Qed.

Lemma firstn_len_app {A} (a b : list A) n : n = length a -> firstn n (a ++ b) = a.
Proof. intros ->. apply firstn_app_exact. Qed.

Lemma skipn_len_app {A} (a b : list A) n : n = length a -> skipn n (a ++ b) = b.
Proof. intros ->. apply skipn_app_exact. Qed.

(* take n at the end of a prefix returns the next n bytes *)
Lemma take_here n (pre a rest : bytes) :
  length a = n -> take n (length pre) (pre ++ a ++ rest) = Ok a.
Proof.
  intros H. unfold take. rewrite !app_length.
  destruct (length pre + n <=? length pre + (length a + length rest))%nat eqn:E.
  - rewrite skipn_app_exact. rewrite firstn_len_app by (symmetry; exact H). reflexivity.
  - apply Nat.leb_gt in E. lia.
Qed.

Lemma take_at n k (pre a b rest : bytes) :
  length a = k -> length b = n -> take n (length pre + k) (pre ++ a ++ b ++ rest) = Ok b.
Proof.
  intros Ha Hb. replace (pre ++ a ++ b ++ rest) with ((pre ++ a) ++ b ++ rest) by (rewrite <- app_assoc; reflexivity).
  replace (length pre + k)%nat with (length (pre ++ a)) by (rewrite app_length; lia).
  apply take_here. exact Hb.
Qed.

Lemma bytes_okb_ok l : bytes_okb l = true -> bytes_ok l.
Proof.
  unfold bytes_okb, bytes_ok. induction l as [|x l IH]; simpl; intros H; constructor.
  - apply andb_true_iff in H as [H _]. unfold is_byte in H. lia.
  - apply IH. apply andb_true_iff in H as [_ H]. exact H.
Qed.

Lemma pow256_pos w : 0 < 256 ^ Z.of_nat w.
Proof. apply Z.pow_pos_nonneg; lia. Qed.

Lemma of_signed_range w z : (0 < w)%nat ->
  - (256 ^ Z.of_nat w / 2) <= z < 256 ^ Z.of_nat w / 2 -> 0 <= of_signed w z < 256 ^ Z.of_nat w.
Proof.
  intros Hw Hz. unfold of_signed.
  assert (Hp : 256 ^ Z.of_nat w = 2 * (256 ^ Z.of_nat w / 2)).
  { destruct w as [|w]; [lia|]. rewrite Nat2Z.inj_succ, Z.pow_succ_r by lia.
    replace (256 * 256 ^ Z.of_nat w) with ((128 * 256 ^ Z.of_nat w) * 2) by lia.
    rewrite Z.div_mul by lia. lia. }
  destruct (z <? 0) eqn:E; lia.
Qed.

Lemma prim_roundtrip p v bs :
  prim_wf p = true -> penc p v = Ok bs -> length bs = psize p /\ pdec p bs = v.
Proof.
  intros Hwf H. unfold penc in H. destruct (prim_ok p v) eqn:Hok; cbn [negb] in H; [|discriminate].
  destruct p as [w|w| | |w|n]; destruct v; try discriminate; cbn [prim_ok] in Hok; cbn [psize pdec].
  - inversion H; subst. split; [apply be_encode_length|]. f_equal. apply be_decode_encode. unfold in_range in Hok. lia.
  - inversion H; subst. split; [apply be_encode_length|]. f_equal.
    unfold in_range in Hok. cbn [prim_wf] in Hwf.
    rewrite be_decode_encode by (apply of_signed_range; lia). apply to_of_signed; lia.
  - inversion H; subst. split; [reflexivity|]. destruct b; reflexivity.
  - destruct b as [|c [|? ?]]; try discriminate. inversion H; subst. split; reflexivity.
  - inversion H; subst. split; [apply be_encode_length|]. f_equal. apply be_decode_encode. unfold in_range in Hok. lia.
  - inversion H; subst. apply andb_true_iff in Hok as [Hl _]. apply Nat.eqb_eq in Hl. split; [exact Hl|reflexivity].
Qed.

Lemma struct_roundtrip ps : forall vs bs,
  forallb prim_wf ps = true -> struct_enc ps vs = Ok bs ->
  length bs = struct_size ps /\ struct_dec ps bs = vs.
Proof.
  induction ps as [|p ps IH]; intros vs bs Hwf H; destruct vs as [|v vs]; cbn [struct_enc] in H; try discriminate.
  - inversion H; subst. split; reflexivity.
  - cbn [forallb] in Hwf. apply andb_true_iff in Hwf as [Hp Hps].
    destruct (penc p v) as [a|] eqn:Ea; cbn [bind] in H; [|discriminate].
    destruct (struct_enc ps vs) as [b|] eqn:Eb; cbn [bind] in H; [|discriminate].
    inversion H; subst. destruct (prim_roundtrip p v a Hp Ea) as [La Da].
    destruct (IH vs b Hps Eb) as [Lb Db].
    cbn [struct_size fold_right struct_dec]. fold (struct_size ps). split.
    + rewrite app_length. lia.
    + rewrite firstn_len_app by (symmetry; exact La). rewrite skipn_len_app by (symmetry; exact La).
      rewrite Da, Db. reflexivity.
Qed.

Lemma struct_enc_length ps : forall vs bs, struct_enc ps vs = Ok bs -> length vs = length ps.
Proof.
  induction ps as [|p ps IH]; intros [|v vs] bs H; cbn [struct_enc] in H; try discriminate; [reflexivity|].
  destruct (penc p v); cbn [bind] in H; [|discriminate].
  destruct (struct_enc ps vs) eqn:E; cbn [bind] in H; [|discriminate].
  simpl. f_equal. eapply IH. exact E.
Qed.

(* bits: eight legal bit values *)
Lemma bits_roundtrip vs z :
  length vs = 8%nat -> forallb is_bit vs = true -> bits_enc vs 128 = Ok z ->
  0 <= z < 256 /\ map (bit_of z) [7; 6; 5; 4; 3; 2; 1; 0] = vs.
Proof.
  intros Hl Hb H.
  do 9 (destruct vs as [|? vs]; try discriminate Hl).
  cbn [forallb] in Hb.
  repeat match goal with
  | H : _ && _ = true |- _ => apply andb_true_iff in H as [? ?]
  end.
  repeat match goal with
  | H : is_bit ?v = true |- _ =>
      destruct v; try discriminate H; cbn [is_bit] in H;
      apply orb_true_iff in H as [H|H]; apply Z.eqb_eq in H; subst
  end; vm_compute in H; inversion H; subst; split; try lia; reflexivity.
Qed.

Lemma le_roundtrip w z : 0 <= z < 256 ^ Z.of_nat w -> le_decode (le_encode w z) = z.
Proof. intros H. unfold le_decode, le_encode. rewrite rev_involutive. apply be_decode_encode. exact H. Qed.

Lemma le_encode_length w z : length (le_encode w z) = w.
Proof. unfold le_encode. rewrite rev_length. apply be_encode_length. Qed.

Lemma aelem_roundtrip e v bs :
  aelem e = true -> aenc e v = Ok bs -> length bs = psize e /\ adec e bs = v.
Proof.
  intros Hwf H. unfold aenc in H. destruct (prim_ok e v) eqn:Hok; cbn [negb] in H; [|discriminate].
  destruct e as [w|w| | |w|n]; destruct v; try discriminate; cbn [prim_ok] in Hok; cbn [psize adec aelem] in *.
  - inversion H; subst. split; [apply le_encode_length|]. f_equal. apply le_roundtrip. unfold in_range in Hok. lia.
  - inversion H; subst. split; [apply le_encode_length|]. f_equal. unfold in_range in Hok.
    rewrite le_roundtrip by (apply of_signed_range; lia). apply to_of_signed; lia.
  - inversion H; subst. split; [reflexivity|]. destruct b; reflexivity.
  - inversion H; subst. split; [apply le_encode_length|]. f_equal. apply le_roundtrip. unfold in_range in Hok. lia.
Qed.

Lemma array_roundtrip e : aelem e = true -> forall vs body,
  concat_res (map (aenc e) vs) = Ok body ->
  length body = (length vs * psize e)%nat /\ map (adec e) (chunks (psize e) (length vs) body) = vs.
Proof.
  intros He. induction vs as [|v vs IH]; intros body H; cbn [map concat_res] in H.
  - inversion H; subst. split; reflexivity.
  - destruct (aenc e v) as [a|] eqn:Ea; cbn [bind] in H; [|discriminate].
    destruct (concat_res (map (aenc e) vs)) as [b|] eqn:Eb; cbn [bind] in H; [|discriminate].
    inversion H; subst. destruct (aelem_roundtrip e v a He Ea) as [La Da]. destruct (IH b eq_refl) as [Lb Db].
    cbn [length chunks map]. split.
    + rewrite app_length. lia.
    + rewrite firstn_len_app by (symmetry; exact La). rewrite skipn_len_app by (symmetry; exact La).
      rewrite Da, Db. reflexivity.
Qed.
