(* C14 (extension) - the functions generated from ipv8/dht/routing.py (gen/G14_routing.v) compute exactly
   what the hand model model/M14_routing.v computes.  The proofs go through generic facts about the
   combinators of model/M14_routing_gen.v and never mention the names bound inside the generated terms. *)
From Coq Require Import ZArith List Bool Arith Lia ZifyBool Permutation.
From IPV8V Require Import lib.PyErr model.M14_routing model.M14_routing_gen gen.G14_routing spec.S14_kademlia
  proofs.P14_bits proofs.P14_trie proofs.P14_bucket proofs.P14_table proofs.P14_closest proofs.P14_main.
Import ListNotations.
Open Scope Z_scope.

(* ------------------------------------------------------------------ integers and strings *)
Lemma Z_to_bits_bval l : Z_to_bits (length l) (bval l) = l.
Proof.
  apply bval_inj.
  - apply Z_to_bits_length.
  - apply bval_Z_to_bits. apply bval_range.
Qed.

Lemma py_format_bin_id W i : (0 < W)%nat -> length i = W -> py_format_bin W (py_int_hex i) = Ok i.
Proof.
  intros HW L. unfold py_format_bin, py_int_hex. rewrite bitsZ_bval.
  pose proof (bval_range i) as R. rewrite L in R.
  replace (bval i <? 0) with false by lia.
  replace (Nat.max W (Z.to_nat (Z.log2 (bval i) + 1))) with W.
  - rewrite <- L. f_equal. apply Z_to_bits_bval.
  - destruct (Z.eq_dec (bval i) 0) as [E|NE].
    + rewrite E. cbn. lia.
    + assert (Z.log2 (bval i) < Z.of_nat W) by (apply Z.log2_lt_pow2; lia).
      pose proof (Z.log2_nonneg (bval i)). lia.
Qed.

(* ------------------------------------------------------------------ for_each *)
Lemma for_each_fold {S A} (Inv : S -> Prop) (f : S -> A -> S) body (l : list A) : forall s,
  Inv s ->
  (forall s x, Inv s -> In x l -> body s x = Ok (f s x, false) /\ Inv (f s x)) ->
  for_each body l s = Ok (fold_left f l s) /\ Inv (fold_left f l s).
Proof.
  induction l as [|x l IH]; intros s I H; cbn [for_each fold_left]; [auto|].
  destruct (H s x I (or_introl eq_refl)) as [E I']. rewrite E. cbn [bind snd fst].
  apply IH; auto. intros s' y Is' Hy. apply H; auto. right. exact Hy.
Qed.

Lemma for_each_fold' {S A} (f : S -> A -> S) body (l : list A) s :
  (forall s x, In x l -> body s x = Ok (f s x, false)) -> for_each body l s = Ok (fold_left f l s).
Proof.
  intros H. apply (for_each_fold (fun _ => True) f body l s I). intros s' x _ Hx. split; [apply H; exact Hx | exact I].
Qed.

Lemma filterM_filter {A} (f : A -> res bool) (g : A -> bool) l :
  (forall x, In x l -> f x = Ok (g x)) -> filterM f l = Ok (filter g l).
Proof.
  induction l as [|x l IH]; intros H; cbn [filterM filter]; [reflexivity|].
  rewrite (H x (or_introl eq_refl)). cbn [bind]. rewrite IH by (intros y Hy; apply H; right; exact Hy).
  cbn [bind]. reflexivity.
Qed.

(* ------------------------------------------------------------------ dict facts *)
Lemma dict_remove_app_notin k l1 l2 :
  ~ In k (map nid l1) -> dict_remove k (l1 ++ l2) = l1 ++ dict_remove k l2.
Proof.
  induction l1 as [|m l1 IH]; intros N; cbn [app dict_remove]; [reflexivity|].
  cbn in N. destruct (bits_eqb (nid m) k) eqn:E.
  - apply bits_eqb_eq in E. tauto.
  - rewrite IH by tauto. reflexivity.
Qed.

Lemma dict_remove_head x l : dict_remove (nid x) (x :: l) = l.
Proof. cbn. rewrite bits_eqb_refl. reflexivity. Qed.

Lemma has_id_app k l1 l2 : has_id k (l1 ++ l2) = has_id k l1 || has_id k l2.
Proof.
  destruct (has_id k (l1 ++ l2)) eqn:E.
  - apply has_id_true in E. rewrite map_app, in_app_iff in E. symmetry. apply orb_true_iff.
    destruct E as [E|E]; [left|right]; apply has_id_true; exact E.
  - apply has_id_false in E. rewrite map_app, in_app_iff in E. symmetry. apply orb_false_iff.
    split; apply has_id_false; tauto.
Qed.

Lemma has_id_head x l : has_id (nid x) (x :: l) = true.
Proof. apply has_id_true. left. reflexivity. Qed.

(* the first node satisfying P is popped by its id: with unique ids that is remove_first *)
Lemma loop_pop_first (P : node -> bool) (body : bucket -> node -> res (bucket * bool)) pfx l2 : forall l1,
  (forall b x, body b x = if P x then (do d <- dict_pop (bnodes b) (nid x); Ok (mkBucket (bprefix b) d, true))
                          else Ok (b, false)) ->
  NoDup (map nid (l1 ++ l2)) ->
  for_each body l2 (mkBucket pfx (l1 ++ l2)) = Ok (mkBucket pfx (l1 ++ remove_first P l2)).
Proof.
  induction l2 as [|x l2 IH]; intros l1 H N; cbn [for_each remove_first]; [reflexivity|].
  rewrite H. destruct (P x) eqn:Px.
  - cbn [bnodes bprefix]. unfold dict_pop. rewrite has_id_app, has_id_head, orb_true_r.
    rewrite dict_remove_app_notin, dict_remove_head; [reflexivity|].
    rewrite map_app in N. cbn [map] in N. apply NoDup_remove_2 in N. intros Hin. apply N. apply in_app_iff. auto.
  - cbn [bind snd fst].
    replace (l1 ++ x :: l2) with ((l1 ++ [x]) ++ l2) by (rewrite <- app_assoc; reflexivity).
    replace (l1 ++ x :: remove_first P l2) with ((l1 ++ [x]) ++ remove_first P l2) by (rewrite <- app_assoc; reflexivity).
    apply IH; [exact H|]. rewrite <- app_assoc. exact N.
Qed.

Lemma dict_store_set_addr d k a cur :
  NoDup (map nid d) -> find_node k d = Some cur ->
  dict_store d (mkNode (nid cur) (ntag cur) a (nrtt cur) (nfailed cur)) = set_addr k a d.
Proof.
  intros N F. apply find_node_some in F as [Hin Ek]. unfold dict_store, set_addr. cbn [nid].
  apply map_ext_in. intros m Hm. rewrite Ek.
  destruct (bits_eqb (nid m) k) eqn:E; [|reflexivity].
  apply bits_eqb_eq in E. assert (m = cur) by (eapply same_id_same_node; eauto; congruence). subst. reflexivity.
Qed.

Lemma has_id_remove_first k f l : has_id k l = false -> has_id k (remove_first f l) = false.
Proof.
  intros H. apply has_id_false. apply has_id_false in H. intros Hi. apply H. eapply remove_first_ids_incl; eauto.
Qed.


(* for k, x in list(d.items()): if bad(x): d.pop(k, None); removed.append(x) *)
Lemma loop_drop (P : node -> bool) (body : bucket * list node -> bits * node -> res ((bucket * list node) * bool)) pfx l2 :
  forall l1 r,
  (forall b r x, body (b, r) (nid x, x) =
                 Ok (if P x then (mkBucket (bprefix b) (dict_pop_default (bnodes b) (nid x)), r ++ [x]) else (b, r), false)) ->
  NoDup (map nid (l1 ++ l2)) ->
  for_each body (map (fun n => (nid n, n)) l2) (mkBucket pfx (l1 ++ l2), r)
  = Ok (mkBucket pfx (l1 ++ filter (fun n => negb (P n)) l2), r ++ filter P l2).
Proof.
  induction l2 as [|x l2 IH]; intros l1 r H N; cbn [map for_each filter]; [rewrite !app_nil_r; reflexivity|].
  rewrite H. cbn [bind snd fst]. destruct (P x) eqn:Px; cbn [negb bprefix bnodes].
  - unfold dict_pop_default. rewrite dict_remove_app_notin, dict_remove_head.
    + rewrite IH; [rewrite <- app_assoc; reflexivity | exact H |].
      rewrite map_app in N |- *. cbn [map] in N. eapply NoDup_remove_1; eauto.
    + rewrite map_app in N. cbn [map] in N. apply NoDup_remove_2 in N. intros Hin. apply N. apply in_app_iff. auto.
  - replace (l1 ++ x :: l2) with ((l1 ++ [x]) ++ l2) by (rewrite <- app_assoc; reflexivity).
    rewrite IH; [rewrite <- app_assoc; reflexivity | exact H | rewrite <- app_assoc; exact N].
Qed.

Lemma trie_for_values_map (g : bucket -> bucket) (h : bucket -> list node)
      (body : list node -> bucket -> res (list node * bucket)) t : forall s,
  (forall s b, In b (tvalues t) -> body s b = Ok (s ++ h b, g b)) ->
  trie_for_values body t s = Ok (tmap g t, s ++ flat_map h (tvalues t)).
Proof.
  induction t as [|v c0 IH0 c1 IH1]; intros s H; cbn [trie_for_values tmap tvalues flat_map].
  - rewrite app_nil_r. reflexivity.
  - assert (H0 : forall s b, In b (tvalues c0) -> body s b = Ok (s ++ h b, g b)).
    { intros s' b Hb. apply H. cbn [tvalues]. rewrite !in_app_iff. auto. }
    assert (H1 : forall s b, In b (tvalues c1) -> body s b = Ok (s ++ h b, g b)).
    { intros s' b Hb. apply H. cbn [tvalues]. rewrite !in_app_iff. auto. }
    destruct v as [b|].
    + rewrite H by (cbn [tvalues]; left; reflexivity). cbn [bind fst snd option_map].
      rewrite IH0 by exact H0. cbn [bind fst snd]. rewrite IH1 by exact H1. cbn [bind fst snd app].
      cbn [flat_map]. rewrite flat_map_app, <- !app_assoc. reflexivity.
    + cbn [bind fst snd option_map]. rewrite IH0 by exact H0. cbn [bind fst snd]. rewrite IH1 by exact H1.
      cbn [bind fst snd app]. rewrite flat_map_app, <- !app_assoc. reflexivity.
Qed.


(* ------------------------------------------------------------------ closest_nodes: loops and sort *)
Lemma union_app a l1 l2 : union a (l1 ++ l2) = union (union a l1) l2.
Proof. unfold union. apply fold_left_app. Qed.

Lemma mapM_ok_map {A B} (f : A -> res B) (g : A -> B) l : (forall x, In x l -> f x = Ok (g x)) -> mapM f l = Ok (map g l).
Proof.
  induction l as [|x l IH]; intros H; cbn [mapM map]; [reflexivity|].
  rewrite (H x (or_introl eq_refl)). cbn [bind]. rewrite IH by (intros y Hy; apply H; right; exact Hy). reflexivity.
Qed.

(* for suffix in suffixes: bucket = trie[key + suffix]; nodes |= live nodes of bucket *)
Lemma inner_loop (g : bits -> res bucket) (kf : bits -> bits) (LIVE : node -> res bool) (lv : node -> bool)
      (body : list node -> bits -> res (list node * bool)) ks : forall vs acc,
  mapM g ks = Ok vs ->
  (forall a s, body a s = bind (do b <- g s; Ok (kf s, b))
                               (fun br => bind (filterM LIVE (bnodes (snd br))) (fun l => Ok (union a l, false)))) ->
  (forall l, filterM LIVE l = Ok (filter lv l)) ->
  for_each body ks acc = Ok (union acc (filter lv (flat_map bnodes vs))).
Proof.
  induction ks as [|s ks IH]; intros vs acc M H F; cbn [mapM for_each] in *.
  - injection M as <-. reflexivity.
  - destruct (g s) as [b|] eqn:G; cbn [bind] in M; [|discriminate].
    destruct (mapM g ks) as [vs'|] eqn:M'; cbn [bind] in M; [|discriminate]. injection M as <-.
    rewrite H, G. cbn [bind snd]. rewrite F. cbn [bind snd fst].
    rewrite (IH vs' _ eq_refl H F). cbn [flat_map]. rewrite filter_app, union_app. reflexivity.
Qed.

Lemma rev_range n : rev (py_range (Z.of_nat n + 1)) = Z.of_nat n :: rev (py_range (Z.of_nat n)).
Proof.
  unfold py_range. replace (Z.to_nat (Z.of_nat n + 1)) with (Datatypes.S n) by lia. rewrite Nat2Z.id.
  rewrite seq_S. cbn [plus]. rewrite map_app, rev_app_distr. reflexivity.
Qed.

Lemma py_slice_to_nat {A} (l : list A) k : py_slice_to l (Z.of_nat k) = firstn k l.
Proof. unfold py_slice_to. replace (Z.of_nat k <? 0) with false by lia. rewrite Nat2Z.id. reflexivity. Qed.

(* for i in reversed(range(len(prefix) + 1)): <collect level i>; if len(nodes) > max_nodes: break *)
Lemma outer_loop t prefix excl k (lv : node -> bool) (body : list node -> Z -> res (list node * bool)) :
  lv = live excl ->
  (forall acc i, body acc (Z.of_nat i) =
                 do bs <- under t (firstn i prefix);
                 Ok (union acc (filter lv (flat_map bnodes bs)),
                     (k <? length (union acc (filter lv (flat_map bnodes bs))))%nat)) ->
  forall i acc, for_each body (rev (py_range (Z.of_nat i + 1))) acc = walk t prefix excl k i acc.
Proof.
  intros -> H. induction i as [|i IH]; intros acc; rewrite rev_range; cbn [for_each walk]; rewrite H.
  - destruct (under t (firstn 0 prefix)) as [bs|]; cbn [bind snd fst]; [|reflexivity].
    destruct (_ <? _)%nat; reflexivity.
  - destruct (under t (firstn (Datatypes.S i) prefix)) as [bs|]; cbn [bind snd fst]; [|reflexivity].
    destruct (_ <? _)%nat; [reflexivity|].
    replace (Z.of_nat (Datatypes.S i)) with (Z.of_nat i + 1) in IH |- * by lia. 
    rewrite <- IH. f_equal. f_equal. f_equal. lia.
Qed.

(* sorting by (distance, status) is sorting by distance when no two distances coincide *)
Definition proj2 (x : (Z * Z) * node) : Z * node := (fst (fst x), snd x).

Lemma insert_key2_proj x l :
  (forall h, In h l -> fst (fst h) <> fst (fst x)) ->
  map proj2 (insert_key2 x l) = insert_key (proj2 x) (map proj2 l).
Proof.
  induction l as [|h l IH]; intros D; cbn [insert_key2 insert_key map]; [reflexivity|].
  assert (Dh : fst (fst h) <> fst (fst x)) by (apply D; left; reflexivity).
  unfold key2_le. cbn [proj2 fst].
  replace ((fst (fst x) <? fst (fst h)) || (fst (fst x) =? fst (fst h)) && (snd (fst x) <=? snd (fst h)))
    with (fst (fst x) <=? fst (fst h)) by lia.
  destruct (fst (fst x) <=? fst (fst h)); cbn [map]; [reflexivity|].
  rewrite IH; [reflexivity|]. intros y Hy. apply D. right. exact Hy.
Qed.

Lemma in_sorted2 l : forall h, In h (fold_right insert_key2 [] l) -> In h l.
Proof.
  induction l as [|x l IH]; intros h H; cbn [fold_right] in H; [exact H|].
  assert (G : forall m, In h (insert_key2 x m) -> h = x \/ In h m).
  { induction m as [|y m IHm]; cbn [insert_key2]; intros Hm.
    - destruct Hm as [<-|[]]. auto.
    - destruct (key2_le (fst x) (fst y)).
      + destruct Hm as [<-|Hm]; auto.
      + destruct Hm as [<-|Hm]; [right; left; reflexivity|]. apply IHm in Hm. destruct Hm; [auto | right; right; assumption]. }
  apply G in H. destruct H as [->|H]; [left; reflexivity | right; apply IH; exact H].
Qed.

Lemma sorted2_proj l :
  NoDup (map (fun x => fst (fst x)) l) ->
  map proj2 (fold_right insert_key2 [] l) = fold_right insert_key [] (map proj2 l).
Proof.
  induction l as [|x l IH]; intros N; cbn [fold_right map]; [reflexivity|].
  cbn [map] in N. inversion N as [|? ? Hx N']; subst.
  rewrite insert_key2_proj.
  - rewrite IH by exact N'. reflexivity.
  - intros h Hh E. apply in_sorted2 in Hh. apply Hx. rewrite <- E. apply (in_map (fun x => fst (fst x))). exact Hh.
Qed.

Lemma sorted_by_eq target (KEY : node -> res (Z * Z)) (st : node -> Z) ns :
  (forall n, KEY n = Ok (dist (nid n) target, st n)) ->
  NoDup (map (fun n => dist (nid n) target) ns) ->
  py_sorted_by KEY ns = Ok (sort_by_dist target ns).
Proof.
  intros HK N. unfold py_sorted_by, sort_by_dist.
  rewrite (mapM_ok_map _ (fun n => ((dist (nid n) target, st n), n))) by (intros n _; rewrite HK; reflexivity).
  cbn [bind]. f_equal.
  replace (map snd (fold_right insert_key2 [] (map (fun n => (dist (nid n) target, st n, n)) ns)))
    with (map snd (map proj2 (fold_right insert_key2 [] (map (fun n => (dist (nid n) target, st n, n)) ns))))
    by (rewrite map_map; reflexivity).
  rewrite sorted2_proj.
  - rewrite map_map. reflexivity.
  - rewrite map_map. exact N.
Qed.

(* ------------------------------------------------------------------ the generated functions *)
Section GenFacts.
Variable W : nat.
Variable cap : nat.
Variable rt_now : Z.
Variable rt_last_response rt_last_query : node -> Z.
Variable rt_randint : Z -> Z -> Z.
Hypothesis W_pos : (0 < W)%nat.

Notation G_status := (G_Node_status rt_now rt_last_response rt_last_query).
Notation G_owns := (G_Bucket_owns W).
Notation G_badd := (G_Bucket_add W cap rt_now rt_last_response rt_last_query).
Notation G_bsplit := (G_Bucket_split W cap rt_now rt_last_response rt_last_query).

Lemma G_id_to_binary_string_eq i : length i = W -> G_id_to_binary_string W i = Ok i.
Proof. intros L. unfold G_id_to_binary_string. rewrite py_format_bin_id by assumption. reflexivity. Qed.

Lemma G_distance_eq a b : G_distance a b = Ok (dist a b).
Proof. reflexivity. Qed.

(* Node.status never raises and is BAD exactly when failed >= 2 *)
Lemma G_status_bad n : exists s, G_status n = Ok s /\ (s =? G_NODE_STATUS_BAD) = is_bad n.
Proof.
  unfold G_Node_status, is_bad. cbv zeta.
  destruct (nfailed n >=? 2) eqn:E.
  - eexists. split; [reflexivity|]. cbn. lia.
  - match goal with |- context [if ?c then _ else _] => destruct c end;
      (eexists; split; [reflexivity|]; cbn; lia).
Qed.

Lemma G_owns_eq b i : length i = W -> G_owns b i = Ok (owns b i).
Proof. intros L. unfold G_Bucket_owns. rewrite G_id_to_binary_string_eq by assumption. reflexivity. Qed.

Lemma G_get_eq b i : G_Bucket_get b i = Ok (find_node i (bnodes b)).
Proof. reflexivity. Qed.

Lemma slow_cond n x :
  pand (Ok (negb (nrtt n =? 0))) (py_truediv_ge (nrtt x) (nrtt n) 2) = Ok (slow n x).
Proof.
  unfold slow, py_truediv_ge, pand. cbn [bind]. destruct (nrtt n =? 0) eqn:E; cbn [negb andb]; [reflexivity|].
  reflexivity.
Qed.

Lemma G_badd_eq b n :
  length (nid n) = W -> NoDup (map nid (bnodes b)) -> G_badd b n = Ok (badd cap b n).
Proof.
  intros L N. unfold G_Bucket_add, badd. rewrite G_owns_eq by assumption. cbn [bind].
  destruct (owns b (nid n)) eqn:O; cbn [negb]; [|reflexivity]. cbv zeta.
  unfold dict_contains. destruct (has_id (nid n) (bnodes b)) eqn:Hid.
  - unfold dict_getitem. unfold has_id in Hid. destruct (find_node (nid n) (bnodes b)) as [cur|] eqn:F; [|discriminate].
    cbn [bind bprefix bnodes]. rewrite (dict_store_set_addr _ (nid n)) by assumption. reflexivity.
  - destruct b as [pfx nodes]. cbn [bnodes bprefix] in *.
    assert (C1 : (Z.of_nat (length nodes) >=? Z.of_nat cap) = (cap <=? length nodes)%nat) by lia.
    rewrite C1. destruct (cap <=? length nodes)%nat eqn:Full.
    + (* two eviction loops *)
      erewrite (loop_pop_first is_bad _ pfx nodes []); cycle 1.
      { intros b x. destruct (G_status_bad x) as (s & E & Hs). rewrite E. cbn [bind]. rewrite Hs. reflexivity. }
      { exact N. }
      cbn [bind app].
      erewrite (loop_pop_first (slow n) _ pfx (remove_first is_bad nodes) []); cycle 1.
      { intros b x. rewrite slow_cond. cbn [bind]. reflexivity. }
      { cbn [app]. apply remove_first_NoDup. exact N. }
      cbn [bind app bnodes bprefix].
      set (ns := remove_first (slow n) (remove_first is_bad nodes)).
      assert (C2 : (Z.of_nat (length ns) <? Z.of_nat cap) = (length ns <? cap)%nat) by lia.
      rewrite C2. destruct (length ns <? cap)%nat; [|reflexivity].
      unfold dict_setitem. cbn [bnodes bprefix]. unfold ns. rewrite has_id_remove_first by (apply has_id_remove_first; exact Hid). reflexivity.
    + cbn [bind bnodes bprefix].
      assert (C2 : (Z.of_nat (length nodes) <? Z.of_nat cap) = (length nodes <? cap)%nat) by lia.
      rewrite C2. destruct (length nodes <? cap)%nat; [|reflexivity].
      unfold dict_setitem. cbn [bnodes bprefix]. rewrite Hid. reflexivity.
Qed.

Lemma G_bsplit_eq p b :
  bucket_ok W cap p b -> (length p < W)%nat -> G_bsplit b = Ok (bsplit cap b).
Proof.
  intros OK Lp. pose proof OK as (P & L & C & N & F). unfold G_Bucket_split, bsplit. cbv zeta.
  assert (C1 : (Z.of_nat (length (bnodes b)) <? Z.of_nat cap) = (length (bnodes b) <? cap)%nat) by lia.
  rewrite C1. destruct (length (bnodes b) <? cap)%nat; [reflexivity|].
  rewrite P.
  set (Inv := fun bb : bucket * bucket => bucket_ok W cap (p ++ [false]) (fst bb) /\ bucket_ok W cap (p ++ [true]) (snd bb)).
  match goal with |- bind (for_each ?body _ ?s0) _ = _ =>
    destruct (for_each_fold Inv (split_step cap) body (bnodes b) s0) as [E _] end.
  - split; cbn [fst snd]; apply bucket_ok_empty; rewrite app_length; cbn; lia.
  - intros [b0 b1] x [I0 I1] Hx. cbn [fst snd] in I0, I1.
    assert (Lx : length (nid x) = W).
    { rewrite Forall_forall in F. apply (F (nid x)). apply in_map. exact Hx. }
    split.
    + rewrite (G_owns_eq b0) by exact Lx. cbn [bind]. unfold split_step.
      destruct I0 as (_ & _ & _ & N0 & _). destruct I1 as (_ & _ & _ & N1 & _).
      destruct (owns b0 (nid x)).
      * rewrite (G_badd_eq b0 x Lx N0). cbn [bind fst]. reflexivity.
      * rewrite (G_owns_eq b1) by exact Lx. cbn [bind]. destruct (owns b1 (nid x)).
        -- rewrite (G_badd_eq b1 x Lx N1). cbn [bind fst]. reflexivity.
        -- reflexivity.
    + destruct (split_step_ok W cap p (b0, b1) x I0 I1 Lx) as [Q0 Q1]. split; assumption.
  - rewrite E. cbn [bind]. destruct (fold_left _ _ _) as [c0 c1]. reflexivity.
Qed.

Lemma G_get_bucket_eq me t i :
  length i = W -> G_RoutingTable_get_bucket W (mkRT me t) i = find_bucket t i.
Proof.
  intros L. unfold G_RoutingTable_get_bucket, find_bucket, trie_lpv_ref, trie_getitem_ref.
  rewrite G_id_to_binary_string_eq by exact L. cbn [bind tr].
  destruct (lpi t i) as [kb|]; [reflexivity|]. destruct (tget t []); reflexivity.
Qed.

Notation G_add := (G_RoutingTable_add W cap rt_now rt_last_response rt_last_query).

Lemma G_add_eq me : length me = W -> (0 < cap)%nat -> forall fuel t n,
  wf W cap me [] t -> length (nid n) = W ->
  G_add fuel (mkRT me t) n = rt_add_fuel cap fuel (mkRT me t) n.
Proof.
  intros Lme Hc. induction fuel as [|f IH]; intros t n H Ln; [reflexivity|].
  cbn [G_RoutingTable_add rt_add_fuel]. rewrite G_get_bucket_eq by exact Ln. cbn [tr own].
  destruct (find_bucket_wf W cap me t (nid n) H Ln) as (k & b & E & Sk & Fk & OK).
  rewrite E. cbn [bind snd fst].
  pose proof OK as (Pb & Lk0 & _ & Nb & _).
  rewrite (G_badd_eq b n Ln Nb). cbn [bind].
  destruct (badd cap b n) as [b' ok] eqn:B. cbn [fst snd tr own].
  assert (OK' : bucket_ok W cap k b') by (pose proof (badd_ok W cap k b n OK Ln) as Q; rewrite B in Q; exact Q).
  destruct ok; cbn [negb].
  - reflexivity.
  - rewrite (G_owns_eq b' me Lme). cbn [bind]. destruct (owns b' me) eqn:Om; [|reflexivity].
    assert (O : owns b (nid n) = true) by (unfold owns; rewrite Pb; exact Sk).
    destruct (badd_refused W cap k b n b' OK B O) as [Full _].
    assert (Lk : (length k < W)%nat).
    { destruct (Nat.eq_dec (length k) W) as [Eq|]; [|lia].
      pose proof (badd_full_depth W cap k b n OK Eq Ln O Hc) as Q. rewrite B in Q. discriminate. }
    rewrite (G_bsplit_eq k b' OK' Lk). cbn [bind].
    destruct (bsplit cap b') as [[b0 b1]|] eqn:Sp; [|reflexivity].
    cbn [tr own].
    destruct (tdel _ (bprefix b')) as [t4|e] eqn:D; cbn [bind]; [|reflexivity].
    apply IH; [|exact Ln].
    (* the table after the split is again well formed *)
    destruct (wf_tset_leaf W cap me k [] t b b' H Fk OK') as [W1 F1].
    destruct (bsplit_ok W cap k b' b0 b1 OK' Lk Sp) as [OK0 OK1].
    assert (Pk : bprefix b' = k) by (destruct OK' as (Q & _); exact Q).
    unfold owns in Om. rewrite Pk in *.
    destruct (wf_split W cap me k [] _ b' b0 b1 W1 F1 Om OK0 OK1) as (t4' & D' & W4 & _).
    unfold tdel in D. rewrite D' in D. destruct t4'; [destruct W4|]. injection D as <-. exact W4.
Qed.

Lemma G_remove_bad_eq me t :
  (forall b, In b (tvalues t) -> NoDup (map nid (bnodes b))) ->
  G_RoutingTable_remove_bad_nodes rt_now rt_last_response rt_last_query (mkRT me t) = Ok (rt_remove_bad (mkRT me t)).
Proof.
  intros N. unfold G_RoutingTable_remove_bad_nodes, rt_remove_bad. cbv zeta. cbn [tr own].
  erewrite (trie_for_values_map drop_bad (fun b => filter is_bad (bnodes b))).
  - cbn [bind fst snd app]. reflexivity.
  - intros s [pfx nodes] Hb. specialize (N _ Hb). cbn [bnodes] in N |- *.
    erewrite (loop_drop is_bad _ pfx nodes [] s); cycle 1.
    { intros b r x. destruct (G_status_bad x) as (st & E & Hs). rewrite E. cbn [bind]. rewrite Hs.
      destruct (is_bad x); reflexivity. }
    { exact N. }
    cbn [bind app]. reflexivity.
Qed.

Lemma G_get_eq' me t i :
  length i = W -> G_RoutingTable_get W (mkRT me t) i = rt_get (mkRT me t) i.
Proof.
  intros L. unfold G_RoutingTable_get, rt_get. rewrite G_get_bucket_eq by exact L. cbn [tr].
  destruct (find_bucket t i) as [kb|e]; reflexivity.
Qed.

Definition st_of (n : node) : Z := match G_status n with Ok s => s | Raise _ => 0 end.

Lemma live_cond excl x :
  pand (bind (G_status x) (fun s => Ok (negb (s =? G_NODE_STATUS_BAD))))
       (Ok (match excl with None => true | Some e => negb (bits_eqb (nid x) (nid e)) end))
  = Ok (live (option_map nid excl) x).
Proof.
  destruct (G_status_bad x) as (s & E & Hs). rewrite E. cbn [bind pand]. rewrite Hs. unfold live.
  destruct (is_bad x); cbn [negb andb]; [reflexivity|]. destruct excl; reflexivity.
Qed.

Lemma key_step target n :
  (do d <- G_distance (nid n) target; do s <- G_status n; Ok (d, s)) = Ok (dist (nid n) target, st_of n).
Proof.
  rewrite G_distance_eq. cbn [bind]. unfold st_of. destruct (G_status_bad n) as (s & Es & _). rewrite Es. reflexivity.
Qed.

(* one level of the outward walk, as the generated code does it *)
Lemma level_step t excl k q acc :
  (do s <- for_each
       (fun (a : list node) (sfx : bits) =>
          do br <- trie_getitem_ref t (q ++ sfx);
          do l <- filterM (fun x => pand (do st <- G_status x; Ok (negb (st =? G_NODE_STATUS_BAD)))
                                         (Ok (match excl with None => true | Some e => negb (bits_eqb (nid x) (nid e)) end)))
                          (bnodes (snd br));
          Ok (union a l, false))
       (suffixes t q) acc;
   if Z.of_nat (length s) >? Z.of_nat k then Ok (s, true) else Ok (s, false))
  = (do bs <- under t q;
     Ok (union acc (filter (live (option_map nid excl)) (flat_map bnodes bs)),
         (k <? length (union acc (filter (live (option_map nid excl)) (flat_map bnodes bs))))%nat)).
Proof.
  set (LIVE := fun x => pand (do st <- G_status x; Ok (negb (st =? G_NODE_STATUS_BAD)))
                             (Ok (match excl with None => true | Some e => negb (bits_eqb (nid x) (nid e)) end))).
  match goal with |- bind (for_each ?body _ _) _ = _ =>
    rewrite (inner_loop (fun s => tget t (q ++ s)) (fun s => q ++ s) LIVE (live (option_map nid excl)) body
                        (suffixes t q) (tvalues (tfind t q)) acc) end.
  - rewrite under_ok. cbn [bind].
    set (u := union acc _).
    replace (Z.of_nat (length u) >? Z.of_nat k) with (k <? length u)%nat by lia.
    destruct (k <? length u)%nat; reflexivity.
  - apply under_ok.
  - intros a s. unfold trie_getitem_ref. reflexivity.
  - intros l. apply filterM_filter. intros x _. apply live_cond.
Qed.

Lemma closest_tail me t target k excl pk pb
      (OUTER : list node -> Z -> res (list node * bool)) (KEY : node -> res (Z * Z)) :
  wf W cap me [] t -> length target = W -> tfind t pk = leaf pb -> starts_with pk target = true ->
  (forall acc i, OUTER acc (Z.of_nat i) =
                 do bs <- under t (firstn i pk);
                 Ok (union acc (filter (live (option_map nid excl)) (flat_map bnodes bs)),
                     (k <? length (union acc (filter (live (option_map nid excl)) (flat_map bnodes bs))))%nat)) ->
  (forall n, KEY n = Ok (dist (nid n) target, st_of n)) ->
  (do s <- for_each OUTER (rev (py_range (Z.of_nat (length pk) + 1))) [];
   do r <- (do l <- py_sorted_by KEY s; Ok (py_slice_to l (Z.of_nat k))); Ok r)
  = (do ns <- walk t pk (option_map nid excl) k (length pk) []; Ok (firstn k (sort_by_dist target ns))).
Proof.
  intros H L Fk Sk HO HK.
  rewrite (outer_loop t pk (option_map nid excl) k (live (option_map nid excl)) OUTER eq_refl HO).
  destruct (walk_spec W cap me t target (option_map nid excl) k H L pk pb Fk Sk (length pk) []) as (j & r & _ & Ew & Nr & Hr & _).
  { constructor. } { intros n []. }
  rewrite Ew. cbn [bind].
  rewrite (sorted_by_eq target KEY st_of r HK).
  - cbn [bind]. rewrite py_slice_to_nat. reflexivity.
  - apply NoDup_map_inj_on; [|eapply NoDup_of_map; exact Nr].
    intros a b Ha Hb Ed. apply dist_inj in Ed.
    + eapply same_id_same_node; eauto.
    + rewrite L. apply Hr in Ha. apply (S_in_U W cap me t _ H pk pb Fk j) in Ha. apply (wf_all_nodes W cap me t [] a H Ha).
    + rewrite L. apply Hr in Hb. apply (S_in_U W cap me t _ H pk pb Fk j) in Hb. apply (wf_all_nodes W cap me t [] b H Hb).
Qed.

Lemma G_closest_eq me t target k excl :
  wf W cap me [] t -> length target = W ->
  G_RoutingTable_closest_nodes W rt_now rt_last_response rt_last_query (mkRT me t) target (Z.of_nat k) excl
  = closest (mkRT me t) target k (option_map nid excl).
Proof.
  intros H L. unfold G_RoutingTable_closest_nodes, closest. cbn [tr].
  rewrite G_id_to_binary_string_eq by exact L. cbn [bind]. unfold trie_longest_prefix.
  destruct (find_bucket_wf W cap me t target H L) as (pk & pb & E & Sk & Fk & _).
  assert (Pfx : match lpi t target with Some (p, _) => p | None => [] end = pk).
  { unfold find_bucket in E. destruct (lpi t target) as [[p a]|].
    - injection E as -> _. reflexivity.
    - destruct (tget t []); cbn in E; [|discriminate]. injection E as <- _. reflexivity. }
  destruct (lpi t target) as [[p a]|]; cbv beta iota; cbn [bind]; cbv zeta; subst pk.
  - eapply closest_tail; eauto.
    + intros acc i. rewrite py_slice_to_nat. apply level_step.
    + intros n. apply key_step.
  - eapply closest_tail; eauto.
    + intros acc i. rewrite py_slice_to_nat. apply level_step.
    + intros n. apply key_step.
Qed.

(* Bucket.generate_id: prefix, then the drawn number as suffix *)
Lemma G_generate_id_eq b :
  (length (bprefix b) <= W)%nat ->
  0 <= rt_randint 0 (2 ^ Z.of_nat (W - length (bprefix b)) - 1) < 2 ^ Z.of_nat (W - length (bprefix b)) ->
  G_Bucket_generate_id W rt_randint b = Ok (gen_id W b (rt_randint 0 (2 ^ Z.of_nat (W - length (bprefix b)) - 1))).
Proof.
  intros Lp Hr. unfold G_Bucket_generate_id, gen_id. cbv zeta.
  set (s := (W - length (bprefix b))%nat) in *.
  replace (Z.of_nat W - Z.of_nat (length (bprefix b))) with (Z.of_nat s) by lia.
  set (r := rt_randint 0 (2 ^ Z.of_nat s - 1)) in *.
  assert (Suffix : (if negb (Z.of_nat s =? 0) then py_format_bin (Z.to_nat (Z.of_nat s)) r else Ok []) = Ok (Z_to_bits s r)).
  { destruct (Z.of_nat s =? 0) eqn:Es; cbn [negb].
    - assert (s = 0%nat) by lia. rewrite H. reflexivity.
    - rewrite Nat2Z.id. unfold py_format_bin. replace (r <? 0) with false by lia.
      replace (Nat.max s (Z.to_nat (Z.log2 r + 1))) with s; [reflexivity|].
      destruct (Z.eq_dec r 0) as [->|NE]; [cbn; lia|].
      assert (Z.log2 r < Z.of_nat s) by (apply Z.log2_lt_pow2; lia). pose proof (Z.log2_nonneg r). lia. }
  rewrite Suffix. cbn [bind].
  set (full := bprefix b ++ Z_to_bits s r).
  assert (Lf : length full = W) by (unfold full; rewrite app_length, Z_to_bits_length; lia).
  unfold py_int_bin. destruct full as [|x full'] eqn:Ef; [cbn in Lf; lia|]. rewrite <- Ef in *. cbn [bind].
  unfold py_id_of_int. rewrite bitsZ_bval. pose proof (bval_range full) as R. rewrite Lf in R.
  replace ((0 <=? bval full) && (bval full <? 2 ^ Z.of_nat W)) with true by lia.
  rewrite <- Lf at 1. rewrite Z_to_bits_bval. reflexivity.
Qed.

End GenFacts.

(* ------------------------------------------------------------------ final statements (props/C14x.v) *)
Section GenMain.
Variable W : nat.
Variable cap : nat.
Variable rt_now : Z.
Variable rt_last_response rt_last_query : node -> Z.
Variable rt_randint : Z -> Z -> Z.

Notation G_add := (G_RoutingTable_add W cap rt_now rt_last_response rt_last_query).
Notation G_remove_bad := (G_RoutingTable_remove_bad_nodes rt_now rt_last_response rt_last_query).
Notation G_closest := (G_RoutingTable_closest_nodes W rt_now rt_last_response rt_last_query).

Lemma wf_values_NoDup me t b : wf W cap me [] t -> In b (tvalues t) -> NoDup (map nid (bnodes b)).
Proof.
  intros H Hb. apply in_tvalues in Hb as [k G].
  destruct (wf_bucket_at W cap me k [] t b H G) as (_ & (_ & _ & _ & N & _) & _). exact N.
Qed.

Lemma gen_refines_table_l me rt :
  (0 < W)%nat -> (0 < cap)%nat -> length me = W -> reachable W cap me rt ->
  (forall fuel n, length (nid n) = W -> G_add fuel rt n = rt_add_fuel cap fuel rt n) /\
  G_remove_bad rt = Ok (rt_remove_bad rt) /\
  (forall i, length i = W -> G_RoutingTable_get_bucket W rt i = find_bucket (tr rt) i) /\
  (forall i, length i = W -> G_RoutingTable_get W rt i = rt_get rt i) /\
  (forall target k excl, length target = W ->
     G_closest rt target (Z.of_nat k) excl = closest rt target k (option_map nid excl)).
Proof.
  intros HW Hc Lme R. pose proof (reachable_inv W cap me rt Hc R) as [Eo H].
  destruct rt as [o t]. cbn in Eo, H. subst o.
  split; [intros fuel n Ln; apply G_add_eq; auto|].
  split; [eapply G_remove_bad_eq; eauto; intros b Hb; eapply wf_values_NoDup; eauto|].
  split; [intros i Li; apply G_get_bucket_eq; auto|].
  split; [intros i Li; apply G_get_eq'; auto|].
  intros target k excl Lt. eapply G_closest_eq; eauto.
Qed.

Lemma gen_refines_bucket_l p b :
  (0 < W)%nat -> bucket_ok W cap p b ->
  (forall i, length i = W -> G_Bucket_owns W b i = Ok (owns b i)) /\
  (forall i, G_Bucket_get b i = Ok (find_node i (bnodes b))) /\
  (forall n, length (nid n) = W ->
     G_Bucket_add W cap rt_now rt_last_response rt_last_query b n = Ok (badd cap b n)) /\
  ((length p < W)%nat -> G_Bucket_split W cap rt_now rt_last_response rt_last_query b = Ok (bsplit cap b)).
Proof.
  intros HW OK. pose proof OK as (_ & _ & _ & N & _).
  split; [intros i Li; apply G_owns_eq; auto|].
  split; [intros i; reflexivity|].
  split; [intros n Ln; apply G_badd_eq; auto|].
  intros Lp. eapply G_bsplit_eq; eauto.
Qed.

(* histories executed by the generated functions *)
Definition gstep (rt : rtable) (o : op) : res rtable :=
  match o with
  | Add n => do r <- G_add (Datatypes.S W) rt n; Ok (fst r)
  | RemoveBad => do r <- G_remove_bad rt; Ok (fst r)
  | Touch i rtt failed => rt_touch rt i rtt failed
  end.
Fixpoint grun (rt : rtable) (ops : list op) : res rtable :=
  match ops with [] => Ok rt | o :: tl => do rt' <- gstep rt o; grun rt' tl end.

Lemma grun_run_l me ops : forall rt,
  (0 < W)%nat -> (0 < cap)%nat -> length me = W -> reachable W cap me rt -> Forall (op_ok W) ops ->
  grun rt ops = run W cap rt ops.
Proof.
  induction ops as [|o ops IH]; intros rt HW Hc Lme R F; [reflexivity|].
  pose proof (Forall_inv F) as Ho. pose proof (Forall_inv_tail F) as F'.
  destruct (gen_refines_table_l me rt HW Hc Lme R) as (EA & ER & _).
  assert (Es : gstep rt o = step W cap rt o).
  { destruct o as [n| |i rtt failed]; cbn [gstep step].
    - unfold rt_add. rewrite EA by exact Ho. reflexivity.
    - rewrite ER. reflexivity.
    - reflexivity. }
  cbn [grun run]. rewrite Es.
  destruct (step W cap rt o) as [rt'|e] eqn:St; cbn [bind]; [|reflexivity].
  apply IH; auto.
  destruct R as (ops0 & F0 & E0). exists (ops0 ++ [o]). split.
  - apply Forall_app. split; [exact F0 | constructor; [exact Ho | constructor]].
  - rewrite (run_app W cap ops0 [o] _ _ E0). cbn [run]. rewrite St. reflexivity.
Qed.

Lemma reachable_init me : reachable W cap me (rt_init me).
Proof. exists []. split; [constructor | reflexivity]. Qed.

Lemma gen_tree_valid_l me ops :
  (0 < W)%nat -> (0 < cap)%nat -> length me = W -> Forall (op_ok W) ops ->
  exists rt, grun (rt_init me) ops = Ok rt /\ own rt = me /\ valid_table W cap rt.
Proof.
  intros HW Hc Lme F. rewrite (grun_run_l me ops _ HW Hc Lme (reachable_init me) F).
  apply tree_valid_l; auto.
Qed.

Lemma gen_closest_exact_l me rt target k excl :
  (0 < W)%nat -> (0 < cap)%nat -> length me = W -> reachable W cap me rt -> length target = W ->
  exists res, G_closest rt target (Z.of_nat k) excl = Ok res /\ k_closest rt target (option_map nid excl) k res.
Proof.
  intros HW Hc Lme R Lt. destruct (gen_refines_table_l me rt HW Hc Lme R) as (_ & _ & _ & _ & EC).
  rewrite EC by exact Lt. apply (closest_exact_l W cap me); auto.
Qed.

Lemma gen_generate_id_l b :
  (0 < W)%nat -> (length (bprefix b) <= W)%nat ->
  0 <= rt_randint 0 (2 ^ Z.of_nat (W - length (bprefix b)) - 1) < 2 ^ Z.of_nat (W - length (bprefix b)) ->
  exists i, G_Bucket_generate_id W rt_randint b = Ok i /\ owns b i = true /\ length i = W.
Proof.
  intros HW Lp Hr. rewrite G_generate_id_eq by assumption. eexists. split; [reflexivity|].
  apply gen_id_owned_l. exact Lp.
Qed.

End GenMain.

Lemma gen_status_l now last_response last_query n :
  exists s, G_Node_status now last_response last_query n = Ok s /\ (s =? G_NODE_STATUS_BAD) = is_bad n.
Proof. exact (G_status_bad 1 now last_response last_query (le_n 1) n). Qed.

Lemma gen_run_l W cap now last_response last_query me ops rt :
  (0 < W)%nat -> (0 < cap)%nat -> length me = W -> reachable W cap me rt -> Forall (op_ok W) ops ->
  grun W cap now last_response last_query rt ops = run W cap rt ops.
Proof. intros. apply (grun_run_l W cap now last_response last_query me); assumption. Qed.

Lemma gen_binary_l W i : (0 < W)%nat -> length i = W -> G_id_to_binary_string W i = Ok i.
Proof. intros HW L. apply G_id_to_binary_string_eq; assumption. Qed.
