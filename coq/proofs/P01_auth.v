From Coq Require Import ZArith List Bool Lia ZifyBool Arith.
From IPV8V Require Import lib.PyErr lib.Bytes lib.BE model.M02_wire model.M01_auth
  proofs.P02_prims proofs.P02_roundtrip proofs.P03_decode.
Import ListNotations.
Open Scope Z_scope.

Lemma clamp_neg len n : 0 < n -> 0 <= len -> clamp len (- n) = Z.max 0 (len - n).
Proof.
  intros Hn Hl. unfold clamp. cbv zeta.
  replace (- n <? 0) with true by lia.
  destruct (Z_lt_ge_dec (len - n) 0) as [Hlt|Hge].
  - replace (- n + len <? 0) with true by lia. rewrite Z.max_l by lia. reflexivity.
  - replace (- n + len <? 0) with false by lia. replace (len <? - n + len) with false by lia.
    rewrite Z.max_r by lia. lia.
Qed.

Lemma slice_upto d n : 0 < n ->
  slice d None (Some (- n)) = firstn (Z.to_nat (Z.max 0 (blen d - n))) d.
Proof.
  intros Hn. unfold slice. rewrite clamp_neg by (try lia; apply blen_nonneg).
  rewrite Z.sub_0_r. reflexivity.
Qed.

Lemma slice_from d n : 0 < n ->
  slice d (Some (- n)) None = skipn (Z.to_nat (Z.max 0 (blen d - n))) d.
Proof.
  intros Hn. unfold slice. rewrite clamp_neg by (try lia; apply blen_nonneg).
  apply firstn_all2. rewrite skipn_length. unfold blen. lia.
Qed.

(* the signed part and the signature partition the datagram: every byte before the signature is signed
   (for a zero-length signature Python's data[:-0] is empty and data[-0:] is everything) *)
Lemma slice_partition d n : 0 <= n -> slice d None (Some (- n)) ++ slice d (Some (- n)) None = d.
Proof.
  intros Hn. destruct (Z.eq_dec n 0) as [->|Hnz].
  - unfold slice, clamp. cbn. pose proof (blen_nonneg d).
    replace (blen d <? 0) with false by lia. cbn. rewrite Z.sub_0_r.
    apply firstn_all2. unfold blen. lia.
  - rewrite slice_upto, slice_from by lia. apply firstn_skipn.
Qed.

Section P.
Variable key_ok : bytes -> bool.
Variable verify : bytes -> bytes -> bytes -> bool.
Variable siglen : bytes -> res nat.

Notation wrapper_signed := (wrapper_signed key_ok verify siglen).

Lemma auth_only_if_valid_l m data pk args :
  wrapper_signed m data = Ok (Invoke pk args) ->
  exists n o,
    unpack key_ok auth_fmt data 23 = Ok (VBytes pk, o)          (* the key is the one carried in the datagram *)
    /\ siglen pk = Ok n
    /\ verify pk (slice data None (Some (- Z.of_nat n))) (slice data (Some (- Z.of_nat n)) None) = true
    /\ slice data None (Some (- Z.of_nat n)) ++ slice data (Some (- Z.of_nat n)) None = data
    /\ unpack_all key_ok m (slice data (Some (2 + blen pk)) (Some (- Z.of_nat n))) 23 = Ok args.
Proof.
  unfold M01_auth.wrapper_signed. intros H.
  destruct (unpack key_ok auth_fmt data 23) as [[a o]|] eqn:Eu; cbn [bind] in H; [|discriminate].
  destruct a; try discriminate H.
  destruct (siglen b) as [n|] eqn:En; cbn [bind] in H; [|discriminate].
  cbv zeta in H.
  destruct (unpack_all key_ok m _ 23) as [vs|] eqn:Ea; cbn [bind] in H; [|discriminate].
  destruct (verify b _ _) eqn:Ev; cbn [negb] in H; [|discriminate].
  inversion H; subst. exists n, o. repeat split; auto.
  apply slice_partition. lia.
Qed.

Lemma ez_unpack_auth_only_if_valid_l m data pk args :
  ez_unpack_auth key_ok verify siglen m data = Ok (Invoke pk args) ->
  exists n o,
    unpack key_ok auth_fmt data 23 = Ok (VBytes pk, o)
    /\ siglen pk = Ok n
    /\ verify pk (slice data None (Some (- Z.of_nat n))) (slice data (Some (- Z.of_nat n)) None) = true
    /\ slice data None (Some (- Z.of_nat n)) ++ slice data (Some (- Z.of_nat n)) None = data.
Proof.
  intros H. unfold ez_unpack_auth in H.
  destruct (auth_only_if_valid_l _ data pk args H) as (n & o & H1 & H2 & H3 & H4 & _).
  exists n, o. repeat split; assumption.
Qed.

(* the peer object handed to the handler carries the authenticated key, whether it comes from the
   verified-peer index (whose entries are filed under their own key) or is created fresh *)
Lemma peer_is_key_l index pk :
  (forall k p, In (k, p) index -> p = k) -> peer_for index pk = pk.
Proof.
  intros Hidx. unfold peer_for. destruct (find _ index) as [[k p]|] eqn:E; [|reflexivity].
  apply find_some in E as [Hin Heq]. cbn in Heq. apply bytes_eqb_eq in Heq. subst.
  cbn. apply Hidx in Hin. exact Hin.
Qed.

Variable sign : bytes -> bytes -> bytes.

Lemma skipn_app_le {A} (a b : list A) k : (k <= length a)%nat -> skipn k (a ++ b) = skipn k a ++ b.
Proof.
  revert a; induction k as [|k IH]; intros a Hk; [reflexivity|].
  destruct a as [|x a]; [simpl in Hk; lia|]. simpl. apply IH. simpl in Hk. lia.
Qed.

(* sender and receiver agree: an honestly signed message is accepted with exactly its payloads *)
Lemma auth_sound_send_l sk pk prefix msg_id m vs data n :
  length prefix = 22%nat ->
  wf_msg m = true -> msg_ok key_ok m vs = true ->
  (Z.of_nat (length pk) <? 65536) = true -> bytes_okb pk = true ->
  siglen pk = Ok n -> (0 < n)%nat ->
  (forall msg, length (sign sk msg) = n /\ verify pk msg (sign sk msg) = true) ->
  ez_pack key_ok sign sk pk prefix msg_id m vs = Ok data ->
  wrapper_signed m data = Ok (Invoke pk vs).
Proof.
  intros Hp Hwf Hok Hlk Hbk Hn Hpos Hsig Hpack.
  unfold M01_auth.ez_pack in Hpack.
  destruct (pack key_ok auth_fmt (VBytes pk)) as [a|] eqn:Ea; cbn [bind] in Hpack; [|discriminate].
  destruct (pack_msg key_ok m vs) as [b|] eqn:Eb; cbn [bind] in Hpack; [|discriminate].
  cbv zeta in Hpack. apply Ok_inj in Hpack. subst data.
  set (packet := prefix ++ [msg_id] ++ a ++ b).
  destruct (Hsig packet) as [Hsl Hsv].
  assert (Hav : val_ok key_ok auth_fmt (VBytes pk) = true).
  { unfold auth_fmt. cbn [val_ok]. rewrite Hbk. rewrite Nat.div_1_r. change (256 ^ Z.of_nat 2) with 65536.
    rewrite Hlk. rewrite Nat.mod_1_r. reflexivity. }
  assert (Hla : length a = (2 + length pk)%nat).
  { unfold auth_fmt in Ea. cbn [pack] in Ea. unfold varlen_pack in Ea. cbn [Nat.eqb] in Ea.
    destruct (in_range _ _ _ && _); [|discriminate]. apply Ok_inj in Ea. rewrite <- Ea.
    rewrite app_length, be_encode_length. reflexivity. }
  unfold M01_auth.wrapper_signed.
  (* 1: the key field *)
  assert (Hu : unpack key_ok auth_fmt (packet ++ sign sk packet) 23 = Ok (VBytes pk, (23 + length a)%nat)).
  { unfold packet. replace (prefix ++ [msg_id] ++ a ++ b) with ((prefix ++ [msg_id]) ++ a ++ b)
      by (rewrite <- app_assoc; reflexivity).
    rewrite <- app_assoc. rewrite <- (app_assoc a).
    replace 23%nat with (length (prefix ++ [msg_id])) by (rewrite app_length, Hp; reflexivity).
    apply pack_unpack_fmt_l; auto. }
  rewrite Hu. cbn [bind]. rewrite Hn. cbn [bind]. cbv zeta.
  (* 2: the slices *)
  assert (Hlen : blen (packet ++ sign sk packet) = blen packet + Z.of_nat n).
  { rewrite blen_app. unfold blen. rewrite Hsl. reflexivity. }
  assert (Hcut : Z.to_nat (Z.max 0 (blen (packet ++ sign sk packet) - Z.of_nat n)) = length packet).
  { rewrite Hlen. unfold blen. lia. }
  rewrite slice_upto, slice_from by lia. rewrite Hcut.
  rewrite firstn_app_exact, skipn_app_exact. rewrite Hsv. cbn [negb].
  (* 3: the remainder *)
  assert (Hrem : slice (packet ++ sign sk packet) (Some (2 + blen pk)) (Some (- Z.of_nat n))
                 = skipn (2 + length pk) packet).
  { unfold slice. rewrite clamp_neg by (try lia; apply blen_nonneg).
    assert (Hc : clamp (blen (packet ++ sign sk packet)) (2 + blen pk) = 2 + blen pk).
    { unfold clamp. pose proof (blen_nonneg pk).
      destruct (2 + blen pk <? 0) eqn:E1; [lia|]. rewrite E1.
      destruct (blen (packet ++ sign sk packet) <? 2 + blen pk) eqn:E2; [|reflexivity].
      rewrite Hlen in E2. unfold packet in E2. rewrite !blen_app in E2. unfold blen in E2.
      rewrite Hla in E2. unfold blen in *. lia. }
    rewrite Hc. rewrite Hlen.
    replace (Z.to_nat (2 + blen pk)) with (2 + length pk)%nat by (unfold blen; lia).
    replace (Z.max 0 (blen packet + Z.of_nat n - Z.of_nat n) - (2 + blen pk)) with (blen packet - (2 + blen pk))
      by (pose proof (blen_nonneg packet); lia).
    rewrite skipn_app_le.
    2:{ unfold packet. rewrite !app_length, Hla. simpl. lia. }
    rewrite firstn_app.
    replace (Z.to_nat (blen packet - (2 + blen pk)) - length (skipn (2 + length pk) packet))%nat with 0%nat
      by (rewrite skipn_length; unfold blen; lia).
    cbn [firstn]. rewrite app_nil_r. apply firstn_all2. rewrite skipn_length. unfold blen. lia. }
  rewrite Hrem.
  (* skipn (2+|pk|) packet = junk(23) ++ b *)
  assert (Hshape : skipn (2 + length pk) packet = skipn (2 + length pk) (prefix ++ [msg_id] ++ a) ++ b).
  { unfold packet. replace (prefix ++ [msg_id] ++ a ++ b) with ((prefix ++ [msg_id] ++ a) ++ b)
      by (rewrite <- !app_assoc; reflexivity).
    apply skipn_app_le. rewrite !app_length, Hla. simpl. lia. }
  rewrite Hshape. set (junk := skipn (2 + length pk) (prefix ++ [msg_id] ++ a)).
  assert (Hj : length junk = 23%nat).
  { unfold junk. rewrite skipn_length, !app_length, Hla, Hp. cbn [length]. lia. }
  unfold unpack_all.
  pose proof (msg_roundtrip_l key_ok m vs b junk [] Hwf Hok Eb (or_intror eq_refl)) as Hr.
  rewrite app_nil_r in Hr. rewrite Hj in Hr. rewrite Hr. cbn [bind].
  rewrite app_length, Hj. rewrite Nat.ltb_irrefl. reflexivity.
Qed.

End P.
