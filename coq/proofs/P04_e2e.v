(* C04: plaintext-flagged cells at an end point; two circuits linked at a rendezvous point with the extra
   end-to-end layer. *)
From Coq Require Import ZArith List Bool Lia ZifyBool Arith.
From IPV8V Require Import lib.PyErr lib.Bytes lib.BE model.M02_wire model.M03_recv model.M04_onion
  spec.S04_onion_spec proofs.P02_prims proofs.P02_roundtrip proofs.P04_base proofs.P04_node
  proofs.P04_endpoint proofs.P04_chain proofs.P04_props.
Import ListNotations.
Open Scope Z_scope.

Section E2E.
Variables key nonce : Type.
Variable enc : key -> dir -> nonce -> bytes -> bytes.
Variable dec : key -> dir -> bytes -> option bytes.
Notation node := (node key).
Notation relay_spec := (relay_spec key).
Notation enc_layers := (enc_layers enc).
Notation on_packet := (on_packet enc dec).
Notation community_on_cell_packet := (community_on_cell_packet enc).

(* ---- plaintext flag ---- *)
Lemma incoming_plain (nd : node) c :
  cl_plain c = true -> incoming_crypto dec nd c = Ok (Some c) \/ exists e, incoming_crypto dec nd c = Raise e.
Proof.
  intros Hpl. unfold incoming_crypto. rewrite Hpl.
  assert (D : forall d hops, decrypt_cell dec c d hops = Ok c) by (intros; unfold decrypt_cell; rewrite Hpl; reflexivity).
  destruct (assoc (cl_cid c) (n_exits nd)) as [es|]; destruct (assoc (cl_cid c) (n_circuits nd)) as [ci|].
  - rewrite D. left; reflexivity.
  - rewrite D. left; reflexivity.
  - rewrite D. cbn [bind]. destruct (c_hs ci) as [hk|]; [|left; reflexivity].
    unfold circuit_hop. destruct (c_hops ci) as [|h0 ?]; [destruct (c_unverified ci) as [h0|]|]; cbn [bind];
      try (rewrite D; left; reflexivity).
    right. eexists; reflexivity.
  - left; reflexivity.
Qed.

Lemma community_cell_plain (nd : node) src cid m0 rest early rnd ns :
  length (n_prefix nd) = 22%nat -> cid_ok cid -> NO_CRYPTO m0 = true ->
  community_on_cell_packet nd src (cell_to_bin (n_prefix nd) (mkCell cid (m0 :: rest) true early)) rnd ns
  = try_catch (on_packet_from_circuit enc nd src (n_prefix nd ++ [m0] ++ be_encode 4 cid ++ rest) cid rnd ns)
              (fun _ => Ok (nd, [])).
Proof.
  intros Hp Hc Hn. unfold M04_onion.community_on_cell_packet.
  rewrite to_bin_prefix by exact Hp. rewrite bytes_eqb_refl. cbn [negb orb].
  pose proof (to_bin_blen (n_prefix nd) (mkCell cid (m0 :: rest) true early) Hp) as Hl.
  pose proof (blen_nonneg (m0 :: rest)) as Hnn. cbn [cl_msg] in Hl.
  destruct (blen (cell_to_bin (n_prefix nd) (mkCell cid (m0 :: rest) true early)) <? 23) eqn:E; [lia|].
  unfold M04_onion.on_cell. rewrite from_bin_to_bin by assumption. cbn [bind cl_plain cl_cid cl_msg].
  rewrite idx_head. cbn [bind]. rewrite Hn. cbn [negb].
  unfold unwrap. cbn [cl_cid cl_msg]. unfold cid_ok in Hc.
  destruct ((cid <? 0) || (4294967296 <=? cid)) eqn:E2; [lia|].
  rewrite slice_head1, slice_tail1. cbn [bind]. reflexivity.
Qed.

(* a plaintext-flagged cell reaching an end point changes nothing and is handed to a handler only as
   create (2) / created (3) *)
Lemma plaintext_endpoint_l (nd : node) src cid msg early rnd ns nd' acts :
  length (n_prefix nd) = 22%nat -> cid_ok cid -> has cid (n_relays nd) = false ->
  on_packet nd src (cell_to_bin (n_prefix nd) (mkCell cid msg true early)) rnd ns = Ok (nd', acts) ->
  nd' = nd /\ (acts = [] \/ exists m0 data, (m0 = 2 \/ m0 = 3) /\ acts = [Control m0 src cid data]).
Proof.
  intros Hp Hc Hh. rewrite on_packet_cell by assumption. unfold process_cell_c. cbn [cl_cid]. rewrite Hh.
  destruct (incoming_plain nd (mkCell cid msg true early) eq_refl) as [E|[e E]]; rewrite E; cbn [bind]; [|discriminate].
  cbn [cl_msg cl_early cl_plain].
  destruct msg as [|m0 rest]; cbn [length Nat.eqb].
  { intros H. injection H as <- <-. auto. }
  rewrite idx_head. cbn [bind].
  destruct ((negb early && (m0 =? 4)) || (n_max_early nd <=? 0)). { intros H. injection H as <- <-. auto. }
  cbn [andb]. destruct (NO_CRYPTO m0) eqn:En; cbn [negb]. 2:{ intros H. injection H as <- <-. auto. }
  rewrite (community_cell_plain nd src cid m0 rest early rnd ns Hp Hc En).
  assert (Hm : m0 = 2 \/ m0 = 3) by (unfold NO_CRYPTO in En; lia).
  destruct (existsb (Z.eqb m0) (n_handlers nd)) eqn:Eh.
  - rewrite (pfc_dispatch key nonce enc nd src cid m0 (be_encode 4 cid ++ rest) rnd ns Hp Eh).
    destruct Hm as [-> | ->]; cbn [Z.eqb Pos.eqb try_catch]; intros H; injection H as <- <-;
      (split; [reflexivity | right; eexists; eexists; split; [|reflexivity]; auto]).
  - rewrite (pfc_unregistered key nonce enc nd src cid m0 (be_encode 4 cid ++ rest) rnd ns Hp Eh).
    cbn [try_catch]. intros H. injection H as <- <-. auto.
Qed.

(* ---- two circuits linked at a rendezvous point ---- *)
Lemma nonempty_cons {A} (l : list A) : l <> [] -> exists x t, l = x :: t.
Proof. destruct l; [contradiction | eauto]. Qed.

Lemma e2e_layer_l (e : e2e_path key) m0 rest e0 ns rnd nssa nsr nssb nsb :
  aead_correct enc dec ->
  let early := (m0 =? 4) || (c_early (e_acirc e) <? n_max_early (e_a e)) in
  e2e_ready early e -> m0 <> 4 ->
  let msg := m0 :: rest in
  let a1 := first_addr (e_arelays e) (e_rpaddr e) in
  let ka_all := map rs_key (e_arelays e) ++ [e_ka e] in
  let kb_all := map rs_key (e_brelays e) ++ [e_kb e] in
  let inner := enc (e_hs e) (hs_out_dir (c_ctype (e_acirc e))) (ns O) msg in
  exists a' (la : list bytes) rp' (lb : list bytes) nla nlb,
    ep_send_cell enc (e_a e) a1 (mkCell (e_acid e) msg false e0) ns = Ok (a', [Send a1 (hd [] la)])
    /\ through enc dec (e_arelays e) (e_aaddr e) a1 (hd [] la) rnd nssa
       = Some (last_sender (e_arelays e) (e_aaddr e), e_rpaddr e, nth (length (e_arelays e)) la [], List.tl la)
    /\ on_packet (e_rp e) (last_sender (e_arelays e) (e_aaddr e)) (nth (length (e_arelays e)) la []) rnd nsr
       = Ok (rp', [Send (last_sender (e_brelays e) (e_baddr e)) (hd [] lb)])
    /\ through enc dec (rev (e_brelays e)) (e_rpaddr e) (last_sender (e_brelays e) (e_baddr e)) (hd [] lb) rnd nssb
       = Some (first_addr (e_brelays e) (e_rpaddr e), e_baddr e, nth (length (e_brelays e)) lb [], List.tl lb)
    /\ on_packet (e_b e) (first_addr (e_brelays e) (e_rpaddr e)) (nth (length (e_brelays e)) lb []) rnd nsb
       = community_on_cell_packet (e_b e) (first_addr (e_brelays e) (e_rpaddr e))
           (cell_to_bin (e_pfx e) (mkCell (e_bcid e) msg false false)) rnd nsb
    /\ length nla = length ka_all /\ length nlb = length kb_all
    /\ (forall i, (i < length ka_all)%nat ->
          cell_body (nth i la []) = enc_layers FORWARD (skipn i ka_all) (skipn i nla) inner)
    /\ (forall i, (i < length kb_all)%nat ->
          cell_body (nth i (rev lb) []) = enc_layers BACKWARD (skipn i kb_all) (skipn i nlb) inner).
Proof.
  intros C early R H4 msg a1 ka_all kb_all inner.
  destruct R as (Hp & Hap & Hacid & Haa & Hahs & Hane & Hak & Hcha & Hrp & Hrca & Hrcb & (pk & cnt & r2 & Hr1 & Hre & Hr2 & Hr2k)
                 & Hchb & Hbp & Hbcid & Hbr & Hbe & Hba & Hbhs & Hbne & Hbk & Hbm & Hdir).
  destruct (nonempty_cons _ Hane) as (ha0 & hat & Eha). destruct (nonempty_cons _ Hbne) as (hb0 & hbt & Ehb).
  set (RA := e_arelays e) in *. set (RB := e_brelays e) in *.
  set (rka := map rs_key RA) in *. set (rkb := map rs_key RB) in *.
  assert (Lka : length ka_all = S (length RA)) by (unfold ka_all, rka; rewrite app_length, map_length; simpl; lia).
  assert (Lkb : length kb_all = S (length RB)) by (unfold kb_all, rkb; rewrite app_length, map_length; simpl; lia).
  (* A's layers *)
  destruct (snoc_inv (drawn (shift ns) (length ka_all)) (length RA)) as (nlra & nxa & Eda & Lra).
  { rewrite drawn_length. exact Lka. }
  set (bxa := enc (e_ka e) FORWARD nxa inner).
  set (la := fwd_pkts key nonce enc (e_pfx e) early RA (e_acid e) nlra bxa).
  (* B's layers *)
  set (bxb := enc (e_kb e) BACKWARD (nsr O) inner).
  set (nlrb := rev (bwd_nonces key nonce (rev RB) nssb)).
  assert (Lrb : length nlrb = length RB) by (unfold nlrb; rewrite rev_length, bwd_nonces_length, rev_length; reflexivity).
  assert (Lrkb : length rkb = length RB) by (unfold rkb; apply map_length).
  assert (Lrka : length rka = length RA) by (unfold rka; apply map_length).
  set (lb := bwd_pkts key nonce enc (e_pfx e) false (rev RB) (e_rcid_b e) nssb bxb).
  assert (Hw : wrap_bwd key nonce enc (rev RB) nssb bxb = enc_layers BACKWARD kb_all (nlrb ++ [nsr O]) inner).
  { rewrite wrap_bwd_layers, map_rev, rev_involutive. fold rkb. fold nlrb. unfold kb_all.
    rewrite (enc_layers_app key nonce enc) by lia. reflexivity. }
  assert (Hla_last : nth (length RA) la [] = cell_to_bin (e_pfx e) (mkCell (e_rcid_a e) bxa false early)).
  { apply (fwd_pkts_last key nonce enc (e_pfx e) early (e_rpaddr e) (e_rcid_a e) bxa RA (e_acid e) nlra Hcha). lia. }
  assert (Hlb_last : nth (length RB) lb [] = cell_to_bin (e_pfx e) (mkCell (e_bcid e) (enc_layers BACKWARD kb_all (nlrb ++ [nsr O]) inner) false false)).
  { rewrite <- Hw. rewrite <- (rev_length RB) at 1.
    apply (bwd_pkts_last key nonce enc (e_pfx e) false (e_baddr e) (e_bcid e) (rev RB) (e_rcid_b e) nssb bxb Hchb). }
  exists (set_circuits (e_a e) (upd (e_acid e) (if early then bump key (e_acirc e) else e_acirc e) (n_circuits (e_a e)))), la,
         (set_relays (e_rp e) (upd (e_rcid_a e) (mkRR (e_rcid_b e) (mkHop pk (last_sender RB (e_baddr e)) (Some (e_ka e))) FORWARD true (cnt + 1)) (n_relays (e_rp e)))),
         lb, (nlra ++ [nxa]), (nlrb ++ [nsr O]).
  split; [|split; [|split; [|split; [|split; [|split; [|split; [|split]]]]]]].
  - unfold la. rewrite fwd_pkts_hd. fold rka.
    pose proof (origin_send_hs key nonce enc (e_a e) a1 (e_acid e) (e_acirc e) ka_all (e_hs e) ha0 hat m0 rest e0 ns Haa Hahs Eha Hak) as S.
    cbv zeta in S. fold early in S. fold msg in S. fold inner in S. rewrite S, Eda, Hap.
    unfold ka_all. rewrite (enc_layers_app key nonce enc) by lia. reflexivity.
  - rewrite Hla_last.
    apply (fwd_through key nonce enc dec (e_pfx e) early (e_rpaddr e) (e_rcid_a e) bxa rnd RA (e_acid e) (e_aaddr e) nlra nssa C Hp Hacid Hcha). lia.
  - rewrite Hla_last. unfold lb. rewrite bwd_pkts_hd. rewrite <- Hrp.
    apply (rendezvous_step key nonce enc dec (e_rp e) _ (e_rcid_a e) (e_rcid_b e) pk _ (e_ka e) cnt r2 (e_kb e) inner early nxa rnd nsr C);
      try assumption; try (rewrite Hrp; assumption).
  - rewrite Hlb_last, <- Hw.
    pose proof (bwd_through key nonce enc dec (e_pfx e) false (e_baddr e) (e_bcid e) rnd (rev RB) (e_rcid_b e) (e_rpaddr e) nssb bxb Hp Hrcb Hchb) as T.
    rewrite last_sender_rev in T. exact T.
  - rewrite Hlb_last, <- Hbp. unfold inner. rewrite Hdir.
    apply (origin_incoming_hs key nonce enc dec (e_b e) _ (e_bcid e) (e_bcirc e) kb_all (nlrb ++ [nsr O]) (e_hs e) (ns O) hb0 hbt m0 rest false rnd nsb C);
      try assumption; try (rewrite Hbp; assumption).
    + rewrite app_length. simpl. lia.
    + intros _. exact H4.
  - rewrite app_length. simpl. lia.
  - rewrite app_length. simpl. lia.
  - intros i Hi.
    unfold la. rewrite (fwd_pkts_nth key nonce enc (e_pfx e) early bxa RA (e_acid e) nlra i Hp ltac:(lia) ltac:(lia)).
    fold rka. unfold ka_all.
    rewrite (skipn_app_le rka [e_ka e] i) by lia. rewrite (skipn_app_le nlra [nxa] i) by lia.
    rewrite (enc_layers_app key nonce enc) by (rewrite !skipn_length; lia). reflexivity.
  - intros i Hi.
    assert (Llb : length lb = S (length RB)) by (unfold lb; rewrite bwd_pkts_length, rev_length; reflexivity).
    rewrite rev_nth by lia. rewrite Llb.
    replace (S (length RB) - S i)%nat with (length RB - i)%nat by lia.
    unfold lb. rewrite (bwd_pkts_nth key nonce enc (e_pfx e) false (rev RB) (e_rcid_b e) nssb bxb (length RB - i) Hp) by (rewrite rev_length; lia).
    rewrite wrap_bwd_layers, bwd_nonces_firstn, <- firstn_map, map_rev. fold rkb.
    replace (bwd_nonces key nonce (rev RB) nssb) with (rev nlrb) by (unfold nlrb; apply rev_involutive).
    rewrite !firstn_rev, !rev_involutive, Lrkb, Lrb.
    replace (length RB - (length RB - i))%nat with i by lia.
    unfold kb_all.
    rewrite (skipn_app_le rkb [e_kb e] i) by lia. rewrite (skipn_app_le nlrb [nsr O] i) by lia.
    rewrite (enc_layers_app key nonce enc) by (rewrite !skipn_length; lia). reflexivity.
Qed.

End E2E.
