(* C13 (extension) - shard of the enlarged sweep: k in {1, 3} (6144 scenario runs in the VM) *)
From Coq Require Import ZArith List Bool.
From IPV8V Require Import lib.PyErr gen.G13_lan model.M13_nat model.M13_scenario proofs.P13x_defs.
Import ListNotations.

Lemma check_allx_13 : check_overx all_types bools [1; 3]%nat = true.
Proof. vm_cast_no_check (eq_refl true). Qed.
