(* C09 - the number of relay_early cells a relay forwards on one route during its whole life. *)
From Coq Require Import ZArith List Bool Lia ZifyBool.
From IPV8V Require Import gen.G09_rules model.M09_reclaim spec.S09_reclaim proofs.P09_alist proofs.P09_more proofs.P09_frames.
Import ListNotations.
Open Scope Z_scope.

Section Count.
Variable st : settings.

(* 1 if the event is a relay_early cell arriving on route cid that the node forwards *)
Definition fw_flag (cid : Z) (e : ev) (o : list out) : Z :=
  match e with
  | ERecvCell _ c _ true _ _ _ => if (c =? cid) && negb (match o with [] => true | _ => false end) then 1 else 0
  | _ => 0
  end.

Fixpoint fw_count (cid : Z) (s : node) (tr : list (Z * ev)) : Z :=
  match tr with
  | [] => 0
  | te :: tl => let '(s1, o) := step st s te in fw_flag cid (snd te) o + fw_count cid s1 tl
  end.

(* the route at cid, created at c0, is in the table after every event of the run (all later than c0) *)
Fixpoint route_lives (cid c0 : Z) (s : node) (tr : list (Z * ev)) : Prop :=
  match tr with
  | [] => True
  | te :: tl =>
      c0 < fst te
      /\ (exists r, aget cid (relays (fst (step st s te))) = Some r /\ creation (r_ro r) = c0)
      /\ route_lives cid c0 (fst (step st s te)) tl
  end.

Lemma fw_count_nonneg cid tr : forall s, 0 <= fw_count cid s tr.
Proof.
  induction tr as [|te tl IH]; intros s; simpl; [lia|].
  destruct (step st s te) as [s1 o]. specialize (IH s1).
  assert (0 <= fw_flag cid (snd te) o).
  { unfold fw_flag. destruct (snd te); try lia. destruct early; try lia.
    destruct ((cid0 =? cid) && negb match o with [] => true | _ => false end); lia. }
  lia.
Qed.

Lemma relay_early_count_l cid c0 tr : forall s r0,
  aget cid (relays s) = Some r0 -> creation (r_ro r0) = c0 -> route_lives cid c0 s tr ->
  r_early r0 + fw_count cid s tr <= Z.max (r_early r0) (s_max_early st).
Proof.
  induction tr as [|[t e] tl IH]; intros s r0 H0 Hc Hl; simpl; [lia|].
  simpl in Hl. destruct Hl as (Ht & (r1 & H1 & Hc1) & Hl).
  unfold step in *. simpl fst in *. simpl snd in *.
  pose proof (routes_step_l st (set_now t s) e) as R.
  destruct (step_at st (set_now t s) e) as [s1 o] eqn:Es. simpl in *.
  destruct (R _ _ H1) as [(r & Hr & Hle & Hcr)|Hn]; [|simpl in Hn; lia].
  simpl in Hr. rewrite H0 in Hr. inversion Hr; subst r. clear Hr.
  specialize (IH s1 r1 H1 Hc1 Hl). pose proof (fw_count_nonneg cid tl s1) as Hnn.
  assert (Hf : fw_flag cid e o = 0
               \/ (fw_flag cid e o = 1 /\ exists src plain len cr ls, e = ERecvCell src cid plain true len cr ls /\ o <> [])).
  { unfold fw_flag. destruct e as [src c plain early len cr ls| | | | | | | | | | | |]; auto.
    destruct early; auto. destruct (c =? cid) eqn:Ec; [|left; reflexivity].
    apply Z.eqb_eq in Ec; subst c. destruct o as [|o1 ol]; [left; reflexivity|].
    right. split; [reflexivity|]. exists src, plain, len, cr, ls. split; [reflexivity | discriminate]. }
  destruct Hf as [E0|(E1 & src & plain & len & cr & ls & Ee & Eo)].
  - rewrite E0. lia.
  - (* a counted event: the budget test was passed and the counter went up *)
    rewrite E1. subst e.
    pose proof (relay_forward_l st (set_now t s) src cid plain true len cr ls r0 H0) as F.
    cbn [step_at] in Es. rewrite Es in F. destruct F as [F|(Fo & Fp & Fe & (nxt' & Hn' & He'))]; [contradiction|].
    rewrite H1 in Hn'. inversion Hn'; subst nxt'. specialize (Fe eq_refl). lia.
Qed.

End Count.
