(* C16 - the property-level lemmas: soundness, completeness in any order, content binding,
   verify / get_root_path, public dump reload. *)
From Coq Require Import ZArith List Bool Arith Lia Permutation.
From IPV8V Require Import lib.PyErr lib.Bytes model.M16_tokentree spec.S16_closure proofs.P16_gather.
Import ListNotations.

Definition bytes_eq_dec : forall a b : bytes, {a = b} + {a <> b} := list_eq_dec Z.eq_dec.

(* number of distinct offers (tokens are the same offer when their signed bytes are equal) *)
Definition distinct_offers (arr : list token) : nat := length (nodup bytes_eq_dec (map signed arr)).

Lemma app_inv_length {A} (a a' b b' : list A) :
  length a = length a' -> a ++ b = a' ++ b' -> a = a'.
Proof.
  revert a'. induction a as [|x a IH]; intros [|y a'] L E; simpl in *; try discriminate; auto.
  inversion E; subst. f_equal. apply IH; auto.
Qed.

Lemma firstn_exact {A} n (a b : list A) : length a = n -> firstn n (a ++ b) = a.
Proof.
  intros L. subst n. rewrite firstn_app, Nat.sub_diag, firstn_O, app_nil_r. apply firstn_all.
Qed.

Lemma skipn_exact {A} n (a b : list A) : length a = n -> skipn n (a ++ b) = b.
Proof.
  intros L. subst n. rewrite skipn_app, Nat.sub_diag, skipn_all. reflexivity.
Qed.

Section Props.
Variable hash : bytes -> bytes.
Variable sigverify : bytes -> bytes -> bytes -> bool.
Variable hl : nat.
Variable sl : nat.
Variable pk : bytes.

Notation genesis := (genesis hash pk).
Notation thash := (thash hash).
Notation tverify := (tverify sigverify pk).
Notation keys := (keys hash).
Notation find_key := (find_key hash).
Notation readyb := (readyb hash pk).
Notation merge_content := (merge_content hash).
Notation receive_content := (receive_content hash).
Notation gather := (gather hash sigverify pk).
Notation gather_top := (gather_top hash sigverify pk).
Notation gather_all := (gather_all hash sigverify pk).
Notation verify_loop := (verify_loop hash sigverify pk).
Notation path_loop := (path_loop hash sigverify pk).
Notation tree_verify := (tree_verify hash sigverify pk).
Notation get_root_path := (get_root_path hash sigverify pk).
Notation unser_loop := (unser_loop hash sigverify hl sl pk).
Notation unserialize_public := (unserialize_public hash sigverify hl sl pk).
Notation token_unserialize := (token_unserialize hl sl).
Notation Sound := (Sound hash sigverify pk).
Notation chain_ok := (chain_ok hash pk).
Notation ready := (ready hash pk).
Notation chained := (chained hash).
Notation NoneReady := (NoneReady hash).
Notation in_closure := (in_closure hash sigverify pk).
Notation closure_keys := (closure_keys hash sigverify pk).

(* ================================================================ 1. the run never fails *)
Lemma gather_all_total_l : forall c arr, exists tr, gather_all (empty_tree c) arr = Ok tr.
Proof.
  intros c arr.
  destruct (gather_all_inv hash sigverify pk arr arr (empty_tree c) (incl_refl _)
              (Sound_empty _ _ _ _ _) ltac:(intros u [])) as [tr [E _]].
  eauto.
Qed.

Lemma reach_inv c arr tr :
  gather_all (empty_tree c) arr = Ok tr -> Sound arr tr /\ NoneReady tr /\ cap tr = c.
Proof.
  intros E.
  destruct (gather_all_inv hash sigverify pk arr arr (empty_tree c) (incl_refl _)
              (Sound_empty _ _ _ _ _) ltac:(intros u [])) as [tr' [E' [S [N C]]]].
  rewrite E in E'. inversion E'; subst. auto.
Qed.

(* ================================================================ 2. soundness *)
Definition same_fields (a b : token) : Prop := strip a = strip b.

Lemma elements_sound_l : forall c arr tr,
  gather_all (empty_tree c) arr = Ok tr ->
  Forall (fun e => tverify e = true /\ exists p, In p arr /\ same_fields p e) (elements tr)
  /\ chain_ok (elements tr)
  /\ NoDup (keys (elements tr))
  /\ Forall (fun u => tverify u = true /\ (exists p, In p arr /\ same_fields p u) /\
                      ~ In (t_prev u) (keys (elements tr))) (unchained tr).
Proof.
  intros c arr tr E. destruct (reach_inv _ _ _ E) as [[S1 S2 S3 S4 S5] [N _]].
  split; [|split; [assumption|split; [assumption|]]].
  - eapply Forall_impl; [|exact S1]. simpl. intros a [A B]. split; [assumption|].
    apply in_map_iff in B as [p [Ep Hp]]. exists p. split; assumption.
  - apply Forall_forall. intros u Hu. rewrite Forall_forall in S4. destruct (S4 u Hu) as [A [B _]].
    split; [assumption|]. split.
    + apply in_map_iff in B as [p [Ep Hp]]. exists p. split; assumption.
    + exact (N u Hu).
Qed.

(* the waiting area never exceeds its capacity *)
Lemma u_insert_bound u t c : (length u <= c)%nat -> (length (u_insert u t c) <= c)%nat.
Proof.
  intros L. unfold u_insert.
  set (u1 := if existsb (tok_eqb t) u then u else u ++ [t]).
  assert (L1 : (length u1 <= S c)%nat).
  { unfold u1. destruct (existsb (tok_eqb t) u); [lia|]. rewrite app_length. simpl. lia. }
  destruct (c <? length u1)%nat eqn:E.
  - destruct u1; simpl in *; lia.
  - apply Nat.ltb_ge in E. assumption.
Qed.

Lemma waiting_bounded_step P tr t tr' r :
  Sound P tr -> gpre sigverify pk P t -> gather_top tr t = Ok (tr', r) ->
  (length (unchained tr) <= cap tr)%nat -> (length (unchained tr') <= cap tr')%nat.
Proof.
  intros S Pt E L.
  destruct (gather_top_spec hash sigverify pk P tr t S Pt) as [tr2 [r2 [E2 [_ [C [_ [_ [R [NRd _]]]]]]]]].
  rewrite E in E2. inversion E2; subst tr2 r2. rewrite C.
  destruct (M16_tokentree.readyb hash pk (elements tr) t) eqn:Er.
  - apply (readyb_iff hash sigverify pk) in Er. destruct (R Er) as [L2 _]. lia.
  - apply (readyb_false hash sigverify pk) in Er. destruct (NRd Er) as [_ EU]. rewrite EU.
    destruct (tverify t); [apply u_insert_bound|]; assumption.
Qed.

Lemma waiting_bounded_l : forall c arr tr,
  gather_all (empty_tree c) arr = Ok tr -> (length (unchained tr) <= c)%nat.
Proof.
  intros c arr.
  assert (G : forall arr2 tr0 tr, incl arr2 arr -> Sound arr tr0 -> NoneReady tr0 ->
              (length (unchained tr0) <= cap tr0)%nat ->
              gather_all tr0 arr2 = Ok tr -> (length (unchained tr) <= cap tr)%nat /\ cap tr = cap tr0).
  { induction arr2 as [|t arr2 IH]; intros tr0 tr I S N L E.
    - simpl in E. inversion E; subst. auto.
    - simpl in E. destruct (gather_top tr0 t) as [[tr1 r]|] eqn:Eg; [|discriminate].
      assert (Pt : gpre sigverify pk arr t) by (apply gpre_of_In, I; left; reflexivity).
      pose proof (waiting_bounded_step arr tr0 t tr1 r S Pt Eg L) as L1.
      destruct (gather_top_spec hash sigverify pk arr tr0 t S Pt) as [tr2 [r2 [E2 [S2 [C2 _]]]]].
      rewrite Eg in E2. inversion E2; subst tr2 r2.
      pose proof (gather_top_NoneReady hash sigverify pk arr tr0 t tr1 r S Pt N Eg) as N1.
      destruct (IH tr1 tr ltac:(intros x Hx; apply I; right; assumption) S2 N1 L1 E) as [A B].
      split; [assumption|congruence]. }
  intros tr E.
  destruct (G arr (empty_tree c) tr (incl_refl _) (Sound_empty _ _ _ _ _) ltac:(intros u [])
              ltac:(simpl; lia) E) as [A B].
  simpl in B. lia.
Qed.

(* ================================================================ 3. verify / get_root_path *)
(* a path of stored, validly signed predecessors down to the genesis pointer *)
Inductive rooted (e : list token) : token -> Prop :=
| rooted_genesis : forall t, tverify t = true -> t_prev t = genesis -> rooted e t
| rooted_step : forall t u, tverify t = true -> find_key (t_prev t) e = Some u -> rooted e u -> rooted e t.

Lemma verify_loop_rooted : forall n e t, verify_loop n e t = true -> rooted e t.
Proof.
  induction n as [|n IH]; intros e t H; [discriminate|]. cbn [M16_tokentree.verify_loop] in H.
  destruct (tverify t) eqn:Ev; cbn [negb] in H; [|discriminate].
  destruct (bytes_eqb (t_prev t) genesis) eqn:Eg.
  - apply bytes_eqb_eq in Eg. apply rooted_genesis; assumption.
  - destruct (find_key (t_prev t) e) as [u|] eqn:Ef; [|discriminate].
    eapply rooted_step; eauto.
Qed.

Lemma verify_implies_rooted_l : forall tr t md, tree_verify tr t md = true -> rooted (elements tr) t.
Proof.
  intros tr t md. unfold M16_tokentree.tree_verify. destruct (md <? 0)%Z; [discriminate|].
  apply verify_loop_rooted.
Qed.

Lemma rooted_signed_connected e t :
  rooted e t -> tverify t = true /\ (t_prev t = genesis \/ In (t_prev t) (keys e)).
Proof.
  intros R. destruct R as [t A B|t u A B C]; split; auto. right.
  apply (find_key_Some hash) in B as [B1 B2]. rewrite <- B2. unfold M16_tokentree.keys.
  apply in_map. assumption.
Qed.

Lemma verify_loop_mono : forall n m e t, (n <= m)%nat -> verify_loop n e t = true -> verify_loop m e t = true.
Proof.
  induction n as [|n IH]; intros m e t L H; [discriminate|].
  destruct m as [|m]; [lia|]. cbn [M16_tokentree.verify_loop] in *.
  destruct (negb (tverify t)); [discriminate|].
  destruct (bytes_eqb (t_prev t) genesis); [reflexivity|].
  destruct (find_key (t_prev t) e); [|discriminate]. apply IH with (m := m) in H; [assumption|lia].
Qed.

Lemma chain_ok_decomp e : chain_ok e -> forall e1 x e2, e = e1 ++ x :: e2 -> ready e1 x.
Proof.
  induction 1 as [|e t He IH Hr]; intros e1 x e2 E.
  - destruct e1; discriminate.
  - destruct (exists_last (l := x :: e2) ltac:(discriminate)) as [l' [z Ez]].
    rewrite Ez, app_assoc in E. apply app_inj_tail in E as [E1 E2]. subst z.
    destruct l' as [|x' l''].
    + simpl in Ez. inversion Ez; subst. rewrite app_nil_r in Hr. assumption.
    + simpl in Ez. inversion Ez; subst x'. eapply IH. exact E1.
Qed.

Lemma find_key_app_l h e1 e2 : In h (keys e1) -> find_key h (e1 ++ e2) = find_key h e1.
Proof.
  unfold M16_tokentree.find_key. induction e1 as [|x e1 IH]; simpl; intros H; [contradiction|].
  destruct (bytes_eqb (thash x) h) eqn:E; [reflexivity|].
  destruct H as [H|H]; [rewrite H, bytes_eqb_refl in E; discriminate|]. apply IH. assumption.
Qed.

Lemma verify_elements e :
  chain_ok e -> Forall (fun x => tverify x = true) e ->
  forall n e1 x e2, length e1 = n -> e = e1 ++ x :: e2 -> verify_loop (S n) e x = true.
Proof.
  intros C V. induction n as [n IHn] using lt_wf_ind. intros e1 x e2 L E.
  pose proof (chain_ok_decomp e C e1 x e2 E) as R.
  assert (Vx : tverify x = true).
  { rewrite Forall_forall in V. apply V. rewrite E. apply in_or_app. right. left. reflexivity. }
  cbn [M16_tokentree.verify_loop]. rewrite Vx. cbn [negb].
  destruct (bytes_eqb (t_prev x) genesis) eqn:Eg; [reflexivity|].
  destruct R as [R|R]; [apply bytes_eqb_eq in R; congruence|].
  unfold P16_gather.chained in R.
  rewrite E, (find_key_app_l _ _ _ R).
  destruct (find_key_In hash _ _ R) as [u Fu]. rewrite Fu.
  destruct (find_key_Some hash _ _ _ Fu) as [Hu _].
  apply in_split in Hu as [a [b Eab]].
  rewrite <- E.
  apply verify_loop_mono with (n := S (length a)).
  - subst e1 n. rewrite app_length. simpl. lia.
  - apply (IHn (length a)) with (e1 := a) (e2 := b ++ x :: e2); [|reflexivity|].
    + subst e1 n. rewrite app_length. simpl. lia.
    + rewrite E, Eab, <- app_assoc. reflexivity.
Qed.

Lemma path_loop_verify : forall n e t acc,
  (verify_loop n e t = true -> exists p, path_loop n e t acc = acc ++ p) /\
  (verify_loop n e t = false -> path_loop n e t acc = []).
Proof.
  induction n as [|n IH]; intros e t acc; cbn [M16_tokentree.verify_loop M16_tokentree.path_loop].
  - split; [discriminate|reflexivity].
  - destruct (negb (tverify t)); [split; [discriminate|reflexivity]|].
    destruct (bytes_eqb (t_prev t) genesis).
    + split; [|discriminate]. intros _. exists []. rewrite app_nil_r. reflexivity.
    + destruct (find_key (t_prev t) e) as [u|]; [|split; [discriminate|reflexivity]].
      destruct (IH e u (acc ++ [u])) as [A B]. split; [|assumption].
      intros H. destruct (A H) as [p Ep]. exists (u :: p). rewrite Ep, <- app_assoc. reflexivity.
Qed.

Lemma elements_verify_l : forall c arr tr e md,
  gather_all (empty_tree c) arr = Ok tr -> In e (elements tr) ->
  (Z.of_nat (length (elements tr)) <= md)%Z ->
  tree_verify tr e md = true /\ exists p, get_root_path tr e md = e :: p.
Proof.
  intros c arr tr e md E He L. destruct (reach_inv _ _ _ E) as [[S1 S2 S3 S4 S5] _].
  unfold M16_tokentree.tree_verify, M16_tokentree.get_root_path.
  destruct (md <? 0)%Z eqn:Em; [apply Z.ltb_lt in Em; lia|].
  apply in_split in He as [e1 [e2 Ee]].
  assert (V : verify_loop (Z.to_nat md) (elements tr) e = true).
  { apply verify_loop_mono with (n := S (length e1)).
    - rewrite Ee, app_length in L. simpl in L. lia.
    - eapply verify_elements; eauto.
      eapply Forall_impl; [|exact S1]. simpl. tauto. }
  split; [assumption|].
  destruct (path_loop_verify (Z.to_nat md) (elements tr) e [e]) as [A _].
  destruct (A V) as [p Ep]. exists p. rewrite Ep. reflexivity.
Qed.

(* ================================================================ 4. completeness, any order *)
Definition Complete (Q : list token) (tr : tree) : Prop :=
  forall p, In p Q -> tverify p = true ->
    In (thash p) (keys (elements tr)) \/ exists u, In u (unchained tr) /\ signed u = signed p.

Lemma signed_thash a b : signed a = signed b -> thash a = thash b.
Proof. unfold M16_tokentree.thash. intros H. rewrite H. reflexivity. Qed.

Lemma Sound_wait_offered P tr u :
  Sound P tr -> In u (unchained tr) -> In (signed u) (map signed P).
Proof.
  intros [_ _ _ S4 _] Hu. rewrite Forall_forall in S4. destruct (S4 u Hu) as [_ [B _]].
  apply in_map_iff in B as [p [Ep Hp]]. apply (strip_eq_signed) in Ep. rewrite <- Ep.
  apply in_map. assumption.
Qed.

Lemma gather_top_complete P Q tr t tr' r :
  Sound P tr -> In t P -> Complete Q tr -> (distinct_offers P <= cap tr)%nat ->
  gather_top tr t = Ok (tr', r) -> Complete (Q ++ [t]) tr'.
Proof.
  intros S Ht CQ D E.
  pose proof (gpre_of_In sigverify pk P t Ht) as Pt.
  destruct (gather_top_spec hash sigverify pk P tr t S Pt) as [tr2 [r2 [E2 [S' [C [K [_ [R [NRd _]]]]]]]]].
  rewrite E in E2. inversion E2; subst tr2 r2. clear E2.
  destruct (M16_tokentree.readyb hash pk (elements tr) t) eqn:Er.
  - apply (readyb_iff hash sigverify pk) in Er. destruct (R Er) as [_ [_ [_ [G H]]]].
    intros p Hp Vp. apply in_app_or in Hp as [Hp|[Hp|[]]].
    + destruct (CQ p Hp Vp) as [A|[u [A B]]]; [left; apply K; assumption|].
      destruct (G u A) as [A'|A']; [right; eauto|]. left. rewrite <- (signed_thash _ _ B). assumption.
    + subst p. left. auto.
  - apply (readyb_false hash sigverify pk) in Er. destruct (NRd Er) as [EE EU].
    intros p Hp Vp. rewrite EE, EU.
    destruct (tverify t) eqn:Vt.
    2:{ apply in_app_or in Hp as [Hp|[Hp|[]]]; [auto|]. subst p. congruence. }
    (* the waiting area cannot overflow *)
    set (u1 := if existsb (tok_eqb t) (unchained tr) then unchained tr else unchained tr ++ [t]).
    assert (L1 : (length u1 <= cap tr)%nat).
    { eapply Nat.le_trans; [|exact D]. unfold distinct_offers.
      rewrite <- (map_length signed u1). apply NoDup_incl_length.
      - apply u_insert_pre_nodup. destruct S; assumption.
      - intros x Hx. apply nodup_In. apply in_map_iff in Hx as [y [Ey Hy]]. subst x.
        assert (Hy' : In y (unchained tr) \/ y = t).
        { unfold u1 in Hy. destruct (existsb (tok_eqb t) (unchained tr)); [auto|].
          apply in_app_or in Hy as [Hy|[Hy|[]]]; auto. }
        destruct Hy' as [Hy'|Hy']; [exact (Sound_wait_offered P tr y S Hy')|].
        subst y. apply in_map. assumption. }
    assert (EU1 : u_insert (unchained tr) t (cap tr) = u1).
    { unfold u_insert. fold u1. apply Nat.ltb_ge in L1. rewrite L1. reflexivity. }
    rewrite EU1.
    apply in_app_or in Hp as [Hp|[Hp|[]]].
    + destruct (CQ p Hp Vp) as [A|[u [A B]]]; [auto|]. right. exists u. split; [|assumption].
      unfold u1. destruct (existsb (tok_eqb t) (unchained tr)); [assumption|].
      apply in_or_app. auto.
    + subst p. right. unfold u1. destruct (existsb (tok_eqb t) (unchained tr)) eqn:Ex.
      * apply existsb_exists in Ex as [u [A B]]. apply tok_eqb_eq in B. exists u. auto.
      * exists t. split; [apply in_or_app; right; left; reflexivity|reflexivity].
Qed.

Lemma gather_all_complete P : forall arr Q tr,
  incl arr P -> Sound P tr -> NoneReady tr -> Complete Q tr -> (distinct_offers P <= cap tr)%nat ->
  exists tr', gather_all tr arr = Ok tr' /\ Sound P tr' /\ NoneReady tr' /\ Complete (Q ++ arr) tr'.
Proof.
  induction arr as [|t arr IH]; intros Q tr I S N CQ D.
  - exists tr. rewrite app_nil_r. simpl. auto.
  - assert (Ht : In t P) by (apply I; left; reflexivity).
    pose proof (gpre_of_In sigverify pk P t Ht) as Pt.
    destruct (gather_top_spec hash sigverify pk P tr t S Pt) as [tr1 [r [E [S1 [C1 _]]]]].
    pose proof (gather_top_NoneReady hash sigverify pk P tr t tr1 r S Pt N E) as N1.
    pose proof (gather_top_complete P Q tr t tr1 r S Ht CQ D E) as CQ1.
    simpl. rewrite E.
    destruct (IH (Q ++ [t]) tr1 ltac:(intros x Hx; apply I; right; assumption) S1 N1 CQ1
                 ltac:(rewrite C1; assumption)) as [tr2 [E2 [S2 [N2 C2]]]].
    exists tr2. rewrite <- app_assoc in C2. simpl in C2. auto.
Qed.

Definition prev_wire (t : token) : Prop := length (t_prev t) = hl.

Lemma signed_prev a b :
  length (t_prev a) = length (t_prev b) -> signed a = signed b -> t_prev a = t_prev b.
Proof.
  unfold signed, plaintext. rewrite <- !app_assoc. apply app_inv_length.
Qed.

Lemma elems_in_closure P : forall e,
  chain_ok e -> Forall (fun x => tverify x = true /\ In (strip x) (map strip P)) e ->
  forall x, In x e -> exists p, in_closure P p /\ strip p = strip x.
Proof.
  induction 1 as [|e t He IH Hr]; intros F x Hx; [contradiction|].
  apply Forall_app in F as [F1 F2].
  apply in_app_or in Hx as [Hx|[Hx|[]]]; [apply IH; assumption|]. subst x.
  inversion F2 as [|? ? [Vt Pt] _]; subst.
  apply in_map_iff in Pt as [p [Ep Hp]].
  exists p. split; [|assumption].
  pose proof (strip_eq_tverify sigverify pk _ _ Ep) as Vp.
  pose proof (strip_eq_prev _ _ Ep) as Pp.
  destruct Hr as [Hr|Hr].
  - apply ic_root; [assumption|congruence|congruence].
  - unfold P16_gather.chained in Hr. apply in_map_iff in Hr as [y [Ey Hy]].
    destruct (IH F1 y Hy) as [q [Cq Eq]].
    apply ic_child with (u := q); [assumption|congruence|assumption|].
    rewrite Pp, <- Ey. symmetry. apply (strip_eq_thash hash). assumption.
Qed.

Lemma complete_closure P tr :
  Sound P tr -> NoneReady tr -> Complete P tr -> Forall prev_wire P ->
  forall h, In h (keys (elements tr)) <-> closure_keys P h.
Proof.
  intros S N CP W h. split.
  - intros Hh. apply in_map_iff in Hh as [x [Ex Hx]].
    destruct S as [S1 S2 _ _ _].
    destruct (elems_in_closure P _ S2 S1 x Hx) as [p [Cp Ep]].
    exists p. split; [assumption|]. rewrite <- Ex. apply (strip_eq_thash hash). assumption.
  - intros [t [Ct Et]]. subst h. induction Ct as [t Ht Vt Pt|t w Ht Vt Cw IHw Pt].
    + destruct (CP t Ht Vt) as [A|[u [A B]]]; [assumption|]. exfalso.
      destruct S as [_ _ _ S4 _]. rewrite Forall_forall in S4. destruct (S4 u A) as [_ [Pu Gu]].
      apply Gu. rewrite <- Pt. apply signed_prev; [|assumption].
      apply in_map_iff in Pu as [p [Ep Hp]]. rewrite <- (strip_eq_prev _ _ Ep).
      rewrite Forall_forall in W. rewrite (W p Hp), (W t Ht). reflexivity.
    + destruct (CP t Ht Vt) as [A|[u [A B]]]; [assumption|]. exfalso.
      apply (N u A). unfold P16_gather.chained.
      assert (Epu : t_prev u = t_prev t).
      { apply signed_prev; [|assumption].
        destruct S as [_ _ _ S4 _]. rewrite Forall_forall in S4. destruct (S4 u A) as [_ [Pu _]].
        apply in_map_iff in Pu as [p [Ep Hp]]. rewrite <- (strip_eq_prev _ _ Ep).
        rewrite Forall_forall in W. rewrite (W p Hp), (W t Ht). reflexivity. }
      rewrite Epu, Pt. assumption.
Qed.

Lemma elements_complete_l : forall c arr,
  Forall prev_wire arr -> (distinct_offers arr <= c)%nat ->
  exists tr, gather_all (empty_tree c) arr = Ok tr /\
             forall h, In h (keys (elements tr)) <-> closure_keys arr h.
Proof.
  intros c arr W D.
  destruct (gather_all_complete arr arr [] (empty_tree c) (incl_refl _) (Sound_empty _ _ _ _ _)
              ltac:(intros u []) ltac:(intros p []) D) as [tr [E [S [N C]]]].
  exists tr. split; [assumption|]. simpl in C. apply complete_closure; assumption.
Qed.

Lemma distinct_offers_incl a b : incl a b -> (distinct_offers a <= distinct_offers b)%nat.
Proof.
  intros I. unfold distinct_offers. apply NoDup_incl_length; [apply NoDup_nodup|].
  intros x Hx. apply nodup_In. apply nodup_In in Hx. apply in_map_iff in Hx as [y [Ey Hy]].
  subst x. apply in_map. auto.
Qed.

Lemma order_independent_l : forall c arr1 arr2,
  (forall t, In t arr1 <-> In t arr2) ->
  Forall prev_wire arr1 -> (distinct_offers arr1 <= c)%nat ->
  exists tr1 tr2, gather_all (empty_tree c) arr1 = Ok tr1 /\ gather_all (empty_tree c) arr2 = Ok tr2 /\
    forall h, In h (keys (elements tr1)) <-> In h (keys (elements tr2)).
Proof.
  intros c arr1 arr2 Same W D.
  assert (W2 : Forall prev_wire arr2).
  { apply Forall_forall. intros t Ht. rewrite Forall_forall in W. apply W, Same. assumption. }
  assert (D2 : (distinct_offers arr2 <= c)%nat).
  { eapply Nat.le_trans; [|exact D]. apply distinct_offers_incl. intros t Ht. apply Same. assumption. }
  destruct (elements_complete_l c arr1 W D) as [tr1 [E1 K1]].
  destruct (elements_complete_l c arr2 W2 D2) as [tr2 [E2 K2]].
  exists tr1, tr2. split; [assumption|]. split; [assumption|].
  intros h. rewrite K1, K2. unfold S16_closure.closure_keys.
  split; intros [t [Ct Et]]; exists t; (split; [|assumption]);
    eapply in_closure_ext; try exact Ct; intros x Hx; apply Same; assumption.
Qed.

Lemma permutation_independent_l : forall c arr1 arr2,
  Permutation arr1 arr2 -> Forall prev_wire arr1 -> (distinct_offers arr1 <= c)%nat ->
  exists tr1 tr2, gather_all (empty_tree c) arr1 = Ok tr1 /\ gather_all (empty_tree c) arr2 = Ok tr2 /\
    forall h, In h (keys (elements tr1)) <-> In h (keys (elements tr2)).
Proof.
  intros c arr1 arr2 Pm. apply order_independent_l. intros t. split; apply Permutation_in; auto.
  apply Permutation_sym. assumption.
Qed.

(* ================================================================ 5. content binding *)
Definition content_ok (t : token) : Prop :=
  match t_content t with Some c => hash c = t_chash t | None => True end.

Lemma receive_content_ok t c : content_ok t -> content_ok (fst (receive_content t c)).
Proof.
  unfold M16_tokentree.receive_content, content_ok. intros H.
  destruct (bytes_eqb (hash c) (t_chash t)) eqn:E; simpl; [|assumption].
  apply bytes_eqb_eq in E. assumption.
Qed.

Lemma receive_content_accepts t c :
  snd (receive_content t c) = true <-> hash c = t_chash t.
Proof.
  unfold M16_tokentree.receive_content. destruct (bytes_eqb (hash c) (t_chash t)) eqn:E; simpl.
  - apply bytes_eqb_eq in E. split; intros _; [assumption|reflexivity].
  - split; [discriminate|]. intros H. apply bytes_eqb_eq in H. congruence.
Qed.

Lemma from_db_content_ok prev sg chash content : content_ok (from_db hash prev sg chash content).
Proof.
  unfold from_db. destruct content; [|exact I]. apply receive_content_ok. exact I.
Qed.

Section ForallQ.
Variable Q : token -> Prop.
Hypothesis Qmerge : forall sh t, Q sh -> Q t -> Q (merge_content sh t).

Lemma wake_forall (g : tree -> token -> res (tree * option token)) :
  (forall tr t tr' r, g tr t = Ok (tr', r) -> Forall Q (elements tr) -> Forall Q (unchained tr) -> Q t ->
                      Forall Q (elements tr') /\ Forall Q (unchained tr')) ->
  forall ws tr tr', wake_with g ws tr = Ok tr' ->
    Forall Q ws -> Forall Q (elements tr) -> Forall Q (unchained tr) ->
    Forall Q (elements tr') /\ Forall Q (unchained tr').
Proof.
  intros Hg. induction ws as [|r ws IH]; intros tr tr' E Fw Fe Fu; simpl in E.
  - inversion E; subst. auto.
  - unfold u_pop in E. destruct (existsb (tok_eqb r) (unchained tr)); [|discriminate].
    destruct (g _ r) as [[tr1 r1]|] eqn:Eg; [|discriminate].
    inversion Fw; subst.
    destruct (Hg _ _ _ _ Eg) as [A B]; simpl; auto.
    { apply Forall_forall. intros x Hx. apply remove_first_In in Hx. rewrite Forall_forall in Fu. auto. }
    eapply IH; eauto.
Qed.

Lemma gather_forall : forall f tr t tr' r,
  gather f tr t = Ok (tr', r) -> Forall Q (elements tr) -> Forall Q (unchained tr) -> Q t ->
  Forall Q (elements tr') /\ Forall Q (unchained tr').
Proof.
  induction f as [|f IH]; intros tr t tr' r E Fe Fu Qt; [discriminate|].
  cbn [M16_tokentree.gather] in E.
  destruct (negb (tverify t)); [inversion E; subst; auto|].
  destruct (negb (readyb (elements tr) t)).
  { inversion E; subst. simpl. split; [assumption|].
    apply Forall_forall. intros x Hx. apply u_insert_In in Hx as [Hx|Hx]; [|subst; assumption].
    rewrite Forall_forall in Fu. auto. }
  destruct (find_key (thash t) (elements tr)) as [shadow|] eqn:Ef.
  - inversion E; subst. simpl. split; [|assumption].
    apply update_first_Forall; [assumption|]. apply Qmerge; [|assumption].
    apply (find_key_Some hash) in Ef as [A _]. rewrite Forall_forall in Fe. auto.
  - destruct (wake_with _ _ _) as [tr2|] eqn:Ew; [|discriminate]. inversion E; subst.
    eapply wake_forall; [| exact Ew | | | ]; simpl.
    + intros. eapply IH; eauto.
    + apply Forall_forall. intros x Hx. apply filter_In in Hx as [Hx _].
      rewrite Forall_forall in Fu. auto.
    + apply Forall_app. split; [assumption|]. constructor; [assumption|constructor].
    + assumption.
Qed.

Lemma gather_all_forall : forall arr tr tr',
  gather_all tr arr = Ok tr' -> Forall Q arr -> Forall Q (elements tr) -> Forall Q (unchained tr) ->
  Forall Q (elements tr') /\ Forall Q (unchained tr').
Proof.
  induction arr as [|t arr IH]; intros tr tr' E Fa Fe Fu; simpl in E.
  - inversion E; subst. auto.
  - destruct (gather_top tr t) as [[tr1 r]|] eqn:Eg; [|discriminate]. inversion Fa; subst.
    destruct (gather_forall _ _ _ _ _ Eg) as [A B]; auto. eapply IH; eauto.
Qed.
End ForallQ.

Lemma merge_content_ok sh t : content_ok sh -> content_ok t -> content_ok (merge_content sh t).
Proof.
  intros A B. unfold M16_tokentree.merge_content.
  destruct (t_content sh) eqn:Es; [assumption|].
  destruct (t_content t); [apply receive_content_ok|]; assumption.
Qed.

Lemma content_bound_l : forall c arr tr,
  Forall content_ok arr -> gather_all (empty_tree c) arr = Ok tr ->
  Forall content_ok (elements tr) /\ Forall content_ok (unchained tr).
Proof.
  intros c arr tr F E.
  eapply (gather_all_forall content_ok merge_content_ok); eauto; simpl; constructor.
Qed.

(* every content present in the tree was the content of an offered token and matches the pointer *)
Lemma content_provenance_l : forall c arr tr e ct,
  Forall content_ok arr -> gather_all (empty_tree c) arr = Ok tr ->
  In e (elements tr) -> t_content e = Some ct ->
  hash ct = t_chash e /\ exists p, In p arr /\ t_content p = Some ct.
Proof.
  intros c arr tr e ct F E He Hc.
  set (Q := fun x : token => forall k, t_content x = Some k ->
                hash k = t_chash x /\ exists p, In p arr /\ t_content p = Some k).
  assert (Qm : forall sh t, Q sh -> Q t -> Q (merge_content sh t)).
  { intros sh t A B k. unfold M16_tokentree.merge_content.
    destruct (t_content sh) eqn:Es.
    - intros Hk. apply A. congruence.
    - destruct (t_content t) as [k'|] eqn:Et; [|intros Hk; congruence].
      unfold M16_tokentree.receive_content.
      destruct (bytes_eqb (hash k') (t_chash sh)) eqn:Eb; simpl.
      + intros Hk. inversion Hk; subst k'. apply bytes_eqb_eq in Eb. split; [assumption|].
        destruct (B k Et) as [_ Hp]. assumption.
      + intros Hk. congruence. }
  assert (Fa : Forall Q arr).
  { apply Forall_forall. intros x Hx k Hk. rewrite Forall_forall in F. specialize (F x Hx).
    unfold content_ok in F. rewrite Hk in F. split; [assumption|]. exists x. auto. }
  destruct (gather_all_forall Q Qm arr (empty_tree c) tr E Fa ltac:(simpl; constructor)
              ltac:(simpl; constructor)) as [A _].
  rewrite Forall_forall in A. apply (A e He ct Hc).
Qed.

(* ================================================================ 6. public dump reload *)
Definition wire_form (t : token) : Prop :=
  length (t_prev t) = hl /\ length (t_chash t) = hl /\ length (t_sig t) = sl.

Lemma signed_length t : wire_form t -> length (signed t) = chunk hl sl.
Proof.
  intros [A [B C]]. unfold signed, plaintext, chunk. rewrite !app_length. lia.
Qed.

Lemma token_unserialize_signed t rest :
  wire_form t -> token_unserialize (signed t ++ rest) = Ok (strip t).
Proof.
  intros W. pose proof (signed_length t W) as L. destruct W as [A [B C]].
  unfold M16_tokentree.token_unserialize.
  assert (Hl : (length (signed t ++ rest) <? chunk hl sl)%nat = false).
  { apply Nat.ltb_ge. rewrite app_length. lia. }
  rewrite Hl. unfold strip. f_equal.
  unfold signed, plaintext. rewrite <- !app_assoc.
  rewrite (firstn_exact hl (t_prev t)) by assumption.
  rewrite (skipn_exact hl (t_prev t)) by assumption.
  rewrite (firstn_exact hl (t_chash t)) by assumption.
  replace (t_prev t ++ t_chash t ++ t_sig t ++ rest) with ((t_prev t ++ t_chash t) ++ t_sig t ++ rest)
    by (rewrite <- app_assoc; reflexivity).
  rewrite (skipn_exact (hl + hl) (t_prev t ++ t_chash t)) by (rewrite app_length; lia).
  rewrite (firstn_exact sl (t_sig t)) by assumption.
  reflexivity.
Qed.

Lemma find_key_notin h e : ~ In h (keys e) -> find_key h e = None.
Proof.
  intros H. destruct (find_key h e) eqn:E; [|reflexivity].
  apply (find_key_Some hash) in E as [A B]. exfalso. apply H. rewrite <- B.
  unfold M16_tokentree.keys. apply in_map. assumption.
Qed.

Lemma unser_dump c2 : (0 < hl)%nat -> forall rest done fuel,
  Forall (fun x => tverify x = true /\ wire_form x) (done ++ rest) ->
  chain_ok (done ++ rest) -> NoDup (keys (done ++ rest)) ->
  (length (flat_map signed rest) <= fuel)%nat ->
  unser_loop fuel (mkTree (map strip done) [] c2) (flat_map signed rest) true
  = (mkTree (map strip (done ++ rest)) [] c2, Ok true).
Proof.
  intros Hhl. induction rest as [|e rest IH]; intros done fuel F C N L.
  - rewrite app_nil_r. destruct fuel; reflexivity.
  - assert (Fe : tverify e = true /\ wire_form e).
    { rewrite Forall_forall in F. apply F. apply in_or_app. right. left. reflexivity. }
    destruct Fe as [Ve We]. pose proof (signed_length e We) as Ls.
    cbn [flat_map] in *. rewrite app_length in L.
    assert (Hc : (0 < chunk hl sl)%nat) by (unfold chunk; lia).
    destruct (signed e ++ flat_map signed rest) as [|b s'] eqn:Es.
    { exfalso. apply (f_equal (@length _)) in Es. rewrite app_length in Es. simpl in Es. lia. }
    destruct fuel as [|fuel]; [lia|].
    cbn [M16_tokentree.unser_loop]. rewrite <- Es.
    rewrite (token_unserialize_signed e _ We).
    (* gather_token on a tree without waiting tokens *)
    unfold M16_tokentree.gather_top. cbn [unchained length M16_tokentree.gather].
    rewrite (tverify_strip sigverify pk e), Ve. cbn [negb elements].
    pose proof (chain_ok_decomp _ C done e rest eq_refl) as R.
    assert (Rb : readyb (map strip done) (strip e) = true).
    { apply (readyb_iff hash sigverify pk). destruct R as [R|R]; [left; exact R|right].
      unfold P16_gather.chained in *. rewrite (keys_strip hash). exact R. }
    rewrite Rb. cbn [negb].
    rewrite (thash_strip hash e).
    assert (Nk : ~ In (thash e) (keys (map strip done))).
    { rewrite (keys_strip hash). rewrite (keys_app hash) in N. simpl in N.
      apply NoDup_remove_2 in N. intros H. apply N. apply in_or_app. left. assumption. }
    rewrite (find_key_notin _ _ Nk). cbn [filter wake_with cap].
    rewrite (skipn_exact (chunk hl sl) (signed e)) by assumption.
    cbn [is_some andb].
    replace (map strip done ++ [strip e]) with (map strip (done ++ [e])) by (rewrite map_app; reflexivity).
    replace (done ++ e :: rest) with ((done ++ [e]) ++ rest) in * by (rewrite <- app_assoc; reflexivity).
    apply IH; auto. lia.
Qed.

Lemma public_roundtrip_l : forall c arr tr c2,
  (0 < hl)%nat -> Forall wire_form arr -> gather_all (empty_tree c) arr = Ok tr ->
  unserialize_public (empty_tree c2) (serialize_public tr)
  = (mkTree (map strip (elements tr)) [] c2, Ok true).
Proof.
  intros c arr tr c2 Hhl W E. destruct (reach_inv _ _ _ E) as [[S1 S2 S3 _ _] _].
  unfold M16_tokentree.unserialize_public.
  assert (Hc : (chunk hl sl =? 0)%nat = false) by (apply Nat.eqb_neq; unfold chunk; lia).
  rewrite Hc. unfold serialize_public, empty_tree.
  apply (unser_dump c2 Hhl (elements tr) [] (length (flat_map signed (elements tr)))); simpl; auto.
  apply Forall_forall. intros x Hx. rewrite Forall_forall in S1. destruct (S1 x Hx) as [A B].
  split; [assumption|]. apply in_map_iff in B as [p [Ep Hp]].
  rewrite Forall_forall in W. destruct (W p Hp) as [W1 [W2 W3]].
  unfold strip in Ep. inversion Ep as [[E1 E2 E3]]. unfold wire_form. rewrite <- E1, <- E2, <- E3. auto.
Qed.

(* the dump in any chunk order (e.g. built from a Python set) reloads to the same elements, as long as
   the fresh tree's waiting area can hold them *)
Lemma unser_gather : (0 < hl)%nat -> forall l tr0 fuel correct tr',
  Forall wire_form l -> (length (flat_map signed l) <= fuel)%nat ->
  gather_all tr0 (map strip l) = Ok tr' ->
  exists b, unser_loop fuel tr0 (flat_map signed l) correct = (tr', Ok b).
Proof.
  intros Hhl. induction l as [|e l IH]; intros tr0 fuel correct tr' W L E.
  - simpl in *. inversion E; subst. exists correct. destruct fuel; reflexivity.
  - inversion W as [|? ? We Wl]; subst. pose proof (signed_length e We) as Ls.
    cbn [flat_map map] in *. rewrite app_length in L.
    assert (Hc : (0 < chunk hl sl)%nat) by (unfold chunk; lia).
    destruct (signed e ++ flat_map signed l) as [|b s'] eqn:Es.
    { exfalso. apply (f_equal (@length _)) in Es. rewrite app_length in Es. simpl in Es. lia. }
    destruct fuel as [|fuel]; [lia|].
    cbn [M16_tokentree.unser_loop]. rewrite <- Es.
    rewrite (token_unserialize_signed e _ We).
    cbn [M16_tokentree.gather_all] in E.
    destruct (gather_top tr0 (strip e)) as [[tr1 r]|] eqn:Eg; [|discriminate].
    rewrite (skipn_exact (chunk hl sl) (signed e)) by assumption.
    apply IH; auto. lia.
Qed.

Lemma nodup_length_le (l : list bytes) : (length (nodup bytes_eq_dec l) <= length l)%nat.
Proof.
  apply NoDup_incl_length; [apply NoDup_nodup|]. intros x Hx. apply nodup_In in Hx. assumption.
Qed.

Lemma public_roundtrip_any_order_l : forall c arr tr c2 l,
  (0 < hl)%nat -> Forall wire_form arr -> gather_all (empty_tree c) arr = Ok tr ->
  Permutation l (elements tr) -> (length (elements tr) <= c2)%nat ->
  exists tr2 b, unserialize_public (empty_tree c2) (flat_map signed l) = (tr2, Ok b) /\
    forall h, In h (keys (elements tr2)) <-> In h (keys (elements tr)).
Proof.
  intros c arr tr c2 l Hhl W E Pm Lc. destruct (reach_inv _ _ _ E) as [[S1 S2 S3 _ _] _].
  assert (Wl : Forall wire_form l).
  { apply Forall_forall. intros x Hx. apply (Permutation_in _ Pm) in Hx.
    rewrite Forall_forall in S1. destruct (S1 x Hx) as [_ B].
    apply in_map_iff in B as [p [Ep Hp]]. rewrite Forall_forall in W. destruct (W p Hp) as [W1 [W2 W3]].
    unfold strip in Ep. inversion Ep as [[E1 E2 E3]]. unfold wire_form. rewrite <- E1, <- E2, <- E3. auto. }
  set (arr' := map strip l).
  assert (Wp : Forall prev_wire arr').
  { apply Forall_forall. intros x Hx. apply in_map_iff in Hx as [y [Ey Hy]]. subst x.
    rewrite Forall_forall in Wl. destruct (Wl y Hy) as [A _]. exact A. }
  assert (D : (distinct_offers arr' <= c2)%nat).
  { unfold distinct_offers. eapply Nat.le_trans; [apply nodup_length_le|].
    unfold arr'. rewrite !map_length. rewrite (Permutation_length Pm). assumption. }
  destruct (elements_complete_l c2 arr' Wp D) as [tr2 [E2 K2]].
  destruct (unser_gather Hhl l (empty_tree c2) (length (flat_map signed l)) true tr2 Wl (le_n _) E2) as [b Eb].
  exists tr2, b. split.
  { unfold M16_tokentree.unserialize_public.
    assert (Hc : (chunk hl sl =? 0)%nat = false) by (apply Nat.eqb_neq; unfold chunk; lia).
    rewrite Hc. exact Eb. }
  intros h. rewrite K2. split.
  - intros [t [Ct Et]]. destruct (in_closure_signed _ _ _ _ _ Ct) as [_ Ht].
    apply in_map_iff in Ht as [y [Ey Hy]]. subst t h.
    rewrite (thash_strip hash). unfold M16_tokentree.keys. apply in_map.
    apply (Permutation_in _ Pm). assumption.
  - intros Hh. apply in_map_iff in Hh as [x [Ex Hx]].
    assert (F : Forall (fun x => tverify x = true /\ In (strip x) (map strip arr')) (elements tr)).
    { apply Forall_forall. intros y Hy. rewrite Forall_forall in S1. destruct (S1 y Hy) as [A _].
      split; [assumption|]. unfold arr'. rewrite map_map. apply in_map_iff. exists y.
      split; [reflexivity|]. apply (Permutation_in _ (Permutation_sym Pm)). assumption. }
    destruct (elems_in_closure arr' _ S2 F x Hx) as [p [Cp Ep]].
    exists p. split; [assumption|]. rewrite <- Ex. apply (strip_eq_thash hash). assumption.
Qed.

(* forged / foreign (signature does not verify) and dangling tokens are never elements *)
Lemma only_signed_connected_l : forall c arr tr t e,
  gather_all (empty_tree c) arr = Ok tr -> In e (elements tr) -> same_fields t e ->
  tverify t = true /\ (t_prev t = genesis \/ In (t_prev t) (keys (elements tr))).
Proof.
  intros c arr tr t e E He Sf. destruct (reach_inv _ _ _ E) as [[S1 S2 S3 _ _] _].
  rewrite Forall_forall in S1. destruct (S1 e He) as [A _].
  split; [rewrite (strip_eq_tverify sigverify pk _ _ Sf); assumption|].
  rewrite (strip_eq_prev _ _ Sf).
  destruct (chain_ok_split hash pk _ _ S2 He) as [e1 [e2 [Ee [_ R]]]].
  destruct R as [R|R]; [left; assumption|right].
  unfold P16_gather.chained in R. rewrite Ee, (keys_app hash). apply in_or_app. left. assumption.
Qed.

End Props.
