(* Refinement: the definitions translated from lazy_payload.py / payload_dataclass.py (gen/G20_vp.v) compute what the hand
   model M20_vp computes.  Proofs locate loops by shape (match goal), never by generated binder names. *)
From Coq Require Import ZArith List Bool Lia Arith String.
From IPV8V Require Import lib.PyErr model.M20_vp model.M20_vp_gen gen.G20_vp proofs.P20_vp proofs.P20_mixed.
Import ListNotations.
Open Scope Z_scope.

(* ------------------------------------------------------------------ lists, loops *)
Lemma len_nat {A} (l : list A) : len l = Z.of_nat (List.length l).
Proof. reflexivity. Qed.

Lemma py_idx_nat {A} (l : list A) (k : nat) :
  py_idx l (Z.of_nat k) = match nth_error l k with Some x => Ok x | None => Raise IndexError end.
Proof.
  unfold py_idx. destruct (Z.of_nat k <? 0) eqn:E; [apply Z.ltb_lt in E; lia|].
  rewrite E. rewrite Nat2Z.id. reflexivity.
Qed.

Lemma for_range_nat {St} (k : nat) (body : Z -> St -> res St) s :
  for_range (Z.of_nat k) body s = for_nat k 0 body s.
Proof. unfold for_range. rewrite Nat2Z.id. reflexivity. Qed.

Lemma for_nat_ext {St} (body body' : Z -> St -> res St) : forall k i s,
  (forall j s', i <= j < i + Z.of_nat k -> body j s' = body' j s') ->
  for_nat k i body s = for_nat k i body' s.
Proof.
  induction k as [|k IH]; intros i s H; [reflexivity|]. cbn [for_nat].
  rewrite H by lia. destruct (body' i s); cbn [bind]; [|reflexivity]. apply IH. intros j s' Hj. apply H. lia.
Qed.

(* a loop whose body ignores its counter *)
Fixpoint iter_res {St} (k : nat) (f : St -> res St) (s : St) : res St :=
  match k with O => Ok s | S k' => do s' <- f s; iter_res k' f s' end.
Lemma for_nat_iter {St} (f : St -> res St) (body : Z -> St -> res St) : forall k i s,
  (forall j s', body j s' = f s') -> for_nat k i body s = iter_res k f s.
Proof.
  induction k as [|k IH]; intros i s H; [reflexivity|]. cbn [for_nat iter_res]. rewrite H.
  destruct (f s); cbn [bind]; [|reflexivity]. apply IH. exact H.
Qed.

Lemma for_nat_each {A St} (l : list A) (f : A -> St -> res St) (body : Z -> St -> res St) : forall i0 s,
  (forall j x s', nth_error l j = Some x -> body (Z.of_nat (i0 + j)) s' = f x s') ->
  for_nat (List.length l) (Z.of_nat i0) body s = for_each l f s.
Proof.
  induction l as [|x tl IH]; intros i0 s H; [reflexivity|]. cbn [List.length for_nat for_each].
  rewrite <- (Nat.add_0_r i0) at 1. rewrite (H 0%nat x s eq_refl).
  destruct (f x s) as [s1|e]; cbn [bind]; [|reflexivity].
  replace (Z.of_nat i0 + 1) with (Z.of_nat (S i0)) by lia. apply IH.
  intros j y s' Hj. replace (S i0 + j)%nat with (i0 + S j)%nat by lia. apply H. exact Hj.
Qed.

Lemma for_each_ext {A St} (f g : A -> St -> res St) : forall l s,
  (forall x s', In x l -> f x s' = g x s') -> for_each l f s = for_each l g s.
Proof.
  induction l as [|x tl IH]; intros s H; [reflexivity|]. cbn [for_each]. rewrite H by (left; reflexivity).
  destruct (g x s); cbn [bind]; [|reflexivity]. apply IH. intros y s' Hy. apply H. right. exact Hy.
Qed.

Lemma skipn_add {A} : forall (b a : nat) (l : list A), skipn a (skipn b l) = skipn (b + a) l.
Proof. induction b as [|b IH]; intros a l; [reflexivity|]. destruct l; [destruct a; reflexivity|]. cbn. apply IH. Qed.

(* case analysis on whatever monadic computation is scrutinised next, on both sides *)
Ltac res_cases :=
  repeat (cbn [bind fst snd];
          match goal with
          | |- context [bind ?m _] => destruct m eqn:?; cbn [bind]
          | |- context [match ?m with Ok _ => _ | Raise _ => _ end] => destruct m eqn:?
          end); try reflexivity; try congruence.

Section Refine.
Variable V : Type.
Variable P : rtp V.

(* ------------------------------------------------------------------ _to_packlist_fmt, _fix_pack *)
Lemma to_packlist_fmt_spec f : VariablePayload__to_packlist_fmt V P f = Ok (GP (packname f)).
Proof. unfold VariablePayload__to_packlist_fmt. destruct f as [t [|]| |]; reflexivity. Qed.

Lemma fix_pack_spec K o n :
  VariablePayload__fix_pack V P K o n = fix_pack V (c_hook_pack V K) (defn_of V K) o n.
Proof.
  unfold VariablePayload__fix_pack, fix_pack, py_getattr, has_fix_pack, defn_of. cbn [d_fixpack].
  destruct (getattr V o n); cbn [bind]; [|reflexivity]. destruct (mem n (c_fixpack V K)); reflexivity.
Qed.

(* ------------------------------------------------------------------ to_pack_list *)
Definition pack_step (names : list nat) (fp : nat -> res V) (s : Z * list V) : res (Z * list V) :=
  do n <- py_idx names (fst s); do v <- fp n; Ok (fst s + 1, snd s ++ [v]).

Lemma iter_pack_step names fp : forall a idx args,
  (idx + a <= List.length names)%nat ->
  iter_res a (pack_step names fp) (Z.of_nat idx, args) =
  do vs <- mapM fp (firstn a (skipn idx names)); Ok (Z.of_nat (idx + a), args ++ vs).
Proof.
  induction a as [|a IH]; intros idx args H.
  - cbn. rewrite app_nil_r, Nat.add_0_r. reflexivity.
  - cbn [iter_res]. unfold pack_step at 1. cbn [fst snd]. rewrite py_idx_nat.
    destruct (nth_error names idx) as [n|] eqn:En; [|apply nth_error_None in En; lia].
    cbn [bind]. assert (Hs : skipn idx names = n :: skipn (S idx) names).
    { clear - En. revert idx En. induction names as [|x tl IHn]; intros [|idx] En; try discriminate En.
      - injection En as ->. reflexivity.
      - cbn in En. cbn [skipn]. rewrite (IHn _ En). reflexivity. }
    rewrite Hs. cbn [firstn mapM]. destruct (fp n) as [v|e]; cbn [bind]; [|reflexivity].
    replace (Z.of_nat idx + 1) with (Z.of_nat (S idx)) by lia. rewrite IH by lia.
    destruct (mapM fp (firstn a (skipn (S idx) names))); cbn [bind]; [|reflexivity].
    rewrite <- app_assoc. cbn [app]. replace (S idx + a)%nat with (idx + S a)%nat by lia. reflexivity.
Qed.

Definition lift_pl (r : list (pname * list V)) : list (gpname * list V) := map (fun e => (GP (fst e), snd e)) r.

Definition outer_pack_step (names : list nat) (fp : nat -> res V) (k : fkind) (s : Z * list (gpname * list V)) :=
  do r <- iter_res (arity k) (pack_step names fp) (fst s, []);
  Ok (fst r, snd s ++ [(GP (packname k), snd r)]).

Lemma for_each_outer_pack d o : forall fmts idx out,
  (idx + total_arity fmts <= List.length (d_names d))%nat ->
  forall hp,
  for_each fmts (outer_pack_step (d_names d) (fix_pack V hp d o)) (Z.of_nat idx, out) =
  do rest <- interp_pack_from V hp d o fmts (skipn idx (d_names d));
  Ok (Z.of_nat (idx + total_arity fmts), out ++ lift_pl rest).
Proof.
  induction fmts as [|k tl IH]; intros idx out H hp.
  - cbn. rewrite app_nil_r, Nat.add_0_r. reflexivity.
  - cbn [total_arity fold_right] in H. fold (total_arity tl) in H.
    cbn [for_each interp_pack_from]. unfold outer_pack_step at 1. cbn [fst snd].
    rewrite iter_pack_step by lia. rewrite take_names_firstn by (rewrite skipn_length; lia). cbn [bind app].
    destruct (mapM (fix_pack V hp d o) (firstn (arity k) (skipn idx (d_names d)))) as [vs|e]; cbn [bind fst snd]; [|reflexivity].
    rewrite IH by lia. rewrite skipn_add.
    destruct (interp_pack_from V hp d o tl (skipn (idx + arity k) (d_names d))); cbn [bind]; [|reflexivity].
    cbn [total_arity fold_right]. fold (total_arity tl). rewrite <- app_assoc. cbn [app lift_pl map fst snd].
    rewrite Nat.add_assoc. reflexivity.
Qed.

Lemma arity_bits k : (if fk_is_bits k then 8 else 1) = Z.of_nat (arity k).
Proof. destruct k as [t [|]| |]; reflexivity. Qed.

Theorem to_pack_list_refines K o :
  wf_defn (defn_of V K) = true ->
  VariablePayload_to_pack_list V P K o =
  do r <- interp_to_pack V (c_hook_pack V K) (defn_of V K) o; Ok (lift_pl r).
Proof.
  intros Hwf. unfold wf_defn in Hwf. apply andb_true_iff in Hwf as [Hl _]. apply Nat.eqb_eq in Hl. cbn [defn_of d_names d_fmts] in Hl.
  unfold VariablePayload_to_pack_list, interp_to_pack. cbn zeta.
  rewrite len_nat, for_range_nat.
  match goal with |- context [for_nat _ 0 ?b ?s] => set (B := b) end.
  change 0 with (Z.of_nat 0).
  rewrite (for_nat_each (c_fmts V K)
             (outer_pack_step (c_names V K) (fix_pack V (c_hook_pack V K) (defn_of V K) o)) B).
  - pose proof (for_each_outer_pack (defn_of V K) o (c_fmts V K) 0 [] ) as HH. cbn [defn_of d_names d_fmts skipn app Nat.add] in HH.
    rewrite HH by lia. cbn [d_names d_fmts defn_of].
    destruct (interp_pack_from V (c_hook_pack V K) (defn_of V K) o (c_fmts V K) (c_names V K)); reflexivity.
  - intros j k [idx out] Hj. subst B. cbn beta iota zeta. cbn [Nat.add].
    rewrite py_idx_nat, Hj. cbn [bind]. rewrite arity_bits, for_range_nat.
    unfold outer_pack_step. cbn [fst snd].
    match goal with |- context [for_nat _ 0 ?b ?s] => set (B2 := b) end.
    rewrite (for_nat_iter (pack_step (c_names V K) (fix_pack V (c_hook_pack V K) (defn_of V K) o)) B2).
    + destruct (iter_res (arity k) _ (idx, [])) as [[i2 a2]|e]; cbn [bind fst snd]; [|reflexivity].
      rewrite to_packlist_fmt_spec. reflexivity.
    + intros j' [i2 a2]. subst B2. cbn beta iota. unfold pack_step. cbn [fst snd].
      destruct (py_idx (c_names V K) i2); cbn [bind]; [|reflexivity].
      rewrite fix_pack_spec. destruct (fix_pack V (c_hook_pack V K) (defn_of V K) o a); reflexivity.
Qed.

(* ------------------------------------------------------------------ from_unpack_list *)
Lemma set_nth_app {A} (d : list A) a tl x : set_nth (d ++ a :: tl) (List.length d) x = Some (d ++ x :: tl).
Proof. induction d as [|y d IH]; [reflexivity|]. cbn [app List.length set_nth]. rewrite IH. reflexivity. Qed.

Lemma py_setitem_app {A} (d : list A) a tl x :
  py_setitem (d ++ a :: tl) (Z.of_nat (List.length d)) x = Ok (d ++ x :: tl).
Proof.
  unfold py_setitem. destruct (Z.of_nat (List.length d) <? 0) eqn:E; [apply Z.ltb_lt in E; lia|]. rewrite E.
  rewrite Nat2Z.id, set_nth_app. reflexivity.
Qed.

Lemma nth_error_skipn {A} : forall (i : nat) (l : list A),
  match nth_error l i with Some x => skipn i l = x :: skipn (S i) l | None => skipn i l = [] end.
Proof.
  induction i as [|i IH]; intros [|x l]; try reflexivity. cbn [nth_error]. specialize (IH l).
  destruct (nth_error l i); cbn [skipn] in *; exact IH.
Qed.

Definition unpack_step (names : list nat) (args : list V) (fu : list nat) (hu : nat -> V -> V) (i : Z) (ua : list V) : res (list V) :=
  do n <- py_idx names i;
  if mem n fu then (do a <- py_idx args i; py_setitem ua i (hu n a)) else Ok ua.

Lemma unpack_loop d hu names args : forall rest done done',
  List.length done' = List.length done -> args = done ++ rest ->
  for_nat (List.length rest) (Z.of_nat (List.length done)) (unpack_step names args (d_fixunpack d) hu) (done' ++ rest) =
  do r <- interp_fix_unpack V hu d (skipn (List.length done) names) rest; Ok (done' ++ r).
Proof.
  induction rest as [|a tl IH]; intros done done' Hl Ha.
  - cbn [List.length for_nat]. destruct (skipn (List.length done) names); reflexivity.
  - cbn [List.length for_nat interp_fix_unpack]. unfold unpack_step at 1. rewrite py_idx_nat.
    pose proof (nth_error_skipn (List.length done) names) as Hn.
    destruct (nth_error names (List.length done)) as [n|]; rewrite Hn; [|reflexivity]. cbn [bind interp_fix_unpack].
    assert (Ea : nth_error args (List.length done) = Some a).
    { subst args. rewrite nth_error_app2 by lia. rewrite Nat.sub_diag. reflexivity. }
    replace (Z.of_nat (List.length done) + 1) with (Z.of_nat (List.length (done ++ [a]))) by (rewrite app_length; cbn; lia).
    assert (Hstep : forall x, for_nat (List.length tl) (Z.of_nat (List.length (done ++ [a])))
                      (unpack_step names args (d_fixunpack d) hu) (done' ++ x :: tl) =
                    do r <- interp_fix_unpack V hu d (skipn (S (List.length done)) names) tl; Ok (done' ++ x :: r)).
    { intros x. replace (done' ++ x :: tl) with ((done' ++ [x]) ++ tl) by (rewrite <- app_assoc; reflexivity).
      rewrite (IH (done ++ [a]) (done' ++ [x])).
      - rewrite app_length. cbn [List.length]. rewrite Nat.add_1_r.
        destruct (interp_fix_unpack V hu d (skipn (S (List.length done)) names) tl); cbn [bind]; [|reflexivity].
        rewrite <- app_assoc. reflexivity.
      - rewrite !app_length. cbn. lia.
      - subst args. rewrite <- app_assoc. reflexivity. }
    destruct (mem n (d_fixunpack d)).
    + rewrite py_idx_nat, Ea. cbn [bind]. rewrite <- Hl, py_setitem_app. cbn [bind]. rewrite Hl. rewrite Hstep.
      destruct (interp_fix_unpack V hu d (skipn (S (List.length done)) names) tl); reflexivity.
    + cbn [bind]. rewrite Hstep. destruct (interp_fix_unpack V hu d (skipn (S (List.length done)) names) tl); reflexivity.
Qed.

Theorem from_unpack_list_refines NEW K args :
  VariablePayload_from_unpack_list V P NEW K args =
  do a' <- interp_fix_unpack V (c_hook_unpack V K) (defn_of V K) (c_names V K) args; NEW K a' [].
Proof.
  unfold VariablePayload_from_unpack_list. cbn zeta. rewrite len_nat, for_range_nat.
  match goal with |- context [for_nat _ 0 ?b ?s] => set (B := b) end.
  rewrite (for_nat_ext B (unpack_step (c_names V K) args (c_fixunpack V K) (c_hook_unpack V K))).
  - pose proof (unpack_loop (defn_of V K) (c_hook_unpack V K) (c_names V K) args args [] [] eq_refl eq_refl) as H.
    cbn [List.length app skipn defn_of d_fixunpack] in H. change (Z.of_nat 0) with 0 in H. rewrite H.
    destruct (interp_fix_unpack V (c_hook_unpack V K) (defn_of V K) (c_names V K) args); reflexivity.
  - intros j ua _. subst B. cbn beta. unfold unpack_step, has_fix_unpack.
    destruct (py_idx (c_names V K) j) as [n|]; cbn [bind]; [|reflexivity].
    destruct (mem n (c_fixunpack V K)); [|reflexivity].
    destruct (py_idx args j); cbn [bind]; [|reflexivity]. destruct (py_setitem ua j _); reflexivity.
Qed.

(* ------------------------------------------------------------------ __init__ *)
Lemma iter_res_add {St} (f : St -> res St) : forall a b s,
  iter_res (a + b) f s = do s' <- iter_res a f s; iter_res b f s'.
Proof.
  induction a as [|a IH]; intros b s; [reflexivity|]. cbn [Nat.add iter_res].
  destruct (f s); cbn [bind]; [apply IH|reflexivity].
Qed.

Lemma for_each_iter {St} (f : St -> res St) : forall (fmts : list fkind) s,
  for_each fmts (fun k s' => iter_res (arity k) f s') s = iter_res (total_arity fmts) f s.
Proof.
  induction fmts as [|k tl IH]; intros s; [reflexivity|]. cbn [for_each total_arity fold_right]. fold (total_arity tl).
  rewrite iter_res_add. destruct (iter_res (arity k) f s); cbn [bind]; [apply IH|reflexivity].
Qed.

Lemma kw_del_remove_key n (kw : list (nat * V)) : kw_del n kw = remove_key V n kw.
Proof. induction kw as [|[k v] tl IH]; [reflexivity|]. cbn. rewrite IH. reflexivity. Qed.

Lemma kw_set_fresh {X} n (v : X) : forall d, assoc_nat n d = None -> kw_set d n v = d ++ [(n, v)].
Proof.
  induction d as [|[k x] tl IH]; intros H; [reflexivity|]. cbn [assoc_nat] in H. cbn [kw_set app].
  destruct (Nat.eqb n k); [discriminate H|]. rewrite IH by exact H. reflexivity.
Qed.

Lemma assoc_nat_app {X} n (a b : list (nat * X)) :
  assoc_nat n (a ++ b) = match assoc_nat n a with Some v => Some v | None => assoc_nat n b end.
Proof. induction a as [|[k x] tl IH]; [reflexivity|]. cbn [app assoc_nat]. destruct (Nat.eqb n k); [reflexivity|exact IH]. Qed.

Definition init_step (names : list nat) (args : list V) (s : Z * fields V * list (nat * V)) : res (Z * fields V * list (nat * V)) :=
  let '(idx, self, kw) := s in
  do vk <- (if idx <? len args then (do v <- py_idx args idx; Ok (v, kw))
            else (do n <- py_idx names idx; kw_pop kw n));
  do n <- py_idx names idx;
  Ok (idx + 1, py_setattr V self n (fst vk), snd vk).

Lemma init_loop names args : forall count idx self kw,
  nodup_b (skipn idx names) = true ->
  (forall n, In n (skipn idx names) -> assoc_nat n self = None) ->
  iter_res count (init_step names args) (Z.of_nat idx, self, kw) =
  match interp_assign V count (skipn idx names) (skipn idx args) kw with
  | Ok (fs, ra, rk) => Ok (Z.of_nat (idx + count), self ++ fs, rk)
  | Raise e => Raise e
  end.
Proof.
  induction count as [|c IH]; intros idx self kw Hnd Hfresh.
  - cbn. rewrite app_nil_r, Nat.add_0_r. reflexivity.
  - cbn [iter_res interp_assign]. unfold init_step at 1. rewrite !py_idx_nat, len_nat.
    pose proof (nth_error_skipn idx names) as Hn. pose proof (nth_error_skipn idx args) as Ha.
    assert (Hnext : forall n v kw', skipn idx names = n :: skipn (S idx) names ->
              iter_res c (init_step names args) (Z.of_nat idx + 1, py_setattr V self n v, kw') =
              match interp_assign V c (skipn (S idx) names) (skipn (S idx) args) kw' with
              | Ok (fs, ra, rk) => Ok (Z.of_nat (idx + S c), self ++ (n, v) :: fs, rk)
              | Raise e => Raise e
              end).
    { intros n v kw' En. rewrite En in Hnd, Hfresh. cbn [nodup_b] in Hnd. apply andb_true_iff in Hnd as [Hn1 Hn2].
      replace (Z.of_nat idx + 1) with (Z.of_nat (S idx)) by lia.
      unfold py_setattr. rewrite kw_set_fresh by (apply Hfresh; left; reflexivity).
      rewrite IH.
      - destruct (interp_assign V c (skipn (S idx) names) (skipn (S idx) args) kw') as [[[fs ra] rk]|e]; [|reflexivity].
        rewrite <- app_assoc. cbn [app]. replace (S idx + c)%nat with (idx + S c)%nat by lia. reflexivity.
      - exact Hn2.
      - intros m Hm. rewrite assoc_nat_app. rewrite (Hfresh m (or_intror Hm)). cbn [assoc_nat].
        destruct (Nat.eqb m n) eqn:E; [|reflexivity]. apply Nat.eqb_eq in E. subst m.
        apply negb_true_iff in Hn1. assert (mem n (skipn (S idx) names) = true) by (apply mem_In; exact Hm). congruence. }
    destruct (Z.of_nat idx <? Z.of_nat (List.length args)) eqn:Elt.
    + apply Z.ltb_lt in Elt. destruct (nth_error args idx) as [a|] eqn:Ea; [|apply nth_error_None in Ea; lia].
      rewrite Ha. cbn [bind fst snd].
      destruct (nth_error names idx) as [n|]; rewrite Hn; [|reflexivity]. cbn [bind].
      rewrite (Hnext n a kw Hn).
      destruct (interp_assign V c (skipn (S idx) names) (skipn (S idx) args) kw) as [[[fs ra] rk]|e]; reflexivity.
    + apply Z.ltb_ge in Elt. destruct (nth_error args idx) as [a|] eqn:Ea;
        [assert (idx < List.length args)%nat by (apply nth_error_Some; congruence); lia|].
      rewrite Ha.
      destruct (nth_error names idx) as [n|]; rewrite Hn; [|reflexivity]. cbn [bind].
      unfold kw_pop. destruct (assoc_nat n kw) as [v|]; [|reflexivity]. cbn [bind fst snd].
      rewrite (Hnext n v _ Hn). rewrite kw_del_remove_key.
      assert (Hs : skipn (S idx) args = []).
      { apply skipn_all2. apply nth_error_None in Ea. lia. }
      rewrite Hs.
      destruct (interp_assign V c (skipn (S idx) names) [] (remove_key V n kw)) as [[[fs ra] rk]|e]; reflexivity.
Qed.

Lemma interp_assign_ra : forall count names args kw fs ra rk,
  interp_assign V count names args kw = Ok (fs, ra, rk) -> ra = skipn count args.
Proof.
  induction count as [|c IH]; intros names args kw fs ra rk H.
  - cbn in H. injection H as _ <- _. reflexivity.
  - cbn [interp_assign] in H. destruct names as [|n ntl]; [discriminate H|]. destruct args as [|a atl].
    + destruct (assoc_nat n kw); [|discriminate H].
      destruct (interp_assign V c ntl [] (remove_key V n kw)) as [[[fs' ra'] rk']|] eqn:E; cbn [bind] in H; [|discriminate H].
      injection H as _ <- _. apply IH in E. rewrite E. destruct c; reflexivity.
    + destruct (interp_assign V c ntl atl kw) as [[[fs' ra'] rk']|] eqn:E; cbn [bind] in H; [|discriminate H].
      injection H as _ <- _. apply IH in E. exact E.
Qed.

Theorem init_refines K args kwargs :
  wf_defn (defn_of V K) = true ->
  VariablePayload___init__ V P false K (object_new V) args kwargs =
  do fs <- interp_init V (defn_of V K) args kwargs; Ok (cls_set_match_args V K (c_names V K), fs).
Proof.
  intros Hwf. unfold wf_defn in Hwf. apply andb_true_iff in Hwf as [_ Hnd]. cbn [defn_of d_names] in Hnd.
  unfold VariablePayload___init__, interp_init. cbn zeta. cbn [defn_of d_names d_fmts].
  rewrite Z.sub_0_r, len_nat, for_range_nat.
  match goal with |- context [for_nat _ 0 ?b ?s] => set (B := b) end.
  change 0 with (Z.of_nat 0) at 1.
  rewrite (for_nat_each (c_fmts V K) (fun k s' => iter_res (arity k) (init_step (c_names V K) args) s') B).
  - rewrite for_each_iter. change 0 with (Z.of_nat 0). rewrite init_loop; [|exact Hnd|intros; reflexivity].
    cbn [skipn Nat.add object_new app]. change (Z.of_nat 0) with 0.
    destruct (interp_assign V (total_arity (c_fmts V K)) (c_names V K) args kwargs) as [[[fs ra] rk]|e] eqn:E; cbn [bind]; [|reflexivity].
    apply interp_assign_ra in E. subst ra. rewrite len_nat.
    destruct (skipn (total_arity (c_fmts V K)) args) as [|x xs] eqn:Es.
    + assert (Hle : (List.length args <= total_arity (c_fmts V K))%nat).
      { destruct (le_lt_dec (List.length args) (total_arity (c_fmts V K))) as [Hc|Hc]; [exact Hc|].
        assert (List.length (skipn (total_arity (c_fmts V K)) args) = 0%nat) by (rewrite Es; reflexivity).
        rewrite skipn_length in H. lia. }
      destruct (Z.of_nat (List.length args) - Z.of_nat (total_arity (c_fmts V K)) >? 0) eqn:Eg; [apply Z.gtb_lt in Eg; lia|].
      destruct rk; reflexivity.
    + assert (Hlt : (total_arity (c_fmts V K) < List.length args)%nat).
      { assert (List.length (skipn (total_arity (c_fmts V K)) args) = S (List.length xs)) by (rewrite Es; reflexivity).
        rewrite skipn_length in H. lia. }
      destruct (Z.of_nat (List.length args) - Z.of_nat (total_arity (c_fmts V K)) >? 0) eqn:Eg; [reflexivity|].
      rewrite Z.gtb_ltb in Eg. apply Z.ltb_ge in Eg. lia.
  - intros j k [[idx self] kw] Hj. subst B. cbn beta iota zeta. cbn [Nat.add]. rewrite ?Z.add_0_r.
    rewrite py_idx_nat, Hj. cbn [bind]. rewrite arity_bits, for_range_nat.
    match goal with |- context [for_nat _ 0 ?b ?s] => set (B2 := b) end.
    rewrite (for_nat_iter (init_step (c_names V K) args) B2).
    + destruct (iter_res (arity k) _ (idx, self, kw)) as [[[i2 s2] k2]|e]; reflexivity.
    + intros j' [[i2 s2] k2]. subst B2. cbn beta iota. unfold init_step.
      destruct (i2 <? len args).
      * destruct (py_idx args i2); cbn [bind fst snd]; [|reflexivity]. destruct (py_idx (c_names V K) i2); reflexivity.
      * destruct (py_idx (c_names V K) i2) as [n|]; cbn [bind]; [|reflexivity].
        destruct (kw_pop k2 n) as [[v k3]|]; cbn [bind fst snd]; reflexivity.
Qed.

End Refine.

(* ================================================================== the three generators *)
Lemma list_comp_if_true {A B} (l : list A) (f : A -> res B) : list_comp l f = mapM f l.
Proof. unfold list_comp. induction l as [|x tl IH]; [reflexivity|]. cbn [list_comp_if mapM bind]. rewrite IH. reflexivity. Qed.

Lemma mapM_pure {A B} (f : A -> B) : forall l, mapM (fun x => Ok (f x)) l = Ok (map f l).
Proof. induction l as [|x tl IH]; [reflexivity|]. cbn [mapM map bind]. rewrite IH. reflexivity. Qed.

Lemma list_comp_pure {A B} (f : A -> B) l : list_comp l (fun x => Ok (f x)) = Ok (map f l).
Proof. rewrite list_comp_if_true. apply mapM_pure. Qed.

Lemma nodup_nat_b l : nodup_nat l = nodup_b l.
Proof. induction l as [|x tl IH]; [reflexivity|]. cbn. rewrite IH. reflexivity. Qed.

Section Gen.
Variable V : Type.
Variable P : rtp V.

Definition key_self (d : list (nat * V)) : list (nat * nat) := map (fun kv => (fst kv, fst kv)) d.

Lemma assoc_key_self n (d : list (nat * V)) :
  assoc_nat n (key_self d) = if kw_mem n d then Some n else None.
Proof.
  unfold kw_mem. induction d as [|[k v] tl IH]; [reflexivity|]. cbn [key_self map fst assoc_nat].
  destruct (Nat.eqb n k) eqn:E; [apply Nat.eqb_eq in E; subst; reflexivity|exact IH].
Qed.

Theorem compile_init_refines names (defaults : list (nat * V)) :
  nodup_b names = true ->
  g_compile_init V P names defaults =
  Ok (CInit "__init__" (gen_init names (key_self defaults)) (map (fun n => (n, n)) names)).
Proof.
  intros Hnd. unfold g_compile_init. rewrite !list_comp_pure. cbn [bind]. cbn zeta.
  unfold py_compile. rewrite map_map.
  match goal with |- context [nodup_nat (map ?f names)] =>
    replace (map f names) with names
      by (rewrite <- (map_id names) at 1; apply map_ext; intros a; cbv beta; destruct (kw_mem a defaults); reflexivity) end.
  rewrite nodup_nat_b, Hnd.
  do 2 f_equal. unfold gen_init. apply map_ext. intros n. rewrite assoc_key_self.
  destruct (kw_mem n defaults); reflexivity.
Qed.

Theorem compile_from_unpack_list_refines K :
  nodup_b (c_names V K) = true ->
  g_compile_from_unpack_list V P K (c_names V K) =
  Ok (CUnpack "from_unpack_list" (c_names V K) (gen_unpack (defn_of V K))).
Proof.
  intros Hnd. unfold g_compile_from_unpack_list. cbn zeta. rewrite list_comp_pure. cbn [bind].
  unfold py_compile. rewrite nodup_nat_b, Hnd. do 2 f_equal. unfold gen_unpack. cbn [defn_of d_names d_fixunpack].
  apply map_ext. intros n. unfold has_fix_unpack. destruct (mem n (c_fixunpack V K)); reflexivity.
Qed.

Definition outer_gen_step (names : list nat) (fixp : list nat) (k : fkind) (s : Z * list (gpname * list (nat * bool))) :=
  do r <- iter_res (arity k) (pack_step (nat * bool) names (fun n => Ok (n, mem n fixp))) (fst s, []);
  Ok (fst r, snd s ++ [(GP (packname k), snd r)]).

Lemma for_each_outer_gen names fixp : forall fmts idx out,
  (idx + total_arity fmts <= List.length names)%nat ->
  for_each fmts (outer_gen_step names fixp) (Z.of_nat idx, out) =
  Ok (Z.of_nat (idx + total_arity fmts), out ++ lift_gp (gen_pack_from fixp fmts (skipn idx names))).
Proof.
  induction fmts as [|k tl IH]; intros idx out H.
  - cbn. rewrite app_nil_r, Nat.add_0_r. reflexivity.
  - cbn [total_arity fold_right] in H. fold (total_arity tl) in H.
    cbn [for_each gen_pack_from]. unfold outer_gen_step at 1. cbn [fst snd].
    rewrite iter_pack_step by lia. rewrite mapM_pure. cbn [bind fst snd app].
    rewrite IH by lia. rewrite skipn_add.
    cbn [total_arity fold_right]. fold (total_arity tl). rewrite <- app_assoc. cbn [app lift_gp map fst snd].
    rewrite Nat.add_assoc. reflexivity.
Qed.

Lemma derived_fmt_spec k :
  (if fk_is_str k then gp_of_fk k else if fk_is_list k then GP PPayloadList else GP PPayload) = GP (packname k).
Proof. destruct k as [t b| |]; reflexivity. Qed.

Theorem compile_to_pack_list_refines K :
  wf_defn (defn_of V K) = true ->
  g_compile_to_pack_list V P K (c_fmts V K) (c_names V K) =
  Ok (CPack "to_pack_list" (lift_gp (gen_pack (defn_of V K)))).
Proof.
  intros Hwf. unfold wf_defn in Hwf. apply andb_true_iff in Hwf as [Hl _]. apply Nat.eqb_eq in Hl. cbn [defn_of d_names d_fmts] in Hl.
  unfold g_compile_to_pack_list. cbn zeta.
  match goal with |- context [for_each _ ?b ?s] => set (B := b) end.
  rewrite (for_each_ext B (outer_gen_step (c_names V K) (c_fixpack V K))).
  - change 0 with (Z.of_nat 0). rewrite for_each_outer_gen by lia. cbn [bind skipn app]. reflexivity.
  - intros k [idx out] _. subst B. cbn beta iota zeta. rewrite arity_bits, for_range_nat.
    unfold outer_gen_step. cbn [fst snd].
    match goal with |- context [for_nat _ 0 ?b ?s] => set (B2 := b) end.
    rewrite (for_nat_iter (pack_step (nat * bool) (c_names V K) (fun n => Ok (n, mem n (c_fixpack V K)))) B2).
    + destruct (iter_res (arity k) _ (idx, [])) as [[i2 a2]|e]; cbn [bind fst snd]; [|reflexivity].
      rewrite derived_fmt_spec. reflexivity.
    + intros j' [i2 a2]. subst B2. cbn beta iota. unfold pack_step. cbn [fst snd].
      destruct (py_idx (c_names V K) i2) as [n|]; cbn [bind]; [|reflexivity].
      unfold has_fix_pack. destruct (mem n (c_fixpack V K)); reflexivity.
Qed.

End Gen.

(* ================================================================== vp_compile *)
Section Compile.
Variable V : Type.
Variable P : rtp V.

Lemma list_comp_if_pure {A B} (c : A -> bool) (f : A -> B) : forall l,
  list_comp_if l (fun x => Ok (c x)) (fun x => Ok (f x)) = Ok (map f (filter c l)).
Proof.
  induction l as [|x tl IH]; [reflexivity|]. cbn [list_comp_if bind filter]. rewrite IH.
  destruct (c x); reflexivity.
Qed.

Lemma kw_set_app_fresh {X} (d : list (nat * X)) k v : existsb (Nat.eqb k) (map fst d) = false -> kw_set d k v = d ++ [(k, v)].
Proof.
  intros H. apply kw_set_fresh. induction d as [|[k' x] tl IH]; [reflexivity|]. cbn [map fst existsb] in H.
  apply orb_false_iff in H as [H1 H2]. cbn [assoc_nat]. rewrite H1. apply IH. exact H2.
Qed.

Lemma kw_of_list_nodup {X} (l : list (nat * X)) : nodup_nat (map fst l) = true -> kw_of_list l = l.
Proof.
  unfold kw_of_list. intros H.
  assert (G : forall acc, nodup_nat (map fst (acc ++ l)) = true ->
              fold_left (fun d kv => kw_set d (fst kv) (snd kv)) l acc = acc ++ l).
  { clear H. induction l as [|[k v] tl IH]; intros acc H; [rewrite app_nil_r; reflexivity|].
    cbn [fold_left fst snd]. rewrite kw_set_app_fresh.
    - rewrite IH; rewrite <- app_assoc; [reflexivity|exact H].
    - clear IH. induction acc as [|[k' x] acc IHa]; [reflexivity|].
      cbn [app map fst nodup_nat] in H. apply andb_true_iff in H as [H1 H2]. cbn [map fst existsb].
      rewrite (IHa H2), orb_false_r. apply negb_true_iff in H1. rewrite map_app, existsb_app in H1.
      apply orb_false_iff in H1 as [_ H1]. cbn [map fst existsb] in H1. apply orb_false_iff in H1 as [H1 _].
      rewrite Nat.eqb_sym. exact H1. }
  apply (G []). exact H.
Qed.

Lemma nodup_nat_filter {X} (c : nat * X -> bool) : forall l, nodup_nat (map fst l) = true -> nodup_nat (map fst (filter c l)) = true.
Proof.
  induction l as [|[k v] tl IH]; intros H; [reflexivity|]. cbn [map fst nodup_nat] in H. apply andb_true_iff in H as [H1 H2].
  cbn [filter]. destruct (c (k, v)); [|apply IH; exact H2]. cbn [map fst nodup_nat]. rewrite (IH H2), andb_true_r.
  apply negb_true_iff. apply negb_true_iff in H1. clear - H1.
  induction tl as [|[k' v'] tl IH]; [reflexivity|]. cbn [map fst existsb] in H1. apply orb_false_iff in H1 as [A B].
  cbn [filter]. destruct (c (k', v')); [cbn [map fst existsb]; rewrite A; exact (IH B)|exact (IH B)].
Qed.

Lemma sassoc_sset_same {A} k (v : A) : forall l, sassoc k (sset l k v) = Some v.
Proof.
  induction l as [|[k' v'] tl IH]; cbn [sset sassoc]; [rewrite String.eqb_refl; reflexivity|].
  destruct (String.eqb k k') eqn:E; cbn [sassoc]; rewrite ?String.eqb_refl, ?E; [reflexivity|exact IH].
Qed.

Lemma exec_defaults (defaults : list (nat * V)) g : forall names,
  sassoc "_defaults"%string g = Some (GDefaults V defaults) ->
  mapM' (fun p : nat * option nat => match snd p with
                  | None => Ok (fst p, None)
                  | Some k => do v <- eval_default V g k; Ok (fst p, Some v)
                  end) (gen_init names (key_self V defaults)) = Ok (gen_init names defaults).
Proof.
  intros names Hg. induction names as [|n tl IH]; [reflexivity|].
  cbn [gen_init map mapM']. fold (gen_init tl (key_self V defaults)). fold (gen_init tl defaults).
  rewrite IH. cbn [fst snd]. rewrite assoc_key_self. unfold kw_mem.
  destruct (assoc_nat n defaults) as [v|] eqn:E; [|reflexivity].
  unfold eval_default. rewrite Hg. unfold kw_get. rewrite E. reflexivity.
Qed.

Theorem vp_compile_refines K :
  wf_cls V P K = true -> g_vp_compile V P K = Ok (compiled_class V P K).
Proof.
  intros Hwf. unfold wf_cls in Hwf. apply andb_true_iff in Hwf as [Hd Hs].
  assert (Hnd : nodup_b (c_names V K) = true).
  { unfold wf_defn in Hd. apply andb_true_iff in Hd as [_ Hd]. exact Hd. }
  unfold g_vp_compile. cbn zeta.
  destruct (sig_items V P (c_init V K)) as [sig|e] eqn:Es; [|discriminate Hs]. cbn [bind].
  unfold is_param_empty, param_default.
  rewrite (list_comp_if_pure (fun kv : nat * V => negb (is_empty V P (snd kv))) (fun kv => (fst kv, snd kv))). cbn [bind].
  assert (Hod : kw_of_list (map (fun kv : nat * V => (fst kv, snd kv)) (filter (fun kv => negb (is_empty V P (snd kv))) sig))
                = own_defaults V P K).
  { unfold own_defaults. rewrite Es.
    replace (map (fun kv : nat * V => (fst kv, snd kv)) (filter (fun kv => negb (is_empty V P (snd kv))) sig))
      with (filter (fun kv : nat * V => negb (is_empty V P (snd kv))) sig)
      by (symmetry; rewrite <- map_id; apply map_ext; intros [a b]; reflexivity).
    apply kw_of_list_nodup. apply nodup_nat_filter. exact Hs. }
  rewrite Hod.
  rewrite compile_init_refines by exact Hnd. cbn [bind]. unfold py_exec at 1.
  rewrite exec_defaults by (unfold genv_with; apply sassoc_sset_same). cbn [bind].
  rewrite compile_from_unpack_list_refines by exact Hnd. cbn [bind py_exec].
  rewrite compile_to_pack_list_refines by exact Hd. cbn [bind py_exec].
  reflexivity.
Qed.

End Compile.

(* ================================================================== what the compiled class's methods do *)
Section Calls.
Variable V : Type.
Variable P : rtp V.

Lemma leqb_refl {A} (eqb : A -> A -> bool) : (forall a, eqb a a = true) -> forall l, leqb eqb l l = true.
Proof. intros H. induction l as [|x tl IH]; [reflexivity|]. cbn. rewrite H, IH. reflexivity. Qed.

Lemma ident_setters_ok names : ident_setters names (map (fun n => (n, n)) names) = true.
Proof. unfold ident_setters. apply leqb_refl. intros [a b]. cbn. rewrite !Nat.eqb_refl. reflexivity. Qed.

Lemma strip_lift p : strip_gp (lift_gp p) = Some p.
Proof. induction p as [|[n l] tl IH]; [reflexivity|]. cbn [lift_gp map fst snd strip_gp]. fold (lift_gp tl). rewrite IH. reflexivity. Qed.

Lemma map_fst_gen_init {L} names (d : list (nat * L)) : map fst (gen_init names d) = names.
Proof. unfold gen_init. rewrite map_map. cbn [fst]. apply map_id. Qed.

Theorem compiled_init_is_eval K args kwargs :
  call_init V P (compiled_class V P K) args kwargs =
  eval_init V V (fun v => Ok v) (gen_init (c_names V K) (own_defaults V P K)) args kwargs.
Proof.
  unfold call_init, compiled_class. cbn [c_init cls_set_to_pack cls_set_from_unpack cls_set_match_args cls_set_init].
  rewrite map_fst_gen_init, ident_setters_ok. reflexivity.
Qed.

Theorem compiled_to_pack_is_eval K o :
  call_to_pack V (compiled_class V P K) o = eval_to_pack V (c_hook_pack V K) (gen_pack (defn_of V K)) o.
Proof.
  unfold call_to_pack, compiled_class. cbn [c_to_pack c_hook_pack cls_set_to_pack cls_set_from_unpack cls_set_match_args cls_set_init].
  rewrite strip_lift. reflexivity.
Qed.

Theorem compiled_from_unpack_is_eval K args :
  call_from_unpack V P (compiled_class V P K) args =
  eval_from_unpack V (is_none V P) (c_hook_unpack V K) V (fun v => Ok v)
    (gen_init (c_names V K) (own_defaults V P K)) (gen_unpack (defn_of V K)) args.
Proof.
  unfold call_from_unpack, eval_from_unpack.
  change (c_from_unpack V (compiled_class V P K)) with (MBound V (FUnpack V (c_names V K) (gen_unpack (defn_of V K))) (c_id V K)).
  change (c_id V (compiled_class V P K)) with (c_id V K). change (c_hook_unpack V (compiled_class V P K)) with (c_hook_unpack V K).
  cbv iota. rewrite Nat.eqb_refl.
  replace (map fst (gen_unpack (defn_of V K))) with (c_names V K)
    by (unfold gen_unpack; rewrite map_map; cbn [fst defn_of d_names]; rewrite map_id; reflexivity).
  rewrite (leqb_refl Nat.eqb Nat.eqb_refl). cbn [andb].
  destruct (eval_unpack_args V (is_none V P) (c_hook_unpack V K) (gen_unpack (defn_of V K)) args); cbn [bind]; [|reflexivity].
  apply compiled_init_is_eval.
Qed.

(* the defaults the compiled constructor uses are the definition's own, each under its own name *)
Theorem own_defaults_are_own K sig n v :
  sig_items V P (c_init V K) = Ok sig -> nodup_nat (map fst sig) = true ->
  (assoc_nat n (own_defaults V P K) = Some v <-> (assoc_nat n sig = Some v /\ is_empty V P v = false)).
Proof.
  intros Es Hnd. unfold own_defaults. rewrite Es. clear Es. revert v. induction sig as [|[k x] tl IH]; intros v; [cbn; split; [discriminate|intros [H _]; discriminate H]|].
  cbn [map fst nodup_nat] in Hnd. apply andb_true_iff in Hnd as [H1 H2]. specialize (IH H2).
  cbn [filter snd assoc_nat]. destruct (Nat.eqb n k) eqn:E.
  - apply Nat.eqb_eq in E. subst k.
    assert (Hno : forall w, assoc_nat n (filter (fun kv : nat * V => negb (is_empty V P (snd kv))) tl) = Some w -> False).
    { intros w Hw. apply IH in Hw. destruct Hw as [Hw _]. apply negb_true_iff in H1. clear - H1 Hw.
      induction tl as [|[k' x'] tl IHt]; [discriminate Hw|]. cbn [map fst existsb] in H1. apply orb_false_iff in H1 as [A B].
      cbn [assoc_nat] in Hw. rewrite A in Hw. exact (IHt B Hw). }
    destruct (is_empty V P x) eqn:Ee; cbn [negb].
    + split; [intros H; exfalso; exact (Hno _ H)|intros [H1' H2']; injection H1' as ->; congruence].
    + cbn [assoc_nat]. rewrite Nat.eqb_refl. split; [intros H; injection H as <-; split; [reflexivity|exact Ee]|intros [H _]; exact H].
  - destruct (negb (is_empty V P x)); cbn [assoc_nat]; rewrite ?E; apply IH.
Qed.

(* the result depends on the definition only: names, formats, which hooks exist, identity, and the own defaults *)
Theorem compiled_depends_on_definition_only K1 K2 :
  c_names V K1 = c_names V K2 -> c_fmts V K1 = c_fmts V K2 -> c_fixpack V K1 = c_fixpack V K2 ->
  c_fixunpack V K1 = c_fixunpack V K2 -> c_id V K1 = c_id V K2 -> own_defaults V P K1 = own_defaults V P K2 ->
  c_init V (compiled_class V P K1) = c_init V (compiled_class V P K2) /\
  c_from_unpack V (compiled_class V P K1) = c_from_unpack V (compiled_class V P K2) /\
  c_to_pack V (compiled_class V P K1) = c_to_pack V (compiled_class V P K2) /\
  c_match_args V (compiled_class V P K1) = c_match_args V (compiled_class V P K2).
Proof.
  intros Hn Hf Hp Hu Hi Ho. unfold compiled_class, defn_of.
  cbn [c_init c_from_unpack c_to_pack c_match_args cls_set_to_pack cls_set_from_unpack cls_set_match_args cls_set_init].
  rewrite Hn, Hf, Hp, Hu, Hi, Ho. repeat split.
Qed.

End Calls.

(* ================================================================== payload_dataclass *)
Section Dataclass.
Variable V : Type.
Variable P : rtp V.

Theorem type_map_refines : forall fuel t, (ty_depth t < fuel)%nat -> g_type_map V P fuel t = M20_vp.type_map t.
Proof.
  induction fuel as [|fuel IH]; intros t H; [lia|].
  destruct t; try reflexivity. cbn [ty_depth] in H.
  cbn [g_type_map ty_is ty_is_typevar ty_origin_is_seq ty_args]. change (py_idx [t] 0) with (Ok t). cbn [bind].
  destruct t; cbn [ty_issubclass_serializable bind tf_list_of M20_vp.type_map]; try reflexivity;
    rewrite IH by (cbn [ty_depth]; lia); reflexivity.
Qed.

Theorem type_from_format_spec f : g_type_from_format V P f = Ok (TVar f).
Proof. reflexivity. Qed.

Theorem type_map_of_type_from_format fuel f t :
  g_type_from_format V P f = Ok t -> g_type_map V P (S fuel) t = Ok (TFname f).
Proof. intros H. injection H as <-. reflexivity. Qed.

(* convert_to_payload, as a whole *)
Definition field_fmt (FUEL : nat) (K : cls V) (fld : nat * V) : res tfmt :=
  do t <- hints_get (c_hints V K) (fst fld); g_type_map V P FUEL t.

Lemma cls_hints_msg K m : c_hints V (cls_set_msg_id V K m) = c_hints V K.
Proof. reflexivity. Qed.

Theorem convert_to_payload_spec FUEL W K mid :
  g_convert_to_payload V P FUEL W K mid =
  do tfs <- mapM (field_fmt FUEL K) (c_dc_fields V K);
  do K' <- g_vp_compile V P (dc_definition V K mid tfs);
  let C := cls_set_init V K' (c_init V K) in
  Ok (world_set V W (c_module V C) (c_name V C) C, C).
Proof.
  (* robust to the order in which the class attributes are stored: the class handed to vp_compile is compared with
     dc_definition after destructing the record *)
  unfold g_convert_to_payload, field_fmt.
  destruct mid as [z|]; cbn [negb bind]; cbn zeta;
    rewrite ?list_comp_pure, ?list_comp_if_true; cbn [bind c_hints c_dc_fields cls_set_msg_id cls_set_names cls_set_fmts];
    (destruct (mapM _ (c_dc_fields V K)) as [tfs|]; cbn [bind]; [|reflexivity]);
    rewrite ?list_comp_pure; cbn [bind c_hints c_dc_fields c_init cls_set_msg_id cls_set_names cls_set_fmts];
    match goal with |- context [g_vp_compile V P ?c] =>
      match goal with |- _ = bind (g_vp_compile V P ?d) _ =>
        replace c with d by (destruct K; reflexivity); destruct (g_vp_compile V P d); reflexivity end end.
Qed.

End Dataclass.

Section Headline.
Variable V : Type.
Variable P : rtp V.

Definition supported (FUEL : nat) (K : cls V) (fld : nat * V) (f : tfmt) : Prop :=
  exists t, assoc_nat (fst fld) (c_hints V K) = Some t /\ M20_vp.type_map t = Ok f /\ (ty_depth t < FUEL)%nat.

Lemma field_fmts_ok FUEL K : forall flds tfs,
  Forall2 (supported FUEL K) flds tfs -> mapM (field_fmt V P FUEL K) flds = Ok tfs.
Proof.
  induction 1 as [|fld f flds tfs (t & Ht & Hm & Hd) _ IH]; [reflexivity|].
  cbn [mapM]. unfold field_fmt at 1, hints_get. rewrite Ht. cbn [bind]. rewrite type_map_refines by exact Hd. rewrite Hm.
  cbn [bind]. rewrite IH. reflexivity.
Qed.

(* (3) the converted dataclass IS the compiled form of the plain definition (field names, type_map'ed formats, msg_id) *)
Theorem dataclass_equals_plain_l FUEL W K mid tfs :
  Forall2 (supported FUEL K) (c_dc_fields V K) tfs ->
  wf_cls V P (dc_definition V K mid tfs) = true ->
  let D := dc_definition V K mid tfs in
  g_convert_to_payload V P FUEL W K mid =
    Ok (world_set V W (c_module V K) (c_name V K) (converted_class V P K mid tfs), converted_class V P K mid tfs)
  /\ c_names V D = map fst (c_dc_fields V K)
  /\ c_fmts V D = map fk_of_tfmt tfs
  /\ c_msg_id V D = match mid with Some z => Some z | None => c_msg_id V K end
  /\ c_fixpack V D = c_fixpack V K /\ c_fixunpack V D = c_fixunpack V K /\ c_init V D = c_init V K.
Proof.
  intros Hs Hwf D. split.
  - rewrite convert_to_payload_spec, (field_fmts_ok FUEL K _ _ Hs). cbn [bind]. fold D.
    rewrite vp_compile_refines by exact Hwf. cbn [bind]. destruct mid; reflexivity.
  - subst D. destruct mid; repeat split.
Qed.

(* ... its defaults are the dataclass field defaults *)
Definition rtp_ok : Prop := is_empty V P (empty_v V P) = true.

Theorem dataclass_defaults_l K mid tfs :
  rtp_ok -> dc_wf V P K ->
  own_defaults V P (dc_definition V K mid tfs) = filter (fun kv => negb (is_empty V P (snd kv))) (c_dc_fields V K).
Proof.
  intros Hr Hw. unfold own_defaults. replace (c_init V (dc_definition V K mid tfs)) with (c_init V K) by (destruct mid; reflexivity).
  rewrite Hw. cbn [sig_items filter snd]. rewrite Hr. reflexivity.
Qed.

(* an unsupported annotation: convert_to_payload raises what type_map raises *)
Theorem convert_unsupported_l FUEL W K mid pre fld post tfs t e :
  c_dc_fields V K = pre ++ fld :: post -> Forall2 (supported FUEL K) pre tfs ->
  assoc_nat (fst fld) (c_hints V K) = Some t -> (ty_depth t < FUEL)%nat -> M20_vp.type_map t = Raise e ->
  g_convert_to_payload V P FUEL W K mid = Raise e.
Proof.
  intros Hf Hs Ht Hd Hm. rewrite convert_to_payload_spec, Hf.
  assert (G : mapM (field_fmt V P FUEL K) (pre ++ fld :: post) = Raise e).
  { clear Hf. induction Hs as [|f0 x pre tfs (t0 & Ht0 & Hm0 & Hd0) _ IH].
    - cbn [app mapM]. unfold field_fmt at 1, hints_get. rewrite Ht. cbn [bind]. rewrite type_map_refines by exact Hd. rewrite Hm. reflexivity.
    - cbn [app mapM]. unfold field_fmt at 1, hints_get. rewrite Ht0. cbn [bind]. rewrite type_map_refines by exact Hd0. rewrite Hm0.
      cbn [bind]. rewrite IH. reflexivity. }
  rewrite G. reflexivity.
Qed.

(* DataClassPayload.__new__ / DataClassPayloadWID.__new__: a fresh instance, and the class converted again *)
Theorem dataclass_new_l FUEL W K :
  DataClassPayload___new__ V P FUEL W K = do r <- g_convert_to_payload V P FUEL W K None; Ok (fst r, snd r, object_new V).
Proof. unfold DataClassPayload___new__. cbn zeta. destruct (g_convert_to_payload V P FUEL W K None) as [[w k]|]; reflexivity. Qed.

Theorem dataclass_wid_new_l FUEL W K :
  DataClassPayloadWID___new__ V P FUEL W K =
  match c_msg_id V K with
  | Some z => do r <- g_convert_to_payload V P FUEL W K (Some z); Ok (fst r, snd r, object_new V)
  | None => Raise TypeError
  end.
Proof.
  unfold DataClassPayloadWID___new__, cls_get_msg_id. cbn zeta. destruct (c_msg_id V K) as [z|]; cbn [bind]; [|reflexivity].
  destruct (g_convert_to_payload V P FUEL W K (Some z)) as [[w k]|]; reflexivity.
Qed.

(* ---- the converted dataclass: constructor written by @dataclass, pack / unpack generated *)
Lemma assoc_filter_absent (c : nat * V -> bool) n : forall l, mem n (map fst l) = false -> assoc_nat n (filter c l) = None.
Proof.
  induction l as [|[k x] tl IH]; intros H; [reflexivity|]. unfold mem in H. cbn [map fst existsb] in H.
  apply orb_false_iff in H as [H1 H2]. cbn [filter]. destruct (c (k, x)); cbn [assoc_nat]; rewrite ?H1; apply IH; exact H2.
Qed.

Lemma assoc_filter_nonempty : forall (flds : list (nat * V)) n v,
  nodup_b (map fst flds) = true -> In (n, v) flds ->
  assoc_nat n (filter (fun kv : nat * V => negb (is_empty V P (snd kv))) flds) = if is_empty V P v then None else Some v.
Proof.
  induction flds as [|[k x] tl IH]; intros n v Hnd Hin; [destruct Hin|].
  cbn [map fst nodup_b] in Hnd. apply andb_true_iff in Hnd as [H1 H2]. apply negb_true_iff in H1.
  destruct Hin as [Hin|Hin].
  - injection Hin as -> ->. cbn [filter snd]. destruct (is_empty V P v) eqn:Ee; cbn [negb assoc_nat].
    + apply assoc_filter_absent. exact H1.
    + rewrite Nat.eqb_refl. reflexivity.
  - assert (Hk : Nat.eqb n k = false).
    { destruct (Nat.eqb n k) eqn:E; [|reflexivity]. apply Nat.eqb_eq in E. subst k. exfalso.
      assert (mem n (map fst tl) = true) by (apply mem_In; apply in_map_iff; exists (n, v); split; [reflexivity|exact Hin]). congruence. }
    cbn [filter snd]. destruct (negb (is_empty V P x)); cbn [assoc_nat]; rewrite ?Hk; apply IH; assumption.
Qed.

Lemma dataclass_params flds :
  nodup_b (map fst flds) = true ->
  map (fun kv : nat * V => (fst kv, if is_empty V P (snd kv) then None else Some (snd kv))) flds =
  gen_init (map fst flds) (filter (fun kv : nat * V => negb (is_empty V P (snd kv))) flds).
Proof.
  intros Hnd. unfold gen_init. rewrite map_map. apply map_ext_in. intros [n v] Hin. cbn [fst snd].
  rewrite (assoc_filter_nonempty flds n v Hnd Hin). reflexivity.
Qed.

(* the constructor of the converted class binds like the generated one would, omitted parameters getting run_default of the
   field's default (a fresh default_factory result where the field has one) *)
Theorem converted_init_l K mid tfs args kwargs :
  rtp_ok -> dc_wf V P K -> nodup_b (map fst (c_dc_fields V K)) = true ->
  let D := dc_definition V K mid tfs in
  call_init V P (converted_class V P K mid tfs) args kwargs =
  eval_init V V (run_default V P) (gen_init (c_names V D) (own_defaults V P D)) args kwargs.
Proof.
  intros Hr Hw Hnd D. unfold call_init, converted_class.
  change (c_init V (cls_set_init V (compiled_class V P (dc_definition V K mid tfs)) (c_init V K))) with (c_init V K).
  subst D. rewrite (dataclass_defaults_l K mid tfs Hr Hw). rewrite Hw. rewrite (dataclass_params _ Hnd).
  destruct mid; reflexivity.
Qed.

Theorem converted_to_pack_l K mid tfs o :
  let D := dc_definition V K mid tfs in
  call_to_pack V (converted_class V P K mid tfs) o = eval_to_pack V (c_hook_pack V K) (gen_pack (defn_of V D)) o.
Proof.
  intros D. pose proof (compiled_to_pack_is_eval V P D o) as H. subst D.
  replace (c_hook_pack V (dc_definition V K mid tfs)) with (c_hook_pack V K) in H by (destruct mid; reflexivity).
  rewrite <- H. reflexivity.
Qed.

Theorem converted_from_unpack_l K mid tfs args :
  rtp_ok -> dc_wf V P K -> nodup_b (map fst (c_dc_fields V K)) = true ->
  let D := dc_definition V K mid tfs in
  call_from_unpack V P (converted_class V P K mid tfs) args =
  eval_from_unpack V (is_none V P) (c_hook_unpack V K) V (run_default V P)
    (gen_init (c_names V D) (own_defaults V P D)) (gen_unpack (defn_of V D)) args.
Proof.
  intros Hr Hw Hnd D. unfold call_from_unpack, eval_from_unpack.
  change (c_from_unpack V (converted_class V P K mid tfs)) with (MBound V (FUnpack V (c_names V D) (gen_unpack (defn_of V D))) (c_id V D)).
  change (c_id V (converted_class V P K mid tfs)) with (c_id V D).
  replace (c_hook_unpack V (converted_class V P K mid tfs)) with (c_hook_unpack V K) by (destruct mid; reflexivity).
  cbv iota. rewrite Nat.eqb_refl.
  replace (map fst (gen_unpack (defn_of V D))) with (c_names V D)
    by (unfold gen_unpack; rewrite map_map; cbn [fst defn_of d_names]; rewrite map_id; reflexivity).
  rewrite (leqb_refl Nat.eqb Nat.eqb_refl). cbn [andb].
  destruct (eval_unpack_args V (is_none V P) (c_hook_unpack V K) (gen_unpack (defn_of V D)) args); cbn [bind]; [|reflexivity].
  apply (converted_init_l K mid tfs _ _ Hr Hw Hnd).
Qed.

(* allocating again converts again and changes nothing *)
Theorem reallocation_stable_l FUEL W K mid tfs :
  Forall2 (supported FUEL K) (c_dc_fields V K) tfs ->
  wf_cls V P (dc_definition V K mid tfs) = true ->
  (mid = None \/ mid = c_msg_id V (dc_definition V K mid tfs)) ->
  let C := converted_class V P K mid tfs in
  g_convert_to_payload V P FUEL W C mid = Ok (world_set V W (c_module V K) (c_name V K) C, C).
Proof.
  intros Hs Hwf Hm C.
  assert (E : converted_class V P C mid tfs = C /\ wf_cls V P (dc_definition V C mid tfs) = wf_cls V P (dc_definition V K mid tfs)).
  { subst C. destruct K. destruct mid; split; reflexivity. }
  destruct E as [E1 E2].
  destruct (dataclass_equals_plain_l FUEL W C mid tfs) as [H _].
  - subst C. clear - Hs. destruct mid; exact Hs.
  - rewrite E2. exact Hwf.
  - rewrite H, E1. subst C. destruct mid; reflexivity.
Qed.

(* ---- re-compilation (every allocation of a dataclass payload compiles again) changes nothing *)
Lemma assoc_filter_map (od : list (nat * V)) : forall names n,
  nodup_b names = true ->
  (forall k v, assoc_nat k od = Some v -> is_empty V P v = false) -> rtp_ok ->
  assoc_nat n (filter (fun kv : nat * V => negb (is_empty V P (snd kv)))
                 (map (fun p : nat * option V => (fst p, match snd p with Some v => v | None => empty_v V P end)) (gen_init names od)))
  = if mem n names then assoc_nat n od else None.
Proof.
  intros names n Hnd Hne Hr. induction names as [|m tl IH]; [reflexivity|].
  cbn [nodup_b] in Hnd. apply andb_true_iff in Hnd as [H1 H2]. specialize (IH H2).
  cbn [gen_init map fst snd]. fold (gen_init tl od). unfold mem. cbn [existsb]. fold (mem n tl).
  destruct (assoc_nat m od) as [v|] eqn:Em.
  - cbn [filter snd]. rewrite (Hne m v Em). cbn [negb assoc_nat]. destruct (Nat.eqb n m) eqn:E.
    + apply Nat.eqb_eq in E. subst. rewrite Em. reflexivity.
    + cbn [orb]. exact IH.
  - cbn [filter snd]. rewrite Hr. cbn [negb]. destruct (Nat.eqb n m) eqn:E.
    + apply Nat.eqb_eq in E. subst. cbn [orb]. rewrite IH. apply negb_true_iff in H1. unfold mem in H1. fold (mem m tl) in H1.
      rewrite H1. symmetry. exact Em.
    + cbn [orb]. exact IH.
Qed.

Theorem recompilation_stable_l K :
  rtp_ok -> wf_cls V P K = true -> mem (self_name V P) (c_names V K) = false ->
  g_vp_compile V P (compiled_class V P K) = Ok (compiled_class V P K).
Proof.
  intros Hr Hwf Hself. pose proof Hwf as Hwf0. unfold wf_cls in Hwf. apply andb_true_iff in Hwf as [Hd Hs].
  assert (Hnd : nodup_b (c_names V K) = true) by (unfold wf_defn in Hd; apply andb_true_iff in Hd as [_ Hd]; exact Hd).
  assert (Hne : forall k v, assoc_nat k (own_defaults V P K) = Some v -> is_empty V P v = false).
  { intros k v Hk. destruct (sig_items V P (c_init V K)) as [sig|] eqn:Es; [|discriminate Hs].
    apply (own_defaults_are_own V P K sig k v Es Hs) in Hk. tauto. }
  assert (Hgi : gen_init (c_names V K) (own_defaults V P (compiled_class V P K)) = gen_init (c_names V K) (own_defaults V P K)).
  { unfold gen_init. apply map_ext_in. intros n Hn. f_equal.
    unfold own_defaults at 1. unfold compiled_class. cbn [c_init cls_set_to_pack cls_set_from_unpack cls_set_match_args cls_set_init sig_items].
    cbn [filter snd]. rewrite Hr. cbn [negb].
    rewrite (assoc_filter_map (own_defaults V P K) (c_names V K) n Hnd Hne Hr).
    assert (mem n (c_names V K) = true) by (apply mem_In; exact Hn). rewrite H. reflexivity. }
  rewrite vp_compile_refines.
  - f_equal. unfold compiled_class at 1. cbn [defn_of c_names c_fmts c_fixpack c_fixunpack c_id compiled_class cls_set_to_pack cls_set_from_unpack cls_set_match_args cls_set_init].
    rewrite Hgi. reflexivity.
  - unfold wf_cls. apply andb_true_iff. split; [exact Hd|].
    unfold compiled_class. cbn [c_init cls_set_to_pack cls_set_from_unpack cls_set_match_args cls_set_init sig_items].
    cbn [map fst nodup_nat]. rewrite map_map. cbn [fst]. rewrite map_fst_gen_init. rewrite nodup_nat_b, Hnd, andb_true_r.
    apply negb_true_iff. exact Hself.
Qed.

(* ---- chaining with (1) and the C20 theorems: the compiled class behaves like the translated interpreted methods *)
Theorem compiled_pack_like_interpreted_gen K o :
  wf_defn (defn_of V K) = true ->
  (do r <- call_to_pack V (compiled_class V P K) o; Ok (lift_pl V r)) = VariablePayload_to_pack_list V P K o.
Proof.
  intros Hwf. rewrite compiled_to_pack_is_eval, to_pack_list_refines by exact Hwf.
  rewrite (pack_equal_l V (c_hook_pack V K) (defn_of V K) o Hwf). reflexivity.
Qed.

Theorem compiled_unpack_like_interpreted_gen K args :
  wf_defn (defn_of V K) = true -> List.length args = List.length (c_names V K) ->
  (forall n a, In (n, a) (combine (c_names V K) args) -> mem n (c_fixunpack V K) = true -> is_none V P a = false) ->
  (do fs <- call_from_unpack V P (compiled_class V P K) args; Ok (cls_set_match_args V K (c_names V K), fs)) =
  VariablePayload_from_unpack_list V P (fun K' a k => VariablePayload___init__ V P false K' (object_new V) a k) K args.
Proof.
  intros Hwf Hl Hn. rewrite compiled_from_unpack_is_eval, from_unpack_list_refines.
  pose proof (from_unpack_equal_l V (is_none V P) (c_hook_unpack V K) V (fun v => Ok v) (defn_of V K) (own_defaults V P K) args Hwf Hl Hn) as HE.
  change (d_names (defn_of V K)) with (c_names V K) in HE. rewrite HE.
  unfold interp_from_unpack. cbn [defn_of d_names].
  destruct (interp_fix_unpack V (c_hook_unpack V K) (defn_of V K) (c_names V K) args); cbn [bind]; [|reflexivity].
  rewrite init_refines by exact Hwf. reflexivity.
Qed.

Theorem compiled_init_like_interpreted_gen K args :
  wf_defn (defn_of V K) = true -> List.length args = List.length (c_names V K) ->
  (do fs <- call_init V P (compiled_class V P K) args []; Ok (cls_set_match_args V K (c_names V K), fs)) =
  VariablePayload___init__ V P false K (object_new V) args [].
Proof.
  intros Hwf Hl. rewrite compiled_init_is_eval, init_refines by exact Hwf.
  destruct (init_equal_positional_l V V (fun v => Ok v) (defn_of V K) (own_defaults V P K) args Hwf Hl) as [H1 H2].
  change (d_names (defn_of V K)) with (c_names V K) in H1. rewrite H1, H2. reflexivity.
Qed.

End Headline.
