(* C12y - refinement: the functions translated from network.py / peer.py (gen/G12_network.v) compute exactly
   what the hand model model/M12_network.v computes, on every reachable graph. *)
From Coq Require Import ZArith List Bool Lia Arith.
From IPV8V Require Import lib.PyErr lib.Bytes model.M02_wire model.M12_network spec.S12_graph
  proofs.P12_base proofs.P12_inv proofs.P12_queries proofs.P12_snapshot proofs.P12_codec
  model.M12_network_rt gen.G12_network model.M12_network_gen.
Import ListNotations.
Open Scope Z_scope.

Ltac gstart := cbv beta iota delta [run_fn sseq sif sset sret scall sskip sbreak scont stry sfor].
Ltac netsimp := cbn [heap all_addrs verified by_key services bl_addr bl_mid ip_cache ip_cap intro_cache intro_cap
                     svc_cache svc_cap set_heap set_all set_verified set_by_key set_services set_ip_cache
                     set_intro_cache set_svc_cache]; cbv delta [service key].
Ltac netsimp_in H := cbn [heap all_addrs verified by_key services bl_addr bl_mid ip_cache ip_cap intro_cache intro_cap
                     svc_cache svc_cap set_heap set_all set_verified set_by_key set_services set_ip_cache
                     set_intro_cache set_svc_cache] in H; cbv delta [service key] in H.
Ltac split_ifs := cbv delta [service key]; repeat match goal with |- context [if ?c then _ else _] => let G := fresh "G" in destruct c eqn:G; try rewrite G end.

(* ------------------------------------------------------------------ loops *)
(* a loop whose body always falls through is a fold *)
Lemma sfor_list_fold {Sg L R X} (body : X -> stmt Sg L R) (F : X -> (Sg * L) -> (Sg * L)) (P : X -> Prop) l :
  (forall y x, P y -> body y x = (F y x, CNorm)) -> Forall P l ->
  forall x, sfor_list l body x = (fold_left (fun acc y => F y acc) l x, CNorm).
Proof.
  intros H. induction l as [|y l IH]; intros HP x; simpl; [reflexivity|].
  inversion HP; subst. rewrite (H y x H2). apply IH. assumption.
Qed.

Lemma Forall_True {A} (l : list A) : Forall (fun _ => True) l.
Proof. induction l; constructor; auto. Qed.

Lemma if_pair {A B} (c : bool) (a b : A) (k : B) : (if c then (a, k) else (b, k)) = (if c then a else b, k).
Proof. destruct c; reflexivity. Qed.

Lemma fold_append_filter {A} (p : A -> bool) l : forall acc,
  fold_left (fun acc y => if p y then acc ++ [y] else acc) l acc = acc ++ filter p l.
Proof.
  induction l as [|y l IH]; intros acc; simpl; [rewrite app_nil_r; reflexivity|].
  rewrite IH. destruct (p y); [rewrite <- app_assoc|]; reflexivity.
Qed.

(* ------------------------------------------------------------------ dict facts used by the translated code *)
Lemma d_set_absent {K V} (eqb : K -> K -> bool) k (v : V) d : d_mem eqb k d = false -> d_set eqb k v d = d ++ [(k, v)].
Proof. intros H. unfold d_set. rewrite H. reflexivity. Qed.

Lemma d_set_nonempty {K V} (eqb : K -> K -> bool) k (v : V) d : d_set eqb k v d <> [].
Proof.
  unfold d_set. destruct (d_mem eqb k d) eqn:M.
  - destruct d as [|e d]; [discriminate M|]. simpl. discriminate.
  - destruct d; discriminate.
Qed.

Lemma popitem_evict {A} cap (c : list A) : c <> [] ->
  (if len_gt c cap then popitem_first c else Ok c) = Ok (evict cap c).
Proof.
  intros H. unfold evict, len_gt. destruct (Z.of_nat (length c) >? cap); [|reflexivity].
  destruct c; [contradiction|reflexivity].
Qed.

Section DSet.
  Context {K V : Type} (eqb : K -> K -> bool).
  Hypothesis eqb_eq : forall a b, eqb a b = true <-> a = b.

  Lemma d_mem_set k (v : V) d : d_mem eqb k (d_set eqb k v d) = true.
  Proof. unfold d_mem. rewrite (d_get_set eqb eqb_eq). rewrite (eqb_refl' eqb eqb_eq). reflexivity. Qed.

  Lemma d_set_set k (v1 v2 : V) d : d_set eqb k v2 (d_set eqb k v1 d) = d_set eqb k v2 d.
  Proof.
    unfold d_set at 1. rewrite d_mem_set. unfold d_set. destruct (d_mem eqb k d) eqn:M.
    - rewrite map_map. apply map_ext. intros [k1 w]. cbn [fst]. destruct (eqb k1 k) eqn:E; cbn [fst]; rewrite ?E; reflexivity.
    - rewrite map_app. cbn [map fst]. rewrite (eqb_refl' eqb eqb_eq). f_equal.
      rewrite <- (map_id d) at 2. apply map_ext_in. intros [k1 w] Hin. cbn [fst].
      destruct (eqb k1 k) eqn:E; [|reflexivity]. apply eqb_eq in E. subst k1.
      apply (d_mem_false eqb eqb_eq) in M. exfalso. apply M. apply in_map_iff. exists (k, w). auto.
  Qed.

  Lemma fold_d_del (ks : list K) : forall (d : list (K * V)),
    fold_left (fun acc k => d_del eqb k acc) ks d = filter (fun e => negb (existsb (fun k => eqb (fst e) k) ks)) d.
  Proof.
    induction ks as [|k ks IH]; intros d; simpl.
    - rewrite <- (filter_true d) at 1. reflexivity.
    - rewrite IH. unfold d_del. clear IH. induction d as [|e d IHd]; simpl; [reflexivity|].
      destruct (eqb (fst e) k); simpl; [exact IHd|]. destruct (existsb _ ks); simpl; rewrite IHd; reflexivity.
  Qed.
End DSet.

(* ------------------------------------------------------------------ _forget_introduction *)
Lemma remove_first_addr_spec a v : mem_addr a v = true ->
  exists v', remove_first_addr a v = Ok v' /\ S (length v') = length v /\
             filter (fun x => negb (addr_eqb x a)) v' = filter (fun x => negb (addr_eqb x a)) v.
Proof.
  induction v as [|x v IH]; simpl; [discriminate|]. intros H.
  destruct (addr_eqb x a) eqn:E.
  - exists v. simpl. auto.
  - rewrite addr_eqb_sym, E in H. simpl in H. destruct (IH H) as (v' & E1 & E2 & E3).
    exists (x :: v'). rewrite E1. cbn [bind]. simpl. rewrite E, E3. simpl. auto.
Qed.

Lemma filter_ne_notin a v : mem_addr a v = false -> filter (fun x => negb (addr_eqb x a)) v = v.
Proof.
  induction v as [|x v IH]; simpl; [reflexivity|]. intros H. apply orb_false_iff in H as [H1 H2].
  rewrite addr_eqb_sym, H1. simpl. rewrite IH by assumption. reflexivity.
Qed.

Lemma while_remove a fuel : forall v, (length v < fuel)%nat ->
  swhile (R := unit) fuel (fun xv : unit * list addr => let v := snd xv in Ok (mem_addr a v))
         (sset (fun xv => let v := snd xv in bind (remove_first_addr a v) (fun t1_ => Ok (tt, t1_)))) (tt, v)
  = ((tt, filter (fun x => negb (addr_eqb x a)) v), CNorm).
Proof.
  induction fuel as [|f IH]; intros v Hf; [lia|]. cbn [swhile snd].
  destruct (mem_addr a v) eqn:M.
  - destruct (remove_first_addr_spec a v M) as (v' & E1 & E2 & E3). unfold sset. cbn [snd]. rewrite E1. cbn [bind].
    rewrite IH by lia. rewrite E3. reflexivity.
  - rewrite filter_ne_notin by assumption. reflexivity.
Qed.

Lemma map_values_res_ok {K V} (f : V -> res V) (g : V -> V) (d : list (K * V)) :
  (forall e, In e d -> f (snd e) = Ok (g (snd e))) ->
  map_values_res f d = Ok (map (fun e => (fst e, g (snd e))) d).
Proof.
  induction d as [|[k v] d IH]; intros H; simpl; [reflexivity|].
  pose proof (H (k, v) (or_introl eq_refl)) as E. cbn [snd] in E. rewrite E. cbn [bind snd fst]. rewrite IH; [reflexivity|].
  intros e He. apply H. right. assumption.
Qed.

Lemma longest_bound {A} (c : list (key * list A)) k l : In (k, l) c -> (length l <= longest c)%nat.
Proof.
  unfold longest. intros H.
  assert (HF := proj1 (list_max_le (map (fun e : key * list A => length (snd e)) c) (list_max (map (fun e : key * list A => length (snd e)) c))) (le_n _)).
  rewrite Forall_forall in HF. apply (HF (length l)). apply in_map_iff. exists (k, l). auto.
Qed.

Lemma g_forget_introduction_ok fuel a s : (longest (intro_cache s) < fuel)%nat ->
  g_forget_introduction fuel a s = (set_intro_cache s (forget_intro a (intro_cache s)), Ok tt).
Proof.
  intros Hf. unfold g_forget_introduction, gb_forget_introduction. gstart. cbn [fst snd forget_introduction_v0].
  rewrite (map_values_res_ok _ (fun v => filter (fun x => negb (addr_eqb x a)) v)).
  - cbn [bind fst]. reflexivity.
  - intros [k l] Hin. cbn [snd]. rewrite while_remove; [reflexivity|].
    pose proof (longest_bound _ k l Hin). lia.
Qed.

(* ------------------------------------------------------------------ _forget_service_caches *)
Lemma fold_svc_del {L} ss : forall (s : net) (l : L),
  fold_left (fun (acc : net * L) y => (set_svc_cache (fst acc) (d_del Z.eqb y (svc_cache (fst acc))), snd acc)) ss (s, l)
  = (set_svc_cache s (fold_left (fun c y => d_del Z.eqb y c) ss (svc_cache s)), l).
Proof.
  induction ss as [|y ss IH]; intros s l; simpl.
  - destruct s; reflexivity.
  - rewrite IH. reflexivity.
Qed.

Lemma g_forget_service_caches_ok fuel i s :
  g_forget_service_caches fuel i s = (forget_service_caches s (pk s i), Ok tt).
Proof.
  unfold g_forget_service_caches, gb_forget_service_caches. gstart. cbn [fst snd forget_service_caches_v0].
  rewrite (sfor_list_fold _ (fun y (x : net * L_forget_service_caches) =>
             (set_svc_cache (fst x) (d_del Z.eqb y (svc_cache (fst x))), snd x)) (fun _ => True));
    [|intros; reflexivity|apply Forall_True].
  rewrite fold_svc_del. cbn [fst]. rewrite (fold_d_del Z.eqb). reflexivity.
Qed.

(* ------------------------------------------------------------------ add_verified_peer *)
Lemma fold_add_walkable {L} vs : forall (s : net) (l : L),
  fold_left (fun (acc : net * L) y =>
               if negb (d_mem addr_eqb y (all_addrs (fst acc)))
               then (set_all (fst acc) (d_set addr_eqb y (mkWalk None None false) (all_addrs (fst acc))), snd acc)
               else acc) vs (s, l)
  = (set_all s (fold_left add_walkable vs (all_addrs s)), l).
Proof.
  induction vs as [|y vs IH]; intros s l; simpl.
  - destruct s; reflexivity.
  - cbn [fst snd]. unfold add_walkable at 2. destruct (d_mem addr_eqb y (all_addrs s)) eqn:M; cbn [negb].
    + apply IH.
    + rewrite IH. cbn [all_addrs set_all]. rewrite (d_set_absent _ _ _ _ M). reflexivity.
Qed.

Lemma g_add_verified_peer_ok fuel i s :
  g_add_verified_peer fuel i s = (add_verified_peer s i, Ok tt).
Proof.
  unfold g_add_verified_peer, gb_add_verified_peer, add_verified_peer. gstart.
  cbv beta iota zeta delta [fst snd add_verified_peer_v0 add_verified_peer_v1].
  change (mem_z (pk s i) (bl_mid s) || existsb (fun x2_ => mem_addr x2_ (bl_addr s)) (pvalues s i))
    with (blacklisted s (hkey (heap s) i) (haddrs (heap s) i)).
  destruct (blacklisted s (hkey (heap s) i) (haddrs (heap s) i)); [reflexivity|].
  unfold pk. destruct (d_get Z.eqb (hkey (heap s) i) (by_key s)) as [j|]; cbn [is_some negb oget bind fst snd]; [reflexivity|].
  change (pvalues s i) with (am_values (haddrs (heap s) i)).
  destruct (existsb (fun x4_ => d_mem addr_eqb x4_ (all_addrs s)) (am_values (haddrs (heap s) i))).
  - unfold verify, in_verified. destruct (in_ver (heap s) (verified s) (hkey (heap s) i)) eqn:IV; cbn [negb]; [reflexivity|].
    cbn [fst snd]. rewrite g_forget_service_caches_ok. unfold pk, set_add_peer, peer_in, pk.
    cbn [heap set_by_key set_verified]. rewrite IV. reflexivity.
  - rewrite (sfor_list_fold _ (fun y (x : net * L_add_verified_peer) =>
               if negb (d_mem addr_eqb y (all_addrs (fst x)))
               then (set_all (fst x) (d_set addr_eqb y (mkWalk None None false) (all_addrs (fst x))), snd x)
               else x) (fun _ => True)); [| |apply Forall_True].
    + rewrite fold_add_walkable. cbn [fst snd heap set_all verified].
      unfold verify, in_verified. cbn [heap set_all verified by_key].
      destruct (in_ver (heap s) (verified s) (hkey (heap s) i)) eqn:IV; cbn [negb]; [reflexivity|].
      cbn [fst snd]. rewrite g_forget_service_caches_ok. unfold pk, set_add_peer, peer_in, pk.
      cbn [heap set_by_key set_verified set_all verified by_key]. rewrite IV. reflexivity.
    + intros y [s1 l1] _. cbv beta iota zeta delta [fst snd]. destruct (negb (d_mem addr_eqb y (all_addrs s1))); reflexivity.
Qed.

(* ------------------------------------------------------------------ discover_address *)
Lemma stale_introducer_test s a :
  por (Ok (negb (d_mem addr_eqb a (all_addrs s))))
      (bind (bind (bind (d_sub addr_eqb a (all_addrs s)) (fun t4_ => Ok (w_intro t4_)))
                  (fun t5_ => Ok (okey_in t5_ (by_key s)))) (fun t6_ => Ok (negb t6_)))
  = Ok (negb (d_mem addr_eqb a (all_addrs s)) || negb (intro_verified s a)).
Proof.
  unfold por, d_sub, d_mem, intro_verified, okey_in. destruct (d_get addr_eqb a (all_addrs s)) as [w|]; cbn; [|reflexivity].
  destruct (w_intro w); reflexivity.
Qed.

Lemma g_discover_address_ok fuel i a sv ns s : (longest (intro_cache s) < fuel)%nat ->
  g_discover_address fuel i a sv ns s = (discover_address s i a sv ns, Ok tt).
Proof.
  intros Hf. unfold g_discover_address, gb_discover_address, discover_address. gstart.
  cbv beta iota zeta delta [fst snd discover_address_v0 discover_address_v1 discover_address_v2 discover_address_v3 discover_address_v4].
  destruct (mem_addr a (bl_addr s)).
  - rewrite g_add_verified_peer_ok. reflexivity.
  - rewrite stale_introducer_test.
    destruct (negb (d_mem addr_eqb a (all_addrs s)) || negb (intro_verified s a)).
    + rewrite g_forget_introduction_ok by assumption.
      cbv beta iota zeta delta [fst snd]. unfold pk. cbn [heap set_all set_intro_cache intro_cache all_addrs].
      destruct (d_get Z.eqb (hkey (heap s) i) (forget_intro a (intro_cache s))) as [l|];
        cbn [is_some negb oget bind]; rewrite g_add_verified_peer_ok; reflexivity.
    + rewrite g_add_verified_peer_ok. reflexivity.
Qed.

(* ------------------------------------------------------------------ get_peers_for_service *)
Lemma d_mem_del {K V} (eqb : K -> K -> bool) (eqb_eq : forall a b, eqb a b = true <-> a = b) k (d : list (K * V)) :
  d_mem eqb k (d_del eqb k d) = false.
Proof. unfold d_mem. rewrite (d_get_del eqb eqb_eq). rewrite (eqb_refl' eqb eqb_eq). reflexivity. Qed.

Lemma popitem_first_set {K V} (eqb : K -> K -> bool) k (v : V) d :
  popitem_first (d_set eqb k v d) = Ok (tl (d_set eqb k v d)).
Proof. pose proof (d_set_nonempty eqb k v d). destruct (d_set eqb k v d); [contradiction|reflexivity]. Qed.

Lemma fold_collect_service (s : net) sid l : forall out c d,
  exists d',
    fold_left (fun (acc : net * L_get_peers_for_service) y =>
                 if mem_z (get_peers_for_service_v0 (snd acc)) (d_get_or Z.eqb (pk (fst acc) y) (services (fst acc)) [])
                 then (fst acc, mkL_get_peers_for_service (get_peers_for_service_v0 (snd acc))
                                  (get_peers_for_service_v1 (snd acc) ++ [y]) (get_peers_for_service_v2 (snd acc)) (pk (fst acc) y))
                 else (fst acc, mkL_get_peers_for_service (get_peers_for_service_v0 (snd acc))
                                  (get_peers_for_service_v1 (snd acc)) (get_peers_for_service_v2 (snd acc)) (pk (fst acc) y)))
              l (s, mkL_get_peers_for_service sid out c d)
    = (s, mkL_get_peers_for_service sid (out ++ filter (has_service s sid) l) c d').
Proof.
  induction l as [|y l IH]; intros out c d; simpl.
  - exists d. rewrite app_nil_r. reflexivity.
  - cbn [fst snd get_peers_for_service_v0 get_peers_for_service_v1 get_peers_for_service_v2].
    change (mem_z sid (d_get_or Z.eqb (pk s y) (services s) [])) with (has_service s sid y).
    destruct (has_service s sid y).
    + destruct (IH (out ++ [y]) c (pk s y)) as (d' & E). exists d'. rewrite E. rewrite <- app_assoc. reflexivity.
    + apply IH.
Qed.

Lemma g_get_peers_for_service_ok fuel sid s :
  g_get_peers_for_service fuel sid s = (fst (get_peers_for_service s sid), Ok (snd (get_peers_for_service s sid))).
Proof.
  unfold g_get_peers_for_service, gb_get_peers_for_service, get_peers_for_service. gstart.
  cbv beta iota zeta delta [fst snd get_peers_for_service_v0 get_peers_for_service_v1 get_peers_for_service_v2 get_peers_for_service_v3].
  cbn [svc_cache set_svc_cache verified heap services svc_cap].
  destruct (d_get Z.eqb sid (svc_cache s)) as [l|]; cbn [is_some negb oget bind].
  - cbv beta iota zeta delta [fst snd get_peers_for_service_v0 get_peers_for_service_v1].
    cbn [svc_cache set_svc_cache verified heap services svc_cap]. unfold pk. cbn [heap set_svc_cache].
    change (fun x1_ : nat => in_ver (heap s) (verified s) (hkey (heap s) x1_) &&
                             mem_z sid (d_get_or Z.eqb (hkey (heap s) x1_) (services s) []))
      with (fun i : nat => in_verified s (hkey (heap s) i) && has_service s sid i).
    set (out := filter (fun i : nat => in_verified s (hkey (heap s) i) && has_service s sid i) l).
    rewrite popitem_first_set. rewrite !(d_set_absent Z.eqb sid out _ (d_mem_del Z.eqb zeq sid _)).
    unfold evict. cbn [bind]. netsimp. split_ifs; reflexivity.
  - rewrite (sfor_list_fold _ (fun y (acc : net * L_get_peers_for_service) =>
                 if mem_z (get_peers_for_service_v0 (snd acc)) (d_get_or Z.eqb (pk (fst acc) y) (services (fst acc)) [])
                 then (fst acc, mkL_get_peers_for_service (get_peers_for_service_v0 (snd acc))
                                  (get_peers_for_service_v1 (snd acc) ++ [y]) (get_peers_for_service_v2 (snd acc)) (pk (fst acc) y))
                 else (fst acc, mkL_get_peers_for_service (get_peers_for_service_v0 (snd acc))
                                  (get_peers_for_service_v1 (snd acc)) (get_peers_for_service_v2 (snd acc)) (pk (fst acc) y)))
               (fun _ => True)); [| |apply Forall_True].
    + destruct (fold_collect_service (set_svc_cache s (d_del Z.eqb sid (svc_cache s))) sid (verified s) [] None 0) as (d' & E).
      rewrite E. cbv beta iota zeta delta [fst snd get_peers_for_service_v0 get_peers_for_service_v1]. cbn [app].
      change (has_service (set_svc_cache s (d_del Z.eqb sid (svc_cache s))) sid) with (has_service s sid).
      set (out := filter (has_service s sid) (verified s)).
      netsimp. rewrite popitem_first_set. rewrite !(d_set_absent Z.eqb sid out _ (d_mem_del Z.eqb zeq sid _)).
      unfold evict. cbn [bind]. netsimp. split_ifs; reflexivity.
    + intros y [s1 [b0 b1 b2 b3]] _. cbv beta iota zeta delta [fst snd get_peers_for_service_v0 get_peers_for_service_v1 get_peers_for_service_v2].
      split_ifs; reflexivity.
Qed.

(* ------------------------------------------------------------------ discover_services *)
(* a loop that always falls through and whose effect on the object state is G (the locals may change) *)
Lemma sfor_list_inv {Sg L R X} (body : X -> stmt Sg L R) (G : X -> Sg -> Sg) (I : Sg * L -> Prop) l :
  (forall y x, I x -> exists l', body y x = ((G y (fst x), l'), CNorm) /\ I (G y (fst x), l')) ->
  forall x, I x -> exists l', sfor_list l body x = ((fold_left (fun s y => G y s) l (fst x), l'), CNorm) /\
                              I (fold_left (fun s y => G y s) l (fst x), l').
Proof.
  intros H. induction l as [|y l IH]; intros x Hx; simpl.
  - exists (snd x). destruct x; auto.
  - destruct (H y x Hx) as (l' & E & HI). rewrite E. destruct (IH _ HI) as (l'' & E2 & HI2). exists l''. auto.
Qed.

Lemma net_eta_svc s : set_svc_cache s (svc_cache s) = s.
Proof. destruct s; reflexivity. Qed.

Lemma fold_set_svc {X} (f : list (service * list nat) -> X -> list (service * list nat)) l : forall s,
  fold_left (fun s y => set_svc_cache s (f (svc_cache s) y)) l s = set_svc_cache s (fold_left f l (svc_cache s)).
Proof.
  induction l as [|y l IH]; intros s; simpl; [symmetry; apply net_eta_svc|]. rewrite IH. reflexivity.
Qed.

Lemma rfk_absent h k l : in_ver h l k = false -> remove_first_key h k l = l.
Proof.
  unfold in_ver. induction l as [|j l IH]; simpl; [reflexivity|]. intros H. apply orb_false_iff in H as [H1 H2].
  rewrite H1. rewrite IH by assumption. reflexivity.
Qed.

Lemma set_union_app r : forall acc, NoDup r -> (forall x, In x r -> ~ In x acc) -> set_union acc r = acc ++ r.
Proof.
  unfold set_union. induction r as [|x r IH]; intros acc Hn Hd; simpl; [rewrite app_nil_r; reflexivity|].
  inversion Hn; subst.
  assert (M : mem_z x acc = false) by (apply mem_z_false; apply Hd; left; reflexivity). rewrite M.
  rewrite IH; [rewrite <- app_assoc; reflexivity|assumption|].
  intros y Hy Hin. apply in_app_iff in Hin as [Hin|[Hin|[]]]; [exact (Hd y (or_intror Hy) Hin)|subst; contradiction].
Qed.

Lemma set_union_nodup ss : forall acc, NoDup acc -> NoDup (set_union acc ss).
Proof.
  unfold set_union. induction ss as [|x ss IH]; intros acc H; simpl; [assumption|].
  apply IH. destruct (mem_z x acc) eqn:M; [assumption|]. apply NoDup_snoc; [assumption|]. apply mem_z_false. assumption.
Qed.

Lemma svc_set_idem ss : set_union [] (svc_set ss) = svc_set ss.
Proof.
  rewrite set_union_app; [reflexivity| |intros x _ []]. apply set_union_nodup. constructor.
Qed.

Lemma g_discover_services_ok fuel i ss s :
  g_discover_services fuel i ss s = (discover_services s i ss, Ok tt).
Proof.
  unfold g_discover_services, gb_discover_services, discover_services. gstart.
  cbv beta iota zeta delta [fst snd discover_services_v0 discover_services_v1 discover_services_v2 discover_services_v3].
  set (k := pk s i).
  set (p := match d_get Z.eqb k (by_key s) with Some j => j | None => i end).
  match goal with |- context [sfor_list _ ?b _] => set (body := b) end.
  assert (LOOP : forall sv, exists l',
            sfor_list ss body (set_services s sv, mkL_discover_services i ss k None)
            = ((set_svc_cache (set_services s sv) (fold_left (svc_cache_add (heap s) (svc_cap s) k p) ss (svc_cache s)), l'), CNorm)).
  { intros sv.
    destruct (sfor_list_inv body
                (fun y s1 => set_svc_cache s1 (svc_cache_add (heap s) (svc_cap s) k p (svc_cache s1) y))
                (fun x => heap (fst x) = heap s /\ by_key (fst x) = by_key s /\ svc_cap (fst x) = svc_cap s /\
                          discover_services_v0 (snd x) = i /\ discover_services_v2 (snd x) = k) ss) with
      (x := (set_services s sv, mkL_discover_services i ss k None)) as (l' & E & _).
    - intros y [s1 [b0 b1 b2 b3]] (H1 & H2 & H3 & H4 & H5). cbn [fst snd discover_services_v0 discover_services_v2] in *. subst b0 b2.
      unfold body. cbv beta iota zeta delta [fst snd discover_services_v0 discover_services_v1 discover_services_v2 discover_services_v3].
      unfold svc_cache_add, p, k, pk. rewrite H1.
      destruct (d_get Z.eqb y (svc_cache s1)) as [l0|] eqn:G; cbn [is_some negb oget bind].
      + unfold remove_first_key_res. rewrite H1.
        set (kk := hkey (heap s) i) in *.
        assert (FIN : forall l1, exists l',
                  (let x2 := (set_svc_cache s1 (d_set Z.eqb y (l1 ++ [d_get_or Z.eqb kk (by_key s1) i]) (svc_cache s1)),
                              mkL_discover_services i b1 kk (Some (l1 ++ [d_get_or Z.eqb kk (by_key s1) i]))) in
                   if Z.of_nat (length (svc_cache (fst x2))) >? svc_cap (fst x2)
                   then match (do c_ <- popitem_first (svc_cache (fst x2)); Ok (set_svc_cache (fst x2) c_, snd x2)) with
                        | Ok x3 => (x3, @CNorm unit) | Raise e => (x2, CExc e) end
                   else (x2, CNorm))
                  = (set_svc_cache s1 (evict (svc_cap s) (d_set Z.eqb y (l1 ++ [match d_get Z.eqb kk (by_key s) with Some j => j | None => i end]) (svc_cache s1))), l', CNorm)
                  /\ discover_services_v0 l' = i /\ discover_services_v2 l' = kk).
        { intros l1. cbv beta iota zeta delta [fst snd]. netsimp. rewrite popitem_first_set. cbn [bind]. netsimp.
          unfold evict, d_get_or. rewrite H2, H3. eexists. split_ifs; (split; [reflexivity|split; reflexivity]). }
        destruct (in_ver (heap s) l0 kk) eqn:IV; cbv beta iota zeta delta [fst snd bind oget discover_services_v0 discover_services_v1 discover_services_v2 discover_services_v3]; netsimp.
        * rewrite !(d_set_set Z.eqb zeq). destruct (FIN (remove_first_key (heap s) kk l0)) as (l' & E & E0 & E2).
          cbv beta iota zeta delta [fst snd] in E. netsimp. exists l'. split; [exact E|]. netsimp. auto.
        * rewrite !(d_set_set Z.eqb zeq). destruct (FIN l0) as (l' & E & E0 & E2).
          cbv beta iota zeta delta [fst snd] in E. netsimp. exists l'. rewrite (rfk_absent _ _ _ IV). split; [exact E|]. netsimp. auto.
      + eexists. split; [rewrite net_eta_svc; reflexivity|]. cbn [fst snd heap by_key svc_cap discover_services_v0 discover_services_v2]. auto.
    - cbn. auto.
    - exists l'. rewrite E. cbn [fst]. rewrite (fold_set_svc (svc_cache_add (heap s) (svc_cap s) k p)). reflexivity. }
  unfold d_sub, d_mem, svc_of, svc_lookup. change (hkey (heap s) i) with k. fold p.
  destruct (d_get Z.eqb k (services s)) as [old|] eqn:G; cbn [negb bind].
  - destruct (LOOP (d_set Z.eqb k (set_union old (svc_set ss)) (services s))) as (l' & E).
    cbv beta iota zeta delta [fst snd discover_services_v1]. rewrite E. reflexivity.
  - destruct (LOOP (d_set Z.eqb k (svc_set ss) (services s))) as (l' & E).
    cbv beta iota zeta delta [fst snd discover_services_v1]. rewrite E. rewrite svc_set_idem. reflexivity.
Qed.

(* ------------------------------------------------------------------ the simple queries *)
Lemma g_get_verified_by_public_key_bin_ok fuel k s :
  g_get_verified_by_public_key_bin fuel k s = (s, Ok (get_verified_by_public_key_bin s k)).
Proof. reflexivity. Qed.

Lemma g_get_services_for_peer_ok fuel k am s :
  g_get_services_for_peer fuel (k, am) s = (s, Ok (get_services_for_peer s k)).
Proof. reflexivity. Qed.

Lemma g_is_new_style_ok fuel a s :
  g_is_new_style fuel a s = (s, Ok (match d_get addr_eqb a (all_addrs s) with Some w => w_new w | None => false end)).
Proof.
  unfold g_is_new_style, gb_is_new_style. gstart. cbv beta iota zeta delta [fst snd is_new_style_v0 o_or].
  destruct (d_get addr_eqb a (all_addrs s)); reflexivity.
Qed.

Lemma g_register_service_provider_ok fuel sid ov s : g_register_service_provider fuel sid ov s = (s, Ok tt).
Proof. reflexivity. Qed.

Lemma g_get_introductions_from_ok fuel k am s :
  g_get_introductions_from fuel (k, am) s
  = (fst (get_introductions_from s k), Ok (snd (get_introductions_from s k))).
Proof.
  unfold g_get_introductions_from, gb_get_introductions_from, get_introductions_from. gstart.
  cbv beta iota zeta. cbn [fst snd get_introductions_from_v0 get_introductions_from_v1].
  destruct (d_get Z.eqb k (intro_cache s)) as [l|]; cbn [is_some negb oget bind fst snd get_introductions_from_v0 get_introductions_from_v1]; [reflexivity|].
  netsimp. rewrite popitem_first_set. cbn [bind]. netsimp. unfold evict, intros_of, introduced_by.
  split_ifs; reflexivity.
Qed.

(* ------------------------------------------------------------------ remove_peer *)
Lemma filter_len_le {A} (p : A -> bool) l : (length (filter p l) <= length l)%nat.
Proof. induction l as [|x l IH]; simpl; [lia|]. destruct (p x); simpl; lia. Qed.

Lemma longest_forget a c : (longest (forget_intro a c) <= longest c)%nat.
Proof.
  unfold longest, forget_intro. induction c as [|[k l] c IH]; simpl; [lia|].
  pose proof (filter_len_le (fun x => negb (addr_eqb x a)) l). lia.
Qed.

Lemma fold_drop_addresses vs : forall s,
  fold_left (fun s1 y => set_intro_cache (set_all s1 (d_del addr_eqb y (all_addrs s1))) (forget_intro y (intro_cache s1))) vs s
  = set_intro_cache (set_all s (fold_left (fun all a => d_del addr_eqb a all) vs (all_addrs s)))
                    (fold_left (fun c a => forget_intro a c) vs (intro_cache s)).
Proof.
  induction vs as [|y vs IH]; intros s; simpl; [destruct s; reflexivity|]. rewrite IH. reflexivity.
Qed.

Lemma filter_nokey h k l : in_ver h l k = false -> filter (fun i => negb (hkey h i =? k)) l = l.
Proof.
  unfold in_ver. induction l as [|j l IH]; simpl; [reflexivity|]. intros H. apply orb_false_iff in H as [H1 H2].
  rewrite H1. simpl. rewrite IH by assumption. reflexivity.
Qed.

Lemma g_remove_peer_ok fuel k am s : (longest (intro_cache s) < fuel)%nat ->
  g_remove_peer fuel (k, am) s = (remove_peer s k am, Ok tt).
Proof.
  intros Hf. unfold g_remove_peer, gb_remove_peer, remove_peer. gstart.
  cbv beta iota zeta. cbn [fst snd remove_peer_v0].
  match goal with |- context [sfor_list _ ?b _] => set (body := b) end.
  destruct (sfor_list_inv body
              (fun y s1 => set_intro_cache (set_all s1 (d_del addr_eqb y (all_addrs s1))) (forget_intro y (intro_cache s1)))
              (fun x => (longest (intro_cache (fst x)) < fuel)%nat /\ snd x = mkL_remove_peer (k, am)) (am_values am))
    with (x := (s, mkL_remove_peer (k, am))) as (l' & E & _ & EL).
  - intros y [s1 l1] [H1 H2]. cbn [fst snd] in *. subst l1. unfold body. gstart. cbv beta iota zeta. cbn [fst snd].
    rewrite g_forget_introduction_ok by (netsimp; exact H1). cbn [fst snd].
    eexists. split; [reflexivity|]. cbn [fst snd]. netsimp. split; [|reflexivity].
    pose proof (longest_forget y (intro_cache s1)). lia.
  - cbn [fst snd]. auto.
  - rewrite E. cbn [fst snd] in EL. subst l'. cbn [fst]. rewrite fold_drop_addresses.
    cbv beta iota zeta. cbn [fst snd remove_peer_v0]. netsimp. unfold set_remove_key. netsimp.
    destruct (in_ver (heap s) (verified s) k) eqn:IV; cbn [bind]; netsimp.
    + reflexivity.
    + rewrite (filter_nokey _ _ _ IV). reflexivity.
Qed.

(* ------------------------------------------------------------------ snapshot *)
Lemma snapshot_loop (s : net) (body : nat -> stmt net L_snapshot bytes) :
  (forall y x, body y x =
     (if true && negb (addr_eqb (paddress (fst x) y) null_addr)
      then match (do t1_ <- pack_address (paddress (fst x) y); Ok (fst x, mkL_snapshot (snapshot_v0 (snd x) ++ t1_))) with
           | Ok x1 => (x1, CNorm) | Raise e => (x, CExc e) end
      else (x, CNorm))) ->
  forall l out, exists l',
    sfor_list l body (s, mkL_snapshot out)
    = ((s, l'), match concat_res (map pack_address (filter (fun a => negb (addr_eqb a null_addr)) (map (paddress s) l))) with
                | Ok _ => CNorm | Raise e => CExc e end) /\
    forall b, concat_res (map pack_address (filter (fun a => negb (addr_eqb a null_addr)) (map (paddress s) l))) = Ok b ->
              l' = mkL_snapshot (out ++ b).
Proof.
  intros HB. induction l as [|y l IH]; intros out.
  - exists (mkL_snapshot out). cbn. split; [reflexivity|]. intros b E. inversion E. rewrite app_nil_r. reflexivity.
  - cbn [sfor_list map filter]. rewrite HB. cbn [fst snd snapshot_v0 andb].
    destruct (negb (addr_eqb (paddress s y) null_addr)).
    + cbn [map concat_res]. destruct (pack_address (paddress s y)) as [r|e]; cbn [bind].
      * destruct (IH (out ++ r)) as (l' & E & HL). rewrite E. exists l'. split.
        -- destruct (concat_res _); reflexivity.
        -- intros b Hb. destruct (concat_res (map pack_address (filter _ (map (paddress s) l)))) as [b'|]; [|discriminate].
           inversion Hb; subst. rewrite (HL b' eq_refl). rewrite app_assoc. reflexivity.
      * exists (mkL_snapshot out). split; [reflexivity|]. intros b Hb. discriminate.
    + apply IH.
Qed.

Lemma g_snapshot_ok fuel s : g_snapshot fuel s = (s, snapshot s).
Proof.
  unfold g_snapshot, gb_snapshot, snapshot, snapshot_records, snapshot_addrs. gstart. cbv beta iota zeta. cbn [fst snd].
  match goal with |- context [sfor_list _ ?b _] => set (body := b) end.
  destruct (snapshot_loop s body) with (l := verified s) (out := @nil Z) as (l' & E & HL).
  { intros y x. reflexivity. }
  rewrite E. change (fun i : nat => am_preferred (haddrs (heap s) i)) with (paddress s).
  destruct (concat_res (map pack_address (filter (fun a => negb (addr_eqb a null_addr)) (map (paddress s) (verified s))))) as [b|e].
  - rewrite (HL b eq_refl). reflexivity.
  - reflexivity.
Qed.

(* ------------------------------------------------------------------ remove_by_address *)
Lemma fold_split_owners a l : forall (s : net) out r,
  fold_left (fun (acc : net * L_remove_by_address) y =>
               if negb (mem_addr (remove_by_address_v0 (snd acc)) (pvalues (fst acc) y))
               then (fst acc, mkL_remove_by_address (remove_by_address_v0 (snd acc)) (remove_by_address_v1 (snd acc) ++ [y]) (remove_by_address_v2 (snd acc)))
               else (set_services (fst acc) (d_del Z.eqb (pk (fst acc) y) (services (fst acc))), snd acc))
            l (s, mkL_remove_by_address a out r)
  = (set_services s (fold_left (fun d k => d_del Z.eqb k d) (map (hkey (heap s)) (filter (owns s a) l)) (services s)),
     mkL_remove_by_address a (out ++ filter (fun i => negb (owns s a i)) l) r).
Proof.
  induction l as [|y l IH]; intros s out r; simpl.
  - rewrite app_nil_r. destruct s; reflexivity.
  - cbn [fst snd remove_by_address_v0 remove_by_address_v1 remove_by_address_v2].
    change (mem_addr a (pvalues s y)) with (owns s a y). destruct (owns s a y); cbn [negb].
    + rewrite IH. cbn [map fold_left]. unfold pk. netsimp. reflexivity.
    + rewrite IH. rewrite <- app_assoc. reflexivity.
Qed.

Lemma fold_by_key_del {L} ks : forall (s : net) (l : L),
  fold_left (fun (acc : net * L) y => (set_by_key (fst acc) (d_del Z.eqb (pk (fst acc) y) (by_key (fst acc))), snd acc)) ks (s, l)
  = (set_by_key s (fold_left (fun d k => d_del Z.eqb k d) (map (hkey (heap s)) ks) (by_key s)), l).
Proof.
  induction ks as [|y ks IH]; intros s l; simpl; [destruct s; reflexivity|]. cbn [fst snd]. rewrite IH. reflexivity.
Qed.

Lemma removed_by_difference s a : NoDup (map (hkey (heap s)) (verified s)) ->
  set_diff_peers s (verified s) (filter (fun i => negb (owns s a i)) (verified s)) = filter (owns s a) (verified s).
Proof.
  intros ND. unfold set_diff_peers. apply filter_ext_in. intros i Hi.
  destruct (owns s a i) eqn:O.
  - apply negb_true_iff. apply in_ver_false. intros j Hj E. apply filter_In in Hj as [Hj Oj].
    assert (j = i) by (apply (NoDup_map_inj (hkey (heap s)) (verified s)); assumption). subst j. rewrite O in Oj. discriminate.
  - apply negb_false_iff. apply in_ver_true. exists i. split; [|reflexivity]. apply filter_In. rewrite O. auto.
Qed.

Lemma g_remove_by_address_ok fuel a s : Inv s -> (longest (intro_cache s) < fuel)%nat ->
  g_remove_by_address fuel a s = (remove_by_address s a, Ok tt).
Proof.
  intros HI Hf. unfold g_remove_by_address, gb_remove_by_address, remove_by_address. gstart.
  cbv beta iota zeta. cbn [fst snd remove_by_address_v0].
  rewrite g_forget_introduction_ok by (netsimp; exact Hf). cbn [fst snd]. netsimp.
  rewrite (sfor_list_fold _ (fun y (acc : net * L_remove_by_address) =>
               if negb (mem_addr (remove_by_address_v0 (snd acc)) (pvalues (fst acc) y))
               then (fst acc, mkL_remove_by_address (remove_by_address_v0 (snd acc)) (remove_by_address_v1 (snd acc) ++ [y]) (remove_by_address_v2 (snd acc)))
               else (set_services (fst acc) (d_del Z.eqb (pk (fst acc) y) (services (fst acc))), snd acc)) (fun _ => True));
    [| |apply Forall_True].
  - rewrite fold_split_owners. cbn [fst snd remove_by_address_v0 remove_by_address_v1 remove_by_address_v2 app]. netsimp.
    change (owns (set_intro_cache (set_all s (d_del addr_eqb a (all_addrs s))) (forget_intro a (intro_cache s))) a) with (owns s a).
    change (set_diff_peers (set_services (set_intro_cache (set_all s (d_del addr_eqb a (all_addrs s))) (forget_intro a (intro_cache s)))
              (fold_left (fun d k => d_del Z.eqb k d) (map (hkey (heap s)) (filter (owns s a) (verified s))) (services s))) (verified s))
      with (set_diff_peers s (verified s)).
    rewrite (removed_by_difference s a (inv_uniq s HI)).
    rewrite (sfor_list_fold _ (fun y (acc : net * L_remove_by_address) =>
               (set_by_key (fst acc) (d_del Z.eqb (pk (fst acc) y) (by_key (fst acc))), snd acc)) (fun _ => True));
      [| |apply Forall_True].
    + rewrite fold_by_key_del. cbn [fst]. netsimp. rewrite !(fold_d_del Z.eqb). reflexivity.
    + intros y [s1 l1] _. reflexivity.
  - intros y [s1 [b0 b1 b2]] _. cbv beta iota zeta. cbn [fst snd remove_by_address_v0 remove_by_address_v1 remove_by_address_v2].
    split_ifs; reflexivity.
Qed.

(* ------------------------------------------------------------------ get_walkable_addresses *)
Lemma fold_extend {A B} (f : A -> list B) l : forall init,
  fold_left (fun acc y => acc ++ f y) l init = init ++ flat_map f l.
Proof.
  induction l as [|y l IH]; intros init; simpl; [rewrite app_nil_r; reflexivity|].
  rewrite IH, app_assoc. reflexivity.
Qed.

Lemma walk_filter_loop (s : net) sid old (body : addr -> stmt net L_get_walkable_addresses (list addr)) :
  (forall y x, body y x =
     match (match (do w2_ <- d_sub addr_eqb y (all_addrs (fst x));
                   Ok (fst x, mkL_get_walkable_addresses (get_walkable_addresses_v0 (snd x)) (get_walkable_addresses_v1 (snd x))
                                (get_walkable_addresses_v2 (snd x)) (get_walkable_addresses_v3 (snd x)) (get_walkable_addresses_v4 (snd x))
                                (get_walkable_addresses_v5 (snd x)) (w_intro w2_) (w_service w2_) (w_new w2_))) with
            | Ok x1 => (x1, CNorm) | Raise e => (x, CExc e) end) with
     | (x1, CNorm) =>
         match (if get_walkable_addresses_v1 (snd x1) && get_walkable_addresses_v8 (snd x1) then (x1, CCont) else (x1, CNorm)) with
         | (x2, CNorm) =>
             if opt_z_eqb (get_walkable_addresses_v0 (snd x2)) (get_walkable_addresses_v7 (snd x2))
                || omem_z (get_walkable_addresses_v0 (snd x2)) (d_get_or_o Z.eqb (get_walkable_addresses_v6 (snd x2)) (services (fst x2)) [])
             then ((fst x2, mkL_get_walkable_addresses (get_walkable_addresses_v0 (snd x2)) (get_walkable_addresses_v1 (snd x2))
                              (get_walkable_addresses_v2 (snd x2)) (get_walkable_addresses_v3 (snd x2)) (get_walkable_addresses_v4 (snd x2))
                              (get_walkable_addresses_v5 (snd x2) ++ [y]) (get_walkable_addresses_v6 (snd x2))
                              (get_walkable_addresses_v7 (snd x2)) (get_walkable_addresses_v8 (snd x2))), CNorm)
             else (x2, CNorm)
         | (x2, c) => (x2, c)
         end
     | (x1, c) => (x1, c)
     end) ->
  forall l, (forall y, In y l -> In y (map fst (all_addrs s))) ->
  forall b2 b3 b4 out b6 b7 b8, exists c6 c7 c8,
    sfor_list l body (s, mkL_get_walkable_addresses (Some sid) old b2 b3 b4 out b6 b7 b8)
    = ((s, mkL_get_walkable_addresses (Some sid) old b2 b3 b4 (out ++ filter (walk_serves s sid old) l) c6 c7 c8), CNorm).
Proof.
  intros HB. induction l as [|y l IH]; intros Hin b2 b3 b4 out b6 b7 b8.
  - exists b6, b7, b8. cbn. rewrite app_nil_r. reflexivity.
  - cbn [sfor_list filter]. rewrite HB. cbn [fst snd].
    assert (Hy : In y (map fst (all_addrs s))) by (apply Hin; left; reflexivity).
    unfold d_sub, walk_serves. destruct (d_get addr_eqb y (all_addrs s)) as [w|] eqn:G.
    + cbn [bind fst snd get_walkable_addresses_v0 get_walkable_addresses_v1 get_walkable_addresses_v2 get_walkable_addresses_v3
           get_walkable_addresses_v4 get_walkable_addresses_v5 get_walkable_addresses_v6 get_walkable_addresses_v7 get_walkable_addresses_v8].
      assert (Hl : forall y0, In y0 l -> In y0 (map fst (all_addrs s))) by (intros y0 H0; apply Hin; right; exact H0).
      destruct (old && w_new w); cbn [negb andb].
      * apply IH. exact Hl.
      * cbn [fst snd get_walkable_addresses_v0 get_walkable_addresses_v1 get_walkable_addresses_v2 get_walkable_addresses_v3
             get_walkable_addresses_v4 get_walkable_addresses_v5 get_walkable_addresses_v6 get_walkable_addresses_v7 get_walkable_addresses_v8].
        unfold omem_z, d_get_or_o, d_get_or, svc_of, svc_lookup.
        destruct (w_intro w) as [k|] eqn:WI; cbv delta [service key];
          match goal with |- context [if ?c then _ else _] => destruct c eqn:C end; rewrite ?C;
          cbn [fst snd get_walkable_addresses_v0 get_walkable_addresses_v1 get_walkable_addresses_v2 get_walkable_addresses_v3
               get_walkable_addresses_v4 get_walkable_addresses_v5 get_walkable_addresses_v6 get_walkable_addresses_v7 get_walkable_addresses_v8].
        -- destruct (IH Hl b2 b3 b4 (out ++ [y]) (Some k) (w_service w) (w_new w)) as (c6 & c7 & c8 & E).
           exists c6, c7, c8. rewrite <- app_assoc in E. cbn [app] in E. exact E.
        -- apply IH. exact Hl.
        -- destruct (IH Hl b2 b3 b4 (out ++ [y]) None (w_service w) (w_new w)) as (c6 & c7 & c8 & E).
           exists c6, c7, c8. rewrite <- app_assoc in E. cbn [app] in E. exact E.
        -- apply IH. exact Hl.
    + exfalso. apply (d_get_None addr_eqb aeq) in G. contradiction.
Qed.


Lemma addrs_minus_in keys taken y : In y (addrs_minus keys taken) -> In y keys.
Proof. unfold addrs_minus. intros H. apply filter_In in H as [H _]. exact H. Qed.

Lemma g_get_walkable_addresses_ok fuel so old s :
  g_get_walkable_addresses fuel so old s
  = (fst (get_walkable_addresses s so old), Ok (snd (get_walkable_addresses s so old))).
Proof.
  unfold g_get_walkable_addresses, gb_get_walkable_addresses, get_walkable_addresses. gstart.
  cbv beta iota zeta.
  cbn [fst snd get_walkable_addresses_v0 get_walkable_addresses_v1 get_walkable_addresses_v2 get_walkable_addresses_v3
       get_walkable_addresses_v4 get_walkable_addresses_v5].
  destruct so as [sid|]; cbn [is_some oget].
  - rewrite g_get_peers_for_service_ok.
    destruct (get_peers_for_service s sid) as [s1 known] eqn:GP.
    cbn [fst snd get_walkable_addresses_v0 get_walkable_addresses_v1 get_walkable_addresses_v2 get_walkable_addresses_v3
         get_walkable_addresses_v4 get_walkable_addresses_v5].
    rewrite (sfor_list_fold _ (fun y (acc : net * L_get_walkable_addresses) =>
               (fst acc, mkL_get_walkable_addresses (get_walkable_addresses_v0 (snd acc)) (get_walkable_addresses_v1 (snd acc))
                           (get_walkable_addresses_v2 (snd acc)) (get_walkable_addresses_v3 (snd acc) ++ pvalues (fst acc) y)
                           (get_walkable_addresses_v4 (snd acc)) (get_walkable_addresses_v5 (snd acc)) (get_walkable_addresses_v6 (snd acc))
                           (get_walkable_addresses_v7 (snd acc)) (get_walkable_addresses_v8 (snd acc)))) (fun _ => True));
      [|intros y [s2 l2] _; reflexivity|apply Forall_True].
    assert (FE : forall l b3,
              fold_left (fun (acc : net * L_get_walkable_addresses) y =>
               (fst acc, mkL_get_walkable_addresses (get_walkable_addresses_v0 (snd acc)) (get_walkable_addresses_v1 (snd acc))
                           (get_walkable_addresses_v2 (snd acc)) (get_walkable_addresses_v3 (snd acc) ++ pvalues (fst acc) y)
                           (get_walkable_addresses_v4 (snd acc)) (get_walkable_addresses_v5 (snd acc)) (get_walkable_addresses_v6 (snd acc))
                           (get_walkable_addresses_v7 (snd acc)) (get_walkable_addresses_v8 (snd acc)))) l
                 (s1, mkL_get_walkable_addresses (Some sid) old known b3 [] [] None None false)
              = (s1, mkL_get_walkable_addresses (Some sid) old known (b3 ++ addrs_of s1 l) [] [] None None false)).
    { induction l as [|y l IH]; intros b3; simpl; [rewrite app_nil_r; reflexivity|].
      cbn [fst snd get_walkable_addresses_v0 get_walkable_addresses_v1 get_walkable_addresses_v2 get_walkable_addresses_v3
           get_walkable_addresses_v4 get_walkable_addresses_v5 get_walkable_addresses_v6 get_walkable_addresses_v7 get_walkable_addresses_v8].
      rewrite IH. rewrite <- app_assoc. reflexivity. }
    rewrite FE. cbn [app fst snd get_walkable_addresses_v0 get_walkable_addresses_v1 get_walkable_addresses_v2 get_walkable_addresses_v3
         get_walkable_addresses_v4 get_walkable_addresses_v5 get_walkable_addresses_v6 get_walkable_addresses_v7 get_walkable_addresses_v8].
    match goal with |- context [sfor_list _ ?b _] => set (body := b) end.
    destruct (walk_filter_loop s1 sid old body) with (l := addrs_minus (map fst (all_addrs s1)) (addrs_of s1 known))
      (b2 := known) (b3 := addrs_of s1 known) (b4 := addrs_minus (map fst (all_addrs s1)) (addrs_of s1 known)) (out := @nil addr)
      (b6 := @None key) (b7 := @None service) (b8 := false) as (c6 & c7 & c8 & E).
    { intros y x. reflexivity. }
    { intros y. apply addrs_minus_in. }
    rewrite E. cbn [app fst snd get_walkable_addresses_v4 get_walkable_addresses_v5]. reflexivity.
  - rewrite (sfor_list_fold _ (fun y (acc : net * L_get_walkable_addresses) =>
               (fst acc, mkL_get_walkable_addresses (get_walkable_addresses_v0 (snd acc)) (get_walkable_addresses_v1 (snd acc))
                           (get_walkable_addresses_v2 (snd acc)) (get_walkable_addresses_v3 (snd acc) ++ pvalues (fst acc) y)
                           (get_walkable_addresses_v4 (snd acc)) (get_walkable_addresses_v5 (snd acc)) (get_walkable_addresses_v6 (snd acc))
                           (get_walkable_addresses_v7 (snd acc)) (get_walkable_addresses_v8 (snd acc)))) (fun _ => True));
      [|intros y [s2 l2] _; reflexivity|apply Forall_True].
    assert (FE : forall l b3,
              fold_left (fun (acc : net * L_get_walkable_addresses) y =>
               (fst acc, mkL_get_walkable_addresses (get_walkable_addresses_v0 (snd acc)) (get_walkable_addresses_v1 (snd acc))
                           (get_walkable_addresses_v2 (snd acc)) (get_walkable_addresses_v3 (snd acc) ++ pvalues (fst acc) y)
                           (get_walkable_addresses_v4 (snd acc)) (get_walkable_addresses_v5 (snd acc)) (get_walkable_addresses_v6 (snd acc))
                           (get_walkable_addresses_v7 (snd acc)) (get_walkable_addresses_v8 (snd acc)))) l
                 (s, mkL_get_walkable_addresses None old (verified s) b3 [] [] None None false)
              = (s, mkL_get_walkable_addresses None old (verified s) (b3 ++ addrs_of s l) [] [] None None false)).
    { induction l as [|y l IH]; intros b3; simpl; [rewrite app_nil_r; reflexivity|].
      cbn [fst snd get_walkable_addresses_v0 get_walkable_addresses_v1 get_walkable_addresses_v2 get_walkable_addresses_v3
           get_walkable_addresses_v4 get_walkable_addresses_v5 get_walkable_addresses_v6 get_walkable_addresses_v7 get_walkable_addresses_v8].
      rewrite IH. rewrite <- app_assoc. reflexivity. }
    rewrite FE. cbn [app fst snd is_some get_walkable_addresses_v0 get_walkable_addresses_v4]. reflexivity.
Qed.

(* ------------------------------------------------------------------ get_verified_by_address *)
Lemma find_hd_filter {A} (p : A -> bool) l : find p l = hd_error (filter p l).
Proof. induction l as [|x l IH]; simpl; [reflexivity|]. destruct (p x); [reflexivity|exact IH]. Qed.

Lemma existsb_eqb_in h l : existsb (Nat.eqb h) l = true <-> In h l.
Proof.
  rewrite existsb_exists. split.
  - intros (x & Hx & E). apply Nat.eqb_eq in E. subst. exact Hx.
  - intros H. exists h. split; [exact H|apply Nat.eqb_refl].
Qed.

Lemma find_set_iter (p : nat -> bool) hint l : find p (set_iter hint l) = choose hint (filter p l).
Proof.
  unfold set_iter, choose. destruct hint as [h|]; [|apply find_hd_filter].
  destruct (existsb (Nat.eqb h) l) eqn:E.
  - apply existsb_eqb_in in E. cbn [find]. destruct (p h) eqn:P.
    + assert (E2 : existsb (Nat.eqb h) (filter p l) = true) by (apply existsb_eqb_in; apply filter_In; auto).
      rewrite E2. reflexivity.
    + assert (E2 : existsb (Nat.eqb h) (filter p l) = false).
      { apply existsb_false_iff. intros x Hx. apply filter_In in Hx as [_ Hx]. apply Nat.eqb_neq. intro. subst. congruence. }
      rewrite E2. rewrite find_hd_filter. f_equal. clear E E2. induction l as [|x l IH]; simpl; [reflexivity|].
      destruct (Nat.eqb x h) eqn:X; simpl.
      * apply Nat.eqb_eq in X. subst x. rewrite P. exact IH.
      * destruct (p x); simpl; rewrite IH; reflexivity.
  - assert (E2 : existsb (Nat.eqb h) (filter p l) = false).
    { apply existsb_false_iff. intros x Hx. apply filter_In in Hx as [Hx _]. apply Nat.eqb_neq. intro. subst.
      apply existsb_eqb_in in Hx. congruence. }
    rewrite E2. apply find_hd_filter.
Qed.

Lemma first_owner_loop (s1 : net) a (body : nat -> stmt net L_get_verified_by_address (option nat)) :
  (forall y x, body y x =
     if mem_addr (get_verified_by_address_v0 (snd x)) (pvalues (fst x) y)
     then ((set_ip_cache (fst x) (evict (ip_cap (fst x)) (d_set addr_eqb (get_verified_by_address_v0 (snd x)) y (ip_cache (fst x)))),
            mkL_get_verified_by_address (get_verified_by_address_v0 (snd x)) (Some y)), CBrk)
     else (x, CNorm)) ->
  forall l,
    sfor_list l body (s1, mkL_get_verified_by_address a None)
    = match find (fun y => mem_addr a (pvalues s1 y)) l with
      | Some i => ((set_ip_cache s1 (evict (ip_cap s1) (d_set addr_eqb a i (ip_cache s1))), mkL_get_verified_by_address a (Some i)), CNorm)
      | None => ((s1, mkL_get_verified_by_address a None), CNorm)
      end.
Proof.
  intros HB. induction l as [|y l IH]; [reflexivity|]. cbn [sfor_list find]. rewrite HB.
  cbn [fst snd get_verified_by_address_v0]. destruct (mem_addr a (pvalues s1 y)); [reflexivity|exact IH].
Qed.

Lemma g_get_verified_by_address_ok fuel hint a s :
  g_get_verified_by_address fuel hint a s
  = (fst (get_verified_by_address s a hint), Ok (snd (get_verified_by_address s a hint))).
Proof.
  unfold g_get_verified_by_address, gb_get_verified_by_address, get_verified_by_address. gstart.
  cbv beta iota zeta. cbn [fst snd get_verified_by_address_v0 get_verified_by_address_v1].
  set (s1 := set_ip_cache s (d_del addr_eqb a (ip_cache s))).
  match goal with |- context [sfor_list _ ?b _] => set (body := b) end.
  assert (HB : forall y x, body y x =
     if mem_addr (get_verified_by_address_v0 (snd x)) (pvalues (fst x) y)
     then ((set_ip_cache (fst x) (evict (ip_cap (fst x)) (d_set addr_eqb (get_verified_by_address_v0 (snd x)) y (ip_cache (fst x)))),
            mkL_get_verified_by_address (get_verified_by_address_v0 (snd x)) (Some y)), CBrk)
     else (x, CNorm)).
  { intros y [s2 [b0 b1]]. unfold body.
    cbv beta iota zeta. cbn [fst snd get_verified_by_address_v0 get_verified_by_address_v1 oget bind].
    destruct (mem_addr b0 (pvalues s2 y)); [|reflexivity].
    netsimp. rewrite popitem_first_set. cbn [bind]. netsimp. unfold evict. split_ifs; reflexivity. }
  assert (SEARCH : sfor_list (set_iter hint (verified s1)) body (s1, mkL_get_verified_by_address a None)
                   = match choose hint (filter (owns s a) (verified s)) with
                     | Some i => ((set_ip_cache s (evict (ip_cap s) (d_del addr_eqb a (ip_cache s) ++ [(a, i)])),
                                   mkL_get_verified_by_address a (Some i)), CNorm)
                     | None => ((s1, mkL_get_verified_by_address a None), CNorm)
                     end).
  { rewrite (first_owner_loop s1 a body HB). rewrite find_set_iter.
    change (filter (fun y => mem_addr a (pvalues s1 y)) (verified s1)) with (filter (owns s a) (verified s)).
    destruct (choose hint (filter (owns s a) (verified s))) as [i|]; [|reflexivity].
    unfold s1. netsimp. rewrite (d_set_absent addr_eqb a i _ (d_mem_del addr_eqb aeq a _)). reflexivity. }
  destruct (d_get addr_eqb a (ip_cache s)) as [i|] eqn:G; cbn [is_some pand por bind oget].
  - unfold ip_valid, pk, pvalues, s1. netsimp. fold s1.
    change (mem_addr a (am_values (haddrs (heap s) i))) with (owns s a i).
    destruct (d_get Z.eqb (hkey (heap s) i) (by_key s)) as [j|]; cbn [opeer_eqb negb orb andb].
    + destruct (Nat.eqb j i) eqn:J; cbn [negb orb andb].
      * destruct (owns s a i); cbn [negb orb andb fst snd get_verified_by_address_v0 get_verified_by_address_v1 is_some oget bind].
        -- unfold s1. netsimp. rewrite popitem_first_set. cbn [bind]. netsimp.
           rewrite (d_set_absent addr_eqb a i _ (d_mem_del addr_eqb aeq a _)). unfold evict.
           cbv beta iota zeta. cbn [fst snd get_verified_by_address_v1]. split_ifs; reflexivity.
        -- cbn [negb fst snd get_verified_by_address_v1 is_some]; change (verified s1) with (verified s1); rewrite SEARCH.
           destruct (choose hint (filter (owns s a) (verified s))); reflexivity.
      * cbn [negb fst snd get_verified_by_address_v1 is_some]; change (verified s1) with (verified s1); rewrite SEARCH.
        destruct (choose hint (filter (owns s a) (verified s))); reflexivity.
    + cbn [negb fst snd get_verified_by_address_v1 is_some]; change (verified s1) with (verified s1); rewrite SEARCH.
      destruct (choose hint (filter (owns s a) (verified s))); reflexivity.
  - cbn [negb fst snd get_verified_by_address_v1 is_some].
    cbn [negb fst snd get_verified_by_address_v1 is_some]; change (verified s1) with (verified s1); rewrite SEARCH.
    destruct (choose hint (filter (owns s a) (verified s))); reflexivity.
Qed.



(* ------------------------------------------------------------------ load_snapshot *)
Lemma net_eta_all_intro s : set_intro_cache (set_all s (all_addrs s)) (intro_cache s) = s.
Proof. destruct s; reflexivity. Qed.

Lemma load_while F d (cond : net * L_load_snapshot -> res bool) (body : stmt net L_load_snapshot unit) :
  (forall x, cond x = Ok (Nat.ltb (load_snapshot_v2 (snd x)) (load_snapshot_v1 (snd x)))) ->
  (forall x, body x =
     sseq (sset (fun x => let s := fst x in let l := snd x in
             Ok (s, mkL_load_snapshot (load_snapshot_v0 l) (load_snapshot_v1 l) (load_snapshot_v2 l) (load_snapshot_v2 l) (load_snapshot_v4 l))))
       (stry (sseq (sset (fun x => let s := fst x in let l := snd x in
                       bind (unpack_address (load_snapshot_v0 l) (load_snapshot_v2 l))
                            (fun p1_ => Ok (s, mkL_load_snapshot (load_snapshot_v0 l) (load_snapshot_v1 l) (snd p1_) (load_snapshot_v3 l) (fst p1_)))))
                (sseq (sset (fun x => let s := fst x in let l := snd x in
                         Ok (s, mkL_load_snapshot (load_snapshot_v0 l) (load_snapshot_v1 l) (load_snapshot_v2 l) (load_snapshot_v3 l) (load_snapshot_v4 l))))
                   (sseq (scall (fun x => let s := fst x in let l := snd x in g_forget_introduction F (load_snapshot_v4 l)) (fun _ x => x))
                      (sset (fun x => let s := fst x in let l := snd x in
                         Ok (set_all s (d_set addr_eqb (load_snapshot_v4 l) (mkWalk None None false) (all_addrs s)), l))))))
             (sif (fun x => let s := fst x in let l := snd x in Ok (Nat.leb (load_snapshot_v2 l) (load_snapshot_v3 l))) sbreak sskip)) x) ->
  forall fw s1 off b3 b4 fh,
    (longest (intro_cache s1) < F)%nat -> (length d - off < fw)%nat -> (length d - off <= fh)%nat ->
    exists l',
      swhile fw cond body
             (s1, mkL_load_snapshot d (length d) off b3 b4)
      = ((set_intro_cache (set_all s1 (fst (fst (load_loop fh d off (all_addrs s1) (intro_cache s1)))))
                          (snd (fst (load_loop fh d off (all_addrs s1) (intro_cache s1)))), l'), CNorm).
Proof.
  intros HC HB. induction fw as [|f IH]; intros s1 off b3 b4 fh HF Hw Hh; [lia|].
  cbn [swhile]. rewrite HC. cbn [fst snd load_snapshot_v1 load_snapshot_v2].
  destruct fh as [|fh']; cbn [load_loop].
  - assert (E : (off <? length d)%nat = false) by (apply Nat.ltb_ge; lia). rewrite E. cbn [fst snd].
    rewrite net_eta_all_intro. eexists. reflexivity.
  - destruct (off <? length d)%nat eqn:E.
    + rewrite HB. gstart. cbv beta iota zeta.
      cbn [fst snd load_snapshot_v0 load_snapshot_v1 load_snapshot_v2 load_snapshot_v3 load_snapshot_v4].
      destruct (unpack_address d off) as [[a o]|e] eqn:U; cbn [bind fst snd load_snapshot_v0 load_snapshot_v1 load_snapshot_v2 load_snapshot_v3 load_snapshot_v4].
      * rewrite g_forget_introduction_ok by exact HF. cbn [fst snd load_snapshot_v4].
        apply unpack_address_advances in U. apply Nat.ltb_lt in E.
        destruct (IH (set_all (set_intro_cache s1 (forget_intro a (intro_cache s1))) (d_set addr_eqb a (mkWalk None None false) (all_addrs s1)))
                     o off a fh') as (l' & EQ).
        { netsimp. pose proof (longest_forget a (intro_cache s1)). lia. }
        { lia. } { lia. }
        netsimp. netsimp_in EQ. rewrite EQ. exists l'. reflexivity.
      * rewrite Nat.leb_refl. rewrite net_eta_all_intro. eexists. reflexivity.
    + cbn [fst snd]. rewrite net_eta_all_intro. eexists. reflexivity.
Qed.

Lemma load_loop_fuel_indep d : forall f1 f2 off all c,
  (length d - off <= f1)%nat -> (length d - off <= f2)%nat ->
  load_loop f1 d off all c = load_loop f2 d off all c.
Proof.
  induction f1 as [|f1 IH]; intros f2 off all c H1 H2.
  - destruct f2; cbn [load_loop]; destruct (off <? length d)%nat eqn:E; try reflexivity; apply Nat.ltb_lt in E; lia.
  - destruct f2 as [|f2]; cbn [load_loop]; destruct (off <? length d)%nat eqn:E; try reflexivity.
    + apply Nat.ltb_lt in E. lia.
    + destruct (unpack_address d off) as [[a o]|e] eqn:U; [|reflexivity].
      apply unpack_address_advances in U. apply Nat.ltb_lt in E. apply IH; lia.
Qed.

Lemma g_load_snapshot_ok fuel d s : (longest (intro_cache s) < fuel)%nat -> (length d < fuel)%nat ->
  g_load_snapshot fuel d s = (load_snapshot s d, Ok tt).
Proof.
  intros HF HL. unfold g_load_snapshot, gb_load_snapshot, load_snapshot. gstart. cbv beta iota zeta.
  cbn [fst snd load_snapshot_v0 load_snapshot_v1 load_snapshot_v2 load_snapshot_v3 load_snapshot_v4].
  match goal with |- context [swhile _ ?c ?b _] => set (cond := c); set (body := b) end.
  destruct (load_while fuel d cond body) with (fw := fuel) (s1 := s) (off := 0%nat) (b3 := 0%nat) (b4 := null_addr) (fh := length d) as (l' & E).
  { intros x. reflexivity. } { intros x. reflexivity. } { exact HF. } { lia. } { lia. }
  rewrite E. cbn [fst]. destruct (load_loop (length d) d 0 (all_addrs s) (intro_cache s)) as [[all c] flag]. reflexivity.
Qed.

(* ------------------------------------------------------------------ every operation, every history *)
Lemma g_init_ok : g_init = init_net 500 500 500 [] [].
Proof. reflexivity. Qed.

Lemma fuel_of_longest s o : (longest (intro_cache s) < fuel_of s o)%nat.
Proof. unfold fuel_of. lia. Qed.

Theorem gen_refines_step_l s o : Inv s -> gstep s o = hstep s o.
Proof.
  intros HI. unfold gstep, hstep, with_val. pose proof (fuel_of_longest s o) as HF.
  destruct o; cbn [step alloc fst snd].
  - rewrite g_add_verified_peer_ok. reflexivity.
  - rewrite g_discover_address_ok by exact HF. reflexivity.
  - rewrite g_discover_services_ok. reflexivity.
  - rewrite g_remove_peer_ok by exact HF. reflexivity.
  - rewrite g_remove_by_address_ok by assumption. reflexivity.
  - reflexivity.
  - rewrite g_get_verified_by_address_ok. destruct (get_verified_by_address s a hint). reflexivity.
  - rewrite g_get_peers_for_service_ok. destruct (get_peers_for_service s s0). reflexivity.
  - reflexivity.
  - rewrite g_get_walkable_addresses_ok. destruct (get_walkable_addresses s s0 old). reflexivity.
  - rewrite g_get_introductions_from_ok. destruct (get_introductions_from s k). reflexivity.
  - rewrite g_snapshot_ok. reflexivity.
  - rewrite g_load_snapshot_ok; [reflexivity|exact HF|unfold fuel_of; lia].
Qed.

Lemma hstep_state s o : fst (hstep s o) = fst (step s o).
Proof. reflexivity. Qed.

Lemma gen_refines_run ops : forall s, Inv s -> grun s ops = hrun s ops.
Proof.
  induction ops as [|o ops IH]; intros s HI; cbn [grun hrun]; [reflexivity|].
  rewrite (gen_refines_step_l s o HI). destruct (hstep s o) as [s1 r] eqn:E.
  assert (E1 : s1 = fst (step s o)) by (rewrite <- hstep_state, E; reflexivity).
  rewrite IH; [reflexivity|]. rewrite E1. apply Inv_step. exact HI.
Qed.

Theorem gen_refines_hand_model_l ipc intc svcc bla blm ops :
  grun (init_net ipc intc svcc bla blm) ops = hrun (init_net ipc intc svcc bla blm) ops.
Proof. apply gen_refines_run. apply Inv_init. Qed.

Lemma hrun_state ops : forall s, fst (hrun s ops) = run s ops.
Proof.
  induction ops as [|o ops IH]; intros s; cbn [hrun run]; [reflexivity|].
  destruct (hstep s o) as [s1 r] eqn:E. assert (E1 : s1 = fst (step s o)) by (rewrite <- hstep_state, E; reflexivity).
  specialize (IH s1). destruct (hrun s1 ops) as [s2 rs]. cbn [fst] in *. rewrite IH, E1. reflexivity.
Qed.

(* the state reached through the translated functions is the hand model's: every reachable-state theorem
   of props/C12.v and props/C12x.v is a theorem about it *)
Theorem gen_state_is_model_state_l ipc intc svcc bla blm ops :
  fst (grun (init_net ipc intc svcc bla blm) ops) = run (init_net ipc intc svcc bla blm) ops.
Proof. rewrite gen_refines_hand_model_l. apply hrun_state. Qed.

Theorem gen_representation_invariant_l ipc intc svcc bla blm ops :
  Inv (fst (grun (init_net ipc intc svcc bla blm) ops)) /\ answers_agree (fst (grun (init_net ipc intc svcc bla blm) ops)).
Proof.
  rewrite gen_state_is_model_state_l. split; [apply Inv_reachable|apply answers_agree_inv; apply Inv_reachable].
Qed.

(* what the translated lookups return on a reachable graph is what the graph implies *)
Theorem gen_lookups_agree_l ipc intc svcc bla blm ops :
  let n := fst (grun (init_net ipc intc svcc bla blm) ops) in
  let g := abs n in
  (forall fuel k, g_get_verified_by_public_key_bin fuel k n = (n, Ok (spec_by_key g k))) /\
  (forall fuel hint a, exists n' r, g_get_verified_by_address fuel hint a n = (n', Ok r) /\ abs n' = g /\
        match r with Some i => In i (spec_owners g a) | None => spec_owners g a = [] end) /\
  (forall fuel sid, exists n' l, g_get_peers_for_service fuel sid n = (n', Ok l) /\ abs n' = g /\
        forall i, In i l <-> In i (spec_peers_for_service g sid)) /\
  (forall fuel so old, exists n' l, g_get_walkable_addresses fuel so old n = (n', Ok l) /\ abs n' = g /\
        forall a, In a l <-> In a (spec_walkable g so old)).
Proof.
  intros n g. assert (HI : Inv n) by (unfold n; rewrite gen_state_is_model_state_l; apply Inv_reachable).
  destruct (answers_agree_inv n HI) as (A1 & A2 & A3 & _ & A5 & _). repeat split.
  - intros fuel k. rewrite g_get_verified_by_public_key_bin_ok. rewrite A1. reflexivity.
  - intros fuel hint a. rewrite g_get_verified_by_address_ok. eexists. eexists. split; [reflexivity|]. split.
    + apply abs_gvba.
    + apply A2.
  - intros fuel sid. rewrite g_get_peers_for_service_ok. eexists. eexists. split; [reflexivity|]. split; [apply abs_gpfs|apply A3].
  - intros fuel so old. rewrite g_get_walkable_addresses_ok. eexists. eexists. split; [reflexivity|]. split; [apply abs_walkable|apply A5].
Qed.

(* ------------------------------------------------------------------ peer.py: Peer.address is the preferred address *)
Definition pref_opt (m : addrmap) : option addr :=
  match am6 m with Some a => Some a | None => match am4 m with Some a => Some a | None => amd m end end.

Lemma am_preferred_pref m : am_preferred m = o_or (pref_opt m) null_addr.
Proof. unfold am_preferred, pref_opt, o_or. destruct (am6 m); [reflexivity|]. destruct (am4 m); [reflexivity|]. destruct (amd m); reflexivity. Qed.

Lemma g_dd_setitem_ok a d : g_dd_setitem (cls_of a) a d = (mkDD (am_put (dd_map d) a) true, Ok tt).
Proof. destruct a; reflexivity. Qed.

Lemma g_dd_update_ok m' d : g_dd_update m' d = (mkDD (am_update (dd_map d) m') true, Ok tt).
Proof. reflexivity. Qed.

Lemma g_dd_init_ok d : g_dd_init d = (mkDD am_empty true, Ok tt).
Proof. reflexivity. Qed.

Lemma g_peer_update_preferred_ok p :
  g_peer_update_preferred_address p
  = (mkPobj (mkDD (dd_map (p_addresses p)) false)
            (match pref_opt (dd_map (p_addresses p)) with Some a => Some a | None => p_address p end) (p_frozen p), Ok tt).
Proof.
  destruct p as [[[[a4|] [a6|] [ad|]] dirty] cur fr]; reflexivity.
Qed.

Record PInv (p : pobj) (m : addrmap) : Prop := {
  pi_map : dd_map (p_addresses p) = m;
  pi_frozen : p_frozen p = false;
  pi_none : pref_opt m = None -> p_address p = None;
  pi_clean : dd_dirty (p_addresses p) = false -> p_address p = pref_opt m
}.

Lemma PInv_new ao : PInv (gpeer_new ao) (hpeer_new ao).
Proof.
  unfold gpeer_new, hpeer_new. destruct ao as [a|].
  - destruct a; constructor; cbn; intros; try reflexivity; discriminate.
  - constructor; cbn; intros; try reflexivity; discriminate.
Qed.

Lemma pref_put m a : pref_opt (am_put m a) <> None.
Proof. destruct m as [[x|] [y|] [z|]], a; cbn; discriminate. Qed.

Lemma pref_update_none m m' : pref_opt (am_update m m') = None -> pref_opt m = None.
Proof. destruct m as [[x|] [y|] [z|]], m' as [[x'|] [y'|] [z'|]]; cbn; intros H; try discriminate; reflexivity. Qed.

Lemma gpeer_step_ok p m o : PInv p m ->
  snd (gpeer_step p o) = snd (hpeer_step m o) /\ PInv (fst (gpeer_step p o)) (fst (hpeer_step m o)).
Proof.
  intros [H1 H2 H3 H4]. destruct p as [[dm dirty] cur fr]. cbn [p_addresses p_address p_frozen dd_map dd_dirty] in *. subst dm fr.
  destruct o as [a|m'|]; unfold gpeer_step, hpeer_step.
  - unfold g_peer_add_address. gstart. cbv beta iota zeta. cbn [fst snd p_frozen]. unfold scall_sub. cbn [fst snd p_addresses].
    rewrite g_dd_setitem_ok. cbn [fst snd]. rewrite g_peer_update_preferred_ok. cbn [fst snd p_addresses p_address p_frozen dd_map rmap].
    split; [reflexivity|]. pose proof (pref_put m a) as NP.
    constructor; cbn [p_addresses p_address p_frozen dd_map dd_dirty]; try reflexivity.
    + intros E. contradiction.
    + intros _. destruct (pref_opt (am_put m a)); [reflexivity|contradiction].
  - rewrite g_dd_update_ok. cbn [fst snd rmap p_addresses p_address p_frozen dd_map dd_dirty]. split; [reflexivity|].
    constructor; cbn [p_addresses p_address p_frozen dd_map dd_dirty]; try reflexivity.
    + intros E. apply H3. apply pref_update_none in E. exact E.
    + discriminate.
  - unfold g_peer_address. gstart. cbv beta iota zeta. cbn [fst snd p_addresses dd_dirty].
    destruct dirty.
    + rewrite g_peer_update_preferred_ok. cbn [fst snd p_addresses p_address p_frozen dd_map rmap].
      rewrite am_preferred_pref. destruct (pref_opt m) as [a|] eqn:P.
      * split; [reflexivity|]. constructor; cbn [p_addresses p_address p_frozen dd_map dd_dirty]; auto.
        intros E. rewrite P in E. discriminate.
      * rewrite (H3 eq_refl). split; [reflexivity|]. constructor; cbn [p_addresses p_address p_frozen dd_map dd_dirty]; auto.
    + cbn [fst snd p_address rmap]. rewrite (H4 eq_refl). rewrite am_preferred_pref. split; [reflexivity|].
      constructor; cbn [p_addresses p_address p_frozen dd_map dd_dirty]; try reflexivity; auto.
Qed.

Theorem gen_peer_address_is_preferred_l ao ops :
  snd (gpeer_run (gpeer_new ao) ops) = snd (hpeer_run (hpeer_new ao) ops) /\
  dd_map (p_addresses (fst (gpeer_run (gpeer_new ao) ops))) = fst (hpeer_run (hpeer_new ao) ops).
Proof.
  assert (G : forall ops p m, PInv p m ->
            snd (gpeer_run p ops) = snd (hpeer_run m ops) /\ PInv (fst (gpeer_run p ops)) (fst (hpeer_run m ops))).
  { induction ops0 as [|o ops0 IH]; intros p m HP; cbn [gpeer_run hpeer_run]; [auto|].
    destruct (gpeer_step_ok p m o HP) as [E1 E2].
    destruct (gpeer_step p o) as [p1 r1]. destruct (hpeer_step m o) as [m1 r2]. cbn [fst snd] in *.
    destruct (IH p1 m1 E2) as [E3 E4]. destruct (gpeer_run p1 ops0). destruct (hpeer_run m1 ops0). cbn [fst snd] in *.
    subst. auto. }
  destruct (G ops _ _ (PInv_new ao)) as [E1 E2]. split; [exact E1|exact (pi_map _ _ E2)].
Qed.

(* ------------------------------------------------------------------ transferred theorems *)
Theorem gen_asking_changes_nothing_l ipc intc svcc bla blm ops qs :
  all_queries qs ->
  let n := fst (grun (init_net ipc intc svcc bla blm) ops) in
  abs (fst (grun n qs)) = abs n.
Proof.
  intros Hq n. assert (HI : Inv n) by (unfold n; rewrite gen_state_is_model_state_l; apply Inv_reachable).
  rewrite (gen_refines_run qs n HI). rewrite hrun_state. apply abs_run_queries. exact Hq.
Qed.

Theorem gen_snapshot_roundtrip_l ipc intc svcc bla blm ops fuel :
  Forall op_ok ops ->
  let n := fst (grun (init_net ipc intc svcc bla blm) ops) in
  exists bs, g_snapshot fuel n = (n, Ok bs) /\
    let m := fst (g_load_snapshot (S (length bs)) bs g_init) in
    snd (g_load_snapshot (S (length bs)) bs g_init) = Ok tt /\
    map fst (all_addrs m) = uniq (spec_snapshot_addrs (abs n)) /\
    (forall x, In x (snd (get_walkable_addresses m None false)) <-> In x (spec_snapshot_addrs (abs n))).
Proof.
  intros Ho n. unfold n. rewrite gen_state_is_model_state_l.
  destruct (snapshot_never_raises_l ipc intc svcc bla blm ops Ho) as (bs & Hs).
  exists bs. rewrite g_snapshot_ok. split; [rewrite Hs; reflexivity|].
  rewrite g_init_ok. rewrite g_load_snapshot_ok; [|cbn; lia|lia]. cbn [fst snd]. split; [reflexivity|].
  destruct (snapshot_roundtrip_l ipc intc svcc bla blm ops 500 500 500 [] [] bs Ho Hs) as (K & _ & W). auto.
Qed.
