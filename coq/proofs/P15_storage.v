(* C15 - lemmas about the Storage model: put / clean / get, versions, expiry. *)
From Coq Require Import ZArith List Bool Lia ZifyBool Arith Permutation.
From IPV8V Require Import lib.PyErr lib.Bytes lib.BE gen.G15_consts model.M15_dht_store.
Import ListNotations.
Open Scope Z_scope.

Lemma bytes_eqb_false a b : bytes_eqb a b = false <-> a <> b.
Proof.
  split; intro H.
  - intro E. apply bytes_eqb_eq in E. congruence.
  - destruct (bytes_eqb a b) eqn:E; [|reflexivity]. apply bytes_eqb_eq in E. contradiction.
Qed.

Lemma bytes_eqb_sym a b : bytes_eqb a b = bytes_eqb b a.
Proof.
  destruct (bytes_eqb a b) eqn:E.
  - apply bytes_eqb_eq in E. subst. symmetry. apply bytes_eqb_refl.
  - symmetry. apply bytes_eqb_false. apply bytes_eqb_false in E. congruence.
Qed.

(* ---- the dict ---- *)
Lemma sget_sset_same s k l : sget (sset s k l) k = l.
Proof.
  induction s as [|[k' l'] s IH]; cbn [sset sget].
  - rewrite bytes_eqb_refl. reflexivity.
  - destruct (bytes_eqb k' k) eqn:E; cbn [sget]; rewrite E; auto.
Qed.

Lemma sget_sset_other s k l k' : k <> k' -> sget (sset s k l) k' = sget s k'.
Proof.
  intros Hne. induction s as [|[k1 l1] s IH]; cbn [sset sget].
  - replace (bytes_eqb k k') with false by (symmetry; apply bytes_eqb_false; exact Hne). reflexivity.
  - destruct (bytes_eqb k1 k) eqn:E; cbn [sget].
    + apply bytes_eqb_eq in E. subst k1.
      replace (bytes_eqb k k') with false by (symmetry; apply bytes_eqb_false; exact Hne). reflexivity.
    + destruct (bytes_eqb k1 k'); auto.
Qed.

Lemma sget_clean now s k : sget (clean now s) k = filter (fun v => negb (expired now v)) (sget s k).
Proof.
  induction s as [|[k' l'] s IH]; cbn [clean map sget fst snd]; [reflexivity|].
  destruct (bytes_eqb k' k); [reflexivity|]. exact IH.
Qed.

(* ---- expiry ---- *)
Lemma expired_gone_l now s k v : In v (sget (clean now s) k) -> now - v_last v <= v_maxage v.
Proof.
  rewrite sget_clean. intros H. apply filter_In in H as [_ H]. unfold expired in H. lia.
Qed.

Lemma clean_exact_l now s k v :
  In v (sget (clean now s) k) <-> In v (sget s k) /\ now - v_last v <= v_maxage v.
Proof.
  rewrite sget_clean. rewrite filter_In. unfold expired. split; intros [H1 H2]; split; auto; lia.
Qed.

Lemma clean_order_l now s k : sget (clean now s) k = filter (fun v => negb (expired now v)) (sget s k).
Proof. apply sget_clean. Qed.

(* the pinned tree's early break leaves an expired value behind: value 1 (lifetime 10, stored at 0) sits before
   value 2 (lifetime 100, stored at 0); at time 50 the walk from the end stops at value 2 *)
Lemma clean_early_break_refuted_l :
  exists now s k v, In v (sget (clean_early_break now s) k) /\ now - v_last v > v_maxage v.
Proof.
  exists 50, [([7], [mkV [1] [1] 0 10 0; mkV [2] [2] 0 100 0])], [7], (mkV [1] [1] 0 10 0).
  vm_compute. split; [left; reflexivity | reflexivity].
Qed.

(* ---- list helpers ---- *)
Definition has (id : bytes) (v : value) : bool := bytes_eqb (v_id v) id.

Lemma index_of_find id l :
  match index_of id l with
  | Some i => exists old, nth_error l i = Some old /\ find (has id) l = Some old /\ v_id old = id
  | None => find (has id) l = None /\ forall v, In v l -> v_id v <> id
  end.
Proof.
  induction l as [|v l IH]; cbn [index_of find].
  - split; [reflexivity|]. intros v [].
  - change (has id v) with (bytes_eqb (v_id v) id). destruct (bytes_eqb (v_id v) id) eqn:E.
    + exists v. cbn. apply bytes_eqb_eq in E. auto.
    + destruct (index_of id l) as [i|]; cbn [option_map].
      * destruct IH as [old [H1 [H2 H3]]]. exists old. cbn [nth_error]. auto.
      * destruct IH as [H1 H2]. split; [exact H1|]. intros w [<-|Hw]; [apply bytes_eqb_false; exact E|auto].
Qed.

Lemma In_remove_nth {A} (l : list A) i x : In x (remove_nth i l) -> In x l.
Proof.
  revert i; induction l as [|y l IH]; intros i H; [destruct i; exact H|].
  destruct i as [|i]; cbn [remove_nth] in H; [right; exact H|].
  destruct H as [<-|H]; [left; reflexivity | right; eapply IH; exact H].
Qed.

Lemma In_remove_nth_or {A} (l : list A) i x old :
  In x l -> nth_error l i = Some old -> x = old \/ In x (remove_nth i l).
Proof.
  revert i; induction l as [|y l IH]; intros i Hin Hn; [destruct Hin|].
  destruct i as [|i]; cbn [nth_error remove_nth] in *.
  - inversion Hn; subst. destruct Hin as [<-|Hin]; auto.
  - destruct Hin as [<-|Hin]; [right; left; reflexivity|].
    destruct (IH i Hin Hn) as [E|E]; [left; exact E | right; right; exact E].
Qed.

Lemma In_sort_key key l v : In v (sort_key key l) <-> In v l.
Proof.
  unfold sort_key. rewrite in_app_iff, !filter_In. split.
  - intros [[H _]|[H _]]; exact H.
  - intros H. destruct (bytes_eqb (v_id v) key) eqn:E; [right | left]; rewrite ?E; auto.
Qed.

Lemma find_app {A} (p : A -> bool) a b :
  find p (a ++ b) = match find p a with Some x => Some x | None => find p b end.
Proof. induction a as [|x a IH]; cbn [app find]; [reflexivity|]. destruct (p x); auto. Qed.

Lemma find_filter_imp {A} (p q : A -> bool) l :
  (forall x, p x = true -> q x = true) -> find p (filter q l) = find p l.
Proof.
  intros H. induction l as [|x l IH]; cbn [filter find]; [reflexivity|].
  destruct (q x) eqn:Eq; cbn [find].
  - destruct (p x); auto.
  - destruct (p x) eqn:Ep; [apply H in Ep; congruence | exact IH].
Qed.

Lemma find_filter_none {A} (p q : A -> bool) l :
  (forall x, q x = true -> p x = false) -> find p (filter q l) = None.
Proof.
  intros H. induction l as [|x l IH]; cbn [filter find]; [reflexivity|].
  destruct (q x) eqn:Eq; cbn [find]; [rewrite (H x Eq)|]; exact IH.
Qed.

Lemma find_none_all {A} (p : A -> bool) l : find p l = None -> forall x, In x l -> p x = false.
Proof.
  induction l as [|y l IH]; cbn [find]; intros H x Hin; [destruct Hin|].
  destruct (p y) eqn:E; [discriminate|]. destruct Hin as [<-|Hin]; auto.
Qed.

(* the stable sort by (id == key) keeps, for every id, the first value carrying it *)
Lemma find_sort_key key id l : find (has id) (sort_key key l) = find (has id) l.
Proof.
  unfold sort_key. rewrite find_app.
  destruct (bytes_eqb id key) eqn:E.
  - apply bytes_eqb_eq in E. subst id.
    rewrite find_filter_none.
    + apply find_filter_imp. intros x Hx. exact Hx.
    + intros x Hx. unfold has. destruct (bytes_eqb (v_id x) key); [discriminate | reflexivity].
  - assert (Himp : forall x, has id x = true -> negb (bytes_eqb (v_id x) key) = true).
    { intros x Hx. unfold has in Hx. apply bytes_eqb_eq in Hx. rewrite Hx, E. reflexivity. }
    rewrite (find_filter_imp _ _ _ Himp).
    destruct (find (has id) l) eqn:F; [reflexivity|].
    apply find_filter_none. intros x Hx. apply bytes_eqb_eq in Hx. unfold has. rewrite Hx.
    rewrite bytes_eqb_sym. exact E.
Qed.

Lemma find_remove_nth_other id l i old :
  nth_error l i = Some old -> has id old = false -> find (has id) (remove_nth i l) = find (has id) l.
Proof.
  revert i; induction l as [|y l IH]; intros i Hn Hh; [destruct i; discriminate|].
  destruct i as [|i]; cbn [nth_error remove_nth find] in *.
  - inversion Hn; subst. rewrite Hh. reflexivity.
  - destruct (has id y); [reflexivity|]. eapply IH; eauto.
Qed.

Lemma sort_key_perm key l : Permutation (sort_key key l) l.
Proof.
  unfold sort_key. induction l as [|x l IH]; cbn [filter]; [constructor|].
  destruct (bytes_eqb (v_id x) key); cbn [negb app].
  - apply Permutation_sym. apply Permutation_cons_app. apply Permutation_sym. exact IH.
  - constructor. exact IH.
Qed.

(* ---- put ---- *)
Section Put.
Variable hash : bytes -> bytes.

Definition eff_id (id : option bytes) (data : bytes) : bytes :=
  match id with Some (x :: r) => x :: r | _ => hash data end.

Notation put := (put hash).

Definition stored (s : storage) (key id : bytes) : option value := find (has id) (sget s key).

Lemma put_cases s now key data id ma ver :
  let id_ := eff_id id data in
  let nv := mkV id_ data now ma ver in
  match stored s key id_ with
  | Some old =>
      if v_version old <=? ver
      then exists i, nth_error (sget s key) i = Some old /\
                     put s now key data id ma ver = sset s key (sort_key key (nv :: remove_nth i (sget s key)))
      else put s now key data id ma ver = s
  | None => put s now key data id ma ver = sset s key (sort_key key (nv :: sget s key))
  end.
Proof.
  cbv zeta. unfold M15_dht_store.put, stored. fold (eff_id id data).
  pose proof (index_of_find (eff_id id data) (sget s key)) as H.
  destruct (index_of (eff_id id data) (sget s key)) as [i|].
  - destruct H as [old [H1 [H2 H3]]]. rewrite H2, H1.
    destruct (v_version old <=? ver); [exists i; auto | reflexivity].
  - destruct H as [H1 _]. rewrite H1. reflexivity.
Qed.

(* what is stored for (key, id) after a put *)
Lemma stored_put s now key data id ma ver k i :
  stored (put s now key data id ma ver) k i =
  if bytes_eqb k key && bytes_eqb i (eff_id id data)
  then match stored s key (eff_id id data) with
       | Some old => if v_version old <=? ver then Some (mkV (eff_id id data) data now ma ver) else Some old
       | None => Some (mkV (eff_id id data) data now ma ver)
       end
  else stored s k i.
Proof.
  pose proof (put_cases s now key data id ma ver) as H. cbv zeta in H.
  set (id_ := eff_id id data) in *. set (nv := mkV id_ data now ma ver) in *.
  assert (Hnv : has id_ nv = true) by (unfold has, nv; cbn; apply bytes_eqb_refl).
  destruct (bytes_eqb k key) eqn:Ek; cbn [andb].
  - apply bytes_eqb_eq in Ek. subst k.
    destruct (bytes_eqb i id_) eqn:Ei.
    + apply bytes_eqb_eq in Ei. subst i.
      destruct (stored s key id_) as [old|] eqn:Es.
      * destruct (v_version old <=? ver).
        -- destruct H as [j [Hj ->]]. unfold stored. rewrite sget_sset_same, find_sort_key.
           cbn [find]. rewrite Hnv. reflexivity.
        -- rewrite H. exact Es.
      * rewrite H. unfold stored. rewrite sget_sset_same, find_sort_key. cbn [find]. rewrite Hnv. reflexivity.
    + assert (Hnv' : has i nv = false).
      { unfold has, nv. cbn. rewrite bytes_eqb_sym. exact Ei. }
      destruct (stored s key id_) as [old|] eqn:Es.
      * destruct (v_version old <=? ver); [|rewrite H; reflexivity].
        destruct H as [j [Hj ->]]. unfold stored. rewrite sget_sset_same, find_sort_key.
        cbn [find]. rewrite Hnv'. apply (find_remove_nth_other i _ j old Hj).
        unfold stored in Es. apply find_some in Es as [_ Es]. unfold has in *. apply bytes_eqb_eq in Es.
        rewrite Es. rewrite bytes_eqb_sym. exact Ei.
      * rewrite H. unfold stored. rewrite sget_sset_same, find_sort_key. cbn [find]. rewrite Hnv'. reflexivity.
  - assert (Hne : key <> k) by (intro E; subst; rewrite bytes_eqb_refl in Ek; discriminate).
    destruct (stored s key id_) as [old|].
    + destruct (v_version old <=? ver); [|rewrite H; reflexivity].
      destruct H as [j [_ ->]]. unfold stored. rewrite sget_sset_other by exact Hne. reflexivity.
    + rewrite H. unfold stored. rewrite sget_sset_other by exact Hne. reflexivity.
Qed.

(* a put never loses a value and never lowers a version: every value stored before is still represented by a
   value with its id and a version at least as high *)
Lemma put_monotone_l s now key data id ma ver k v :
  In v (sget s k) ->
  exists v', In v' (sget (put s now key data id ma ver) k) /\ v_id v' = v_id v /\ v_version v <= v_version v'.
Proof.
  intros Hin. pose proof (put_cases s now key data id ma ver) as H. cbv zeta in H.
  set (id_ := eff_id id data) in *. set (nv := mkV id_ data now ma ver) in *.
  destruct (bytes_eqb key k) eqn:Ek.
  2:{ assert (Hne : key <> k) by (intro E; subst; rewrite bytes_eqb_refl in Ek; discriminate).
      exists v. split; [|split; [reflexivity | lia]].
      destruct (stored s key id_) as [old|].
      - destruct (v_version old <=? ver); [|rewrite H; exact Hin].
        destruct H as [j [_ ->]]. rewrite sget_sset_other by exact Hne. exact Hin.
      - rewrite H. rewrite sget_sset_other by exact Hne. exact Hin. }
  apply bytes_eqb_eq in Ek. subst k.
  destruct (stored s key id_) as [old|] eqn:Es.
  - destruct (v_version old <=? ver) eqn:Ev.
    + destruct H as [j [Hj ->]]. rewrite sget_sset_same.
      destruct (In_remove_nth_or _ j v old Hin Hj) as [->|Hr].
      * exists nv. split; [apply In_sort_key; left; reflexivity|].
        unfold stored in Es. apply find_some in Es as [_ Es]. unfold has in Es. apply bytes_eqb_eq in Es.
        unfold nv. cbn. split; [symmetry; exact Es | lia].
      * exists v. split; [apply In_sort_key; right; exact Hr | split; [reflexivity | lia]].
    + rewrite H. exists v. split; [exact Hin | split; [reflexivity | lia]].
  - rewrite H. rewrite sget_sset_same. exists v.
    split; [apply In_sort_key; right; exact Hin | split; [reflexivity | lia]].
Qed.

(* whatever is stored after a put was stored before or is the value just put *)
Lemma put_sound_l s now key data id ma ver k v :
  In v (sget (put s now key data id ma ver) k) ->
  In v (sget s k) \/ (k = key /\ v = mkV (eff_id id data) data now ma ver).
Proof.
  intros Hin. pose proof (put_cases s now key data id ma ver) as H. cbv zeta in H.
  set (id_ := eff_id id data) in *. set (nv := mkV id_ data now ma ver) in *.
  destruct (bytes_eqb key k) eqn:Ek.
  2:{ assert (Hne : key <> k) by (intro E; subst; rewrite bytes_eqb_refl in Ek; discriminate).
      left. destruct (stored s key id_) as [old|].
      - destruct (v_version old <=? ver); [|rewrite H in Hin; exact Hin].
        destruct H as [j [_ Hp]]. rewrite Hp in Hin. rewrite sget_sset_other in Hin by exact Hne. exact Hin.
      - rewrite H in Hin. rewrite sget_sset_other in Hin by exact Hne. exact Hin. }
  apply bytes_eqb_eq in Ek. subst k.
  destruct (stored s key id_) as [old|].
  - destruct (v_version old <=? ver); [|rewrite H in Hin; left; exact Hin].
    destruct H as [j [_ Hp]]. rewrite Hp in Hin. rewrite sget_sset_same in Hin.
    apply In_sort_key in Hin. destruct Hin as [<-|Hin]; [right; auto | left; eapply In_remove_nth; exact Hin].
  - rewrite H in Hin. rewrite sget_sset_same in Hin. apply In_sort_key in Hin.
    destruct Hin as [<-|Hin]; [right; auto | left; exact Hin].
Qed.

(* ids stay unique per key *)
Definition ids_unique (s : storage) : Prop := forall k, NoDup (map v_id (sget s k)).

Lemma NoDup_map_remove_nth l i : NoDup (map v_id l) -> NoDup (map v_id (remove_nth i l)).
Proof.
  revert i; induction l as [|x l IH]; intros i H; [destruct i; exact H|].
  destruct i as [|i]; cbn [remove_nth map] in *; inversion H; subst; [assumption|].
  constructor; [|apply IH; assumption].
  intro Hin. apply in_map_iff in Hin as [y [Hy Hin]]. apply In_remove_nth in Hin.
  apply H2. rewrite <- Hy. apply in_map. exact Hin.
Qed.

Lemma not_in_ids_remove_nth l i old :
  NoDup (map v_id l) -> nth_error l i = Some old -> ~ In (v_id old) (map v_id (remove_nth i l)).
Proof.
  revert i; induction l as [|x l IH]; intros i H Hn; [destruct i; discriminate|].
  destruct i as [|i]; cbn [remove_nth map nth_error] in *; inversion H; subst.
  - inversion Hn; subst. assumption.
  - intros [E|Hin].
    + apply H2. rewrite E. apply in_map. eapply nth_error_In; exact Hn.
    + eapply IH; eauto.
Qed.

Lemma put_ids_unique_l s now key data id ma ver : ids_unique s -> ids_unique (put s now key data id ma ver).
Proof.
  intros Hu k. pose proof (put_cases s now key data id ma ver) as H. cbv zeta in H.
  set (id_ := eff_id id data) in *. set (nv := mkV id_ data now ma ver) in *.
  destruct (bytes_eqb key k) eqn:Ek.
  2:{ assert (Hne : key <> k) by (intro E; subst; rewrite bytes_eqb_refl in Ek; discriminate).
      destruct (stored s key id_) as [old|].
      - destruct (v_version old <=? ver); [|rewrite H; apply Hu].
        destruct H as [j [_ ->]]. rewrite sget_sset_other by exact Hne. apply Hu.
      - rewrite H. rewrite sget_sset_other by exact Hne. apply Hu. }
  apply bytes_eqb_eq in Ek. subst k.
  destruct (stored s key id_) as [old|] eqn:Es.
  - destruct (v_version old <=? ver); [|rewrite H; apply Hu].
    destruct H as [j [Hj ->]]. rewrite sget_sset_same.
    eapply Permutation_NoDup; [apply Permutation_map; apply Permutation_sym; apply sort_key_perm|].
    cbn [map]. constructor; [|apply NoDup_map_remove_nth; apply Hu].
    unfold stored in Es. apply find_some in Es as [_ Es]. unfold has in Es. apply bytes_eqb_eq in Es.
    unfold nv. cbn [v_id]. rewrite <- Es. apply not_in_ids_remove_nth; [apply Hu | exact Hj].
  - rewrite H. rewrite sget_sset_same.
    eapply Permutation_NoDup; [apply Permutation_map; apply Permutation_sym; apply sort_key_perm|].
    cbn [map]. constructor; [|apply Hu].
    intro Hin. apply in_map_iff in Hin as [y [Hy Hin]].
    unfold stored in Es. pose proof (find_none_all _ _ Es y Hin) as Hf. unfold has in Hf.
    apply bytes_eqb_false in Hf. apply Hf. exact Hy.
Qed.

Lemma clean_ids_unique_l now s : ids_unique s -> ids_unique (clean now s).
Proof.
  intros Hu k. rewrite sget_clean. specialize (Hu k). revert Hu.
  induction (sget s k) as [|x l IH]; cbn [filter map]; intros H; [constructor|].
  inversion H; subst. destruct (negb (expired now x)); cbn [map]; [|auto].
  constructor; [|auto]. intro Hin. apply H2. apply in_map_iff in Hin as [y [Hy Hin]].
  apply filter_In in Hin as [Hin _]. rewrite <- Hy. apply in_map. exact Hin.
Qed.

(* ---- histories of puts: the stored version of (key, id) is the maximum put so far ---- *)
Definition put_args := (Z * bytes * bytes * option bytes * Z * Z)%type.
Definition apply_put (s : storage) (p : put_args) : storage :=
  let '(now, key, data, id, ma, ver) := p in put s now key data id ma ver.
Definition put_hits (p : put_args) (k i : bytes) : bool :=
  let '(_, key, data, id, _, _) := p in bytes_eqb k key && bytes_eqb i (eff_id id data).
Definition put_version (p : put_args) : Z := let '(_, _, _, _, _, ver) := p in ver.

Definition omax (a : option Z) (b : Z) : Z := match a with Some x => Z.max x b | None => b end.
Fixpoint max_put (acc : option Z) (ps : list put_args) (k i : bytes) : option Z :=
  match ps with
  | [] => acc
  | p :: tl => max_put (if put_hits p k i then Some (omax acc (put_version p)) else acc) tl k i
  end.

Definition stored_version (s : storage) (k i : bytes) : option Z := option_map v_version (stored s k i).

Lemma stored_version_put s p k i :
  stored_version (apply_put s p) k i =
  if put_hits p k i then Some (omax (stored_version s k i) (put_version p)) else stored_version s k i.
Proof.
  destruct p as [[[[[now key] data] id] ma] ver]. unfold apply_put, put_hits, put_version, stored_version.
  rewrite stored_put. destruct (bytes_eqb k key) eqn:Ek; cbn [andb]; [|reflexivity].
  destruct (bytes_eqb i (eff_id id data)) eqn:Ei; [|reflexivity].
  apply bytes_eqb_eq in Ek, Ei. subst k i.
  destruct (stored s key (eff_id id data)) as [old|]; cbn [option_map omax]; [|reflexivity].
  destruct (v_version old <=? ver) eqn:E; cbn [option_map v_version]; f_equal; lia.
Qed.

Lemma version_is_max_of_puts_gen ps : forall s k i,
  stored_version (fold_left apply_put ps s) k i = max_put (stored_version s k i) ps k i.
Proof.
  induction ps as [|p ps IH]; intros s k i; cbn [fold_left max_put]; [reflexivity|].
  rewrite IH, stored_version_put. reflexivity.
Qed.

Lemma version_is_max_of_puts_l ps k i :
  stored_version (fold_left apply_put ps []) k i = max_put None ps k i.
Proof. apply version_is_max_of_puts_gen. Qed.

(* max_put really is the maximum: it bounds every hitting put and is attained by one *)
Lemma max_put_ge ps : forall acc k i p,
  In p ps -> put_hits p k i = true -> exists m, max_put acc ps k i = Some m /\ put_version p <= m.
Proof.
  assert (Hmono : forall qs acc k i a, acc = Some a -> exists m, max_put acc qs k i = Some m /\ a <= m).
  { induction qs as [|q qs IH]; intros acc k i a ->; cbn [max_put]; [exists a; split; [reflexivity | lia]|].
    destruct (put_hits q k i).
    - destruct (IH (Some (omax (Some a) (put_version q))) k i _ eq_refl) as [m [Hm Hle]].
      exists m. split; [exact Hm|]. cbn [omax] in Hle. lia.
    - apply IH. reflexivity. }
  induction ps as [|q ps IH]; intros acc k i p Hin Hh; [destruct Hin|].
  cbn [max_put]. destruct Hin as [->|Hin].
  - rewrite Hh. destruct (Hmono ps (Some (omax acc (put_version p))) k i _ eq_refl) as [m [Hm Hle]].
    exists m. split; [exact Hm|]. destruct acc; cbn [omax] in Hle; lia.
  - apply IH; assumption.
Qed.

Lemma max_put_attained ps : forall acc k i m,
  max_put acc ps k i = Some m ->
  acc = Some m \/ exists p, In p ps /\ put_hits p k i = true /\ put_version p = m.
Proof.
  induction ps as [|q ps IH]; intros acc k i m H; cbn [max_put] in H; [left; exact H|].
  destruct (put_hits q k i) eqn:Eh.
  - apply IH in H. destruct H as [H|[p [H1 [H2 H3]]]].
    + inversion H as [Hm]. destruct acc as [a|]; cbn [omax] in *.
      * destruct (Z.max_spec a (put_version q)) as [[_ E]|[_ E]]; rewrite E in *.
        -- right. exists q. split; [left; reflexivity | split; [exact Eh | reflexivity]].
        -- left. reflexivity.
      * right. exists q. split; [left; reflexivity | split; [exact Eh | reflexivity]].
    + right. exists p. split; [right; exact H1 | auto].
  - apply IH in H. destruct H as [H|[p [H1 [H2 H3]]]].
    + left; exact H.
    + right. exists p. split; [right; exact H1 | auto].
Qed.

Lemma max_put_spec_l ps k i :
  (forall p, In p ps -> put_hits p k i = true -> exists m, max_put None ps k i = Some m /\ put_version p <= m)
  /\ (forall m, max_put None ps k i = Some m -> exists p, In p ps /\ put_hits p k i = true /\ put_version p = m).
Proof.
  split.
  - intros p Hin Hh. apply max_put_ge; assumption.
  - intros m H. apply max_put_attained in H as [H|H]; [discriminate | exact H].
Qed.

End Put.
