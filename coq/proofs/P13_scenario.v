(* C13 - the scenario theorems: a finite configuration space decided by evaluation, lifted with
   forallb_forall; plus: the scenario networks are well formed and stay so. *)
From Coq Require Import ZArith List Bool Lia ZifyBool Arith.
From IPV8V Require Import lib.PyErr gen.G13_lan model.M13_nat model.M13_scenario proofs.P13_proto proofs.P13_nat proofs.P13_sweeplib.
Import ListNotations.
Open Scope Z_scope.

(* ------------------------------------------------------------------------------------------ enumeration is complete *)

(* the swept space *)
Definition in_sweep (alias warm rebound : bool) (k : nat) : Prop :=
  (alias = false /\ warm = false /\ rebound = false /\ (1 <= k <= 5)%nat) \/ k = 1%nat \/ k = 3%nat.

Lemma in_sweep_variation alias warm rebound k : in_sweep alias warm rebound k ->
  exists ks, In (alias, warm, rebound, ks) variations /\ In k ks.
Proof.
  intros [(-> & -> & -> & Hk)|Hk].
  - exists (seq 1 5). split; [left; reflexivity | apply in_seq; lia].
  - destruct alias, warm, rebound;
      first [ exists [1; 3]%nat; split; [cbn; tauto | cbn; lia]
            | exists (seq 1 5); split; [left; reflexivity | apply in_seq; lia] ].
Qed.

Lemma all_cfgs_complete : forall tA tC same resp newC alias rebound styleA warm k pos,
  in_sweep alias warm rebound k -> (pos < k)%nat ->
  In (cfg_for tA (mkCand tC same resp newC alias rebound) styleA warm k pos) all_cfgs.
Proof.
  intros tA tC same resp newC alias rebound styleA warm k pos Hk Hp. unfold all_cfgs, flat_map'.
  destruct (in_sweep_variation alias warm rebound k Hk) as (ks & Hv & Hin).
  apply in_flat_map. exists (alias, warm, rebound, ks). split; [exact Hv|].
  apply in_flat_map. exists tA. split; [apply all_types_complete|].
  apply in_flat_map. exists tC. split; [apply all_types_complete|].
  apply in_flat_map. exists same. split; [apply bools_complete|].
  apply in_flat_map. exists resp. split; [apply bools_complete|].
  apply in_flat_map. exists newC. split; [apply bools_complete|].
  apply in_flat_map. exists styleA. split; [apply bools_complete|].
  apply in_flat_map. exists k. split; [exact Hin|].
  apply in_map_iff. exists pos. split; [reflexivity | apply in_seq; lia].
Qed.

(* ------------------------------------------------------------------------------------------ the decided space *)

(* per (k, pos): everything the theorem claims, as one boolean *)
Definition check_cfg (tA tC : nat_type) (same resp newC alias rebound styleA warm : bool) (k pos : nat) : bool :=
  let g := cfg_for tA (mkCand tC same resp newC alias rebound) styleA warm k pos in
  let o := run_scn g in
  opt_eqb (introduced_peer o) (cand_id pos)
  && verdict_eqb (verdict_of g o) all_true
  && existsb (Z.eqb (cand_id pos)) (peers_of o ID_A)
  && existsb (Z.eqb ID_A) (peers_of o (cand_id pos))
  && (if same then
        list_eqb (fun x y => addr_eqb (fst x) (fst y) && outcome_eqb (snd x) (snd y)) (contacts o)
                 [(host_lan g (cand_id pos), Deliver (cand_id pos) (host_lan g ID_A))]
      else true)
  && net_wfb (mk_net g).

(* the sweep, parametric in the enumerated domains (so that the generic lemma below is checked without
   evaluating anything; only check_all_true evaluates, once, in the VM) *)
Definition check_over (vs : list (bool * bool * bool * list nat)) (ts : list nat_type) (bs : list bool) : bool :=
  forallb (fun v =>
  forallb (fun tA => forallb (fun tC => forallb (fun same => forallb (fun resp => forallb (fun newC =>
  forallb (fun styleA => forallb (fun k => forallb (fun pos =>
    check_cfg tA tC same resp newC (v_alias v) (v_rebound v) styleA (v_warm v) k pos)
  (seq 0 k)) (snd v)) bs) bs) bs) bs) ts) ts) vs.

Lemma check_over_spec : forall vs ts bs, check_over vs ts bs = true ->
  forall v tA tC same resp newC styleA k pos,
  In v vs -> In tA ts -> In tC ts -> In same bs -> In resp bs -> In newC bs -> In styleA bs ->
  In k (snd v) -> In pos (seq 0 k) ->
  check_cfg tA tC same resp newC (v_alias v) (v_rebound v) styleA (v_warm v) k pos = true.
Proof.
  intros vs ts bs H v tA tC same resp newC styleA k pos H0 H1 H2 H3 H4 H5 H6 H7 H8. unfold check_over in H.
  rewrite forallb_forall in H. specialize (H v H0).
  rewrite forallb_forall in H. specialize (H tA H1).
  rewrite forallb_forall in H. specialize (H tC H2).
  rewrite forallb_forall in H. specialize (H same H3).
  rewrite forallb_forall in H. specialize (H resp H4).
  rewrite forallb_forall in H. specialize (H newC H5).
  rewrite forallb_forall in H. specialize (H styleA H6).
  rewrite forallb_forall in H. specialize (H k H7).
  rewrite forallb_forall in H. exact (H pos H8).
Qed.

Lemma check_all_true : check_over variations all_types bools = true.
Proof. vm_cast_no_check (eq_refl true). Qed.

Lemma check_cfg_true : forall tA tC same resp newC alias rebound styleA warm k pos,
  in_sweep alias warm rebound k -> (pos < k)%nat ->
  check_cfg tA tC same resp newC alias rebound styleA warm k pos = true.
Proof.
  intros tA tC same resp newC alias rebound styleA warm k pos Hk Hp.
  destruct (in_sweep_variation alias warm rebound k Hk) as (ks & Hv & Hin).
  apply (check_over_spec variations all_types bools check_all_true (alias, warm, rebound, ks));
    try apply all_types_complete; try apply bools_complete; try assumption. apply in_seq; lia.
Qed.


Lemma cone_reachability_l : forall tA tC same resp newC alias rebound styleA warm k pos,
  in_sweep alias warm rebound k -> (pos < k)%nat ->
  let g := cfg_for tA (mkCand tC same resp newC alias rebound) styleA warm k pos in
  let o := run_scn g in
  introduced_peer o = Some (cand_id pos) /\
  verdict_of g o = all_true /\
  In (cand_id pos) (peers_of o ID_A) /\ In ID_A (peers_of o (cand_id pos)).
Proof.
  intros tA tC same resp newC alias rebound styleA warm k pos Hk Hp g o.
  pose proof (check_cfg_true tA tC same resp newC alias rebound styleA warm k pos Hk Hp) as H.
  unfold check_cfg in H. fold g in H. fold o in H. rewrite !andb_true_iff in H.
  destruct H as [[[[[H1 H2] H3] H4] _] _].
  split; [|split; [apply verdict_eqb_eq; exact H2 | split; apply existsb_eqb_in; assumption]].
  unfold opt_eqb in H1. destruct (introduced_peer o) as [x|]; [|discriminate].
  apply Z.eqb_eq in H1. subst. reflexivity.
Qed.


Lemma same_nat_uses_lan_l : forall tA tC resp newC alias rebound styleA warm k pos,
  in_sweep alias warm rebound k -> (pos < k)%nat ->
  let g := cfg_for tA (mkCand tC true resp newC alias rebound) styleA warm k pos in
  contacts (run_scn g) = [(host_lan g (cand_id pos), Deliver (cand_id pos) (host_lan g ID_A))].
Proof.
  intros tA tC resp newC alias rebound styleA warm k pos Hk Hp g.
  pose proof (check_cfg_true tA tC true resp newC alias rebound styleA warm k pos Hk Hp) as H.
  unfold check_cfg in H. fold g in H. rewrite !andb_true_iff in H. destruct H as [[_ H] _].
  apply list_eqb_eq in H; [exact H|].
  intros [a1 o1] [a2 o2] E. cbn [fst snd] in E. apply andb_true_iff in E. destruct E as [E1 E2].
  apply addr_eqb_eq in E1. apply outcome_eqb_eq in E2. subst. reflexivity.
Qed.

(* ------------------------------------------------------------------------------------------ networks stay well formed *)

Lemma scenario_nets_wf_l : forall tA tC same resp newC alias rebound styleA warm k pos ops,
  in_sweep alias warm rebound k -> (pos < k)%nat ->
  let g := cfg_for tA (mkCand tC same resp newC alias rebound) styleA warm k pos in
  net_wf (w_net (run_ops (mk_world g) ops)).
Proof.
  intros tA tC same resp newC alias rebound styleA warm k pos ops Hk Hp g. apply run_ops_wf. cbn [mk_world w_net].
  apply net_wfb_sound.
  pose proof (check_cfg_true tA tC same resp newC alias rebound styleA warm k pos Hk Hp) as H.
  unfold check_cfg in H. fold g in H. rewrite !andb_true_iff in H. destruct H as [_ H]. exact H.
Qed.
