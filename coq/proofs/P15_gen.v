(* C15 extension - the generated definitions (gen/G15_handlers.v) compute what the hand model computes.
   Part 1: vocabulary facts and the data functions. *)
From Coq Require Import ZArith List Bool Lia ZifyBool Arith.
From IPV8V Require Import lib.PyErr lib.Bytes lib.BE gen.G15_consts model.M15_dht_store model.M15_py gen.G15_handlers
  proofs.P15_storage proofs.P15_codec.
Import ListNotations.
Open Scope Z_scope.

(* ---- dict vocabulary = the storage dict of the hand model ---- *)
Lemma dget_sget s k : py_dget bytes_eqb [] s k = sget s k.
Proof. induction s as [|[k' l] s IH]; cbn [py_dget sget]; [reflexivity|]. destruct (bytes_eqb k' k); auto. Qed.

Lemma dset_sset s k l : py_dset bytes_eqb s k l = sset s k l.
Proof. induction s as [|[k' l'] s IH]; cbn [py_dset sset]; [reflexivity|]. destruct (bytes_eqb k' k); [reflexivity|]. rewrite IH. reflexivity. Qed.

Lemma sset_sset s k a b : sset (sset s k a) k b = sset s k b.
Proof.
  induction s as [|[k' l'] s IH]; cbn [sset].
  - rewrite bytes_eqb_refl. reflexivity.
  - destruct (bytes_eqb k' k) eqn:E; cbn [sset]; rewrite E; [reflexivity|]. rewrite IH. reflexivity.
Qed.

Lemma drop_nth_remove_nth {A} n (l : list A) : drop_nth n l = remove_nth n l.
Proof. reflexivity. Qed.

Lemma py_len_nonneg {A} (l : list A) : 0 <= py_len l.
Proof. unfold py_len. lia. Qed.

Lemma py_nth_nat {A} (l : list A) n x : nth_error l n = Some x -> py_nth l (Z.of_nat n) = Ok x.
Proof.
  intros H. unfold py_nth. cbv zeta. assert (n < length l)%nat by (apply nth_error_Some; congruence).
  unfold py_len. replace (Z.of_nat n <? 0) with false by lia.
  replace ((Z.of_nat n <? 0) || (Z.of_nat (length l) <=? Z.of_nat n)) with false by lia.
  rewrite Nat2Z.id, H. reflexivity.
Qed.

Lemma py_pop_at_nat {A} (l : list A) n : (n < length l)%nat -> py_pop_at l (Z.of_nat n) = Ok (remove_nth n l).
Proof.
  intros H. unfold py_pop_at, py_len. cbv zeta. replace (Z.of_nat n <? 0) with false by lia.
  replace ((Z.of_nat n <? 0) || (Z.of_nat (length l) <=? Z.of_nat n)) with false by lia.
  rewrite Nat2Z.id, drop_nth_remove_nth. reflexivity.
Qed.

Lemma py_insert_front {A} (l : list A) x : py_insert l 0 x = x :: l.
Proof.
  unfold py_insert, clamp. cbv zeta. pose proof (py_len_nonneg l).
  replace (0 <? 0) with false by lia. replace (py_len l <? 0) with false by lia. reflexivity.
Qed.

(* the 0/1-keyed stable sort is the partition of the hand model *)
Lemma sort_insert_01 (key : value -> Z) x a b :
  (forall y, In y a -> key y = 0) -> (forall y, In y b -> key y = 1) -> key x = 1 ->
  py_sort_insert key x (a ++ b) = a ++ x :: b.
Proof.
  intros Ha Hb Hx. induction a as [|y a IH]; cbn [app py_sort_insert].
  - destruct b as [|z b]; [reflexivity|]. cbn [py_sort_insert]. rewrite Hx, (Hb z) by (left; reflexivity). reflexivity.
  - rewrite Hx, (Ha y) by (left; reflexivity). cbn. f_equal. apply IH. intros z Hz. apply Ha. right. exact Hz.
Qed.

Lemma sort_by_sort_key key l :
  py_sort_by (fun v => if bytes_eqb (v_id v) key then 1 else 0) l = sort_key key l.
Proof.
  set (kf := fun v : value => if bytes_eqb (v_id v) key then 1 else 0).
  unfold sort_key. induction l as [|x l IH]; [reflexivity|].
  unfold py_sort_by in *. cbn [fold_right filter]. rewrite IH.
  destruct (bytes_eqb (v_id x) key) eqn:E; cbn [negb app].
  - apply sort_insert_01.
    + intros y Hy. apply filter_In in Hy as [_ Hy]. unfold kf. destruct (bytes_eqb (v_id y) key); [discriminate | reflexivity].
    + intros y Hy. apply filter_In in Hy as [_ Hy]. unfold kf. rewrite Hy. reflexivity.
    + unfold kf. rewrite E. reflexivity.
  - destruct (filter (fun v => negb (bytes_eqb (v_id v) key)) l ++ filter (fun v => bytes_eqb (v_id v) key) l) as [|z r] eqn:Er;
      [reflexivity|].
    cbn [py_sort_insert]. unfold kf at 1. rewrite E. destruct (kf z) eqn:Ez; unfold kf in Ez;
      destruct (bytes_eqb (v_id z) key); try discriminate; reflexivity.
Qed.

(* ---- storage.py ---- *)
Lemma g_value_expired_ok now v : g_value_expired now v = expired now v.
Proof. unfold g_value_expired, g_value_age, expired. rewrite Z.gtb_ltb. reflexivity. Qed.

Lemma g_value_eq_ok a b : g_value_eq a b = bytes_eqb (v_id a) (v_id b).
Proof. reflexivity. Qed.

Lemma py_index_index_of l x : forall i,
  py_index_from g_value_eq l x i =
  match index_of (v_id x) l with Some n => Ok (i + Z.of_nat n) | None => Raise ValueError end.
Proof.
  induction l as [|y l IH]; intros i; cbn [py_index_from index_of]; [reflexivity|].
  rewrite g_value_eq_ok. destruct (bytes_eqb (v_id y) (v_id x)); [f_equal; lia|].
  rewrite IH. destruct (index_of (v_id x) l); cbn [option_map]; [f_equal; lia | reflexivity].
Qed.

Lemma g_put_ok hash now s key data id ma ver :
  g_put hash now s key data id ma ver = Ok (put hash s now key data id ma ver).
Proof.
  unfold g_put, M15_dht_store.put. cbv zeta.
  replace (py_or_bytes id (hash data)) with (match id with Some (x :: r) => x :: r | _ => hash data end)
    by (destruct id as [[|x r]|]; reflexivity).
  set (id_ := match id with Some (x :: r) => x :: r | _ => hash data end).
  set (nv := mkV id_ data now ma ver).
  rewrite !dget_sget. unfold py_index. rewrite py_index_index_of. cbn [v_id nv].
  change (v_id nv) with id_.
  pose proof (index_of_find id_ (sget s key)) as Hi.
  destruct (index_of id_ (sget s key)) as [n|]; cbn [bind try_catch].
  - destruct Hi as [old [Hn [_ _]]]. rewrite Z.add_0_l, (py_nth_nat _ _ _ Hn), Hn. cbn [bind].
    cbn [v_version nv]. change (v_version nv) with ver.
    rewrite Z.geb_leb. destruct (v_version old <=? ver); cbn [bind try_catch]; [|reflexivity].
    rewrite py_pop_at_nat by (apply nth_error_Some; congruence). cbn [bind try_catch].
    rewrite ?dset_sset, ?dget_sget, ?sget_sset_same, ?sset_sset, ?py_insert_front, ?sort_by_sort_key. reflexivity.
  - cbn [exn_eqb]. cbn [bind].
    rewrite ?dset_sset, ?dget_sget, ?sget_sset_same, ?sset_sset, ?py_insert_front, ?sort_by_sort_key. reflexivity.
Qed.

Lemma clamp_nonneg len i : 0 <= i -> 0 <= len -> clamp len i = Z.min i len.
Proof.
  intros. unfold clamp. cbv zeta. destruct (i <? 0) eqn:E1; [lia|]. rewrite E1.
  destruct (len <? i) eqn:E2; lia.
Qed.

Lemma skipn_min {A} (l : list A) a : skipn (Nat.min a (length l)) l = skipn a l.
Proof.
  destruct (le_lt_dec a (length l)); [rewrite Nat.min_l by lia; reflexivity|].
  rewrite Nat.min_r by lia. rewrite skipn_all, skipn_all2 by lia. reflexivity.
Qed.

Lemma firstn_min_length {A} (l : list A) n : firstn (Nat.min n (length l)) l = firstn n l.
Proof.
  destruct (le_lt_dec n (length l)); [rewrite Nat.min_l by lia; reflexivity|].
  rewrite Nat.min_r by lia. rewrite firstn_all, firstn_all2 by lia. reflexivity.
Qed.

Lemma py_lslice_from {A} (l : list A) a : 0 <= a -> py_lslice l (Some a) None = skipn (Z.to_nat a) l.
Proof.
  intros Ha. unfold py_lslice. cbv zeta. pose proof (py_len_nonneg l). rewrite clamp_nonneg by lia.
  rewrite firstn_all2 by (rewrite skipn_length; unfold py_len in *; lia).
  replace (Z.to_nat (Z.min a (py_len l))) with (Nat.min (Z.to_nat a) (length l)) by (unfold py_len; lia).
  apply skipn_min.
Qed.

Lemma py_lslice_window {A} (l : list A) a n : 0 <= a -> 0 <= n ->
  py_lslice l (Some a) (Some (a + n)) = firstn (Z.to_nat n) (skipn (Z.to_nat a) l).
Proof.
  intros Ha Hn. unfold py_lslice. cbv zeta. pose proof (py_len_nonneg l). rewrite !clamp_nonneg by lia.
  replace (Z.to_nat (Z.min a (py_len l))) with (Nat.min (Z.to_nat a) (length l)) by (unfold py_len; lia).
  rewrite skipn_min.
  replace (Z.to_nat (Z.min (a + n) (py_len l) - Z.min a (py_len l)))
    with (Nat.min (Z.to_nat n) (length (skipn (Z.to_nat a) l))) by (rewrite skipn_length; unfold py_len; lia).
  apply firstn_min_length.
Qed.

Lemma py_lslice_empty {A} (l : list A) a : 0 <= a -> py_lslice l (Some a) (Some 0) = [].
Proof.
  intros Ha. unfold py_lslice. cbv zeta. pose proof (py_len_nonneg l). rewrite !clamp_nonneg by lia.
  replace (Z.to_nat (Z.min 0 (py_len l) - Z.min a (py_len l))) with 0%nat by lia. reflexivity.
Qed.

Lemma dhas_false_sget s k : py_dhas bytes_eqb s k = false -> sget s k = [].
Proof.
  induction s as [|[k' l] s IH]; cbn [py_dhas sget]; [reflexivity|]. destruct (bytes_eqb k' k); [discriminate | exact IH].
Qed.

Lemma g_get_ok s key start limit :
  0 <= start -> (forall n, limit = Some n -> 0 <= n) ->
  g_get s key start limit = Ok (get s key (Z.to_nat start) limit).
Proof.
  intros Hs Hl. unfold g_get, get. cbv zeta. f_equal. rewrite dget_sget.
  destruct (py_dhas bytes_eqb s key) eqn:Eh.
  - destruct limit as [n|].
    + specialize (Hl n eq_refl). unfold py_truthy_Z. destruct (n =? 0) eqn:En; cbn [negb].
      * assert (n = 0) by lia. subst n. rewrite py_lslice_empty by lia. reflexivity.
      * rewrite py_lslice_window by lia. reflexivity.
    + rewrite py_lslice_from by lia. reflexivity.
  - rewrite (dhas_false_sget _ _ Eh). destruct limit as [n|]; [destruct (n =? 0)|]; rewrite ?skipn_nil, ?firstn_nil; reflexivity.
Qed.

(* ---- Storage.clean: the generated nested loops ---- *)
Definition cl_inner (now : Z) (key : bytes) :=
  fun (s_ : storage) (x_ : Z * value) =>
    let items := s_ in let '(index, value) := x_ in
    if g_value_expired now value
    then bind (bind (py_pop_at (py_dget bytes_eqb [] items key) index)
                    (fun l1_ => Ok (py_dset bytes_eqb items key l1_)))
              (fun items => Ok (items, false))
    else Ok (items, false).
Definition cl_outer (now : Z) :=
  fun (s_ : storage) (x_ : bytes) =>
    let items := s_ in let key := x_ in
    bind (py_for (cl_inner now key) (rev (py_enumerate (py_dget bytes_eqb [] items key))) items)
         (fun items => Ok (items, false)).

Lemma g_clean_unfold now s : g_clean now s = bind (py_for (cl_outer now) (py_dkeys s) s) (fun items => Ok items).
Proof. reflexivity. Qed.

Lemma enumerate_from_app {A} (p q : list A) i :
  py_enumerate_from i (p ++ q) = py_enumerate_from i p ++ py_enumerate_from (i + Z.of_nat (length p)) q.
Proof.
  revert i; induction p as [|x p IH]; intros i; cbn [app py_enumerate_from length].
  - f_equal. lia.
  - rewrite IH. replace (i + Z.of_nat (S (length p))) with (i + 1 + Z.of_nat (length p)) by lia. reflexivity.
Qed.

Lemma sset_same_present s k : In k (map fst s) -> sset s k (sget s k) = s.
Proof.
  induction s as [|[k' l] s IH]; cbn [map fst sset sget]; intros H; [destruct H|].
  destruct (bytes_eqb k' k) eqn:E; [reflexivity|]. rewrite IH; [reflexivity|].
  destruct H as [H|H]; [subst; rewrite bytes_eqb_refl in E; discriminate | exact H].
Qed.

Lemma sset_keys_present s k l : In k (map fst s) -> map fst (sset s k l) = map fst s.
Proof.
  induction s as [|[k' l'] s IH]; cbn [map fst sset]; intros H; [destruct H|].
  destruct (bytes_eqb k' k) eqn:E; cbn [map fst]; [reflexivity|]. rewrite IH; [reflexivity|].
  destruct H as [H|H]; [subst; rewrite bytes_eqb_refl in E; discriminate | exact H].
Qed.

Lemma remove_nth_middle {A} (p : list A) x f : remove_nth (length p) (p ++ x :: f) = p ++ f.
Proof. induction p as [|y p IH]; cbn; [reflexivity|]. rewrite IH. reflexivity. Qed.

Lemma clean_inner_ok now key : forall p items f,
  In key (map fst items) -> sget items key = p ++ f ->
  py_for (cl_inner now key) (rev (py_enumerate_from 0 p)) items
  = Ok (sset items key (filter (fun v => negb (expired now v)) p ++ f)).
Proof.
  induction p as [|x p IH] using rev_ind; intros items f Hin Hs.
  - cbn [app] in Hs. cbn [py_enumerate_from rev py_for filter app]. rewrite <- Hs.
    rewrite sset_same_present by exact Hin. reflexivity.
  - rewrite enumerate_from_app, rev_app_distr. cbn [py_enumerate_from rev app py_for].
    unfold cl_inner at 1. cbv zeta. rewrite g_value_expired_ok.
    rewrite filter_app. cbn [filter]. rewrite Z.add_0_l.
    destruct (expired now x) eqn:Ex; cbn [negb bind].
    + rewrite dget_sget, Hs, <- app_assoc. cbn [app].
      rewrite py_pop_at_nat by (rewrite app_length; cbn; lia). cbn [bind].
      rewrite remove_nth_middle, dset_sset.
      rewrite IH with (f := f).
      * rewrite sset_sset, app_nil_r. reflexivity.
      * rewrite sset_keys_present by exact Hin. exact Hin.
      * apply sget_sset_same.
    + rewrite IH with (f := x :: f).
      * rewrite <- app_assoc. reflexivity.
      * exact Hin.
      * rewrite Hs, <- app_assoc. reflexivity.
Qed.

Lemma sget_app_fresh done k l t : ~ In k (map fst done) -> sget (done ++ (k, l) :: t) k = l.
Proof.
  induction done as [|[k' l'] d IH]; cbn [app map fst sget]; intros H; [rewrite bytes_eqb_refl; reflexivity|].
  destruct (bytes_eqb k' k) eqn:E; [apply bytes_eqb_eq in E; subst; exfalso; apply H; left; reflexivity|].
  apply IH. intro F. apply H. right. exact F.
Qed.

Lemma sset_app_fresh done k l t l' : ~ In k (map fst done) -> sset (done ++ (k, l) :: t) k l' = done ++ (k, l') :: t.
Proof.
  induction done as [|[k0 l0] d IH]; cbn [app map fst sset]; intros H; [rewrite bytes_eqb_refl; reflexivity|].
  destruct (bytes_eqb k0 k) eqn:E; [apply bytes_eqb_eq in E; subst; exfalso; apply H; left; reflexivity|].
  rewrite IH; [reflexivity|]. intro F. apply H. right. exact F.
Qed.

Lemma clean_outer_ok now : forall todo done,
  NoDup (map fst (done ++ todo)) ->
  py_for (cl_outer now) (map fst todo) (done ++ todo) = Ok (done ++ clean now todo).
Proof.
  induction todo as [|[k l] t IH]; intros done Hnd; [reflexivity|].
  cbn [map fst py_for]. unfold cl_outer at 1. cbv zeta.
  assert (Hfresh : ~ In k (map fst done)).
  { rewrite map_app in Hnd. cbn [map fst] in Hnd. apply NoDup_remove_2 in Hnd. intro F. apply Hnd. apply in_or_app. left. exact F. }
  rewrite dget_sget, sget_app_fresh by exact Hfresh.
  unfold py_enumerate. rewrite (clean_inner_ok now k l (done ++ (k, l) :: t) []).
  - cbn [bind]. rewrite app_nil_r, sset_app_fresh by exact Hfresh.
    replace (done ++ (k, filter (fun v => negb (expired now v)) l) :: t)
      with ((done ++ [(k, filter (fun v => negb (expired now v)) l)]) ++ t) by (rewrite <- app_assoc; reflexivity).
    rewrite IH.
    + rewrite <- app_assoc. reflexivity.
    + rewrite <- app_assoc. cbn [app]. rewrite map_app in *. cbn [map fst] in *. exact Hnd.
  - rewrite map_app. cbn [map fst]. apply in_or_app. right. left. reflexivity.
  - rewrite sget_app_fresh by exact Hfresh. rewrite app_nil_r. reflexivity.
Qed.

Lemma g_clean_ok now s : NoDup (map fst s) -> g_clean now s = Ok (clean now s).
Proof.
  intros H. rewrite g_clean_unfold. unfold py_dkeys.
  pose proof (clean_outer_ok now s [] H) as E. cbn [app] in E. rewrite E. reflexivity.
Qed.
