(* Byte strings as lists of Z, with Python's indexing and slicing semantics. *)
From Coq Require Import ZArith List Bool Lia.
From IPV8V Require Import lib.PyErr.
Import ListNotations.
Open Scope Z_scope.

Definition bytes := list Z.

Definition is_byte (b : Z) : bool := (0 <=? b) && (b <? 256).
Definition bytes_okb (l : bytes) : bool := forallb is_byte l.
Definition bytes_ok (l : bytes) : Prop := Forall (fun b => 0 <= b < 256) l.

Definition blen (l : bytes) : Z := Z.of_nat (length l).

Fixpoint bytes_eqb (a b : bytes) : bool :=
  match a, b with
  | [], [] => true
  | x :: a', y :: b' => (x =? y) && bytes_eqb a' b'
  | _, _ => false
  end.

Lemma bytes_eqb_eq a b : bytes_eqb a b = true <-> a = b.
Proof.
  revert b; induction a as [|x a IH]; intros [|y b]; simpl; split; intro H;
    try reflexivity; try discriminate.
  - apply andb_true_iff in H as [H1 H2]. apply Z.eqb_eq in H1. apply IH in H2. congruence.
  - inversion H; subst. rewrite Z.eqb_refl. simpl. apply IH. reflexivity.
Qed.

Lemma bytes_eqb_refl a : bytes_eqb a a = true.
Proof. apply bytes_eqb_eq; reflexivity. Qed.

(* Python index normalisation for slices: None -> default, negative -> +len, clamp to [0,len] *)
Definition clamp (len i : Z) : Z :=
  let j := if i <? 0 then i + len else i in
  if j <? 0 then 0 else if len <? j then len else j.

(* data[lo:hi]; None bounds are given as option *)
Definition slice (l : bytes) (lo hi : option Z) : bytes :=
  let n := blen l in
  let a := match lo with None => 0 | Some i => clamp n i end in
  let b := match hi with None => n | Some i => clamp n i end in
  firstn (Z.to_nat (b - a)) (skipn (Z.to_nat a) l).

(* data[i] : IndexError when out of range, negative indices count from the end *)
Definition idx (l : bytes) (i : Z) : res Z :=
  let n := blen l in
  let j := if i <? 0 then i + n else i in
  if (j <? 0) || (n <=? j) then Raise IndexError
  else match nth_error l (Z.to_nat j) with Some b => Ok b | None => Raise IndexError end.

Lemma blen_nonneg l : 0 <= blen l.
Proof. unfold blen; lia. Qed.

Lemma blen_app a b : blen (a ++ b) = blen a + blen b.
Proof. unfold blen; rewrite app_length; lia. Qed.

Lemma blen_cons x a : blen (x :: a) = 1 + blen a.
Proof. unfold blen; simpl length; lia. Qed.

Lemma slice_prefix l k : 0 <= k -> slice l None (Some k) = firstn (Z.to_nat k) l.
Proof.
  intros Hk. unfold slice, clamp. simpl skipn.
  destruct (k <? 0) eqn:E1; [lia|]. rewrite E1.
  destruct (blen l <? k) eqn:E2.
  - rewrite Z.sub_0_r. unfold blen in *. rewrite Nat2Z.id.
    rewrite firstn_all. rewrite firstn_all2; [reflexivity|]. lia.
  - rewrite Z.sub_0_r. reflexivity.
Qed.
