(* Python partiality made explicit: a computation either returns or raises. *)
From Coq Require Import ZArith List Bool.
Import ListNotations.

Inductive exn : Type :=
| IndexError | StructError | KeyError | ValueError | TypeError | UnicodeError
| PackError | OSError | CryptoError | DecodingError | AssertionError | OutOfFuel
| RuntimeError | ZeroDivisionError.

Definition exn_eqb (a b : exn) : bool :=
  match a, b with
  | IndexError, IndexError | StructError, StructError | KeyError, KeyError
  | ValueError, ValueError | TypeError, TypeError | UnicodeError, UnicodeError
  | PackError, PackError | OSError, OSError | CryptoError, CryptoError
  | DecodingError, DecodingError | AssertionError, AssertionError
  | OutOfFuel, OutOfFuel | RuntimeError, RuntimeError
  | ZeroDivisionError, ZeroDivisionError => true
  | _, _ => false
  end.

Lemma exn_eqb_eq a b : exn_eqb a b = true <-> a = b.
Proof. destruct a, b; simpl; split; intro H; try reflexivity; try discriminate. Qed.

Inductive res (A : Type) : Type :=
| Ok (a : A)
| Raise (e : exn).
Arguments Ok {A} a.
Arguments Raise {A} e.

Definition bind {A B} (m : res A) (f : A -> res B) : res B :=
  match m with Ok a => f a | Raise e => Raise e end.
Definition ret {A} (a : A) : res A := Ok a.

Declare Scope res_scope.
Delimit Scope res_scope with res.
Notation "'do' x <- m ; f" := (bind m (fun x => f))
  (at level 200, x pattern, m at level 100, f at level 200) : res_scope.
Open Scope res_scope.

Definition is_ok {A} (m : res A) : bool := match m with Ok _ => true | Raise _ => false end.

Definition res_eqb {A} (eqb : A -> A -> bool) (x y : res A) : bool :=
  match x, y with
  | Ok a, Ok b => eqb a b
  | Raise e, Raise f => exn_eqb e f
  | _, _ => false
  end.

(* Python's `a or b` / `a and b` on booleans, short-circuit, in the monad. *)
Definition por (a : res bool) (b : res bool) : res bool :=
  bind a (fun x => if x then Ok true else b).
Definition pand (a : res bool) (b : res bool) : res bool :=
  bind a (fun x => if x then b else Ok false).
Definition pnot (a : res bool) : res bool := bind a (fun x => Ok (negb x)).

Lemma bind_ok {A B} (m : res A) (f : A -> res B) b :
  bind m f = Ok b -> exists a, m = Ok a /\ f a = Ok b.
Proof. destruct m; simpl; intros H; [eauto | discriminate]. Qed.

(* try: ... except <any Exception>: handler *)
Definition try_catch {A} (m : res A) (h : exn -> res A) : res A :=
  match m with Ok a => Ok a | Raise e => h e end.

(* harness plumbing: indices (0-based) of cases whose model result differs from the
   implementation's recorded result *)
Fixpoint mismatches_from {C R} (run : C -> R) (eqb : R -> R -> bool)
         (i : nat) (cs : list (C * R)) : list nat :=
  match cs with
  | [] => []
  | (c, r) :: tl =>
      if eqb (run c) r then mismatches_from run eqb (S i) tl
      else i :: mismatches_from run eqb (S i) tl
  end.
Definition mismatches {C R} (run : C -> R) (eqb : R -> R -> bool) (cs : list (C * R)) : list nat :=
  mismatches_from run eqb 0 cs.
