(* Big-endian integer coding and struct.unpack_from / struct.pack for unsigned fields. *)
From Coq Require Import ZArith List Bool Lia.
From IPV8V Require Import lib.PyErr lib.Bytes.
Import ListNotations.
Open Scope Z_scope.

Fixpoint be_decode_acc (acc : Z) (l : bytes) : Z :=
  match l with [] => acc | b :: tl => be_decode_acc (acc * 256 + b) tl end.
Definition be_decode (l : bytes) : Z := be_decode_acc 0 l.

(* w bytes, most significant first *)
Fixpoint be_encode (w : nat) (v : Z) : bytes :=
  match w with
  | O => []
  | S w' => be_encode w' (v / 256) ++ [v mod 256]
  end.

Lemma be_encode_length w v : length (be_encode w v) = w.
Proof. revert v; induction w as [|w IH]; intros v; simpl; [reflexivity|].
  rewrite app_length, IH; simpl; lia. Qed.

Lemma be_decode_acc_app acc a b :
  be_decode_acc acc (a ++ b) = be_decode_acc (be_decode_acc acc a) b.
Proof. revert acc; induction a as [|x a IH]; intros acc; simpl; [reflexivity|]. apply IH. Qed.

Lemma be_decode_acc_encode w : forall v acc, 0 <= v < 256 ^ (Z.of_nat w) ->
  be_decode_acc acc (be_encode w v) = acc * 256 ^ (Z.of_nat w) + v.
Proof.
  induction w as [|w IH]; intros v acc Hv.
  - simpl in *. lia.
  - cbn [be_encode]. rewrite be_decode_acc_app. cbn [be_decode_acc].
    rewrite Nat2Z.inj_succ, Z.pow_succ_r in * by lia.
    rewrite IH.
    + pose proof (Z.div_mod v 256 ltac:(lia)). lia.
    + split; [apply Z.div_pos; lia|]. apply Z.div_lt_upper_bound; lia.
Qed.

Lemma be_decode_encode w v : 0 <= v < 256 ^ (Z.of_nat w) -> be_decode (be_encode w v) = v.
Proof. intros H. unfold be_decode. rewrite be_decode_acc_encode by assumption. lia. Qed.

Lemma be_encode_bytes_ok w : forall v, bytes_ok (be_encode w v).
Proof.
  induction w as [|w IH]; intros v; simpl; [constructor|].
  apply Forall_app; split; [apply IH|]. constructor; [|constructor].
  apply Z.mod_pos_bound; lia.
Qed.

(* struct.unpack_from("!<w-byte unsigned>", data, off)[0] *)
Definition unpack_u (w : nat) (data : bytes) (off : Z) : res Z :=
  if (off <? 0) || (blen data <? off + Z.of_nat w) then Raise StructError
  else Ok (be_decode (firstn w (skipn (Z.to_nat off) data))).

(* signed reading of a w-byte big-endian field *)
Definition to_signed (w : nat) (v : Z) : Z :=
  if v <? 256 ^ (Z.of_nat w) / 2 then v else v - 256 ^ (Z.of_nat w).
Definition of_signed (w : nat) (v : Z) : Z :=
  if v <? 0 then v + 256 ^ (Z.of_nat w) else v.

Lemma to_of_signed w v : (0 < w)%nat ->
  - (256 ^ Z.of_nat w / 2) <= v < 256 ^ Z.of_nat w / 2 -> to_signed w (of_signed w v) = v.
Proof.
  intros Hw Hv. unfold to_signed, of_signed.
  assert (Hp : 256 ^ Z.of_nat w = 2 * (256 ^ Z.of_nat w / 2)).
  { destruct w as [|w]; [lia|]. rewrite Nat2Z.inj_succ, Z.pow_succ_r by lia.
    replace (256 * 256 ^ Z.of_nat w) with ((128 * 256 ^ Z.of_nat w) * 2) by lia.
    rewrite Z.div_mul by lia. lia. }
  destruct (v <? 0) eqn:E1.
  - destruct (v + 256 ^ Z.of_nat w <? 256 ^ Z.of_nat w / 2) eqn:E2; lia.
  - destruct (v <? 256 ^ Z.of_nat w / 2) eqn:E2; lia.
Qed.
