"""Fail-closed translator: a small subset of Python (AST) -> Gallina in the error monad of lib/PyErr.v.

Supported: integer/boolean/bytes expressions, comparisons (chains), and/or/not, len, slices with
constant or integer bounds, indexing, struct.unpack_from with a literal big-endian unsigned format,
shifts/masks/arithmetic, `x in <list literal>`, calls to other translated functions, if/return,
(tuple) assignment, try/except <ExceptionClass>: pass.  Anything else raises Unsupported, which the
checks treat like a broken proof obligation.

Expressions translate to (term, type, pure):  pure terms have Gallina type T, impure ones `res T`.
Types: 'Z', 'bool', 'bytes', 'zlist' (list of ints), 'blist' (list of bytes).
"""
from __future__ import annotations

import ast


class Unsupported(Exception):
    pass


def fail(node, why=""):
    raise Unsupported("unsupported python construct at line %s: %s %s" % (
        getattr(node, "lineno", "?"), ast.dump(node)[:200], why))


STRUCT_WIDTH = {"B": 1, "H": 2, "I": 4, "L": 4, "Q": 8}
EXN = {"TypeError": "TypeError", "IndexError": "IndexError", "ValueError": "ValueError",
       "KeyError": "KeyError", "struct.error": "StructError", "error": "StructError"}


def zlit(n: int) -> str:
    return "%d" % n if n >= 0 else "(%d)" % n


def bytes_lit(b: bytes) -> str:
    return "[" + "; ".join(str(x) for x in b) + "]"


class Tr:
    """Translate one function. `env` maps names to types, `subst` maps ast.unparse()d
    sub-expressions to (term, type) of parameters, `funs` maps callable names to
    (coq_name, [argtypes], rettype), `consts` maps constant names to int values."""

    def __init__(self, env, subst=None, funs=None, consts=None):
        self.env = dict(env)
        self.subst = subst or {}
        self.funs = funs or {}
        self.consts = consts or {}
        self.fresh = 0

    # ---- helpers -------------------------------------------------------------------------
    def tmp(self):
        self.fresh += 1
        return "t%d_" % self.fresh

    def bind_all(self, parts, build):
        """parts: list of (term,type,pure); build(names)->(term,type,pure) using pure names."""
        names = []
        binds = []
        for (t, ty, pure) in parts:
            if pure:
                names.append(t)
            else:
                n = self.tmp()
                names.append(n)
                binds.append((n, t))
        term, ty, pure = build(names)
        if not binds:
            return term, ty, pure
        inner = term if not pure else "Ok (%s)" % term
        for n, t in reversed(binds):
            inner = "(bind %s (fun %s => %s))" % (t, n, inner)
        return inner, ty, False

    @staticmethod
    def lift(e):
        t, ty, pure = e
        return t if not pure else "(Ok (%s))" % t

    # ---- expressions ---------------------------------------------------------------------
    def expr(self, n):
        key = ast.unparse(n)
        if key in self.subst:
            t, ty = self.subst[key]
            return t, ty, True
        m = getattr(self, "e_" + type(n).__name__, None)
        if m is None:
            fail(n)
        return m(n)

    def e_Constant(self, n):
        v = n.value
        if isinstance(v, bool):
            return ("true" if v else "false"), "bool", True
        if isinstance(v, int):
            return zlit(v), "Z", True
        if isinstance(v, bytes):
            return bytes_lit(v), "bytes", True
        fail(n)

    def e_Name(self, n):
        if n.id in self.env:
            return n.id, self.env[n.id], True
        if n.id in self.consts:
            return zlit(self.consts[n.id]), "Z", True
        fail(n, "unknown name")

    def e_List(self, n):
        parts = [self.expr(e) for e in n.elts]
        tys = {p[1] for p in parts}
        if len(tys) != 1 or not all(p[2] for p in parts):
            fail(n)
        ety = tys.pop()
        lty = {"Z": "zlist", "bytes": "blist"}.get(ety) or fail(n)
        return "[" + "; ".join(p[0] for p in parts) + "]", lty, True

    def e_UnaryOp(self, n):
        if isinstance(n.op, ast.Not):
            e = self.expr(n.operand)
            if e[1] != "bool":
                fail(n)
            return self.bind_all([e], lambda v: ("(negb %s)" % v[0], "bool", True))
        if isinstance(n.op, ast.USub):
            e = self.expr(n.operand)
            if e[1] != "Z":
                fail(n)
            return self.bind_all([e], lambda v: ("(- %s)" % v[0], "Z", True))
        fail(n)

    def e_BoolOp(self, n):
        parts = [self.expr(v) for v in n.values]
        if any(p[1] != "bool" for p in parts):
            fail(n, "non-boolean operand of and/or")
        is_or = isinstance(n.op, ast.Or)
        if all(p[2] for p in parts):
            op = " || " if is_or else " && "
            return "(" + op.join(p[0] for p in parts) + ")", "bool", True
        f = "por" if is_or else "pand"
        acc = self.lift(parts[-1])
        for p in reversed(parts[:-1]):
            acc = "(%s %s %s)" % (f, self.lift(p), acc)
        return acc, "bool", False

    ZBIN = {ast.Add: "Z.add", ast.Sub: "Z.sub", ast.Mult: "Z.mul", ast.RShift: "Z.shiftr",
            ast.LShift: "Z.shiftl", ast.BitAnd: "Z.land", ast.BitOr: "Z.lor", ast.BitXor: "Z.lxor"}

    def e_BinOp(self, n):
        a, b = self.expr(n.left), self.expr(n.right)
        if a[1] == "Z" and b[1] == "Z":
            if type(n.op) in self.ZBIN:
                f = self.ZBIN[type(n.op)]
                return self.bind_all([a, b], lambda v: ("(%s %s %s)" % (f, v[0], v[1]), "Z", True))
            if isinstance(n.op, (ast.FloorDiv, ast.Mod)):
                f = "Z.div" if isinstance(n.op, ast.FloorDiv) else "Z.modulo"
                return self.bind_all([a, b], lambda v: (
                    "(if %s =? 0 then Raise ZeroDivisionError else Ok (%s %s %s))" % (v[1], f, v[0], v[1]),
                    "Z", False))
            if isinstance(n.op, ast.Pow):
                return self.bind_all([a, b], lambda v: ("(Z.pow %s %s)" % (v[0], v[1]), "Z", True))
        if a[1] == "bytes" and b[1] == "bytes" and isinstance(n.op, ast.Add):
            return self.bind_all([a, b], lambda v: ("(%s ++ %s)" % (v[0], v[1]), "bytes", True))
        fail(n)

    ZCMP = {ast.Lt: "<?", ast.LtE: "<=?", ast.Eq: "=?", ast.Gt: ">?", ast.GtE: ">=?"}

    def cmp1(self, op, a, b, node):
        """a, b are pure names with types."""
        (ta, tya), (tb, tyb) = a, b
        if tya == "Z" and tyb == "Z":
            if type(op) in self.ZCMP:
                return "(%s %s %s)" % (ta, self.ZCMP[type(op)], tb)
            if isinstance(op, ast.NotEq):
                return "(negb (%s =? %s))" % (ta, tb)
        if tya == "bytes" and tyb == "bytes":
            if isinstance(op, ast.Eq):
                return "(bytes_eqb %s %s)" % (ta, tb)
            if isinstance(op, ast.NotEq):
                return "(negb (bytes_eqb %s %s))" % (ta, tb)
        if tya == "bool" and tyb == "bool" and isinstance(op, ast.Eq):
            return "(Bool.eqb %s %s)" % (ta, tb)
        if isinstance(op, (ast.In, ast.NotIn)):
            if tya == "Z" and tyb == "zlist":
                t = "(existsb (Z.eqb %s) %s)" % (ta, tb)
            elif tya == "bytes" and tyb == "blist":
                t = "(existsb (bytes_eqb %s) %s)" % (ta, tb)
            else:
                fail(node)
            return t if isinstance(op, ast.In) else "(negb %s)" % t
        fail(node, "comparison %s %s" % (tya, tyb))

    def e_Compare(self, n):
        operands = [self.expr(n.left)] + [self.expr(c) for c in n.comparators]
        # Python short-circuits chains; binding everything first is only equivalent when no
        # operand after the second can raise
        if any(not p[2] for p in operands[2:]):
            fail(n, "impure operand late in comparison chain")

        def build(v):
            terms = []
            for i, op in enumerate(n.ops):
                terms.append(self.cmp1(op, (v[i], operands[i][1]), (v[i + 1], operands[i + 1][1]), n))
            return ("(" + " && ".join(terms) + ")" if len(terms) > 1 else terms[0]), "bool", True
        return self.bind_all(operands, build)

    def e_Subscript(self, n):
        base = self.expr(n.value)
        if isinstance(n.slice, ast.Slice):
            if base[1] != "bytes" or n.slice.step is not None:
                fail(n)
            bounds = []
            for b in (n.slice.lower, n.slice.upper):
                bounds.append(None if b is None else self.expr(b))
            parts = [base] + [b for b in bounds if b is not None]
            if any(b is not None and b[1] != "Z" for b in bounds):
                fail(n)

            def build(v):
                it = iter(v[1:])
                lo = "None" if bounds[0] is None else "(Some %s)" % next(it)
                hi = "None" if bounds[1] is None else "(Some %s)" % next(it)
                return "(slice %s %s %s)" % (v[0], lo, hi), "bytes", True
            return self.bind_all(parts, build)
        i = self.expr(n.slice)
        if base[1] == "bytes" and i[1] == "Z":
            return self.bind_all([base, i], lambda v: ("(idx %s %s)" % (v[0], v[1]), "Z", False))
        if base[1] == "unpacked1":
            if not (isinstance(n.slice, ast.Constant) and n.slice.value == 0):
                fail(n)
            return base[0], "Z", base[2]
        fail(n)

    def unpack_from(self, n):
        """unpack_from("<fmt>", data[, off]) -> list of (term) impure Z computations."""
        args = n.args
        if len(args) not in (2, 3) or not isinstance(args[0], ast.Constant) or not isinstance(args[0].value, str):
            fail(n)
        fmt = args[0].value
        if not fmt or fmt[0] not in "!>":
            fail(n, "only big-endian formats")
        data = self.expr(args[1])
        off = self.expr(args[2]) if len(args) == 3 else ("0", "Z", True)
        if data[1] != "bytes" or off[1] != "Z" or not data[2] or not off[2]:
            fail(n)
        fields = []
        pos = 0
        for ch in fmt[1:]:
            if ch not in STRUCT_WIDTH:
                fail(n, "format char %r" % ch)
            w = STRUCT_WIDTH[ch]
            fields.append("(unpack_u %d %s (%s + %d))" % (w, data[0], off[0], pos))
            pos += w
        return fields, pos, data[0], off[0]

    def e_Call(self, n):
        fname = ast.unparse(n.func)
        if fname == "len" and len(n.args) == 1:
            a = self.expr(n.args[0])
            if a[1] != "bytes":
                fail(n)
            return self.bind_all([a], lambda v: ("(blen %s)" % v[0], "Z", True))
        if fname == "bool" and len(n.args) == 1:
            a = self.expr(n.args[0])
            if a[1] != "bool":
                fail(n)
            return a
        if fname in ("unpack_from", "struct.unpack_from"):
            fields, total, d, o = self.unpack_from(n)
            if len(fields) == 1:
                return fields[0], "unpacked1", False
            fail(n, "multi-field unpack_from only in tuple assignment")
        if fname in self.funs:
            cname, argtys, rty = self.funs[fname]
            args = [self.expr(a) for a in n.args]
            if [a[1] for a in args] != list(argtys):
                fail(n, "argument types")
            return self.bind_all(args, lambda v: ("(%s %s)" % (cname, " ".join(v)), rty, False))
        fail(n, "call")

    # ---- statements ----------------------------------------------------------------------
    # stmts(body, rty, ret, k): term for executing `body` then continuing with term `k`;
    # ret(e) builds the term for `return e`.
    def stmts(self, body, rty, ret, k):
        if not body:
            return k
        s, rest = body[0], body[1:]
        if isinstance(s, ast.Expr) and isinstance(s.value, ast.Constant) and isinstance(s.value.value, str):
            return self.stmts(rest, rty, ret, k)  # docstring
        if isinstance(s, ast.Pass):
            return self.stmts(rest, rty, ret, k)
        if isinstance(s, ast.Expr) and isinstance(s.value, ast.Call) and \
                ast.unparse(s.value.func).startswith("self.logger.") and \
                all(isinstance(a, (ast.Constant, ast.Name, ast.Attribute)) for a in s.value.args):
            return self.stmts(rest, rty, ret, k)  # logging with plain arguments: no effect on the result
        if isinstance(s, ast.Return):
            if s.value is None:
                fail(s)
            e = self.expr(s.value)
            if e[1] != rty:
                fail(s, "return type %s, expected %s" % (e[1], rty))
            return ret(e)
        if isinstance(s, ast.If):
            c = self.expr(s.test)
            if c[1] != "bool":
                fail(s, "non-boolean condition")
            saved = dict(self.env)
            k2 = self.stmts(rest, rty, ret, k)
            self.env = dict(saved)
            th = self.stmts(s.body, rty, ret, k2)
            self.env = dict(saved)
            el = self.stmts(s.orelse, rty, ret, k2)
            self.env = saved  # names bound only inside a branch are not visible afterwards (fail closed)
            if c[2]:
                return "(if %s then %s else %s)" % (c[0], th, el)
            return "(bind %s (fun c_ => if c_ then %s else %s))" % (c[0], th, el)
        if isinstance(s, ast.Assign) and len(s.targets) == 1:
            tgt = s.targets[0]
            if isinstance(tgt, ast.Tuple) and isinstance(s.value, ast.Call) and \
                    ast.unparse(s.value.func) in ("unpack_from", "struct.unpack_from"):
                fields, total, d, o = self.unpack_from(s.value)
                if len(fields) != len(tgt.elts) or not all(isinstance(e, ast.Name) for e in tgt.elts):
                    fail(s)
                for e in tgt.elts:
                    self.env[e.id] = "Z"
                t = self.stmts(rest, rty, ret, k)
                # struct checks the whole size first; same exception class either way
                for e, f in reversed(list(zip(tgt.elts, fields))):
                    t = "(bind %s (fun %s => %s))" % (f, e.id, t)
                return t
            if isinstance(tgt, ast.Name):
                e = self.expr(s.value)
                if e[1] == "unpacked1":
                    fail(s)
                self.env[tgt.id] = e[1]
                t = self.stmts(rest, rty, ret, k)
                if e[2]:
                    return "(let %s := %s in %s)" % (tgt.id, e[0], t)
                return "(bind %s (fun %s => %s))" % (e[0], tgt.id, t)
            fail(s)
        if isinstance(s, ast.Try):
            if s.orelse or s.finalbody or len(s.handlers) != 1:
                fail(s)
            h = s.handlers[0]
            hname = ast.unparse(h.type) if h.type is not None else None
            if hname not in EXN or h.name is not None:
                fail(s, "handler")
            saved = dict(self.env)
            oret = lambda e: ("(Ok (Some %s))" % e[0]) if e[2] else "(bind %s (fun r_ => Ok (Some r_)))" % e[0]
            b = self.stmts(s.body, rty, oret, "(Ok None)")
            self.env = dict(saved)
            hb = self.stmts(h.body, rty, oret, "(Ok None)")
            self.env = saved
            k2 = self.stmts(rest, rty, ret, k)
            t = "(try_catch %s (fun e_ => if exn_eqb e_ %s then %s else Raise e_))" % (b, EXN[hname], hb)
            return "(bind %s (fun o_ => match o_ with Some v_ => %s | None => %s end))" % (
                t, ret(("v_", rty, True)), k2)
        fail(s)


def simplify(term: str) -> str:
    return term


def translate_function(fn: ast.FunctionDef, coq_name, params, rty, subst=None, funs=None, consts=None,
                       extra_params=()):
    """params: list of (python_name, type) in Coq argument order for python parameters
    (python parameters not listed - e.g. self - must not be used except through subst).
    extra_params: list of (coq_name, type) that the substitution table refers to.
    Returns Gallina text `Definition coq_name ... : res rty := ...`."""
    coqty = {"Z": "Z", "bool": "bool", "bytes": "bytes", "zlist": "list Z", "blist": "list bytes"}
    tr = Tr(dict(params), subst, funs, consts)
    # falling off the end returns None in Python: not a value of the declared type
    body = tr.stmts(fn.body, rty, Tr.lift, "(Raise TypeError)")
    binders = " ".join("(%s : %s)" % (n, coqty[t]) for n, t in list(extra_params) + list(params))
    return "Definition %s %s : res %s :=\n  %s.\n" % (coq_name, binders, coqty[rty], body)


def find_function(tree: ast.Module, cls: str | None, name: str) -> ast.FunctionDef:
    scope = tree.body
    if cls is not None:
        for n in tree.body:
            if isinstance(n, ast.ClassDef) and n.name == cls:
                scope = n.body
                break
        else:
            raise Unsupported("class %s not found" % cls)
    for n in scope:
        if isinstance(n, (ast.FunctionDef, ast.AsyncFunctionDef)) and n.name == name:
            return n
    raise Unsupported("function %s.%s not found" % (cls, name))
