"""Regenerate coq/gen/G15_consts.v from ipv8/dht/community.py and ipv8/dht/storage.py.

Only data is read: module-level integer constants, the bound of the token-secret deque, the intervals of
the maintenance tasks, the default lifetime of Storage.put.  Fail-closed: anything not found in exactly the
expected shape aborts generation (tr_expr.Unsupported)."""
from __future__ import annotations

import ast
import os

from .tr_expr import Unsupported

COMMUNITY = "ipv8/dht/community.py"
STORAGE = "ipv8/dht/storage.py"
DEST = os.path.join(os.path.dirname(os.path.dirname(os.path.dirname(os.path.abspath(__file__)))),
                    "coq", "gen", "G15_consts.v")

MODULE_CONSTS = ("TOKEN_EXPIRATION_TIME", "DHT_ENTRY_STR", "DHT_ENTRY_STR_SIGNED", "MAX_ENTRY_SIZE", "MAX_ENTRY_AGE",
                 "MAX_VALUES_IN_STORE", "MAX_VALUES_IN_FIND", "TARGET_NODES")


def _int(node, what):
    if isinstance(node, ast.Constant) and isinstance(node.value, int) and not isinstance(node.value, bool):
        return node.value
    raise Unsupported("%s is not an integer literal: %s" % (what, ast.dump(node)[:120]))


def _class(tree, name):
    for n in tree.body:
        if isinstance(n, ast.ClassDef) and n.name == name:
            return n
    raise Unsupported("class %s not found" % name)


def _method(cls, name):
    for n in cls.body:
        if isinstance(n, (ast.FunctionDef, ast.AsyncFunctionDef)) and n.name == name:
            return n
    raise Unsupported("method %s.%s not found" % (cls.name, name))


def read(repo=None):
    repo = repo or os.environ.get("VERIF_REPO", "/repo")
    tree = ast.parse(open(os.path.join(repo, COMMUNITY)).read())
    consts = {}
    for n in tree.body:
        if isinstance(n, ast.Assign) and len(n.targets) == 1 and isinstance(n.targets[0], ast.Name) \
                and n.targets[0].id in MODULE_CONSTS:
            if n.targets[0].id in consts:
                raise Unsupported("constant %s assigned twice" % n.targets[0].id)
            consts[n.targets[0].id] = _int(n.value, n.targets[0].id)
    for k in MODULE_CONSTS:
        if k not in consts:
            raise Unsupported("constant %s not found in %s" % (k, COMMUNITY))
    init = _method(_class(tree, "DHTCommunity"), "__init__")
    maxlen, intervals = [], {}
    for n in ast.walk(init):
        if isinstance(n, (ast.Assign, ast.AnnAssign)):
            tgt = n.targets[0] if isinstance(n, ast.Assign) else n.target
            if ast.unparse(tgt) == "self.token_secrets":
                v = n.value
                if not (isinstance(v, ast.Call) and ast.unparse(v.func) == "deque" and not v.args
                        and len(v.keywords) == 1 and v.keywords[0].arg == "maxlen"):
                    raise Unsupported("self.token_secrets is not deque(maxlen=<int>): %s" % ast.unparse(v))
                maxlen.append(_int(v.keywords[0].value, "token_secrets maxlen"))
        if isinstance(n, ast.Call) and ast.unparse(n.func) == "self.register_task" and n.args \
                and isinstance(n.args[0], ast.Constant) and n.args[0].value in ("token_maintenance", "value_maintenance"):
            name = n.args[0].value
            if len(n.args) != 2 or ast.unparse(n.args[1]) != "self." + name:
                raise Unsupported("task %s does not run self.%s" % (name, name))
            kws = {k.arg: k.value for k in n.keywords}
            if set(kws) != {"interval"}:
                raise Unsupported("task %s: unexpected scheduling arguments %s" % (name, sorted(kws)))
            if name in intervals:
                raise Unsupported("task %s registered twice" % name)
            intervals[name] = _int(kws["interval"], "interval of " + name)
    if len(maxlen) != 1:
        raise Unsupported("expected exactly one assignment of self.token_secrets, found %d" % len(maxlen))
    for name in ("token_maintenance", "value_maintenance"):
        if name not in intervals:
            raise Unsupported("task %s not registered in DHTCommunity.__init__" % name)
    consts["TOKEN_SECRETS_MAXLEN"] = maxlen[0]
    consts["TOKEN_ROTATION_INTERVAL"] = intervals["token_maintenance"]
    consts["VALUE_MAINTENANCE_INTERVAL"] = intervals["value_maintenance"]
    # Storage.put(self, key, data, id_=None, max_age=86400, version=0)
    st = ast.parse(open(os.path.join(repo, STORAGE)).read())
    put = _method(_class(st, "Storage"), "put")
    names = [a.arg for a in put.args.args]
    if names != ["self", "key", "data", "id_", "max_age", "version"] or len(put.args.defaults) != 3:
        raise Unsupported("unexpected signature of Storage.put: %s" % names)
    if not (isinstance(put.args.defaults[0], ast.Constant) and put.args.defaults[0].value is None):
        raise Unsupported("Storage.put id_ default is not None")
    consts["STORAGE_DEFAULT_MAX_AGE"] = _int(put.args.defaults[1], "Storage.put max_age default")
    consts["STORAGE_DEFAULT_VERSION"] = _int(put.args.defaults[2], "Storage.put version default")
    for k, v in consts.items():
        if v < 0:
            raise Unsupported("constant %s is negative" % k)
    return consts


def generate(repo=None):
    consts = read(repo)
    out = ["(* GENERATED by tools/tr/tr_dht_consts.py from %s and %s - do not edit *)" % (COMMUNITY, STORAGE),
           "From Coq Require Import ZArith.", "Open Scope Z_scope.", ""]
    for k in sorted(consts):
        out.append("Definition %s : Z := %d." % (k, consts[k]))
    return "\n".join(out) + "\n"


def write(repo=None, dest=DEST):
    text = generate(repo)
    old = open(dest).read() if os.path.exists(dest) else None
    if old != text:
        with open(dest, "w") as f:
            f.write(text)
    return text
