"""Regenerate coq/gen/G15_handlers.v: the DHT store path as Gallina definitions compiled from the Python AST.

Source (Python `ast`; nothing is imported or executed):
  ipv8/dht/storage.py    Value.__init__ (field table), age, expired, __eq__ ; Storage.put, get, clean
  ipv8/dht/routing.py    Node.__init__ (query deque bound), Node.blocked
  ipv8/dht/payload.py    StrPayload / SignedStrPayload format lists (the stored-value codec)
  ipv8/dht/community.py  generate_token, check_token, token_maintenance, get_requesting_node, on_store_request,
                         on_find_request, unserialize_value, add_value, post_process_values
  ipv8/dht/discovery.py  on_store_peer_request

Two modes.
 (A) data functions are compiled whole: a typed, shallow translation (tuples -> products, lists -> lists,
     defaultdict(list) -> association lists, `for` -> py_for over the variables the body assigns, try/except ->
     try_catch, list methods -> the vocabulary of coq/model/M15_py.v).  Every operation that can raise in Python
     lives in the error monad `res`.
 (B) message handlers become `gx_<name> <atoms> : list <effect>`: control flow over the decision atoms, the
     statements with an effect as constructors in program order (as tools/tr/tr_exit.py does); conditions and
     effect arguments are compiled by (A).  The meaning of atoms and effects is fixed by coq/model/M15_store_gen.v.

Fail closed: any statement, expression, method, keyword argument, type combination or handler statement that is
not recognised raises tr_expr.Unsupported with the source line.
"""
from __future__ import annotations

import ast
import os

from .tr_expr import Unsupported

STORAGE = "ipv8/dht/storage.py"
ROUTING = "ipv8/dht/routing.py"
PAYLOAD = "ipv8/dht/payload.py"
COMMUNITY = "ipv8/dht/community.py"
DISCOVERY = "ipv8/dht/discovery.py"
DEST = os.path.join(os.path.dirname(os.path.dirname(os.path.dirname(os.path.abspath(__file__)))),
                    "coq", "gen", "G15_handlers.v")


def U(n):
    return ast.unparse(n)


def fail(node, why):
    raise Unsupported("tr_dht_handlers: line %s: %s  [%s]" % (getattr(node, "lineno", "?"), why,
                                                             U(node)[:160] if isinstance(node, ast.AST) else node))


# ---------------------------------------------------------------------------- types
Z, B, BY, VAL = "Z", "bool", "bytes", "value"


def opt(t):
    return ("opt", t)


def lst(t):
    return ("list", t)


def tup(*ts):
    return ("tuple", tuple(ts))


def dct(k, v):
    return ("dict", k, v)


def rec(*fields):
    return ("rec", tuple(fields))


ANY = "?"
STORAGE_T = dct(BY, lst(VAL))


def coqty(t):
    if t in (Z, B, BY, VAL):
        return {Z: "Z", B: "bool", BY: "bytes", VAL: "M15_dht_store.value"}[t]
    if t == "natoff":
        return "nat"
    if t[0] == "opt":
        return "(option %s)" % coqty(t[1])
    if t[0] == "list":
        return "(list %s)" % coqty(t[1])
    if t[0] == "tuple":
        return "(" + " * ".join(coqty(x) for x in t[1]) + ")"
    if t[0] == "rec":
        return "(" + " * ".join(coqty(x[1]) for x in t[1]) + ")"
    if t[0] == "dict":
        return "(list (%s * %s))" % (coqty(t[1]), coqty(t[2]))
    raise Unsupported("no Coq type for %r" % (t,))


def unify(a, b, node):
    """least common type of two branch types (only the unknown parts of None / [] are filled in)"""
    if a == ANY:
        return b
    if b == ANY:
        return a
    if a == b:
        return a
    if isinstance(a, tuple) and isinstance(b, tuple) and a[0] == b[0]:
        if a[0] in ("opt", "list"):
            return (a[0], unify(a[1], b[1], node))
        if a[0] == "tuple" and len(a[1]) == len(b[1]):
            return ("tuple", tuple(unify(x, y, node) for x, y in zip(a[1], b[1])))
        if a[0] == "dict":
            return ("dict", unify(a[1], b[1], node), unify(a[2], b[2], node))
    # T joins with opt T (a value where None is possible on the other branch)
    if isinstance(a, tuple) and a[0] == "opt" and not (isinstance(b, tuple) and b[0] == "opt"):
        return ("opt", unify(a[1], b, node))
    if isinstance(b, tuple) and b[0] == "opt" and not (isinstance(a, tuple) and a[0] == "opt"):
        return ("opt", unify(a, b[1], node))
    fail(node, "types %r and %r do not agree" % (a, b))


def known(t):
    if t == ANY:
        return False
    if isinstance(t, tuple):
        if t[0] in ("opt", "list"):
            return known(t[1])
        if t[0] == "tuple":
            return all(known(x) for x in t[1])
        if t[0] == "dict":
            return known(t[1]) and known(t[2])
    return True


def coerce(term, have, want, node):
    """term of type `have` used where `want` is expected: inject into option where needed"""
    if have == want:
        return term
    if want == ANY:
        return term
    if isinstance(want, tuple) and want[0] == "opt":
        if isinstance(have, tuple) and have[0] == "opt":
            if not known(have):
                return term       # None
            if have[1] == want[1]:
                return term
            fail(node, "cannot use %r as %r" % (have, want))
        return "(Some %s)" % coerce(term, have, want[1], node)
    if isinstance(want, tuple) and want[0] == "list" and isinstance(have, tuple) and have[0] == "list" and not known(have):
        return term               # []
    if isinstance(want, tuple) and want[0] == "tuple" and isinstance(have, tuple) and have[0] == "tuple" \
            and len(want[1]) == len(have[1]) and term.startswith("(") and getattr(node, "elts", None) is not None:
        return term               # element-wise coercion is done where the tuple is built
    fail(node, "cannot use %r as %r" % (have, want))


def eq_fun(t, node, funs):
    """the == of Python on values of type t, as a Gallina function"""
    if t == Z:
        return "Z.eqb"
    if t == BY:
        return "bytes_eqb"
    if t == B:
        return "Bool.eqb"
    if t == VAL:
        if "Value.__eq__" not in funs:
            fail(node, "Value.__eq__ not translated")
        return funs["Value.__eq__"]
    if t == opt(BY):
        return "okey_eq"
    fail(node, "no equality for %r" % (t,))


def lt_fun(t, node):
    if t == Z:
        return "Z.ltb"
    if t == BY:
        return "bytes_ltb"
    fail(node, "no ordering for %r" % (t,))


def truthy(term, t, node):
    if t == B:
        return term
    if t == Z:
        return "(py_truthy_Z %s)" % term
    if t == BY or (isinstance(t, tuple) and t[0] in ("list", "dict")):
        return "(py_truthy_list %s)" % term
    if isinstance(t, tuple) and t[0] == "opt":
        inner = t[1]
        if inner == BY or (isinstance(inner, tuple) and inner[0] == "list"):
            return "(py_truthy_opt py_truthy_list %s)" % term
        if inner == Z:
            return "(py_truthy_opt py_truthy_Z %s)" % term
        if inner == VAL or (isinstance(inner, tuple) and inner[0] in ("tuple", "rec") and len(inner[1]) > 0) or inner == "node":
            return "(py_truthy_opt py_always %s)" % term
    if t == "node" or (isinstance(t, tuple) and t[0] in ("tuple", "rec") and len(t[1]) > 0):
        return "true"
    fail(node, "truthiness of %r" % (t,))


VALUE_FIELDS = {"id": ("v_id", BY), "data": ("v_data", BY), "last_update": ("v_last", Z), "max_age": ("v_maxage", Z),
                "version": ("v_version", Z)}


class Ctx:
    """what a function body may refer to"""

    def __init__(self, consts, funs, subst=None, props=None, methods=None, ctors=None):
        self.consts = consts          # module constant name -> Coq name (type Z)
        self.funs = funs              # "Value.__eq__" -> coq name, ...
        self.subst = subst or {}      # unparse(expr) -> (term, type, pure)
        self.props = props or {}      # (type, attr) -> (coq fun applied as `(f args.. e)`, result type, pure)
        self.methods = methods or {}  # (unparse(func)) -> handler(compiler, call node) -> (term, type, pure)
        self.ctors = ctors or {}      # class name -> handler


class Fn:
    """compiler of one function body (mode A)"""

    def __init__(self, ctx: Ctx, env):
        self.ctx = ctx
        self.env = dict(env)      # python local -> type
        self.fresh = 0

    def tmp(self, base="t"):
        self.fresh += 1
        return "%s%d_" % (base, self.fresh)

    # -- plumbing for impure sub-terms
    def bind_all(self, parts, build):
        names, binds = [], []
        for (t, ty, pure) in parts:
            if pure:
                names.append(t)
            else:
                n = self.tmp()
                names.append(n)
                binds.append((n, t))
        term, ty, pure = build(names)
        if not binds:
            return term, ty, pure
        inner = term if not pure else "(Ok %s)" % term
        for n, t in reversed(binds):
            inner = "(bind %s (fun %s => %s))" % (t, n, inner)
        return inner, ty, False

    @staticmethod
    def lift(e):
        return e[0] if not e[2] else "(Ok %s)" % e[0]

    # -- expressions
    def expr(self, n, want=ANY):
        key = U(n)
        if key in self.ctx.subst:
            return self.ctx.subst[key][:3]
        m = getattr(self, "e_" + type(n).__name__, None)
        if m is None:
            fail(n, "expression not supported")
        return m(n, want) if type(n).__name__ in ("Constant", "List", "Tuple", "IfExp", "ListComp") else m(n)

    def e_Constant(self, n, want=ANY):
        v = n.value
        if v is None:
            return "None", opt(want[1] if isinstance(want, tuple) and want[0] == "opt" else ANY), True
        if isinstance(v, bool):
            return ("true" if v else "false"), B, True
        if isinstance(v, int):
            return ("%d" % v if v >= 0 else "(%d)" % v), Z, True
        if isinstance(v, bytes):
            return "[" + "; ".join(str(x) for x in v) + "]", BY, True
        fail(n, "constant")

    def e_Name(self, n):
        if n.id in self.env:
            return n.id, self.env[n.id], True
        if n.id in self.ctx.consts:
            return self.ctx.consts[n.id], Z, True
        fail(n, "unknown name")

    def e_Attribute(self, n):
        base = self.expr(n.value)
        if base[1] == VAL and n.attr in VALUE_FIELDS:
            f, ty = VALUE_FIELDS[n.attr]
            return self.bind_all([base], lambda v: ("(%s %s)" % (f, v[0]), ty, True))
        if (base[1], n.attr) in self.ctx.props:
            f, ty, pure = self.ctx.props[(base[1], n.attr)]
            return self.bind_all([base], lambda v: ("(%s %s)" % (f, v[0]), ty, pure))
        if isinstance(base[1], tuple) and base[1][0] == "rec":
            names = [x[0] for x in base[1][1]]
            if n.attr in names:
                i = names.index(n.attr)
                return self.bind_all([base], lambda v: (proj(v[0], i, len(names)), base[1][1][i][1], True))
        fail(n, "attribute of %r" % (base[1],))

    def e_Tuple(self, n, want=ANY):
        if isinstance(want, tuple) and want[0] == "opt":
            want = want[1]
        wants = want[1] if isinstance(want, tuple) and want[0] == "tuple" and len(want[1]) == len(n.elts) else [ANY] * len(n.elts)
        parts = [self.expr(e, w) for e, w in zip(n.elts, wants)]

        def build(v):
            terms, tys = [], []
            for name, p, w, e in zip(v, parts, wants, n.elts):
                ty = p[1] if w == ANY or not known(w) else w
                terms.append(coerce(name, p[1], ty, e) if known(ty) else name)
                tys.append(ty)
            return "(" + ", ".join(terms) + ")", tup(*tys), True
        return self.bind_all(parts, build)

    def e_List(self, n, want=ANY):
        ety = want[1] if isinstance(want, tuple) and want[0] == "list" else ANY
        if not n.elts:
            return "[]", lst(ety), True
        segs = []     # (term, is_list, type, pure)
        for e in n.elts:
            if isinstance(e, ast.Starred):
                p = self.expr(e.value, lst(ety))
                if not (isinstance(p[1], tuple) and p[1][0] == "list"):
                    fail(e, "starred non-list")
                segs.append((p, True))
                ety = unify(ety, p[1][1], e)
            else:
                p = self.expr(e, ety)
                segs.append((p, False))
                ety = unify(ety, p[1], e)

        def build(v):
            out = []
            for name, (p, is_list) in zip(v, segs):
                if is_list:
                    out.append(name)
                else:
                    out.append("[%s]" % coerce(name, p[1], ety, n))
            return ("(" + " ++ ".join(out) + ")") if len(out) > 1 else out[0], lst(ety), True
        return self.bind_all([p for p, _ in segs], build)

    def cond(self, n):
        """n in a boolean context (if / while / and / or / not): (term, pure)"""
        if isinstance(n, ast.BoolOp):
            parts = [self.cond(v) for v in n.values]
            is_or = isinstance(n.op, ast.Or)
            if all(p[1] for p in parts):
                return "(" + (" || " if is_or else " && ").join(p[0] for p in parts) + ")", True
            f = "por" if is_or else "pand"
            acc = parts[-1][0] if not parts[-1][1] else "(Ok %s)" % parts[-1][0]
            for p in reversed(parts[:-1]):
                acc = "(%s %s %s)" % (f, p[0] if not p[1] else "(Ok %s)" % p[0], acc)
            return acc, False
        if isinstance(n, ast.UnaryOp) and isinstance(n.op, ast.Not):
            t, pure = self.cond(n.operand)
            return ("(negb %s)" % t, True) if pure else ("(pnot %s)" % t, False)
        e = self.expr(n)
        r = self.bind_all([e], lambda v: (truthy(v[0], e[1], n), B, True))
        return r[0], r[2]

    def e_BoolOp(self, n):
        # value context: only `a or b` with a : bytes | None, b : bytes (Python returns the operand, not a bool)
        if isinstance(n.op, ast.Or) and len(n.values) == 2:
            a, b = self.expr(n.values[0]), self.expr(n.values[1])
            if a[1] in (opt(BY), BY) and b[1] == BY:
                return self.bind_all([a, b], lambda v: (
                    "(py_or_bytes %s %s)" % (v[0] if a[1] == opt(BY) else "(Some %s)" % v[0], v[1]), BY, True))
            if a[1] == B and b[1] == B:
                t, pure = self.cond(n)
                return t, B, pure
            fail(n, "`or` on %r, %r" % (a[1], b[1]))
        t, pure = self.cond(n)
        # all operands must themselves be booleans for the value to be a boolean
        for v in n.values:
            if self.expr(v)[1] != B:
                fail(n, "and/or of non-boolean operands used as a value")
        return t, B, pure

    def e_UnaryOp(self, n):
        if isinstance(n.op, ast.Not):
            t, pure = self.cond(n)
            return t, B, pure
        if isinstance(n.op, ast.USub):
            e = self.expr(n.operand)
            if e[1] != Z:
                fail(n, "negation")
            return self.bind_all([e], lambda v: ("(- %s)" % v[0], Z, True))
        fail(n, "unary operator")

    ZBIN = {ast.Add: "Z.add", ast.Sub: "Z.sub", ast.Mult: "Z.mul"}

    def e_BinOp(self, n):
        a, b = self.expr(n.left), self.expr(n.right)
        if a[1] == Z and b[1] == Z:
            if type(n.op) in self.ZBIN:
                f = self.ZBIN[type(n.op)]
                return self.bind_all([a, b], lambda v: ("(%s %s %s)" % (f, v[0], v[1]), Z, True))
            if isinstance(n.op, ast.FloorDiv):
                return self.bind_all([a, b], lambda v: (
                    "(if %s =? 0 then Raise ZeroDivisionError else Ok (Z.div %s %s))" % (v[1], v[0], v[1]), Z, False))
            if isinstance(n.op, ast.Pow):
                return self.bind_all([a, b], lambda v: ("(Z.pow %s %s)" % (v[0], v[1]), Z, True))
        if a[1] == BY and b[1] == BY and isinstance(n.op, ast.Add):
            return self.bind_all([a, b], lambda v: ("(%s ++ %s)" % (v[0], v[1]), BY, True))
        fail(n, "binary operator on %r, %r" % (a[1], b[1]))

    ZCMP = {ast.Lt: "<?", ast.LtE: "<=?", ast.Eq: "=?", ast.Gt: ">?", ast.GtE: ">=?"}

    def e_Compare(self, n):
        if len(n.ops) != 1:
            fail(n, "comparison chain")
        op = n.ops[0]
        a, b = self.expr(n.left), self.expr(n.comparators[0])
        if isinstance(op, (ast.Is, ast.IsNot)):
            if not (isinstance(n.comparators[0], ast.Constant) and n.comparators[0].value is None):
                fail(n, "`is` other than with None")
            if not (isinstance(a[1], tuple) and a[1][0] == "opt"):
                fail(n, "`is None` on %r" % (a[1],))
            f = "(py_is_none %s)" if isinstance(op, ast.Is) else "(negb (py_is_none %s))"
            return self.bind_all([a], lambda v: (f % v[0], B, True))
        if isinstance(op, (ast.In, ast.NotIn)):
            if isinstance(b[1], tuple) and b[1][0] == "dict":
                t = lambda v: "(py_dhas %s %s %s)" % (eq_fun(b[1][1], n, self.ctx.funs), v[1], coerce(v[0], a[1], b[1][1], n))
            elif isinstance(b[1], tuple) and b[1][0] == "list":
                # x in l  is  any(e == x for e in l)  (identity first, then e.__eq__(x); identical objects are equal here)
                t = lambda v: "(existsb (fun e_ => %s e_ %s) %s)" % (eq_fun(b[1][1], n, self.ctx.funs), v[0], v[1])
            else:
                fail(n, "`in` on %r" % (b[1],))
            return self.bind_all([a, b], lambda v: (t(v) if isinstance(op, ast.In) else "(negb %s)" % t(v), B, True))
        if a[1] == Z and b[1] == Z:
            if type(op) in self.ZCMP:
                return self.bind_all([a, b], lambda v: ("(%s %s %s)" % (v[0], self.ZCMP[type(op)], v[1]), B, True))
            if isinstance(op, ast.NotEq):
                return self.bind_all([a, b], lambda v: ("(negb (%s =? %s))" % (v[0], v[1]), B, True))
        if isinstance(op, (ast.Eq, ast.NotEq)):
            ty = unify(a[1], b[1], n)
            f = eq_fun(ty, n, self.ctx.funs)
            return self.bind_all([a, b], lambda v: (
                ("(%s %s %s)" if isinstance(op, ast.Eq) else "(negb (%s %s %s))") % (
                    f, coerce(v[0], a[1], ty, n), coerce(v[1], b[1], ty, n)), B, True))
        fail(n, "comparison of %r with %r" % (a[1], b[1]))

    def narrowable(self, test):
        """`if x:` with x : T | None  -  inside the true branch x is a T"""
        if isinstance(test, ast.Name) and test.id in self.env and isinstance(self.env[test.id], tuple) \
                and self.env[test.id][0] == "opt" and known(self.env[test.id]):
            return test.id, self.env[test.id][1]
        return None

    def narrowed(self, x, inner, a_term, b_term, node):
        return "(match %s with Some %s_v => if %s then (let %s := %s_v in %s) else %s | None => %s end)" % (
            x, x, truthy("%s_v" % x, inner, node), x, x, a_term, b_term, b_term)

    def e_IfExp(self, n, want=ANY):
        nm = self.narrowable(n.test)
        if nm:
            x, inner = nm
            saved = dict(self.env)
            self.env[x] = inner
            a = self.expr(n.body, want)
            self.env = saved
            b = self.expr(n.orelse, want)
            ty = unify(a[1], b[1], n)
            if want != ANY and known(want) and not known(ty):
                ty = want
            if a[2] and b[2]:
                return self.narrowed(x, inner, coerce(a[0], a[1], ty, n.body), coerce(b[0], b[1], ty, n.orelse), n), ty, True
            if (not a[2] and a[1] != ty) or (not b[2] and b[1] != ty):
                fail(n, "raising branch needs a coercion")
            la = a[0] if not a[2] else "(Ok %s)" % coerce(a[0], a[1], ty, n.body)
            lb = b[0] if not b[2] else "(Ok %s)" % coerce(b[0], b[1], ty, n.orelse)
            return self.narrowed(x, inner, la, lb, n), ty, False
        c, cpure = self.cond(n.test)
        a, b = self.expr(n.body, want), self.expr(n.orelse, want)
        ty = unify(a[1], b[1], n)
        if want != ANY and known(want):
            ty = want if not known(ty) or ty == want else unify(ty, want, n)
        ta = coerce(self.lift(a), a[1], ty, n.body) if a[2] else None
        if a[2] and b[2]:
            term = "(if %s then %s else %s)" % ("%s", coerce(a[0], a[1], ty, n.body), coerce(b[0], b[1], ty, n.orelse))
            if cpure:
                return term % c, ty, True
            return "(bind %s (fun c_ => Ok %s))" % (c, term % "c_"), ty, False
        # a branch may raise: it must only be evaluated when chosen
        la = a[0] if not a[2] else "(Ok %s)" % coerce(a[0], a[1], ty, n.body)
        lb = b[0] if not b[2] else "(Ok %s)" % coerce(b[0], b[1], ty, n.orelse)
        if (not a[2] and a[1] != ty) or (not b[2] and b[1] != ty):
            fail(n, "raising branch needs a coercion")
        if cpure:
            return "(if %s then %s else %s)" % (c, la, lb), ty, False
        return "(bind %s (fun c_ => if c_ then %s else %s))" % (c, la, lb), ty, False

    def e_Subscript(self, n):
        base = self.expr(n.value)
        bt = base[1]
        if isinstance(n.slice, ast.Slice):
            if n.slice.step is not None:
                fail(n, "slice step")
            bounds = [None if b is None else self.expr(b) for b in (n.slice.lower, n.slice.upper)]
            for b in bounds:
                if b is not None and b[1] not in (Z, opt(Z)):
                    fail(n, "slice bound of type %r" % (b[1],))
            parts = [base] + [b for b in bounds if b is not None]
            f = "slice" if bt == BY else "py_lslice" if isinstance(bt, tuple) and bt[0] == "list" else fail(n, "slice of %r" % (bt,))

            def build(v):
                it = iter(v[1:])
                outs = []
                for b in bounds:
                    if b is None:
                        outs.append("None")
                    else:
                        t = next(it)
                        outs.append(t if b[1] == opt(Z) else "(Some %s)" % t)
                return "(%s %s %s %s)" % (f, v[0], outs[0], outs[1]), bt, True
            return self.bind_all(parts, build)
        if isinstance(bt, tuple) and bt[0] in ("tuple", "rec"):
            if not (isinstance(n.slice, ast.Constant) and isinstance(n.slice.value, int) and 0 <= n.slice.value < len(bt[1])):
                fail(n, "tuple index")
            i = n.slice.value
            ety = bt[1][i] if bt[0] == "tuple" else bt[1][i][1]
            return self.bind_all([base], lambda v: (proj(v[0], i, len(bt[1])), ety, True))
        if isinstance(bt, tuple) and bt[0] == "dict":
            k = self.expr(n.slice, bt[1])
            if not (isinstance(bt[2], tuple) and bt[2][0] == "list"):
                fail(n, "dict read with a non-list default")
            return self.bind_all([base, k], lambda v: (
                "(py_dget %s [] %s %s)" % (eq_fun(bt[1], n, self.ctx.funs), v[0], coerce(v[1], k[1], bt[1], n)), bt[2], True))
        i = self.expr(n.slice)
        if i[1] != Z:
            fail(n, "index of type %r" % (i[1],))
        if bt == BY:
            return self.bind_all([base, i], lambda v: ("(idx %s %s)" % (v[0], v[1]), Z, False))
        if isinstance(bt, tuple) and bt[0] == "list":
            return self.bind_all([base, i], lambda v: ("(py_nth %s %s)" % (v[0], v[1]), bt[1], False))
        fail(n, "subscript of %r" % (bt,))

    def lam(self, l, argty):
        """lambda x: E  ->  (fun x => E') with E' pure; returns (term, result type)"""
        if not isinstance(l, ast.Lambda) or len(l.args.args) != 1 or l.args.defaults or l.args.kwonlyargs:
            fail(l, "lambda shape")
        x = l.args.args[0].arg
        saved = dict(self.env)
        self.env[x] = argty
        e = self.expr(l.body)
        self.env = saved
        if not e[2]:
            fail(l, "lambda body may raise")
        return "(fun %s => %s)" % (x, e[0]), e[1]

    def comp(self, n, want=ANY):
        """[E for x in L if C] / generator: (map/filter term, element type, pure)"""
        if len(n.generators) != 1 or n.generators[0].is_async:
            fail(n, "comprehension shape")
        g = n.generators[0]
        it = self.expr(g.iter)
        if not (isinstance(it[1], tuple) and it[1][0] == "list"):
            fail(n, "comprehension over %r" % (it[1],))
        saved = dict(self.env)
        pat = self.bind_target(g.target, it[1][1])
        conds = [self.cond(c) for c in g.ifs]
        e = self.expr(n.elt, want)
        self.env = saved
        if not e[2] or not all(c[1] for c in conds):
            fail(n, "comprehension element or filter may raise")
        return it, pat, conds, e

    def e_ListComp(self, n, want=ANY):
        it, pat, conds, e = self.comp(n, want[1] if isinstance(want, tuple) and want[0] == "list" else ANY)

        def build(v):
            src = v[0]
            for c in conds:
                src = "(filter (fun %s => %s) %s)" % (pat, c[0], src)
            return "(map (fun %s => %s) %s)" % (pat, e[0], src), lst(e[1]), True
        return self.bind_all([it], build)

    e_GeneratorExp = e_ListComp

    def bind_target(self, tgt, ty):
        """loop / comprehension / assignment target: binds names in env, returns a Coq pattern"""
        if isinstance(tgt, ast.Name):
            self.env[tgt.id] = ty
            return tgt.id if tgt.id != "_" else "_"
        if isinstance(tgt, ast.Tuple):
            tys = ty[1] if isinstance(ty, tuple) and ty[0] == "tuple" else [x[1] for x in ty[1]] if isinstance(ty, tuple) and ty[0] == "rec" else None
            if tys is None or len(tys) != len(tgt.elts):
                fail(tgt, "cannot unpack %r" % (ty,))
            return "'(" + ", ".join(self.bind_target(e, t).lstrip("'") for e, t in zip(tgt.elts, tys)) + ")"
        fail(tgt, "target")

    def e_Call(self, n):
        fname = U(n.func)
        if fname in self.ctx.methods:
            return self.ctx.methods[fname](self, n)
        if fname == "cast" and len(n.args) == 2:
            return self.expr(n.args[1])
        if fname == "len" and len(n.args) == 1 and not n.keywords:
            a = self.expr(n.args[0])
            if a[1] == BY:
                return self.bind_all([a], lambda v: ("(blen %s)" % v[0], Z, True))
            if isinstance(a[1], tuple) and a[1][0] == "list":
                return self.bind_all([a], lambda v: ("(py_len %s)" % v[0], Z, True))
            fail(n, "len of %r" % (a[1],))
        if fname == "isinstance" and len(n.args) == 2:
            a = self.expr(n.args[0])
            if a[1] == VAL and U(n.args[1]) == "Value":
                return "true", B, True        # the parameter is typed: only Values are compared here
            fail(n, "isinstance")
        if fname in ("max", "min") and len(n.args) == 2 and not n.keywords:
            a, b = self.expr(n.args[0]), self.expr(n.args[1])
            if a[1] == Z and b[1] == Z:
                return self.bind_all([a, b], lambda v: ("(Z.%s %s %s)" % (fname, v[0], v[1]), Z, True))
            fail(n, "max/min of %r, %r" % (a[1], b[1]))
        if fname in ("max", "min") and len(n.args) == 1 and [k.arg for k in n.keywords] == ["key"]:
            a = self.expr(n.args[0])
            if not (isinstance(a[1], tuple) and a[1][0] == "list"):
                fail(n, "max of %r" % (a[1],))
            f, kty = self.lam(n.keywords[0].value, a[1][1])
            return self.bind_all([a], lambda v: ("(py_%s_by %s %s %s)" % (fname, lt_fun(kty, n), f, v[0]), a[1][1], False))
        if fname == "any" and len(n.args) == 1 and isinstance(n.args[0], ast.GeneratorExp):
            it, pat, conds, e = self.comp(n.args[0])
            if e[1] != B:
                fail(n, "any() of non-boolean")

            def build(v):
                src = v[0]
                for c in conds:
                    src = "(filter (fun %s => %s) %s)" % (pat, c[0], src)
                return "(existsb (fun %s => %s) %s)" % (pat, e[0], src), B, True
            return self.bind_all([it], build)
        if fname == "list" and len(n.args) == 1:
            a = self.expr(n.args[0])
            if isinstance(a[1], tuple) and a[1][0] == "list":
                return a
            fail(n, "list() of %r" % (a[1],))
        if fname == "reversed" and len(n.args) == 1:
            a = self.expr(n.args[0])
            if isinstance(a[1], tuple) and a[1][0] == "list":
                return self.bind_all([a], lambda v: ("(rev %s)" % v[0], a[1], True))
            fail(n, "reversed() of %r" % (a[1],))
        if fname == "enumerate" and len(n.args) == 1:
            a = self.expr(n.args[0])
            if isinstance(a[1], tuple) and a[1][0] == "list":
                return self.bind_all([a], lambda v: ("(py_enumerate %s)" % v[0], lst(tup(Z, a[1][1])), True))
            fail(n, "enumerate() of %r" % (a[1],))
        if isinstance(n.func, ast.Attribute) and isinstance(n.func.value, ast.Call) and U(n.func.value.func) == "hashlib.sha1" \
                and n.func.attr == "digest" and not n.args and len(n.func.value.args) == 1:
            a = self.expr(n.func.value.args[0])
            if a[1] != BY:
                fail(n, "sha1 of %r" % (a[1],))
            return self.bind_all([a], lambda v: ("(hash %s)" % v[0], BY, True))
        if fname in self.ctx.ctors:
            return self.ctx.ctors[fname](self, n)
        if fname == "defaultdict" and len(n.args) == 1 and U(n.args[0]) == "list" and not n.keywords:
            return "[]", dct(ANY, lst(ANY)), True
        if isinstance(n.func, ast.Attribute):
            recv = self.expr(n.func.value)
            m = n.func.attr
            rt = recv[1]
            if isinstance(rt, tuple) and rt[0] == "list" and m == "index" and len(n.args) == 1 and not n.keywords:
                x = self.expr(n.args[0], rt[1])
                return self.bind_all([recv, x], lambda v: (
                    "(py_index %s %s %s)" % (eq_fun(rt[1], n, self.ctx.funs), v[0], v[1]), Z, False))
            if isinstance(rt, tuple) and rt[0] == "dict" and not n.args and not n.keywords:
                if m == "items":
                    return recv[0], lst(tup(rt[1], rt[2])), recv[2]
                if m == "values":
                    return self.bind_all([recv], lambda v: ("(py_dvalues %s)" % v[0], lst(rt[2]), True))
                if m == "keys":
                    return self.bind_all([recv], lambda v: ("(py_dkeys %s)" % v[0], lst(rt[1]), True))
        fail(n, "call")

    # -- statements.  k(env) -> term : what follows; all terms are in `res`.
    MUTATORS = ("append", "pop", "insert", "sort")

    def lvalue(self, n):
        """a mutable place: a local list/dict variable, or D[k] of a dict variable.
        returns (read term builder, write(term)->[(var, term)], element list type, var name)"""
        if isinstance(n, ast.Name) and n.id in self.env:
            return n.id, (lambda t: (n.id, t)), self.env[n.id], n.id
        key = U(n)
        if key in self.ctx.subst and isinstance(self.ctx.subst[key], tuple) and len(self.ctx.subst[key]) == 4:
            term, ty, pure, var = self.ctx.subst[key]     # an attribute that IS a state variable (self.items)
            return term, (lambda t: (var, t)), ty, var
        if isinstance(n, ast.Subscript) and not isinstance(n.slice, ast.Slice):
            bterm, bwrite, bty, var = self.lvalue(n.value)
            if not (isinstance(bty, tuple) and bty[0] == "dict"):
                fail(n, "subscript place of %r" % (bty,))
            k = self.expr(n.slice, bty[1])
            if not k[2]:
                fail(n, "key may raise")
            if not known(bty[1]):      # defaultdict(list): the key type becomes known at the first d[k]
                if not (isinstance(n.value, ast.Name) and known(k[1])):
                    fail(n, "cannot infer the key type")
                bty = dct(k[1], bty[2])
                self.env[n.value.id] = bty
            kt = coerce(k[0], k[1], bty[1], n)
            eqf = eq_fun(bty[1], n, self.ctx.funs)
            return ("(py_dget %s [] %s %s)" % (eqf, bterm, kt),
                    (lambda t: bwrite("(py_dset %s %s %s %s)" % (eqf, bterm, kt, t))), bty[2], var)
        fail(n, "not a place that can be mutated")

    def mutation(self, call):
        """X.method(args) as an update of X: returns (var, new term for var, pure)"""
        place = call.func.value
        m = call.func.attr
        cur, write, ty, var = self.lvalue(place)
        if not (isinstance(ty, tuple) and ty[0] == "list"):
            fail(call, "mutating method on %r" % (ty,))
        ety = ty[1]
        if m == "append" and len(call.args) == 1 and not call.keywords:
            x = self.expr(call.args[0], ety)
            if not known(ety):
                ety = x[1]
                self.refine_place(place, lst(ety))
            r = self.bind_all([x], lambda v: ("(py_append %s %s)" % (cur, coerce(v[0], x[1], ety, call)), ty, True))
        elif m == "pop" and len(call.args) <= 1 and not call.keywords:
            if call.args:
                i = self.expr(call.args[0])
                if i[1] != Z:
                    fail(call, "pop index")
                r = self.bind_all([i], lambda v: ("(py_pop_at %s %s)" % (cur, v[0]), ty, False))
            else:
                r = ("(py_pop_last %s)" % cur, ty, False)
        elif m == "insert" and len(call.args) == 2 and not call.keywords:
            i, x = self.expr(call.args[0]), self.expr(call.args[1], ety)
            if i[1] != Z:
                fail(call, "insert index")
            r = self.bind_all([i, x], lambda v: ("(py_insert %s %s %s)" % (cur, v[0], coerce(v[1], x[1], ety, call)), ty, True))
        elif m == "sort" and not call.args and [k.arg for k in call.keywords] == ["key"]:
            f, kty = self.lam(call.keywords[0].value, ety)
            if kty != Z:
                fail(call, "sort key of type %r" % (kty,))
            r = ("(py_sort_by %s %s)" % (f, cur), ty, True)
        else:
            fail(call, "list method")
        if r[2]:
            v, t = write(r[0])
            return v, t, True
        n_ = self.tmp("l")
        v, t = write(n_)
        return v, "(bind %s (fun %s => Ok %s))" % (r[0], n_, t), False

    def refine_place(self, place, ty):
        """the element type of a list that started as [] / defaultdict(list) becomes known at its first append"""
        if isinstance(place, ast.Name):
            self.env[place.id] = ty
        elif isinstance(place, ast.Subscript) and isinstance(place.value, ast.Name):
            d = self.env[place.value.id]
            self.env[place.value.id] = dct(d[1], ty)
        else:
            fail(place, "cannot infer the element type")

    def assigned(self, body):
        """names (existing before) that statements of body (re)bind or mutate"""
        out = []

        def add(x):
            if x not in out:
                out.append(x)
        for s in body:
            for node in ast.walk(s):
                if isinstance(node, (ast.Assign, ast.AugAssign, ast.AnnAssign)):
                    tgts = node.targets if isinstance(node, ast.Assign) else [node.target]
                    for t in tgts:
                        for nm in ast.walk(t):
                            if isinstance(nm, ast.Name):
                                add(nm.id)
                if isinstance(node, ast.Expr) and isinstance(node.value, ast.Call) and isinstance(node.value.func, ast.Attribute) \
                        and node.value.func.attr in self.MUTATORS + ("put",):
                    place = node.value.func.value
                    while True:
                        key = U(place)
                        if key in self.ctx.subst and len(self.ctx.subst[key]) == 4:
                            add(self.ctx.subst[key][3])
                            break
                        if isinstance(place, ast.Name):
                            add(place.id)
                            break
                        if isinstance(place, ast.Subscript):
                            place = place.value
                            continue
                        fail(node, "mutated place")
        return out

    def stmts(self, body, k, in_loop=None):
        if not body:
            return k()
        s, rest = body[0], body[1:]
        nxt = lambda: self.stmts(rest, k, in_loop)
        if isinstance(s, ast.Expr) and isinstance(s.value, ast.Constant) and isinstance(s.value.value, str):
            return nxt()
        if isinstance(s, ast.Pass):
            return nxt()
        if isinstance(s, ast.Expr) and isinstance(s.value, ast.Call) and U(s.value.func).startswith("self.logger."):
            return nxt()
        if isinstance(s, ast.Return):
            if in_loop is not None:
                fail(s, "return inside a loop")
            return self.ret(s)
        if isinstance(s, ast.Break):
            if in_loop is None:
                fail(s, "break outside loop")
            return in_loop(True)
        if isinstance(s, (ast.Assign, ast.AnnAssign)):
            if isinstance(s, ast.Assign) and len(s.targets) != 1:
                fail(s, "multiple targets")
            tgt = s.targets[0] if isinstance(s, ast.Assign) else s.target
            if s.value is None:
                fail(s, "bare annotation")
            if isinstance(tgt, ast.Name):
                want = self.annot(s.annotation) if isinstance(s, ast.AnnAssign) else self.env.get(tgt.id, ANY)
                e = self.expr(s.value, want)
                ty = e[1] if known(e[1]) else (unify(want, e[1], s) if want != ANY else e[1])
                term = e[0] if not e[2] else coerce(e[0], e[1], ty, s.value) if known(ty) else e[0]
                if not e[2] and e[1] != ty:
                    fail(s, "raising expression needs a coercion")
                self.env[tgt.id] = ty
                t = nxt()
                if e[2]:
                    return "(let %s := %s in %s)" % (tgt.id, term, t)
                return "(bind %s (fun %s => %s))" % (term, tgt.id, t)
            if isinstance(tgt, ast.Tuple):
                e = self.expr(s.value)
                pat = self.bind_target(tgt, e[1])
                t = nxt()
                if e[2]:
                    return "(let %s := %s in %s)" % (pat, e[0], t)
                return "(bind %s (fun %s => %s))" % (e[0], pat, t)
            fail(s, "assignment target")
        if isinstance(s, ast.AugAssign) and isinstance(s.target, ast.Name) and isinstance(s.op, ast.Add):
            cur = self.expr(s.target)
            e = self.expr(s.value)
            if cur[1] == Z and e[1] == Z and e[2]:
                t = nxt()
                return "(let %s := (Z.add %s %s) in %s)" % (s.target.id, s.target.id, e[0], t)
            fail(s, "augmented assignment")
        if isinstance(s, ast.Expr) and isinstance(s.value, ast.Call) and isinstance(s.value.func, ast.Attribute):
            call = s.value
            fname = U(call.func)
            if fname in self.ctx.methods and getattr(self.ctx.methods[fname], "is_update", False):
                var, term, pure = self.ctx.methods[fname](self, call)
            elif call.func.attr in self.MUTATORS:
                var, term, pure = self.mutation(call)
            else:
                fail(s, "statement call")
            t = nxt()
            if pure:
                return "(let %s := %s in %s)" % (var, term, t)
            return "(bind %s (fun %s => %s))" % (term, var, t)
        if isinstance(s, ast.If) and self.narrowable(s.test):
            x, inner = self.narrowable(s.test)
            saved = dict(self.env)
            self.env[x] = inner
            th = self.stmts(s.body, lambda: "(JOIN_)", in_loop)
            saved = self.keep_refinements(saved, {k_: v_ for k_, v_ in self.env.items() if k_ != x})
            if "JOIN_" in th and th.count("(JOIN_)") >= 1:
                # what follows the `if` sees x with its declared (optional) type again: close the narrowing first
                self.env = dict(saved)
                after = self.stmts(rest, k, in_loop)
                names = [v for v in self.assigned(s.body) if v in saved]
                tup_, pat = self.state_tuple(names)
                th = th.replace("(JOIN_)", "(Ok %s)" % tup_)
                self.env = dict(saved)
                el = self.stmts(s.orelse, lambda: "(Ok %s)" % tup_, in_loop)
                return "(bind %s (fun %s => %s))" % (self.narrowed(x, inner, th, el, s), pat, after)
            self.env = dict(saved)
            el = self.stmts(s.orelse + rest, k, in_loop)
            return self.narrowed(x, inner, th, el, s)
        if isinstance(s, ast.If):
            c, cpure = self.cond(s.test)
            saved = dict(self.env)
            th = self.stmts(s.body + rest, k, in_loop)
            env_th = self.env
            self.env = dict(saved)
            el = self.stmts(s.orelse + rest, k, in_loop)
            # types refined in one branch only (first append) are kept
            for name, ty in env_th.items():
                if name in self.env and not known(self.env[name]) and known(ty):
                    self.env[name] = ty
            if cpure:
                return "(if %s then %s else %s)" % (c, th, el)
            return "(bind %s (fun c_ => if c_ then %s else %s))" % (c, th, el)
        if isinstance(s, ast.Try):
            return self.s_try(s, nxt)
        if isinstance(s, ast.For):
            return self.s_for(s, nxt)
        if isinstance(s, ast.While):
            return self.s_while(s, nxt)
        fail(s, "statement not supported")

    def annot(self, a):
        return ANY

    def keep_refinements(self, saved, newer):
        """types of outer variables that became known inside a nested block ([] / defaultdict at their first use)"""
        for name, ty in newer.items():
            if name in saved and not known(saved[name]) and (known(ty) or ty != saved[name]):
                saved[name] = ty
        return saved

    def state_tuple(self, names):
        if not names:
            return "tt", "_"
        if len(names) == 1:
            return names[0], names[0]
        return "(" + ", ".join(names) + ")", "'(" + ", ".join(names) + ")"

    def s_try(self, s, nxt):
        if s.orelse or s.finalbody or len(s.handlers) != 1:
            fail(s, "try shape")
        h = s.handlers[0]
        hname = U(h.type) if h.type is not None else None
        if hname != "ValueError" or h.name is not None:
            fail(s, "only `except ValueError:` is translated")
        for node in ast.walk(ast.Module(body=s.body + h.body, type_ignores=[])):
            if isinstance(node, ast.Return):
                fail(node, "return inside try")
        names = [x for x in self.assigned(s.body + h.body) if x in self.env]
        # locals first bound inside the try do not survive it (fail closed if used afterwards)
        tup_, pat = self.state_tuple(names)
        saved = dict(self.env)
        body = self.stmts(s.body, lambda: "(Ok %s)" % tup_)
        env_b = self.env
        self.env = dict(saved)
        hb = self.stmts(h.body, lambda: "(Ok %s)" % tup_)
        self.env = saved
        for name in names:
            for e2 in (env_b,):
                if not known(self.env[name]) and known(e2.get(name, ANY)):
                    self.env[name] = e2[name]
        t = nxt()
        return "(bind (try_catch %s (fun e_ => if exn_eqb e_ ValueError then %s else Raise e_)) (fun %s => %s))" % (
            body, hb, pat, t)

    def s_for(self, s, nxt):
        if s.orelse:
            fail(s, "for-else")
        # `for X in D.values(): <in-place mutation of X>`  ==  for (k_, X) in D.items(): ...; D[k_] = X
        alias = None
        it_node = s.iter
        if isinstance(it_node, ast.Call) and isinstance(it_node.func, ast.Attribute) and it_node.func.attr == "values" \
                and not it_node.args and isinstance(s.target, ast.Name):
            try:
                dterm, dwrite, dty, dvar = self.lvalue(it_node.func.value)
            except Unsupported:
                dty = None
            if dty is not None and isinstance(dty, tuple) and dty[0] == "dict":
                for node in ast.walk(ast.Module(body=s.body, type_ignores=[])):
                    if isinstance(node, (ast.Assign, ast.AugAssign)) and any(
                            isinstance(t, ast.Name) and t.id == s.target.id for t in (node.targets if isinstance(node, ast.Assign) else [node.target])):
                        fail(node, "loop variable over .values() is rebound (alias lost)")
                alias = (dterm, dwrite, dty, dvar)
        if alias:
            dterm, dwrite, dty, dvar = alias
            x = s.target.id
            saved = dict(self.env)
            self.env[x] = dty[2]
            names = [n_ for n_ in self.assigned(s.body) if n_ in saved and n_ != x]
            if dvar not in names:
                names.append(dvar)
            tup_, pat = self.state_tuple(names)
            eqf = eq_fun(dty[1], s, self.ctx.funs)

            def done(brk):
                v, t = dwrite("(py_dset %s %s k_ %s)" % (eqf, dterm, x)) if False else (dvar, "(py_dset %s %s k_ %s)" % (eqf, dterm, x))
                return "(let %s := %s in Ok (%s, %s))" % (v, t, tup_, "true" if brk else "false")
            body = self.stmts(s.body, lambda: done(False), in_loop=done)
            self.env = saved
            t = nxt()
            return "(bind (py_for (fun s_ kv_ => let %s := s_ in let '(k_, %s) := kv_ in %s) %s %s) (fun %s => %s))" % (
                pat, x, body, dterm, tup_, pat, t)
        it = self.expr(it_node)
        if isinstance(it[1], tuple) and it[1][0] == "dict":
            it = self.bind_all([it], lambda v: ("(py_dkeys %s)" % v[0], lst(it[1][1]), True))   # iterating a dict: its keys
        if not (isinstance(it[1], tuple) and it[1][0] == "list"):
            fail(s, "for over %r" % (it[1],))
        saved = dict(self.env)
        pat_x = self.bind_target(s.target, it[1][1])
        loop_vars = set(self.env) - set(saved)
        names = [n_ for n_ in self.assigned(s.body) if n_ in saved]
        tup_, pat = self.state_tuple(names)
        done = lambda brk: "(Ok (%s, %s))" % (tup_, "true" if brk else "false")
        body = self.stmts(s.body, lambda: done(False), in_loop=done)
        env_after = self.env
        self.env = self.keep_refinements(saved, env_after)
        t = nxt()
        src = it[0] if it[2] else None
        loop = "(py_for (fun s_ x_ => let %s := s_ in let %s := x_ in %s) %s %s)" % (pat, pat_x, body, src or "it_", tup_)
        term = "(bind %s (fun %s => %s))" % (loop, pat, t)
        if src is None:
            term = "(bind %s (fun it_ => %s))" % (it[0], term)
        return term

    def s_while(self, s, nxt):
        """only:  while X and COND(X[-1]): X.pop()"""
        if s.orelse or not (isinstance(s.test, ast.BoolOp) and isinstance(s.test.op, ast.And) and len(s.test.values) == 2):
            fail(s, "while loop shape")
        x, c = s.test.values
        if not (len(s.body) == 1 and isinstance(s.body[0], ast.Expr) and isinstance(s.body[0].value, ast.Call)
                and U(s.body[0].value) == "%s.pop()" % U(x)):
            fail(s, "while loop body is not `%s.pop()`" % U(x))
        cur, write, ty, var = self.lvalue(x)
        if not (isinstance(ty, tuple) and ty[0] == "list"):
            fail(s, "while over %r" % (ty,))
        last = "%s[-1]" % U(x)

        class Sub(ast.NodeTransformer):
            def visit_Subscript(self_, node):
                if U(node) == last:
                    return ast.copy_location(ast.Name(id="last_", ctx=ast.Load()), node)
                return self_.generic_visit(node)
        import copy
        c2 = Sub().visit(copy.deepcopy(c))
        for node in ast.walk(c2):
            if isinstance(node, ast.Name) and node.id == var:
                fail(s, "while condition uses the list other than through its last element")
        saved = dict(self.env)
        self.env["last_"] = ty[1]
        ct, cpure = self.cond(c2)
        self.env = saved
        if not cpure:
            fail(s, "while condition may raise")
        v, t = write("(py_pop_while_last (fun last_ => %s) %s)" % (ct, cur))
        return "(let %s := %s in %s)" % (v, t, nxt())

    def ret(self, s):
        raise NotImplementedError


def proj(term, i, n):
    """i-th component of an n-tuple (left-nested Coq products)"""
    if n == 1:
        return term
    t = term
    for _ in range(n - 1 - i):
        t = "(fst %s)" % t
    return t if i == 0 else "(snd %s)" % t


class FnDef(Fn):
    """a whole function: `return E` yields E, falling off the end (or a bare return) yields `fall`"""

    def __init__(self, ctx, env, rty, fall=None):
        super().__init__(ctx, env)
        self.rty, self.fall = rty, fall

    def ret(self, s):
        if s.value is None or (isinstance(s.value, ast.Constant) and s.value.value is None and self.fall is not None):
            if self.fall is None:
                fail(s, "bare return in a function with a result")
            return "(Ok %s)" % self.fall
        e = self.expr(s.value, self.rty)
        if e[2]:
            return "(Ok %s)" % coerce(e[0], e[1], self.rty, s.value)
        if e[1] != self.rty:
            n_ = self.tmp("r")
            return "(bind %s (fun %s => Ok %s))" % (e[0], n_, coerce(n_, e[1], self.rty, s.value))
        return e[0]

    def compile(self, fn):
        def end():
            if self.fall is None:
                fail(fn, "control reaches the end of a function with a result")
            return "(Ok %s)" % self.fall
        return self.stmts(fn.body, end)


def definition(name, params, rty, body):
    binders = " ".join("(%s : %s)" % (n, t if isinstance(t, str) and t.startswith("!") is False and False else t) for n, t in params)
    return "Definition %s %s : res %s :=\n  %s.\n" % (name, binders, coqty(rty), body)


def strip_ok(body):
    """`(Ok t)` with t closed by the matching parenthesis -> t ; otherwise None"""
    if not body.startswith("(Ok "):
        return None
    depth = 0
    for i, ch in enumerate(body):
        depth += ch == "("
        depth -= ch == ")"
        if depth == 0:
            return body[4:i].strip() if i == len(body) - 1 else None
    return None


def _top_split(text, word):
    """position of ` word ` at parenthesis depth 0 in text, or -1"""
    depth = 0
    i = 0
    w = " %s " % word
    while i < len(text):
        ch = text[i]
        if ch == "(":
            depth += 1
        elif ch == ")":
            depth -= 1
        elif depth == 0 and text.startswith(w, i):
            return i
        i += 1
    return -1


def purify(term):
    """a term of type `res T` built only from Ok, if-then-else and let: the same computation of type T; else None"""
    t = strip_ok(term)
    if t is not None:
        return t
    if not (term.startswith("(") and term.endswith(")")):
        return None
    inner = term[1:-1]
    if inner.startswith("if "):
        i = _top_split(inner, "then")
        j = _top_split(inner, "else")
        if i < 0 or j < i:
            return None
        a, b = purify(inner[i + 6:j].strip()), purify(inner[j + 6:].strip())
        if a is None or b is None or "bind" in inner[3:i]:
            return None
        return "(if %s then %s else %s)" % (inner[3:i].strip(), a, b)
    if inner.startswith("let "):
        i = _top_split(inner, "in")
        if i < 0:
            return None
        a = purify(inner[i + 4:].strip())
        if a is None or "bind" in inner[:i]:
            return None
        return "(%s in %s)" % (inner[:i].strip(), a)
    return None


def auto_definition(name, params, rty, body):
    """(text, pure?) - a plain definition when the body cannot raise, else one in `res`"""
    t = purify(body)
    if t is None:
        return definition(name, params, rty, body), False
    binders = " ".join("(%s : %s)" % x for x in params)
    return "Definition %s %s : %s :=\n  %s.\n" % (name, binders, coqty(rty), t), True


def pure_definition(name, params, rty, body, node):
    t = purify(body)
    if t is None:
        fail(node, "%s was expected to be free of raising operations" % name)
    binders = " ".join("(%s : %s)" % x for x in params)
    return "Definition %s %s : %s :=\n  %s.\n" % (name, binders, coqty(rty), t)


def find_class(tree, name):
    for n in tree.body:
        if isinstance(n, ast.ClassDef) and n.name == name:
            return n
    raise Unsupported("class %s not found" % name)


def find_method(cls, name):
    found = [n for n in cls.body if isinstance(n, (ast.FunctionDef, ast.AsyncFunctionDef)) and n.name == name]
    if len(found) != 1:
        raise Unsupported("method %s.%s: %d definitions" % (cls.name, name, len(found)))
    return found[0]


def arg_names(fn):
    a = fn.args
    if a.vararg or a.kwarg or a.kwonlyargs or a.posonlyargs:
        fail(fn, "argument list shape")
    return [x.arg for x in a.args]


def module_int_consts(tree):
    out = {}
    for n in tree.body:
        if isinstance(n, ast.Assign) and len(n.targets) == 1 and isinstance(n.targets[0], ast.Name) \
                and isinstance(n.value, ast.Constant) and isinstance(n.value.value, int) and not isinstance(n.value.value, bool):
            out[n.targets[0].id] = n.value.value
    return out


def decorators(fn):
    return [U(d) for d in fn.decorator_list]


# ---------------------------------------------------------------------------- storage.py
def gen_storage(repo, out):
    tree = ast.parse(open(os.path.join(repo, STORAGE)).read())
    V = find_class(tree, "Value")
    # field table of Value.__init__ : which constructor argument lands in which field
    init = find_method(V, "__init__")
    if arg_names(init) != ["self", "id_", "data", "max_age", "version"]:
        fail(init, "Value.__init__ parameters")
    assigns = {}
    for s in init.body:
        if isinstance(s, ast.Expr) and isinstance(s.value, ast.Constant):
            continue
        if not (isinstance(s, ast.Assign) and len(s.targets) == 1 and isinstance(s.targets[0], ast.Attribute)
                and U(s.targets[0].value) == "self"):
            fail(s, "Value.__init__ statement")
        assigns[s.targets[0].attr] = U(s.value)
    if assigns != {"id": "id_", "data": "data", "last_update": "time.time()", "max_age": "max_age", "version": "version"}:
        fail(init, "Value.__init__ field table is %r" % assigns)
    consts = {}
    funs = {}
    self_fields = {"self." + f: ("(%s self)" % c, t, True) for f, (c, t) in VALUE_FIELDS.items()}
    time_now = {"time.time()": ("now", Z, True)}
    # Value.age / expired / __eq__
    age = find_method(V, "age")
    exp = find_method(V, "expired")
    eq = find_method(V, "__eq__")
    if decorators(age) != ["property"] or decorators(exp) != ["property"] or arg_names(eq) != ["self", "other"]:
        fail(V, "Value.age / expired / __eq__ shape")
    c = Ctx(consts, funs, subst={**self_fields, **time_now})
    vparams = [("now", "Z"), ("self", "M15_dht_store.value")]
    text, age_pure = auto_definition("g_value_age", vparams, Z, FnDef(c, {}, Z).compile(age))
    out.append(text)
    c = Ctx(consts, funs, subst={**self_fields, **time_now, "self.age": ("(g_value_age now self)", Z, age_pure)})
    text, exp_pure = auto_definition("g_value_expired", vparams, B, FnDef(c, {}, B).compile(exp))
    out.append(text)
    c = Ctx(consts, funs, subst=self_fields)
    out.append(pure_definition("g_value_eq", [("self", "M15_dht_store.value"), ("other", "M15_dht_store.value")], B,
                               FnDef(c, {"other": VAL}, B).compile(eq), eq))
    funs["Value.__eq__"] = "g_value_eq"

    S = find_class(tree, "Storage")
    items = {"self.items": ("items", STORAGE_T, True, "items")}

    def value_ctor(comp, call):
        if len(call.args) != 4 or call.keywords:
            fail(call, "Value(...) arguments")
        parts = [comp.expr(a, w) for a, w in zip(call.args, (BY, BY, Z, Z))]
        for p, w in zip(parts, (BY, BY, Z, Z)):
            if p[1] != w:
                fail(call, "Value(...) argument of type %r" % (p[1],))
        return comp.bind_all(parts, lambda v: ("(mkV %s %s now %s %s)" % (v[0], v[1], v[2], v[3]), VAL, True))
    # put
    put = find_method(S, "put")
    if arg_names(put) != ["self", "key", "data", "id_", "max_age", "version"]:
        fail(put, "Storage.put parameters")
    c = Ctx(consts, funs, subst={**items, **time_now}, ctors={"Value": value_ctor})
    f = FnDef(c, {"key": BY, "data": BY, "id_": opt(BY), "max_age": Z, "version": Z, "items": STORAGE_T}, STORAGE_T, fall="items")
    out.append(definition("g_put", [("hash", "bytes -> bytes"), ("now", "Z"), ("items", coqty(STORAGE_T)), ("key", "bytes"),
                                    ("data", "bytes"), ("id_", "option bytes"), ("max_age", "Z"), ("version", "Z")],
                          STORAGE_T, f.compile(put)))
    # get
    get = find_method(S, "get")
    if arg_names(get) != ["self", "key", "starting_point", "limit"]:
        fail(get, "Storage.get parameters")
    c = Ctx(consts, funs, subst=items)
    f = FnDef(c, {"key": BY, "starting_point": Z, "limit": opt(Z), "items": STORAGE_T}, lst(BY))
    out.append(definition("g_get", [("items", coqty(STORAGE_T)), ("key", "bytes"), ("starting_point", "Z"), ("limit", "option Z")],
                          lst(BY), f.compile(get)))
    # clean
    clean = find_method(S, "clean")
    if arg_names(clean) != ["self"]:
        fail(clean, "Storage.clean parameters")
    c = Ctx(consts, funs, subst=items, props={(VAL, "expired"): ("g_value_expired now", B, exp_pure), (VAL, "age"): ("g_value_age now", Z, age_pure)})
    f = FnDef(c, {"items": STORAGE_T}, STORAGE_T, fall="items")
    out.append(definition("g_clean", [("now", "Z"), ("items", coqty(STORAGE_T))], STORAGE_T, f.compile(clean)))
    return funs


# ---------------------------------------------------------------------------- routing.py
def gen_routing(repo, out):
    tree = ast.parse(open(os.path.join(repo, ROUTING)).read())
    consts = module_int_consts(tree)
    for k in ("NODE_LIMIT_INTERVAL", "NODE_LIMIT_QUERIES"):
        if k not in consts or consts[k] < 0:
            raise Unsupported("constant %s not found in %s" % (k, ROUTING))
        out.append("Definition %s : Z := %d." % (k, consts[k]))
    N = find_class(tree, "Node")
    init = find_method(N, "__init__")
    bound = None
    for st in ast.walk(init):
        if isinstance(st, (ast.Assign, ast.AnnAssign)):
            tgt = st.targets[0] if isinstance(st, ast.Assign) else st.target
            if U(tgt) == "self.last_queries":
                v = st.value
                if not (isinstance(v, ast.Call) and U(v.func) == "deque" and not v.args and len(v.keywords) == 1
                        and v.keywords[0].arg == "maxlen" and isinstance(v.keywords[0].value, ast.Name)
                        and v.keywords[0].value.id in consts):
                    fail(st, "Node.last_queries is not deque(maxlen=<module constant>)")
                if bound is not None:
                    fail(st, "Node.last_queries assigned twice")
                bound = v.keywords[0].value.id
    if bound is None:
        fail(init, "Node.last_queries not initialised in __init__")
    out.append("Definition g_last_queries_maxlen : Z := %s.\n" % bound)
    blocked = find_method(N, "blocked")
    if decorators(blocked) != ["property"]:
        fail(blocked, "Node.blocked is not a property")
    c = Ctx({k: k for k in consts}, {}, subst={"self.last_queries": ("last_queries", lst(Z), True),
                                               "self.last_queries.maxlen": ("g_last_queries_maxlen", Z, True),
                                               "time.time()": ("now", Z, True)})
    out.append(definition("g_node_blocked", [("now", "Z"), ("last_queries", "list Z")], B, FnDef(c, {}, B).compile(blocked)))


# ---------------------------------------------------------------------------- payload.py
DECODERS = {"raw": ("raw_at", BY), "varlenH": ("varlenH_at", BY), "I": ("u32_at", Z)}


def gen_payload(repo, out):
    tree = ast.parse(open(os.path.join(repo, PAYLOAD)).read())
    recs = {}
    for cname in ("StrPayload", "SignedStrPayload"):
        cls = find_class(tree, cname)
        if [U(b) for b in cls.bases] != ["VariablePayload"]:
            fail(cls, "%s bases" % cname)
        attrs = {}
        for st in cls.body:
            if isinstance(st, ast.Assign) and len(st.targets) == 1 and isinstance(st.targets[0], ast.Name):
                attrs[st.targets[0].id] = st.value
            elif isinstance(st, (ast.FunctionDef, ast.AsyncFunctionDef)):
                fail(st, "%s defines a method (fix_pack / fix_unpack hooks are not translated)" % cname)
        for k in ("names", "format_list"):
            if k not in attrs or not isinstance(attrs[k], ast.List) or not all(
                    isinstance(e, ast.Constant) and isinstance(e.value, str) for e in attrs[k].elts):
                fail(cls, "%s.%s is not a list of string literals" % (cname, k))
        names = [e.value for e in attrs["names"].elts]
        fmts = [e.value for e in attrs["format_list"].elts]
        if len(names) != len(fmts) or not names:
            fail(cls, "%s names / format_list lengths" % cname)
        for i, f in enumerate(fmts):
            if f not in DECODERS:
                fail(cls, "%s: format %r has no decoder here" % (cname, f))
            if f == "raw" and i != len(fmts) - 1:
                fail(cls, "%s: raw is not the last field" % cname)
        term = "(Ok (%s, o%d_))" % ("(" + ", ".join("f%d_" % i for i in range(len(names))) + ")" if len(names) > 1 else "f0_", len(names) - 1)
        for i in reversed(range(len(names))):
            term = "(bind (%s data %s) (fun '(f%d_, o%d_) => %s))" % (DECODERS[fmts[i]][0], "o%d_" % (i - 1) if i else "offset", i, i, term)
        fields = tuple((n_, DECODERS[f][1]) for n_, f in zip(names, fmts))
        rty = rec(*fields)
        out.append("(* Serializer.unpack_serializable(%s, data, offset): %s ; every decoder error is a PackError *)" % (
            cname, ", ".join("%s:%s" % x for x in zip(names, fmts))))
        out.append("Definition g_unpack_%s (data : bytes) (offset : nat) : res (%s * nat) :=\n  %s.\n" % (cname, coqty(rty), term))
        recs[cname] = rty
    return recs


# ---------------------------------------------------------------------------- community.py (data functions)
def kwargs_call(call, names, defaults=None):
    """positional + keyword arguments of a call laid out in the order of `names`"""
    out = dict(zip(names, call.args))
    if len(call.args) > len(names):
        fail(call, "too many arguments")
    for k in call.keywords:
        if k.arg is None or k.arg not in names or k.arg in out:
            fail(call, "keyword argument %r" % k.arg)
        out[k.arg] = k.value
    for n_ in names:
        if n_ not in out:
            if defaults and n_ in defaults:
                out[n_] = defaults[n_]
            else:
                fail(call, "argument %s missing" % n_)
    return [out[n_] for n_ in names]


def gen_community_data(repo, out, funs, recs):
    tree = ast.parse(open(os.path.join(repo, COMMUNITY)).read())
    consts = {k: k for k in module_int_consts(tree)}
    C = find_class(tree, "DHTCommunity")
    UNSER_T = opt(tup(BY, opt(BY), Z))

    # generate_token / check_token
    tok_subst = {"str(node).encode()": ("ident", BY, True), "self.token_secrets": ("token_secrets", lst(BY), True)}
    gt = find_method(C, "generate_token")
    ct = find_method(C, "check_token")
    if arg_names(gt) != ["self", "node"] or arg_names(ct) != ["self", "node", "token"]:
        fail(gt, "generate_token / check_token parameters")
    c = Ctx(consts, funs, subst=tok_subst)
    out.append(definition("g_generate_token", [("hash", "bytes -> bytes"), ("ident", "bytes"), ("token_secrets", "list bytes")],
                          BY, FnDef(c, {}, BY).compile(gt)))
    out.append(pure_definition("g_check_token", [("hash", "bytes -> bytes"), ("ident", "bytes"), ("token_secrets", "list bytes"),
                                                 ("token", "bytes")], B, FnDef(c, {"token": BY}, B).compile(ct), ct))

    # unserialize_value
    def m_unpack(comp, call):
        args = kwargs_call(call, ["serializable", "data", "offset"], {"offset": ast.Constant(value=0)})
        cname = U(args[0])
        if cname not in recs:
            fail(call, "unpack_serializable of %s" % cname)
        d, o = comp.expr(args[1]), comp.expr(args[2])
        if d[1] != BY or o[1] != Z or not (isinstance(args[2], ast.Constant) and args[2].value >= 0):
            fail(call, "unpack_serializable arguments")
        return comp.bind_all([d], lambda v: ("(g_unpack_%s %s %d%%nat)" % (cname, v[0], args[2].value), tup(recs[cname], "natoff"), False))

    def m_key(comp, call):
        if len(call.args) != 1 or call.keywords:
            fail(call, "key_from_public_bin arguments")
        a = comp.expr(call.args[0])
        if a[1] != BY:
            fail(call, "key_from_public_bin of %r" % (a[1],))
        # the key object is represented by its bytes; a malformed key raises when its signature length is asked
        # for (siglen = key_from_public_bin + get_signature_length): the two calls must be adjacent (checked below)
        return a[0], "pubkey", a[2]

    def m_siglen(comp, call):
        if len(call.args) != 1 or call.keywords:
            fail(call, "get_signature_length arguments")
        a = comp.expr(call.args[0])
        if a[1] != "pubkey":
            fail(call, "get_signature_length of %r" % (a[1],))
        return comp.bind_all([a], lambda v: ("(bind (siglen %s) (fun n_ => Ok (Z.of_nat n_)))" % v[0], Z, False))

    def m_valid(comp, call):
        if len(call.args) != 3 or call.keywords:
            fail(call, "is_valid_signature arguments")
        k, m, sg = [comp.expr(a) for a in call.args]
        if k[1] != "pubkey" or m[1] != BY or sg[1] != BY:
            fail(call, "is_valid_signature argument types")
        return comp.bind_all([k, m, sg], lambda v: ("(verify %s %s %s)" % (v[0], v[1], v[2]), B, True))
    uv = find_method(C, "unserialize_value")
    if arg_names(uv) != ["self", "value"]:
        fail(uv, "unserialize_value parameters")
    # adjacency of key_from_public_bin and get_signature_length
    flat = [st for st in ast.walk(uv) if isinstance(st, ast.Assign)]
    for a, b in zip(flat, flat[1:]):
        if isinstance(a.value, ast.Call) and U(a.value.func) == "self.crypto.key_from_public_bin":
            if not (isinstance(b.value, ast.Call) and U(b.value.func) == "self.crypto.get_signature_length"
                    and [U(x) for x in b.value.args] == [U(a.targets[0])]):
                fail(a, "key_from_public_bin is not directly followed by get_signature_length of its result")
    c = Ctx(consts, funs, methods={"self.serializer.unpack_serializable": m_unpack, "self.crypto.key_from_public_bin": m_key,
                                   "self.crypto.get_signature_length": m_siglen, "self.crypto.is_valid_signature": m_valid})
    prims = [("verify", "bytes -> bytes -> bytes -> bool"), ("siglen", "bytes -> res nat")]
    out.append(definition("g_unserialize_value", prims + [("value", "bytes")], UNSER_T, FnDef(c, {"value": BY}, UNSER_T).compile(uv)))

    def m_unser(comp, call):
        if len(call.args) != 1 or call.keywords:
            fail(call, "unserialize_value arguments")
        a = comp.expr(call.args[0])
        if a[1] != BY:
            fail(call, "unserialize_value of %r" % (a[1],))
        return comp.bind_all([a], lambda v: ("(g_unserialize_value verify siglen %s)" % v[0], UNSER_T, False))

    # add_value
    def m_put(comp, call):
        args = kwargs_call(call, ["key", "data", "id_", "max_age", "version"],
                           {"id_": ast.Constant(value=None), "max_age": ast.Name(id="STORAGE_DEFAULT_MAX_AGE", ctx=ast.Load()),
                            "version": ast.Name(id="STORAGE_DEFAULT_VERSION", ctx=ast.Load())})
        wants = (BY, BY, opt(BY), Z, Z)
        parts = [comp.expr(a, w) for a, w in zip(args, wants)]
        for p_, w in zip(parts, wants):
            if known(p_[1]) and p_[1] != w and not (w == opt(BY) and p_[1] == BY):
                fail(call, "Storage.put argument of type %r where %r is expected" % (p_[1], w))
        return ("storage",
                comp.bind_all(parts, lambda v: ("(g_put hash now storage %s)" % " ".join(
                    coerce(x, p_[1], w, call) for x, p_, w in zip(v, parts, wants)), STORAGE_T, False))[0], False)
    m_put.is_update = True
    av = find_method(C, "add_value")
    if arg_names(av) != ["self", "key", "value", "storage", "max_age"]:
        fail(av, "add_value parameters")
    c = Ctx({**consts, "STORAGE_DEFAULT_MAX_AGE": "STORAGE_DEFAULT_MAX_AGE", "STORAGE_DEFAULT_VERSION": "STORAGE_DEFAULT_VERSION"},
            funs, methods={"self.unserialize_value": m_unser, "storage.put": m_put})
    f = FnDef(c, {"key": BY, "value": BY, "storage": STORAGE_T, "max_age": Z}, STORAGE_T, fall="storage")
    out.append(definition("g_add_value", [("hash", "bytes -> bytes")] + prims + [("now", "Z"), ("storage", coqty(STORAGE_T)),
                                          ("key", "bytes"), ("value", "bytes"), ("max_age", "Z")], STORAGE_T, f.compile(av)))

    # post_process_values
    pp = find_method(C, "post_process_values")
    if arg_names(pp) != ["self", "values"]:
        fail(pp, "post_process_values parameters")
    RES_T = lst(tup(BY, opt(BY)))
    c = Ctx(consts, funs, methods={"self.unserialize_value": m_unser})
    out.append(definition("g_post_process_values", prims + [("values", "list bytes")], RES_T,
                          FnDef(c, {"values": lst(BY)}, RES_T).compile(pp)))
    return tree, consts, m_unser


# ---------------------------------------------------------------------------- handlers (mode B)
EFF = """(* effects of the handlers, in program order along each path; their meaning is fixed by model/M15_store_gen.v *)
Inductive eff :=
| EAddValues (max_age : Z)   (* for value in payload.values: self.add_value(payload.target, value, self.get_storage(node), max_age) *)
| ESendStoreResponse         (* self.ez_send(peer, StoreResponsePayload(payload.identifier)) *)
| EPuncture                  (* closest nodes looked up, a puncture request sent to the closest one *)
| ESendFindResponse (token : res bytes) (values : list bytes)
                             (* self.ez_send(peer, FindResponsePayload(payload.identifier, <token>, <values>, nodes)) *)
| EStampFreshNode            (* node = Node(peer.key, peer.address); node.last_queries.append(time.time()) *)
| EStorePeerAppend           (* self.store[payload.target].append(node) *)
| ESendStorePeerResponse     (* self.ez_send(node, StorePeerResponsePayload(payload.identifier)) *)
| ERtAdd                     (* node = routing_table.add(node) or node *)
| EStampQuery                (* node.last_queries.append(time.time()) *)
| EReturnNode (some : bool)  (* return node / return None *)
| ESecretAppend              (* self.token_secrets.append(os.urandom(16)) *)
| EClientTokenCleanup.       (* the loop dropping old entries of self.tokens (tokens RECEIVED from other nodes) *)
Definition econs (e : eff) (r : res (list eff)) : res (list eff) :=
  match r with Ok l => Ok (e :: l) | Raise x => Raise x end.
"""


class Handler(Fn):
    """statements -> res (list eff).  `effects` : list of recognisers  stmt -> effect term | None;
    `skip` : exact statement texts without a modelled effect;  impure computations must precede the first effect."""

    def __init__(self, ctx, env, effects, skip=(), returns=False):
        super().__init__(ctx, env)
        self.effects, self.skip, self.returns = effects, set(skip), returns

    def ret(self, s):
        fail(s, "return in expression position")

    def hstmts(self, body, emitted=False):
        if not body:
            return "(Ok [])"
        s, rest = body[0], body[1:]
        nxt = lambda em=emitted: self.hstmts(rest, em)
        if isinstance(s, ast.Expr) and isinstance(s.value, ast.Constant) and isinstance(s.value.value, str):
            return nxt()
        if isinstance(s, ast.Expr) and isinstance(s.value, ast.Call) and U(s.value.func).startswith("self.logger."):
            return nxt()
        if U(s) in self.skip:
            return nxt()
        for r in self.effects:
            e = r(self, s)
            if e is not None:
                return "(econs %s %s)" % (e, self.hstmts(rest, True))
        if isinstance(s, ast.Return):
            if s.value is None:
                if self.returns:
                    fail(s, "bare return in a function with a result")
                return "(Ok [])"
            if not self.returns:
                fail(s, "return with a value in a handler")
            t = U(s.value)
            if t == "None":
                return "(Ok [EReturnNode false])"
            if t == "node":
                return "(Ok [EReturnNode true])"
            fail(s, "returned expression")
        if isinstance(s, ast.If):
            c, cpure = self.cond(s.test)
            if not cpure and emitted:
                fail(s, "a condition that may raise after an effect")
            saved = dict(self.env)
            th = self.hstmts(s.body + rest, emitted)
            self.env = dict(saved)
            el = self.hstmts(s.orelse + rest, emitted)
            self.env = saved
            if cpure:
                return "(if %s then %s else %s)" % (c, th, el)
            return "(bind %s (fun c_ => if c_ then %s else %s))" % (c, th, el)
        if isinstance(s, ast.Assign) and len(s.targets) == 1 and isinstance(s.targets[0], ast.Name):
            e = self.expr(s.value)
            if not e[2] and emitted:
                fail(s, "a computation that may raise after an effect")
            self.env[s.targets[0].id] = e[1]
            t = nxt()
            if e[2]:
                return "(let %s := %s in %s)" % (s.targets[0].id, e[0], t)
            return "(bind %s (fun %s => %s))" % (e[0], s.targets[0].id, t)
        fail(s, "handler statement not recognised")


def eff_exact(text, term):
    norm = U(ast.parse(text).body[0])
    return lambda h, s: term if U(s) == norm else None


def lazy_deco(fn, payload):
    d = decorators(fn)
    if d != ["lazy_wrapper(%s)" % payload]:
        fail(fn, "decorator list is %r" % d)


NUM_CLOSER = """num_closer = 0
for node in self.get_routing_table(node).closest_nodes(payload.target, max_nodes=20):
    if distance(node.id, payload.target) < distance(self.get_my_node_id(node), payload.target):
        num_closer += 1"""
PUNCTURE = """if payload.force_nodes or not values:
    routing_table = self.get_routing_table(node)
    nodes = routing_table.closest_nodes(payload.target, exclude_node=node, max_nodes=MAX_NODES_IN_FIND)
    if nodes:
        packet = self.create_puncture_request(payload.lan_address, peer.address, payload.identifier)
        self.endpoint.send(nodes[0].address, packet)"""


def take_prestep(fn):
    """the handler starts with  node = self.get_requesting_node(peer) ; if not node: return"""
    body = [s for s in fn.body if not (isinstance(s, ast.Expr) and isinstance(s.value, ast.Constant))]
    body = [s for s in body if not (isinstance(s, ast.Expr) and isinstance(s.value, ast.Call) and U(s.value.func).startswith("self.logger."))]
    if len(body) < 2 or U(body[0]) != "node = self.get_requesting_node(peer)" or U(body[1]) != "if not node:\n    return":
        fail(fn, "handler does not start with the get_requesting_node gate")
    return body[2:]


def gen_handlers(repo, out, funs, tree, consts, m_unser):
    C = find_class(tree, "DHTCommunity")
    out.append(EFF)

    def m_check(comp, call):
        if [U(a) for a in call.args] != ["node", "payload.token"] or call.keywords:
            fail(call, "check_token arguments")
        return "(g_check_token hash ident token_secrets token)", B, True

    def m_gen(comp, call):
        if [U(a) for a in call.args] != ["node"] or call.keywords:
            fail(call, "generate_token arguments")
        return "(g_generate_token hash ident token_secrets)", BY, False
    prims_h = [("hash", "bytes -> bytes"), ("ident", "bytes"), ("token_secrets", "list bytes")]

    # ---- get_requesting_node
    grn = find_method(C, "get_requesting_node")
    if arg_names(grn) != ["self", "peer"]:
        fail(grn, "get_requesting_node parameters")
    c = Ctx(consts, funs, subst={"routing_table.has(node.id)": ("known", B, True),
                                 "cast('Node', routing_table.get(node.id)).blocked": ("(g_node_blocked now last_queries)", B, False)})
    h = Handler(c, {}, [eff_exact("node = routing_table.add(node) or node", "ERtAdd"),
                        eff_exact("node.last_queries.append(time.time())", "EStampQuery")],
                skip=["routing_table = self.get_routing_table(peer)", "node = Node(peer.key, peer.address)"], returns=True)
    out.append("Definition gx_get_requesting_node (now : Z) (known : bool) (last_queries : list Z) : res (list eff) :=\n  %s.\n"
               % h.hstmts(grn.body))

    # ---- on_store_request
    osr = find_method(C, "on_store_request")
    lazy_deco(osr, "StoreRequestPayload")
    body = take_prestep(osr)
    # the counting loop over the routing table's answer is C14's business: it must be exactly this text
    texts = [U(s) for s in body]
    want = [U(x) for x in ast.parse(NUM_CLOSER).body]
    pos = [i for i in range(len(texts) - 1) if texts[i:i + 2] == want]
    if len(pos) != 1:
        fail(osr, "the num_closer counting loop was not found in its expected form")
    body = body[:pos[0]] + body[pos[0] + 2:]

    def add_loop(hd, s):
        if not (isinstance(s, ast.For) and U(s.target) == "value" and U(s.iter) == "payload.values" and len(s.body) == 1
                and not s.orelse and isinstance(s.body[0], ast.Expr) and isinstance(s.body[0].value, ast.Call)
                and U(s.body[0].value.func) == "self.add_value"):
            return None
        call = s.body[0].value
        args = kwargs_call(call, ["key", "value", "storage", "max_age"], {"max_age": ast.Name(id="MAX_ENTRY_AGE", ctx=ast.Load())})
        if [U(a) for a in args[:3]] != ["payload.target", "value", "self.get_storage(node)"]:
            fail(s, "add_value arguments")
        ma = hd.expr(args[3])
        if ma[1] != Z or not ma[2]:
            fail(s, "max_age argument")
        return "(EAddValues %s)" % ma[0]
    c = Ctx(consts, funs, subst={"payload.values": ("values", lst(BY), True), "payload.token": ("token", BY, True)},
            methods={"self.check_token": m_check})
    h = Handler(c, {"num_closer": Z}, [add_loop, eff_exact("self.ez_send(peer, StoreResponsePayload(payload.identifier))", "ESendStoreResponse")])
    out.append("(* after the get_requesting_node gate; num_closer is what the counting loop over routing_table.closest_nodes yields *)")
    out.append("Definition gx_on_store_request %s (token : bytes) (values : list bytes) (num_closer : Z) : res (list eff) :=\n  %s.\n"
               % (" ".join("(%s : %s)" % x for x in prims_h), h.hstmts(body)))

    # ---- on_find_request
    ofr = find_method(C, "on_find_request")
    lazy_deco(ofr, "FindRequestPayload")
    body = take_prestep(ofr)

    def m_get(comp, call):
        args = kwargs_call(call, ["key", "starting_point", "limit"], {"starting_point": ast.Constant(value=0), "limit": ast.Constant(value=None)})
        wants = (BY, Z, opt(Z))
        parts = [comp.expr(a, w) for a, w in zip(args, wants)]
        for p_, w in zip(parts, wants):
            if known(p_[1]) and p_[1] != w and not (w == opt(Z) and p_[1] == Z):
                fail(call, "Storage.get argument of type %r" % (p_[1],))
        return comp.bind_all(parts, lambda v: ("(g_get items %s)" % " ".join(coerce(x, p_[1], w, call) for x, p_, w in zip(v, parts, wants)),
                                               lst(BY), False))

    def puncture(hd, s):
        return "EPuncture" if U(s) == U(ast.parse(PUNCTURE).body[0]) else None

    def find_resp(hd, s):
        if not (isinstance(s, ast.Expr) and isinstance(s.value, ast.Call) and U(s.value.func) == "self.ez_send"
                and len(s.value.args) == 2 and isinstance(s.value.args[1], ast.Call) and U(s.value.args[1].func) == "FindResponsePayload"):
            return None
        inner = s.value.args[1]
        if U(s.value.args[0]) != "peer" or s.value.keywords or inner.keywords or len(inner.args) != 4 \
                or U(inner.args[0]) != "payload.identifier" or U(inner.args[3]) != "nodes":
            fail(s, "find-response arguments")
        tok, vals = hd.expr(inner.args[1]), hd.expr(inner.args[2])
        if tok[1] != BY or vals[1] != lst(BY) or not vals[2]:
            fail(s, "find-response token / values types")
        return "(ESendFindResponse %s %s)" % (tok[0] if not tok[2] else "(Ok %s)" % tok[0], vals[0])
    c = Ctx(consts, funs, subst={"payload.target": ("target", BY, True), "payload.offset": ("offset", Z, True),
                                 "payload.force_nodes": ("force_nodes", B, True)},
            methods={"storage.get": m_get, "self.generate_token": m_gen})
    h = Handler(c, {}, [puncture, find_resp], skip=["nodes = []", "storage = self.get_storage(node)"])
    out.append("Definition gx_on_find_request %s (items : %s) (target : bytes) (offset : Z) (force_nodes : bool) : res (list eff) :=\n  %s.\n"
               % (" ".join("(%s : %s)" % x for x in prims_h), coqty(STORAGE_T), h.hstmts(body)))

    # ---- token_maintenance
    tm = find_method(C, "token_maintenance")
    if arg_names(tm) != ["self"]:
        fail(tm, "token_maintenance parameters")

    def cleanup(hd, s):
        if not (isinstance(s, ast.For) and U(s.iter) == "list(self.tokens.items())"):
            return None
        for node in ast.walk(s):
            if isinstance(node, ast.Attribute) and U(node.value) == "self" and node.attr != "tokens":
                fail(node, "the token cleanup loop touches self.%s" % node.attr)
        return "EClientTokenCleanup"
    tsrc = ast.parse(open(os.path.join(repo, COMMUNITY)).read())
    h = Handler(Ctx(consts, funs), {}, [eff_exact("self.token_secrets.append(os.urandom(16))", "ESecretAppend"), cleanup],
                skip=["now = time.time()"])
    out.append("Definition gx_token_maintenance : res (list eff) :=\n  %s.\n" % h.hstmts(tm.body))

    # ---- on_store_peer_request (discovery.py) ; Peer.__eq__ decides `node not in self.store[...]`
    dtree = ast.parse(open(os.path.join(repo, DISCOVERY)).read())
    D = find_class(dtree, "DHTDiscoveryCommunity")
    sp = find_method(D, "on_store_peer_request")
    lazy_deco(sp, "StorePeerRequestPayload")
    ptree = ast.parse(open(os.path.join(repo, "ipv8/peer.py")).read())
    peq = find_method(find_class(ptree, "Peer"), "__eq__")
    peq_body = [U(s) for s in peq.body if not (isinstance(s, ast.Expr) and isinstance(s.value, ast.Constant))]
    if peq_body != ["if not isinstance(other, Peer):\n    return False", "return self.public_key.key_to_bin() == other.public_key.key_to_bin()"]:
        fail(peq, "Peer.__eq__ is not equality of the public key bytes")
    rtree = ast.parse(open(os.path.join(repo, ROUTING)).read())
    if [U(b) for b in find_class(rtree, "Node").bases] != ["Peer"] or any(
            isinstance(n, ast.FunctionDef) and n.name in ("__eq__", "__hash__") for n in find_class(rtree, "Node").body):
        fail(find_class(rtree, "Node"), "Node does not inherit Peer.__eq__")
    c = Ctx(consts, funs, subst={"payload.target": ("target", BY, True), "peer.mid": ("mid", BY, True),
                                 "self.store[payload.target]": ("stored_keys", lst(BY), True), "node": ("pk", BY, True)},
            methods={"self.check_token": m_check})
    c.funs = dict(funs)
    h = Handler(c, {}, [eff_exact("node.last_queries.append(time.time())", "EStampFreshNode"),
                        eff_exact("self.store[payload.target].append(node)", "EStorePeerAppend"),
                        eff_exact("self.ez_send(node, StorePeerResponsePayload(payload.identifier))", "ESendStorePeerResponse")],
                skip=["node = Node(peer.key, peer.address)"])
    out.append("(* pk : the requester's public key (Peer.__eq__ is equality of key bytes); stored_keys : keys of self.store[target] *)")
    out.append("Definition gx_on_store_peer_request %s (token target mid pk : bytes) (stored_keys : list bytes) : res (list eff) :=\n  %s.\n"
               % (" ".join("(%s : %s)" % x for x in prims_h), h.hstmts(sp.body)))


PRELUDE = """(* GENERATED by tools/tr/tr_dht_handlers.py from %s - do not edit *)
From Coq Require Import ZArith List Bool.
From IPV8V Require Import lib.PyErr lib.Bytes lib.BE gen.G15_consts model.M15_dht_store model.M15_py.
Import ListNotations.
Open Scope Z_scope.
"""


def generate(repo=None):
    repo = repo or os.environ.get("VERIF_REPO", "/repo")
    out = [PRELUDE % ", ".join((STORAGE, ROUTING, PAYLOAD, COMMUNITY, DISCOVERY)), "(* ---- %s ---- *)" % STORAGE]
    funs = gen_storage(repo, out)
    out.append("(* ---- %s ---- *)" % ROUTING)
    gen_routing(repo, out)
    out.append("(* ---- %s ---- *)" % PAYLOAD)
    recs = gen_payload(repo, out)
    out.append("(* ---- %s ---- *)" % COMMUNITY)
    tree, consts, m_unser = gen_community_data(repo, out, funs, recs)
    gen_handlers(repo, out, funs, tree, consts, m_unser)
    return "\n".join(out) + "\n"


def write(repo=None, dest=DEST):
    text = generate(repo)
    old = open(dest).read() if os.path.exists(dest) else None
    if old != text:
        with open(dest, "w") as f:
            f.write(text)
    return text
