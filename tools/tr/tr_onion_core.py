"""Expression part of tools/tr/tr_onion.py (fail closed): Python AST -> Gallina over the types of model/M04_onion.v,
model/M05_isolation.v and the monad of model/M04_gen_rt.v.

An expression translates to E(term, ty, pure): a pure term has the Gallina type of `ty`, an impure one `GM <that type>`.
Types (python side tags):
  Z bool bytes addr host dir ctype unit str opaque keys(option key) secret hop peer zlist hoplist ctypelist cell pcons
  circuit / relay / exit           a (table key, record) pair: objects of the routing tables know where they are filed
  payload:<Class>                  a received payload: its fields are separate Gallina variables (env entry is a dict)
  create_cache                     a popped CreateRequestCache
  opt:<T>                          T | None
  ocache                           an optional request cache of a class that is not part of the model (truthiness only)
  anyref                           `circuit or relay`: truthiness and statistics only
"""
from __future__ import annotations

import ast

from .tr_expr import Unsupported, fail

GTYPE = {"Z": "Z", "bool": "bool", "bytes": "bytes", "addr": "addr", "dir": "dir", "ctype": "ctype", "unit": "unit",
         "str": "unit", "opaque": "unit", "keys": "(option key)", "secret": "secret", "hop": "(hop key)", "peer": "peer",
         "zlist": "(list Z)", "hoplist": "(list (hop key))", "cell": "unit", "pcons": "gpayload",
         "circuit": "(Z * circuit key)", "relay": "(Z * relay_route key)", "exit": "(Z * exit_sock key)",
         "create_cache": "create_cache", "ocache": "bool", "anyref": "bool", "host": "addr"}


def gtype(ty):
    if ty.startswith("opt:"):
        return "(option %s)" % gtype(ty[4:])
    if ty.startswith("payload:"):
        return None                      # never a single Gallina value
    return GTYPE[ty]


class E:
    def __init__(self, term, ty, pure=True):
        self.term, self.ty, self.pure = term, ty, pure


# attribute schema: (type, attribute) -> (result type, pure?, term template over {0})
ATTR = {
    ("circuit", "hop"): ("hop", False, "(liftG (circuit_hop (snd {0})))"),
    ("circuit", "ctype"): ("ctype", True, "(c_ctype (snd {0}))"),
    ("circuit", "hops"): ("hoplist", True, "(c_hops (snd {0}))"),
    ("circuit", "hs_session_keys"): ("keys", True, "(c_hs (snd {0}))"),
    ("circuit", "circuit_id"): ("Z", True, "(fst {0})"),
    ("circuit", "relay_early_count"): ("Z", True, "(c_early (snd {0}))"),
    ("relay", "circuit_id"): ("Z", True, "(rr_cid (snd {0}))"),
    ("relay", "hop"): ("hop", True, "(rr_hop (snd {0}))"),
    ("relay", "direction"): ("dir", True, "(rr_dir (snd {0}))"),
    ("relay", "rendezvous_relay"): ("bool", True, "(rr_rdv (snd {0}))"),
    ("exit", "circuit_id"): ("Z", True, "(es_cid (snd {0}))"),
    ("exit", "hop"): ("hop", True, "(es_hop (snd {0}))"),
    ("exit", "enabled"): ("bool", True, "(es_enabled (snd {0}))"),
    ("hop", "address"): ("addr", True, "(h_addr {0})"),
    ("hop", "peer"): ("peer", True, "(hop_peer {0})"),
    ("hop", "keys"): ("keys", True, "(h_keys {0})"),
    ("peer", "address"): ("addr", True, "(pr_addr {0})"),
    ("create_cache", "from_circuit_id"): ("Z", True, "(cr_from {0})"),
    ("create_cache", "to_circuit_id"): ("Z", True, "(cr_to {0})"),
    ("create_cache", "peer"): ("peer", True, "(cr_peer {0})"),
    ("create_cache", "to_peer"): ("peer", True, "(cr_to_peer {0})"),
    ("create_cache", "extend_identifier"): ("Z", True, "(cr_ident {0})"),
    ("pcons", "circuit_id"): ("Z", False, "(liftG (p_cid {0}))"),
    ("pcons", "msg_id"): ("Z", True, "(p_mid {0})"),
}
CELL_ATTR = {"circuit_id": ("Z", "cl_cid"), "message": ("bytes", "cl_msg"), "plaintext": ("bool", "cl_plain"),
             "relay_early": ("bool", "cl_early")}
# statistics that the model does not carry: reads abort, writes are dropped (their right-hand side must be pure)
UNMODELLED_ATTRS = {"bytes_up", "bytes_down", "last_activity"}
TABLES = {"circuits": "circuit", "relay_from_to": "relay", "relays": "relay", "exit_sockets": "exit"}
TABLE_PROJ = {"circuit": "circuits", "relay": "relays", "exit": "exits"}
FIELD_TY = {"I": "Z", "H": "Z", "B": "Z", "address": "addr", "ip_address": "addr", "raw": "bytes", "varlenH": "bytes",
            "32s": "bytes", "20s": "bytes"}
FIELD_VAL = {"Z": "VInt", "addr": "VAddr", "bytes": "VBytes"}
FIELD_FMT = {"I": "FStruct [PU 4]", "H": "FStruct [PU 2]", "B": "FStruct [PU 1]", "address": "FAddr false", "raw": "FRaw"}
# request caches: modelled classes -> (field of cnode, key role); the others are oracles
CACHES = {"CreatedRequestCache": "cn_created", "CreateRequestCache": "cn_create"}
ORACLE_CACHES = {"RetryRequestCache": 0, "PingRequestCache": 1, "TestRequestCache": 2}
# calls whose value carries nothing the model looks at, and that change nothing the model carries
PURE_OPAQUE_CALLS = {"self.get_candidates", "self.candidates.get", "self.serializer.pack", "str", "len", "cast",
                     "time.time", "float"}
PURE_OPAQUE_METHODS = {"key_to_bin", "encrypt_str"}


class Fn:
    """one function being translated"""

    def __init__(self, tr, spec, node):
        self.tr, self.spec, self.node = tr, spec, node
        self.self_cls = spec["cls"]
        self.n = 0

    def tmp(self, base="t"):
        self.n += 1
        return "%s%d_" % (base, self.n)


class X:
    """expression translator for one function; env: python name -> E | dict (payload fields)"""

    def __init__(self, fn: Fn):
        self.fn, self.tr = fn, fn.tr

    # ---- plumbing ----
    def bind_all(self, parts, build):
        names, binds = [], []
        for p in parts:
            if p.pure:
                names.append(p.term)
            else:
                n = self.fn.tmp()
                names.append(n)
                binds.append((n, p.term))
        r = build(names)
        if not binds:
            return r
        inner = r.term if not r.pure else "(retG %s)" % r.term
        for n, t in reversed(binds):
            inner = "(bindG %s (fun %s =>\n %s))" % (t, n, inner)
        return E(inner, r.ty, False)

    def expr(self, n, env):
        m = getattr(self, "e_" + type(n).__name__, None)
        if m is None:
            fail(n)
        return m(n, env)

    def pure_opaque(self, n, env):
        """is this expression free of effects on (and of reads that could raise in) the modelled state?"""
        for sub in ast.walk(n):
            if isinstance(sub, (ast.Name, ast.Attribute, ast.Constant, ast.Load, ast.JoinedStr, ast.FormattedValue, ast.List,
                                ast.Tuple, ast.Starred, ast.ListComp, ast.DictComp, ast.comprehension, ast.Store, ast.Slice,
                                ast.Subscript, ast.BinOp, ast.Add, ast.Compare, ast.NotIn, ast.In, ast.keyword, ast.Mod,
                                ast.BoolOp, ast.And, ast.Or, ast.Not, ast.UnaryOp, ast.Eq, ast.NotEq, ast.Sub)):
                continue
            if isinstance(sub, ast.Call):
                f = ast.unparse(sub.func)
                if f in PURE_OPAQUE_CALLS or (isinstance(sub.func, ast.Attribute) and sub.func.attr in PURE_OPAQUE_METHODS):
                    continue
            return False
        return True

    def truthy(self, e: E, node):
        """python truthiness of a value"""
        def b(t):
            ty = e.ty
            if ty in ("bool", "ocache", "anyref"):
                return E(t, "bool")
            if ty.startswith("opt:"):
                return E("(is_some %s)" % t, "bool")
            if ty == "keys":
                return E("(is_some %s)" % t, "bool")
            if ty == "Z":
                return E("(negb (%s =? 0))" % t, "bool")
            if ty in ("zlist", "hoplist"):
                return E("(nonempty %s)" % t, "bool")
            if ty == "bytes":
                return E("(negb (blen %s =? 0))" % t, "bool")
            if ty in ("addr", "circuit", "relay", "exit", "hop", "peer"):
                return E("true", "bool")          # a 2-tuple / an object without __bool__ and __len__
            fail(node, "truthiness of %s" % ty)
        return self.bind_all([e], lambda ns: b(ns[0]))

    # ---- leaves ----
    def e_Constant(self, n, env):
        v = n.value
        if v is None:
            return E("None", "opt:?")
        if isinstance(v, bool):
            return E("true" if v else "false", "bool")
        if isinstance(v, int):
            return E(str(v) if v >= 0 else "(%d)" % v, "Z")
        if isinstance(v, str):
            return E("tt", "str")
        if isinstance(v, bytes):
            return E("[" + "; ".join(str(x) for x in v) + "]", "bytes")
        fail(n)

    def e_JoinedStr(self, n, env):
        if not self.pure_opaque(n, env):
            fail(n, "f-string with effects")
        return E("tt", "str")

    def e_Name(self, n, env):
        if n.id in env:
            v = env[n.id]
            if isinstance(v, dict):
                fail(n, "a payload object used as a value")
            if v.ty == "poisoned":
                fail(n, "value is stale here: %s" % v.term)
            return v
        c = self.tr.const(n.id)
        if c is not None:
            return c
        fail(n, "unknown name")

    def e_Tuple(self, n, env):
        # ("0.0.0.0", 0): the null address
        if (len(n.elts) == 2 and isinstance(n.elts[0], ast.Constant) and n.elts[0].value == "0.0.0.0"
                and isinstance(n.elts[1], ast.Constant) and n.elts[1].value == 0):
            return E("null_addr", "addr")
        fail(n)

    def e_List(self, n, env):
        parts = [self.expr(x, env) for x in n.elts]
        if not parts or any(not p.pure for p in parts):
            fail(n)
        tys = {p.ty for p in parts}
        if tys == {"Z"}:
            return E("[" + "; ".join(p.term for p in parts) + "]", "zlist")
        if tys == {"ctype"}:
            return E("[" + "; ".join(p.term for p in parts) + "]", "ctypelist")
        fail(n)

    def e_IfExp(self, n, env):
        t = n.test
        if isinstance(t, ast.Name) and isinstance(env.get(t.id), E) and env[t.id].ty.startswith("opt:") and env[t.id].pure:
            v = env[t.id]
            e1 = dict(env)
            e1[t.id] = E("v_%s" % t.id, v.ty[4:])
            a, b = self.expr(n.body, e1), self.expr(n.orelse, env)
            a, b = self.unify(a, b, n)
            if a.pure and b.pure:
                return E("(match %s with Some v_%s => %s | None => %s end)" % (v.term, t.id, a.term, b.term), a.ty)
            return E("(match %s with Some v_%s => %s | None => %s end)" % (v.term, t.id, self.lift(a), self.lift(b)), a.ty, False)
        c = self.truthy(self.expr(n.test, env), n)
        a, b = self.expr(n.body, env), self.expr(n.orelse, env)
        a, b = self.unify(a, b, n)
        if a.pure and b.pure:
            return self.bind_all([c], lambda ns: E("(if %s then %s else %s)" % (ns[0], a.term, b.term), a.ty))
        la, lb = self.lift(a), self.lift(b)
        return self.bind_all([c], lambda ns: E("(if %s then %s else %s)" % (ns[0], la, lb), a.ty, False))

    @staticmethod
    def lift(e):
        return e.term if not e.pure else "(retG %s)" % e.term

    def unify(self, a, b, node):
        if a.ty == b.ty:
            return a, b
        if a.ty == "opt:?" and b.ty.startswith("opt:"):
            return E(a.term, b.ty, a.pure), b
        if b.ty == "opt:?" and a.ty.startswith("opt:"):
            return a, E(b.term, a.ty, b.pure)
        if b.ty == "opt:?" and a.ty == "keys":
            return a, E(b.term, "keys")
        fail(node, "branches of different types %s / %s" % (a.ty, b.ty))

    # ---- operators ----
    def e_UnaryOp(self, n, env):
        if isinstance(n.op, ast.Not):
            t = self.truthy(self.expr(n.operand, env), n)
            return self.bind_all([t], lambda ns: E("(negb %s)" % ns[0], "bool"))
        fail(n)

    def e_BoolOp(self, n, env):
        parts = [self.expr(v, env) for v in n.values]
        if isinstance(n.op, ast.Or) and all(p.ty.startswith("opt:") for p in parts) and len({p.ty for p in parts}) > 1:
            ts = [self.truthy(p, n) for p in parts]       # `circuit or relay`: only good for truthiness / statistics
            if not all(t.pure for t in ts):
                fail(n)
            return E("(" + " || ".join(t.term for t in ts) + ")", "anyref")
        ts = [self.truthy(p, n) for p in parts]
        op, mop = ("&&", "andG") if isinstance(n.op, ast.And) else ("||", "orG")
        acc = ts[-1]
        for t in reversed(ts[:-1]):
            if acc.pure:
                acc = self.bind_all([t], lambda ns, acc=acc: E("(%s %s %s)" % (ns[0], op, acc.term), "bool"))
            else:
                acc = E("(%s %s %s)" % (mop, self.lift(t), acc.term), "bool", False)
        return acc

    def e_BinOp(self, n, env):
        a, b = self.expr(n.left, env), self.expr(n.right, env)
        if isinstance(n.op, ast.Add) and a.ty == b.ty == "Z":
            return self.bind_all([a, b], lambda ns: E("(%s + %s)" % tuple(ns), "Z"))
        if isinstance(n.op, ast.Add) and a.ty == b.ty == "bytes":
            return self.bind_all([a, b], lambda ns: E("(%s ++ %s)" % tuple(ns), "bytes"))
        fail(n)

    def cmp1(self, op, a: E, b: E, node):
        def build(ns):
            x, y = ns
            ta, tb = a.ty, b.ty
            if isinstance(op, (ast.Eq, ast.NotEq)):
                if "opaque" in (ta, tb):
                    # a decision on a value the model does not carry: an oracle, one per occurrence in the source
                    return E("(o_opaque O %d)" % self.tr.opaque_index(node), "bool")
                if ta == tb == "Z":
                    r = "(%s =? %s)" % (x, y)
                elif ta == tb == "bytes":
                    r = "(bytes_eqb %s %s)" % (x, y)
                elif ta == tb == "addr":
                    r = "(is_null %s)" % x if y == "null_addr" else "(is_null %s)" % y if x == "null_addr" else "(addr_eqb %s %s)" % (x, y)
                elif ta == tb == "host":
                    r = "(ip_eqb %s %s)" % (x, y)
                elif ta == tb == "peer":
                    r = "(peer_eqb %s %s)" % (x, y)
                elif ta == tb == "dir":
                    r = "(dir_eqb %s %s)" % (x, y)
                elif ta == tb == "ctype":
                    r = "(ctype_eqb %s %s)" % (x, y)
                else:
                    fail(node, "== on %s / %s" % (ta, tb))
                return E(r if isinstance(op, ast.Eq) else "(negb %s)" % r, "bool")
            if isinstance(op, (ast.Lt, ast.LtE, ast.Gt, ast.GtE)) and ta == tb == "Z":
                sym = {ast.Lt: "<?", ast.LtE: "<=?", ast.Gt: ">?", ast.GtE: ">=?"}[type(op)]
                return E("(%s %s %s)" % (x, sym, y), "bool")
            if isinstance(op, (ast.In, ast.NotIn)):
                if tb == "zlist" and ta == "Z":
                    r = "(existsb (Z.eqb %s) %s)" % (x, y)
                elif tb == "ctypelist" and ta == "ctype":
                    r = "(existsb (ctype_eqb %s) %s)" % (x, y)
                elif tb.startswith("table:") and ta == "Z":
                    r = "(has %s %s)" % (x, y)
                else:
                    fail(node, "in on %s / %s" % (ta, tb))
                return E(r if isinstance(op, ast.In) else "(negb %s)" % r, "bool")
            if isinstance(op, (ast.Is, ast.IsNot)) and y == "None" and (ta.startswith("opt:") or ta == "keys"):
                return E("(negb (is_some %s))" % x if isinstance(op, ast.Is) else "(is_some %s)" % x, "bool")
            fail(node, "comparison")
        return self.bind_all([a, b], build)

    def e_Compare(self, n, env):
        if len(n.ops) != 1:
            fail(n, "comparison chain")
        return self.cmp1(n.ops[0], self.expr(n.left, env), self.expr(n.comparators[0], env), n)

    def e_Subscript(self, n, env):
        base = self.expr(n.value, env)
        s = n.slice
        if base.ty.startswith("table:"):
            k = self.expr(s, env)
            if k.ty != "Z":
                fail(n)
            return self.bind_all([base, k], lambda ns: E("(liftG (tab_item %s %s))" % (ns[1], ns[0]), base.ty[6:], False))
        if base.ty == "bytes":
            if isinstance(s, ast.Slice):
                if s.step is not None:
                    fail(n)
                lo = self.expr(s.lower, env) if s.lower is not None else None
                hi = self.expr(s.upper, env) if s.upper is not None else None
                for b in (lo, hi):
                    if b is not None and (b.ty != "Z" or not b.pure):
                        fail(n)
                return self.bind_all([base], lambda ns: E("(slice %s %s %s)" % (
                    ns[0], "(Some %s)" % lo.term if lo else "None", "(Some %s)" % hi.term if hi else "None"), "bytes"))
            i = self.expr(s, env)
            if i.ty != "Z":
                fail(n)
            return self.bind_all([base, i], lambda ns: E("(liftG (idx %s %s))" % tuple(ns), "Z", False))
        if base.ty == "addr" and isinstance(s, ast.Constant) and s.value == 0:
            return E(base.term, "host", base.pure)
        fail(n, "subscript on %s" % base.ty)

    def e_Await(self, n, env):
        # awaiting a translated coroutine function that itself never suspends is an ordinary call
        if isinstance(n.value, ast.Call):
            f = n.value.func
            if isinstance(f, ast.Attribute) and isinstance(f.value, ast.Name) and f.value.id == "self":
                spec = self.tr.lookup(self.fn.self_cls, f.attr)
                if spec is not None and spec.get("is_async") and not spec.get("has_await"):
                    return self.call_translated(spec, n.value, env)
            # transports of an exit socket are not part of the model
            if isinstance(f, ast.Attribute) and f.attr in ("close", "shutdown_task_manager") and not n.value.args:
                b = self.expr(f.value, env)
                if b.ty == "exit" and b.pure:
                    return E("tt", "unit")
        fail(n, "await")

    # ---- attributes ----
    def e_Attribute(self, n, env):
        if isinstance(n.value, ast.Name) and n.value.id == "self":
            return self.self_attr(n, env)
        # payload fields
        if isinstance(n.value, ast.Name) and isinstance(env.get(n.value.id), dict):
            d = env[n.value.id]
            if n.attr not in d:
                fail(n, "payload has no such field")
            return d[n.attr]
        # SomePayload.msg_id
        if isinstance(n.value, ast.Name) and n.attr == "msg_id" and n.value.id in self.tr.payloads:
            return E(str(self.tr.payloads[n.value.id]["msg_id"]), "Z")
        src = ast.unparse(n)
        if src in ("self.settings.peer_flags",):
            return self.state_read("n_flags (cn_tab c_)", "zlist")
        if src == "self.settings.max_joined_circuits":
            return self.state_read("cn_max_joined c_", "Z")
        if src == "self.settings.remove_tunnel_delay":
            return E("(o_delay O)", "Z")
        base = self.expr(n.value, env)
        if base.ty == "cell":
            if n.attr not in CELL_ATTR:
                fail(n)
            ty, proj = CELL_ATTR[n.attr]
            return E("(bindG cellG (fun c_ => retG (%s c_)))" % proj, ty, False)
        ty = base.ty
        if ty == "ocache" and base.pure:
            return E("tt", "opaque")             # a field of a request cache that is not part of the model
        if ty.startswith("opt:") and ty[4:] in ("circuit", "relay", "exit", "hop"):
            # attribute of a possibly-None object: AttributeError when it is None
            inner = ty[4:]
            if (inner, n.attr) not in ATTR:
                fail(n, "attribute %s of %s is not part of the model" % (n.attr, inner))
            rty, pure, tmpl = ATTR[(inner, n.attr)]
            nm = self.fn.tmp("o")
            body = tmpl.format(nm)
            return self.bind_all([base], lambda ns: E("(bindG (liftG (deref %s)) (fun %s => %s))" % (
                ns[0], nm, body if not pure else "(retG %s)" % body), rty, False))
        if (ty, n.attr) not in ATTR:
            fail(n, "attribute %s of %s is not part of the model" % (n.attr, ty))
        rty, pure, tmpl = ATTR[(ty, n.attr)]
        return self.bind_all([base], lambda ns: E(tmpl.format(ns[0]), rty, pure))

    def state_read(self, body, ty):
        return E("(getG (fun c_ => %s))" % body, ty, False)

    def self_attr(self, n, env):
        cls, a = self.fn.self_cls, n.attr
        if cls in ("TunnelCommunity", "PythonCryptoEndpoint") and a in TABLES:
            kind = TABLES[a]
            return self.state_read("%s c_" % TABLE_PROJ[kind], "table:" + kind)
        if (cls, a) in (("TunnelCommunity", "_prefix"), ("PythonCryptoEndpoint", "prefix")):
            return self.state_read("n_prefix (cn_tab c_)", "bytes")
        if (cls, a) == ("PythonCryptoEndpoint", "max_relay_early"):
            return self.state_read("n_max_early (cn_tab c_)", "Z")
        if (cls, a) == ("TunnelCommunity", "data_message_ids"):
            return self.state_read("n_data_ids (cn_tab c_)", "zlist")
        if cls == "TunnelExitSocket":
            me = env["self"]
            if (me.ty, a) in ATTR:
                rty, pure, tmpl = ATTR[(me.ty, a)]
                return E(tmpl.format(me.term), rty, pure)
        fail(n, "self.%s is not part of the model" % a)

    # ---- calls ----
    def args_of(self, spec, call, env, skip=0):
        """bind positional / keyword arguments against the callee's own signature (defaults from its AST)"""
        a = spec["node"].args
        names = [x.arg for x in a.args][1:]              # without self
        defaults = dict(zip(names[len(names) - len(a.defaults):], a.defaults))
        given = {}
        if any(isinstance(x, ast.Starred) for x in call.args) or len(call.args) > len(names):
            fail(call, "argument list")
        for nm, x in zip(names, call.args):
            given[nm] = x
        for kw in call.keywords:
            if kw.arg is None or kw.arg not in names or kw.arg in given:
                fail(call, "keyword argument")
            given[kw.arg] = kw.value
        out = []
        for nm, ty in zip(names, spec["params"]):
            node = given.get(nm, defaults.get(nm))
            if node is None:
                fail(call, "missing argument %s" % nm)
            if ty in ("opaque", "cands"):
                if not self.pure_opaque(node, env):
                    fail(node, "argument with an effect where the model keeps nothing")
                out.append(E("tt", "opaque") if ty == "opaque" else E("(o_cands O)", "cands"))
                continue
            if ty.startswith("payload:"):
                d = env.get(node.id) if isinstance(node, ast.Name) else None
                if not isinstance(d, dict):
                    fail(node, "payload argument")
                out.append(E("(%s)" % ", ".join(d[f].term for f in self.tr.payloads[ty[8:]]["names"]), ty))
                continue
            if ty == "cell":
                e = self.expr(node, env)
                if e.ty != "cell" or not e.pure:
                    fail(node, "cell argument")
                out.append(E("tt", "cell"))
                continue
            out.append(self.coerce(self.expr(node, env), ty, node, env))
        return out

    def coerce(self, e: E, ty, node, env):
        if e.ty == ty:
            return e
        if ty == "Z" and e.ty == "bool":                 # destroy: bool = False is used as the reason code
            return self.bind_all([e], lambda ns: E("(if %s then 1 else 0)" % ns[0], "Z")) if e.term not in ("true", "false") \
                else E("1" if e.term == "true" else "0", "Z")
        if ty.startswith("opt:") and e.ty == "opt:?":
            return E(e.term, ty, e.pure)
        if ty.startswith("opt:") and e.ty == ty[4:]:
            return self.bind_all([e], lambda ns: E("(Some %s)" % ns[0], ty))
        if ty == "str" and e.ty in ("str", "opaque"):
            return E("tt", "str")
        if ty == "keys" and e.ty == "opt:?":
            return E("None", "keys")
        fail(node, "argument of type %s where %s is expected" % (e.ty, ty))

    def call_translated(self, spec, call, env):
        args = self.args_of(spec, call, env)
        return self.bind_all(args, lambda ns: E("(%s O%s)" % (spec["coq"], "".join(" " + x for x in ns)), spec["rty"], False))

    def e_Call(self, n, env):
        return self.tr.calls.call(self, n, env)
