"""Statement part of tools/tr/tr_onion.py (fail closed)."""
from __future__ import annotations

import ast

from .tr_expr import Unsupported, fail
from .tr_onion_core import CELL_ATTR, TABLES, TABLE_PROJ, UNMODELLED_ATTRS, E, Fn, X, gtype


def payload_tuple_type(tr, cls):
    return "(" + " * ".join(gtype(t) for t in tr.payloads[cls]["types"]) + ")"


class S(X):
    """statements of one function; k(env) yields the term for the rest of the enclosing block"""

    def opaque_or(self, node, env):
        """translate an expression; if it is not part of the model but is a plain read, it is an opaque value"""
        try:
            return self.expr(node, env)
        except Unsupported:
            if self.pure_opaque(node, env):
                return E("tt", "opaque")
            raise

    def seq(self, e: E, k_term):
        if e.pure:
            return k_term
        return "(bindG %s (fun _ =>\n %s))" % (e.term, k_term)

    def bind_name(self, name, e: E, env, k):
        """name = e; then k"""
        if e.ty == "poisoned":
            fail(None, e.term)
        v = "v_%s" % name
        if e.ty in ("cell",):
            env[name] = E("tt", "cell")
            return self.seq(e, k(env))
        if e.ty in ("opaque", "str", "unit"):
            env[name] = E("tt", e.ty if e.ty != "unit" else "opaque")
            return self.seq(e, k(env))
        if e.ty.startswith("apcons:"):
            if e.pure:
                env[name] = e
                return k(env)
            fail(None, "payload constructor with effects")
        env[name] = E(v, e.ty)
        if e.pure:
            return "(let %s := %s in\n %s)" % (v, e.term, k(env))
        return "(bindG %s (fun %s =>\n %s))" % (e.term, v, k(env))

    def bind_payload(self, name, cls, vs_term, env, k):
        """name = the payload of class cls decoded from the value list vs_term"""
        p = self.tr.payloads[cls]
        self.tr.unpacked.add(cls)
        if p["fmt"] is None:
            raise Unsupported("payload class %s has a field format outside the wire formats of the model" % cls)
        self.fn.n += 1
        vs = ["p%d_%s" % (self.fn.n, f) for f in p["names"]]
        env[name] = {f: E(v, t) for f, v, t in zip(p["names"], vs, p["types"])}
        return "(bindG (liftG (g_as_%s %s)) (fun '(%s) =>\n %s))" % (cls, vs_term, ", ".join(vs), k(env))

    # ------------------------------------------------------------------------------------------
    def block(self, stmts, env, k, ret):
        if not stmts:
            return k(env)
        s, rest = stmts[0], stmts[1:]

        def k2(env2):
            return self.block(rest, env2, k, ret)
        m = getattr(self, "s_" + type(s).__name__, None)
        if m is None:
            fail(s)
        return m(s, env, k2, ret, rest)

    def s_Pass(self, s, env, k, ret, rest):
        return k(env)

    def s_Expr(self, s, env, k, ret, rest):
        v = s.value
        if isinstance(v, ast.Constant) and isinstance(v.value, str):
            return k(env)
        if not isinstance(v, (ast.Call, ast.Await)):
            fail(s)
        if isinstance(v, ast.Call) and ast.unparse(v.func) == "self.request_cache.add" and len(v.args) == 1:
            e = self.tr.calls.cache_add(self, v, env)
        else:
            e = self.expr(v, env)
        return self.seq(e, k(env))

    def s_Return(self, s, env, k, ret, rest):
        return ret(s.value, env)

    def s_If(self, s, env, k, ret, rest):
        # if <cond>: await sleep(<delay>)  -- the rest of a @task function happens later
        if (len(s.body) == 1 and not s.orelse and isinstance(s.body[0], ast.Expr) and isinstance(s.body[0].value, ast.Await)
                and isinstance(s.body[0].value.value, ast.Call) and ast.unparse(s.body[0].value.value.func) == "sleep"):
            kind = self.fn.spec.get("task")
            if kind is None or (self.fn.spec.get("later") is not None and self.fn.spec.get("later_at") != id(s)) \
                    or not self.fn.toplevel(s):
                fail(s, "await sleep outside the removal pattern")
            d = self.expr(s.body[0].value.value.args[0], env)
            if d.term != "(o_delay O)":
                fail(s, "sleep of another duration")
            c = self.truthy(self.expr(s.test, env), s)
            self.fn.spec["later"] = rest
            self.fn.spec["later_at"] = id(s)
            cid = env[self.fn.param_names[0]]
            sched = "(modG (fun c_ => add_pending c_ [%s %s]))" % (kind, cid.term)
            now = k(dict(env))
            return self.bind_all([c], lambda ns: E("(if %s\n then %s\n else %s)" % (ns[0], sched, now), "unit", False)).term
        if self.opaque_if(s, env):
            # a decision about values the model does not look at, that only binds such values
            for st in s.body + s.orelse:
                if isinstance(st, ast.Assign):
                    env[st.targets[0].id] = E("tt", "opaque")
            return k(env)
        return self.cond(s.test, env, lambda e: self.block(s.body, e, k, ret), lambda e: self.block(s.orelse, e, k, ret))

    def opaque_if(self, s, env):
        def opaque_name(n):
            return isinstance(n, ast.Name) and isinstance(env.get(n.id), E) and env[n.id].ty == "opaque"
        if not opaque_name(s.test):
            return False
        for st in s.body + s.orelse:
            if isinstance(st, ast.Assign) and len(st.targets) == 1 and isinstance(st.targets[0], ast.Name) \
                    and self.pure_opaque(st.value, env) and (st.targets[0].id not in env or opaque_name(st.targets[0])):
                continue
            return False
        return True

    def cond(self, test, env, then_k, else_k):
        """if test: then_k else: else_k.  `and` nests, `not` swaps, a name that may be None is matched on (and is the
        object itself in the branch where it is not None)."""
        if isinstance(test, ast.BoolOp) and isinstance(test.op, ast.And):
            first = test.values[0]
            rest = test.values[1] if len(test.values) == 2 else ast.BoolOp(op=ast.And(), values=test.values[1:])
            return self.cond(first, env, lambda e: self.cond(rest, e, then_k, else_k), else_k)
        if isinstance(test, ast.UnaryOp) and isinstance(test.op, ast.Not):
            return self.cond(test.operand, env, else_k, then_k)
        if isinstance(test, ast.Compare) and len(test.ops) == 1 and isinstance(test.ops[0], (ast.Is, ast.IsNot)) \
                and isinstance(test.comparators[0], ast.Constant) and test.comparators[0].value is None \
                and isinstance(test.left, ast.Name) and isinstance(env.get(test.left.id), E) \
                and env[test.left.id].ty.startswith("opt:") and env[test.left.id].pure:
            nm = ast.Name(id=test.left.id, ctx=ast.Load())
            nm.is_none_test = True
            return self.cond(nm, env, else_k, then_k) if isinstance(test.ops[0], ast.Is) else self.cond(nm, env, then_k, else_k)
        if isinstance(test, ast.Name) and isinstance(env.get(test.id), E) and env[test.id].ty.startswith("opt:") \
                and (env[test.id].ty[4:] in ("circuit", "relay", "exit") or getattr(test, "is_none_test", False)) \
                and env[test.id].pure:
            v = env[test.id]
            e1 = dict(env)
            e1[test.id] = E("v_%s" % test.id, v.ty[4:])
            e1[test.id].detached = getattr(v, "detached", False)
            return "(match %s with\n | Some v_%s => %s\n | None => %s\n end)" % (v.term, test.id, then_k(e1), else_k(dict(env)))
        c = self.truthy(self.expr(test, env), test)
        a = then_k(dict(env))
        b = else_k(dict(env))
        return self.bind_all([c], lambda ns: E("(if %s\n then %s\n else %s)" % (ns[0], a, b), "unit", False)).term

    def s_Try(self, s, env, k, ret, rest):
        if s.orelse or s.finalbody or len(s.handlers) != 1:
            fail(s, "try shape")
        h = s.handlers[0]
        names = [ast.unparse(x) for x in (h.type.elts if isinstance(h.type, ast.Tuple) else [h.type])] if h.type else ["Exception"]
        exn = {"CryptoException": "CryptoError", "Exception": None}
        if any(nm not in exn for nm in names):
            fail(h, "exception class")
        catch_all = "Exception" in names
        rty = self.fn.gret

        def ret_in(v, env2):
            # a return inside the protected region / the handler: Some <value>
            return "(bindG %s (fun r_ => retG (Some r_)))" % ret(v, env2)

        def fall(env2):
            return "(retG None)"
        before = set(env)
        body = self.block(s.body, dict(env), fall, ret_in)
        henv = dict(env)
        if h.name:
            henv[h.name] = E("tt", "opaque")
        hb = self.block(h.body, henv, fall, ret_in)
        if not catch_all:
            hb = "(if existsb (exn_eqb e_) [%s] then %s else raiseG e_)" % ("; ".join(exn[nm] for nm in names), hb)
        # names first bound inside the try are not visible after it (the handler path would not have them)
        after = k({nm: v for nm, v in env.items() if nm in before})
        return ("(bindG (tryG %s (fun e_ =>\n %s)) (fun o_ =>\n match o_ with Some r_ => retG r_ | None =>\n %s end))"
                % (body, hb, after))

    def s_AnnAssign(self, s, env, k, ret, rest):
        if s.value is None or not isinstance(s.target, ast.Name):
            fail(s)
        return self.bind_name(s.target.id, self.opaque_or(s.value, env), env, k)

    def s_Assign(self, s, env, k, ret, rest):
        if len(s.targets) != 1:
            fail(s, "chained assignment")
        t, v = s.targets[0], s.value
        if isinstance(t, ast.Name):
            if isinstance(v, ast.Name) and v.id in env and isinstance(env[v.id], E) and env[v.id].ty in (
                    "cell", "circuit", "relay", "exit", "opt:circuit", "opt:relay", "opt:exit"):
                fail(s, "a second name for an object (aliases are not tracked)")
            return self.bind_name(t.id, self.opaque_or(v, env), env, k)
        if isinstance(t, ast.Tuple):
            return self.tuple_assign(s, t, v, env, k)
        if isinstance(t, ast.Attribute):
            return self.attr_store(s, t, v, env, k, None)
        if isinstance(t, ast.Subscript):
            # self.<table>[k] = <object>
            b = t.value
            if isinstance(b, ast.Attribute) and isinstance(b.value, ast.Name) and b.value.id == "self" and b.attr in TABLES:
                kind = TABLES[b.attr]
                key = self.coerce(self.expr(t.slice, env), "Z", s, env)
                val = self.coerce(self.expr(v, env), kind, s, env)
                self.tr.calls.detached(self, env, kind, keep=v.id if isinstance(v, ast.Name) else None)
                e = self.bind_all([key, val], lambda ns: E("(modG (put_%s %s (snd %s)))" % (kind, ns[0], ns[1]), "unit", False))
                return self.seq(e, k(env))
        fail(s, "assignment target")

    def tuple_assign(self, s, t, v, env, k):
        names = [x.id if isinstance(x, ast.Name) else None for x in t.elts]
        if None in names or not isinstance(v, ast.Call):
            fail(s)
        f = ast.unparse(v.func)
        if f == "self.serializer.unpack_serializable" and len(names) == 2 and len(v.args) == 2 and len(v.keywords) == 1 \
                and v.keywords[0].arg == "offset" and isinstance(v.keywords[0].value, ast.Constant) \
                and isinstance(v.args[0], ast.Name):
            cls = self.fn.spec.get("subst", {}).get(v.args[0].id, v.args[0].id)
            if cls not in self.tr.payloads:
                fail(s, "payload class")
            data = self.coerce(self.expr(v.args[1], env), "bytes", s, env)
            off = v.keywords[0].value.value
            env[names[1]] = E("tt", "opaque")
            inner = self.bind_payload(names[0], cls, "vs_", env, k)
            return self.bind_all([data], lambda ns: E("(bindG (liftG (unpack_msg no_keys g_fmt_%s %s %d)) (fun '(vs_, _) =>\n %s))"
                                                      % (cls, ns[0], off, inner), "unit", False)).term
        if f == "self.crypto.generate_diffie_shared_secret" and len(names) == 3 and len(v.args) == 1 and not v.keywords:
            a = self.coerce(self.expr(v.args[0], env), "bytes", s, env)
            vs = ["v_%s" % nm for nm in names]
            for nm, ty in zip(names, ("secret", "bytes", "bytes")):
                env[nm] = E("v_%s" % nm, ty)
            return self.bind_all([a], lambda ns: E("(bindG (liftG (o_dh O %s)) (fun '(%s) =>\n %s))" % (ns[0], ", ".join(vs), k(env)),
                                                   "unit", False)).term
        fail(s, "tuple assignment")

    def attr_store(self, s, t, v, env, k, op):
        """obj.attr = v  /  obj.attr += v"""
        if t.attr in UNMODELLED_ATTRS:
            if not self.pure_opaque(v, env):
                self.expr(v, env)                          # must at least be translatable (and is then free of effects or aborts)
            b = self.expr(t.value, env)
            if not b.pure:
                fail(s, "statistics store through an expression with effects")
            return k(env)
        b = self.expr(t.value, env)
        val = self.expr(v, env)
        keep = t.value.id if isinstance(t.value, ast.Name) else None
        if b.ty == "cell" and t.attr in ("plaintext", "relay_early") and op is None:
            setter = {"plaintext": "set_plain", "relay_early": "set_early"}[t.attr]
            val = self.truthy(val, s) if val.ty != "bool" else val
            e = self.bind_all([val], lambda ns: E("(cell_updG (%s %s))" % (setter, ns[0]), "unit", False))
            return self.seq(e, k(env))
        if b.ty == "circuit" and t.attr == "relay_early_count" and b.pure and keep:
            if getattr(b, "detached", False):
                fail(s, "store through a name whose table entry may have been replaced")
            if op is not None and not isinstance(op, ast.Add):
                fail(s)
            val = self.coerce(val, "Z", s, env)
            new = "(c_early (snd %s) + %s)" if op is not None else "%s%s"
            def build(ns):
                nv = "(c_early (snd %s) + %s)" % (b.term, ns[0]) if op is not None else ns[0]
                return E("(fst %s, circ_set_early %s (snd %s))" % (b.term, nv, b.term), "circuit")
            upd = self.bind_all([val], build)
            self.tr.calls.mutated(self, env, "circuit", keep)
            v2 = "v_%s" % keep
            self.fn.n += 1
            v2 = "%s%d" % (v2, self.fn.n)
            env[keep] = E(v2, "circuit")
            rest = "(bindG (modG (put_circuit (fst %s) (snd %s))) (fun _ =>\n %s))" % (v2, v2, k(env))
            if upd.pure:
                return "(let %s := %s in\n %s)" % (v2, upd.term, rest)
            return "(bindG %s (fun %s =>\n %s))" % (upd.term, v2, rest)
        fail(s, "store to %s of %s" % (t.attr, b.ty))

    def s_AugAssign(self, s, env, k, ret, rest):
        if isinstance(s.target, ast.Attribute):
            return self.attr_store(s, s.target, s.value, env, k, s.op)
        fail(s)


class F(Fn):
    def toplevel(self, stmt):
        return stmt in self.body


def default_of(node):
    return node


def translate_function(tr, spec, as_later=False):
    fn = F(tr, spec, spec["node"])
    node = spec["node"]
    body = list(node.body)
    if body and isinstance(body[0], ast.Expr) and isinstance(body[0].value, ast.Constant) and isinstance(body[0].value.value, str):
        body = body[1:]
    fn.body = body
    a = node.args
    if a.vararg or a.kwarg or a.kwonlyargs or a.posonlyargs:
        fail(node, "signature")
    names = [x.arg for x in a.args]
    if not names or names[0] != "self" or len(names) - 1 != len(spec["params"]):
        raise Unsupported("%s.%s now takes %s" % (spec["cls"], spec["name"], names))
    names = names[1:]
    fn.param_names = names
    sx = S(fn)
    env = {}
    binders, lets = [], []
    if spec.get("self"):
        env["self"] = E("v_self", spec["self"])
        binders.append("(v_self : %s)" % gtype(spec["self"]))
    else:
        env["self"] = E("tt", "opaque")
    for nm, ty in zip(names, spec["params"]):
        if ty.startswith("payload:"):
            cls = ty[8:]
            p = tr.payloads[cls]
            vs = ["p_%s" % f for f in p["names"]]
            env[nm] = {f: E(v, t) for f, v, t in zip(p["names"], vs, p["types"])}
            binders.append("(v_%s : %s)" % (nm, payload_tuple_type(tr, cls)))
            lets.append("let '(%s) := v_%s in" % (", ".join(vs), nm))
        elif ty == "cell":
            env[nm] = E("tt", "cell")
            binders.append("(v_%s : unit)" % nm)
        elif ty in ("str",):
            env[nm] = E("tt", "str")
            binders.append("(v_%s : unit)" % nm)
        else:
            env[nm] = E("v_%s" % nm, ty)
            binders.append("(v_%s : %s)" % (nm, gtype(ty)))
    if spec.get("pong"):
        spec["pong_args"] = (names[0], names[1])
    rty = spec["rty"]
    fn.gret = {"unit": "unit", "discard": "unit", "bool": "bool", "opt:cell": "(option unit)"}[rty]

    def ret(v, env2):
        if rty == "unit":
            if v is None or (isinstance(v, ast.Constant) and v.value is None):
                return "(retG tt)"
            # `return f(..)` of a function that returns None
            e = sx.expr(v, env2)
            if e.ty != "unit":
                fail(v, "return of a value from a function translated as returning None")
            return e.term if not e.pure else "(retG tt)"
        if rty == "discard":
            if v is None:
                return "(retG tt)"
            e = sx.expr(v, env2)
            return sx.seq(e, "(retG tt)")
        if rty == "bool":
            e = sx.truthy(sx.expr(v, env2), v) if v is not None else fail(node, "bare return")
            return sx.lift(e)
        if rty == "opt:cell":
            if v is None or (isinstance(v, ast.Constant) and v.value is None):
                return "(retG None)"
            e = sx.expr(v, env2)
            if e.ty != "cell" or not e.pure:
                fail(v)
            return "(retG (Some tt))"
        fail(node, "return type")

    def end(env2):
        return ret(None, env2) if rty != "bool" else fail(node, "falls off the end of a function returning bool")

    term = sx.block(body, env, end, ret)
    out = "(* %s.%s  (%s, line %d) *)\nDefinition %s {key nonce secret : Type} (O : oracles key nonce secret) %s : GM key nonce %s :=\n %s\n %s." % (
        spec["cls"], spec["name"], tr_file(tr, spec), node.lineno, spec["coq"], " ".join(binders), fn.gret, " ".join(lets), term)
    if spec.get("later") is not None:
        # the part after `await sleep(..)`: what the scheduled removal does when its time has come
        fn2 = F(tr, spec, node)
        fn2.body = spec["later"]
        fn2.param_names = names
        fn2.gret = fn.gret
        sx2 = S(fn2)
        env2 = {"self": env["self"]}
        for nm, ty in zip(names, spec["params"]):
            env2[nm] = E("tt", "str") if ty == "str" else E("v_%s" % nm, ty)
        later = spec["later"]
        spec["later"] = []          # a second sleep would be a different function
        sx = sx2
        term2 = sx2.block(later, env2, end, ret)
        out += "\n\n(* %s.%s after `await sleep(..)` *)\nDefinition %s_later {key nonce secret : Type} (O : oracles key nonce secret) %s : GM key nonce %s :=\n %s." % (
            spec["cls"], spec["name"], spec["coq"], " ".join(binders), fn.gret, term2)
    return out


def tr_file(tr, spec):
    from .tr_onion import FILES, FUNCS
    for mod, cls, name, *_ in FUNCS:
        if cls == spec["cls"] and name == spec["name"]:
            return FILES[mod]
    return "?"


def translate_wrapper(tr, spec):
    """the wrapper that @unpack_cell(<payload class>) puts around a handler"""
    from .tr_onion import find
    deco = find(tr.trees["community"], None, "unpack_cell")
    if [a.arg for a in deco.args.args] != ["payload_cls"]:
        fail(deco)
    inner = [n for n in deco.body if isinstance(n, ast.FunctionDef)]
    if len(inner) != 1 or [a.arg for a in inner[0].args.args] != ["func"]:
        fail(deco, "unpack_cell shape")
    w = [n for n in inner[0].body if isinstance(n, ast.FunctionDef)]
    if len(w) != 1 or not isinstance(inner[0].body[-1], ast.Return) or ast.unparse(inner[0].body[-1].value) != w[0].name \
            or not isinstance(deco.body[-1], ast.Return) or ast.unparse(deco.body[-1].value) != inner[0].name:
        fail(deco, "unpack_cell shape")
    w = w[0]
    names = [a.arg for a in w.args.args]
    if len(names) != 4 or names[0] != "self" or len(w.args.defaults) != 1 or ast.unparse(w.args.defaults[0]) != "None":
        fail(w, "wrapper signature")
    wspec = dict(cls=spec["cls"], name="W_" + spec["name"], node=w, params=["addr", "bytes", "opt:Z"], rty="unit",
                 coq="g_W_%s_%s" % (spec["cls"], spec["name"]), mut=set(spec["mut"]), subst={"payload_cls": spec["wrapped"]},
                 func=spec)
    fn = F(tr, wspec, w)
    body = list(w.body)
    fn.body = body
    fn.param_names = names[1:]
    fn.gret = "unit"
    sx = S(fn)
    env = {"self": E("tt", "opaque")}
    for nm, ty in zip(names[1:], wspec["params"]):
        env[nm] = E("v_%s" % nm, ty)

    def ret(v, env2):
        # return func(self, source_address, payload, circuit_id)
        if not (isinstance(v, ast.Call) and isinstance(v.func, ast.Name) and v.func.id == "func" and not v.keywords
                and len(v.args) == 4 and isinstance(v.args[0], ast.Name) and v.args[0].id == "self"):
            fail(v, "wrapper return")
        args = []
        for a, ty in zip(v.args[1:], spec["params"]):
            if ty.startswith("payload:"):
                d = env2.get(a.id) if isinstance(a, ast.Name) else None
                if not isinstance(d, dict):
                    fail(a, "payload argument")
                args.append("(%s)" % ", ".join(d[f].term for f in tr.payloads[ty[8:]]["names"]))
            else:
                e = sx.coerce(sx.expr(a, env2), ty, a, env2)
                if not e.pure:
                    fail(a)
                args.append(e.term)
        return "(%s O %s)" % (spec["coq"], " ".join(args))

    def end(env2):
        return "(retG tt)"
    term = sx.block(body, env, end, ret)
    binders = " ".join("(v_%s : %s)" % (nm, gtype(ty)) for nm, ty in zip(names[1:], wspec["params"]))
    tr.specs[(spec["cls"], "W_" + spec["name"])] = wspec
    return "(* unpack_cell(%s) around %s.%s *)\nDefinition %s {key nonce secret : Type} (O : oracles key nonce secret) %s : GM key nonce unit :=\n %s." % (
        spec["wrapped"], spec["cls"], spec["name"], wspec["coq"], binders, term)
